#!/venv/bin/python
"""Regenerate lean/PyAirtouch/Gen/*.lean from /repo's current working tree.

Usage: extract.py [names...]   (default: all generators)
Exit 0 on success; exit 3 with a line `TRANSLATE-ERROR <generator>: <text>` when the source has a
shape the translator does not know."""
import importlib
import json
import os
import sys
import traceback

sys.path.insert(0, os.path.dirname(os.path.abspath(__file__)))
from common import TranslateError  # noqa: E402

GENERATORS = ["gen_crc", "gen_policies", "gen_comms", "gen_discovery", "gen_api5", "gen_api4"]


def main(argv):
    names = argv or GENERATORS
    info = {}
    failed = False
    for n in names:
        try:
            info[n] = importlib.import_module(n).generate()
        except TranslateError as e:
            print("TRANSLATE-ERROR %s: %s" % (n, e))
            failed = True
        except Exception as e:  # import errors of the repo etc.
            print("TRANSLATE-ERROR %s: %s: %s" % (n, type(e).__name__, e))
            traceback.print_exc()
            failed = True
    print(json.dumps(info))
    return 3 if failed else 0


if __name__ == "__main__":
    sys.exit(main(sys.argv[1:]))
