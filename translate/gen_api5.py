"""Gen/ApiEnums.lean (shared with gen_api4: a function of pyairtouch/api.py only) and Gen/Api5.lean:

  * ApiEnums: every `enum.Enum` class defined in `pyairtouch/api.py`, sorted by class name, as a Lean inductive
    (members in definition order) with `name` and `all` (no numeric values: they are `auto()`).
  * Api5: the private `_AirTouchState` enum of `pyairtouch/at5/api.py`; every module-level mapping dict whose keys
    and values are enum members, as an association list in dict order (obtained by *evaluating* the dict) plus a
    look-up function (`none` = `KeyError`); `_TARGET_TEMPERATURE_RESOLUTION`, `DEFAULT_PORT_NUMBER`; the `timeout=`
    literal of `asyncio.wait_for` in `AirTouch5.init` (ticks); the heartbeat configuration the constructor builds;
    the initial status values `At5Zone.__init__` / `At5AirConditioner.__init__` install (read from real objects).
"""
import ast
import enum
import os

from common import GEN_DIR, HEADER, TranslateError, repo_import, repo_source, write_if_changed
from gen_comms import mod_ns, lean_ident


# ------------------------------------------------------------------------------------------- shared: ApiEnums
def gen_plain_enum(cls, lean_name=None):
    name = lean_name or cls.__name__
    members = list(cls)
    if not members:
        raise TranslateError("enum %s has no members" % name)
    out = ["inductive %s" % name]
    for m in members:
        out.append("  | %s" % m.name)
    out.append("deriving DecidableEq, Repr\n")
    out.append("def %s.name : %s → String" % (name, name))
    for m in members:
        out.append("  | .%s => \"%s\"" % (m.name, m.name))
    out.append("")
    out.append("def %s.all : List %s := [%s]\n" % (name, name, ", ".join("." + m.name for m in members)))
    return "\n".join(out)


def api_enums_text():
    A = repo_import("pyairtouch.api")
    classes = [v for k, v in sorted(vars(A).items())
               if isinstance(v, type) and issubclass(v, enum.Enum) and v.__module__ == "pyairtouch.api"]
    if not classes:
        raise TranslateError("no enums in pyairtouch/api.py")
    text = HEADER + "namespace PyAirtouch.Gen.ApiEnums\n\n"
    text += "\n".join(gen_plain_enum(c) for c in classes)
    text += "\nend PyAirtouch.Gen.ApiEnums\n"
    return text, len(classes)


# ------------------------------------------------------------------------------------------- Api5
def enum_ref(member, gen):
    """Lean term for an enum member, fully qualified below PyAirtouch.Gen"""
    cls = type(member)
    mod = cls.__module__
    if mod == "pyairtouch.api":
        return "ApiEnums.%s" % cls.__name__, "ApiEnums.%s.%s" % (cls.__name__, member.name)
    pre = "pyairtouch.at%d.comms." % gen
    if mod.startswith(pre):
        ns = "At%d.%s.%s" % (gen, mod_ns(mod), cls.__name__)
        return ns, "%s.%s" % (ns, member.name)
    raise TranslateError("enum %s.%s is neither a pyairtouch.api nor an at%d comms enum" % (mod, cls.__name__, gen))


def gen_mapping(name, d, gen):
    if not d:
        raise TranslateError("mapping %s is empty" % name)
    ks = {type(k) for k in d}
    vs = {type(v) for v in d.values()}
    if len(ks) != 1 or len(vs) != 1:
        raise TranslateError("mapping %s mixes key or value types" % name)
    kt = enum_ref(next(iter(d)), gen)[0]
    vt = enum_ref(next(iter(d.values())), gen)[0]
    nm = lean_ident(name)
    out = ["/-- `%s` in dict order -/" % name,
           "def %s_items : List (%s × %s) := [" % (nm, kt, vt)]
    items = ["  (%s, %s)" % (enum_ref(k, gen)[1], enum_ref(v, gen)[1]) for k, v in d.items()]
    out.append(",\n".join(items) + "]")
    out.append("/-- `%s[key]`; `none` = `KeyError` -/" % name)
    out.append("def %s (k : %s) : Option %s := %s_items.lookup k\n" % (nm, kt, vt, nm))
    return "\n".join(out)


def ticks(x, what):
    q = x * 8
    if abs(q - round(q)) > 1e-9 or q < 0:
        raise TranslateError("%s = %r is not a non-negative multiple of 1/8 s" % (what, x))
    return int(round(q))


def tenths(x, what):
    q = x * 10
    if abs(q - round(q)) > 1e-9:
        raise TranslateError("%s = %r is not a multiple of 0.1" % (what, x))
    return int(round(q))


def init_timeout(src, cls_name):
    tree = ast.parse(src)
    for node in ast.walk(tree):
        if isinstance(node, ast.ClassDef) and node.name == cls_name:
            for f in node.body:
                if isinstance(f, ast.AsyncFunctionDef) and f.name == "init":
                    found = []
                    for c in ast.walk(f):
                        if isinstance(c, ast.Call) and isinstance(c.func, ast.Attribute) and c.func.attr == "wait_for":
                            for kw in c.keywords:
                                if kw.arg == "timeout" and isinstance(kw.value, ast.Constant):
                                    found.append(kw.value.value)
                    if len(found) == 1 and isinstance(found[0], (int, float)):
                        return found[0]
    raise TranslateError("%s.init: no single asyncio.wait_for(..., timeout=<literal>)" % cls_name)


def field_def(prefix, fname, v, gen):
    nm = "%s_%s" % (prefix, fname)
    if isinstance(v, bool):
        return "def %s : Bool := %s" % (nm, "true" if v else "false")
    if isinstance(v, enum.Enum):
        t, term = enum_ref(v, gen)
        return "def %s : %s := %s" % (nm, t, term)
    if isinstance(v, int):
        if v < 0:
            raise TranslateError("%s is negative" % nm)
        return "def %s : Nat := %d" % (nm, v)
    if isinstance(v, float):
        return "/-- tenths -/\ndef %s : Option Int := some %d" % (nm, tenths(v, nm))
    if v is None:
        return "/-- tenths -/\ndef %s : Option Int := none" % nm
    raise TranslateError("%s: unsupported initial value %r" % (nm, v))


def generate():
    import dataclasses
    text, n_api = api_enums_text()
    write_if_changed(os.path.join(GEN_DIR, "ApiEnums.lean"), text)

    gen = 5
    A = repo_import("pyairtouch.at5.api")
    out = [HEADER + "import PyAirtouch.Gen.At5\nimport PyAirtouch.Gen.ApiEnums\nnamespace PyAirtouch.Gen.Api5\nopen PyAirtouch.Gen\n"]
    st = getattr(A, "_AirTouchState", None)
    if st is None or not issubclass(st, enum.Enum):
        raise TranslateError("at5/api.py has no _AirTouchState enum")
    out.append(gen_plain_enum(st, "AirTouchState"))
    n_maps = 0
    for k, v in vars(A).items():          # module dict order = source order
        if isinstance(v, dict) and k.upper() == k and not k.startswith("__"):
            out.append(gen_mapping(k, v, gen))
            n_maps += 1
    if n_maps == 0:
        raise TranslateError("no mapping dicts in at5/api.py")
    out.append("/-- `_TARGET_TEMPERATURE_RESOLUTION`, tenths of a degree -/\ndef TARGET_TEMPERATURE_RESOLUTION_tenths : Int := %d\n"
               % tenths(A._TARGET_TEMPERATURE_RESOLUTION, "_TARGET_TEMPERATURE_RESOLUTION"))
    if not isinstance(A.DEFAULT_PORT_NUMBER, int) or A.DEFAULT_PORT_NUMBER < 0:
        raise TranslateError("DEFAULT_PORT_NUMBER is not a natural number")
    out.append("def DEFAULT_PORT_NUMBER : Nat := %d\n" % A.DEFAULT_PORT_NUMBER)
    out.append("/-- `timeout=` of `asyncio.wait_for` in `AirTouch5.init` (ticks of 1/8 s) -/\ndef initTimeout : Nat := %d\n"
               % ticks(init_timeout(repo_source("pyairtouch/at5/api.py"), "AirTouch5"), "init timeout"))

    # the heartbeat configuration built by the constructor
    at = A.AirTouch5(None, "i", "s", "n", None)
    cfg = at._heartbeat_manager._config
    out.append("/-- `HeartbeatConfig.interval` of the manager `AirTouch5.__init__` builds (ticks) -/\ndef heartbeatInterval : Nat := %d\n"
               % ticks(cfg.interval, "heartbeat interval"))
    out.append("/-- `HeartbeatConfig.timeout` of the manager `AirTouch5.__init__` builds (ticks) -/\ndef heartbeatTimeout : Nat := %d\n"
               % ticks(cfg.timeout, "heartbeat timeout"))
    out.append("def INITIAL_update_available : Bool := %s" % ("true" if at._console_version.update_available else "false"))
    if list(at._console_version.versions) != []:
        raise TranslateError("initial console versions are not empty")
    out.append("def MODEL : ApiEnums.AirTouchModel := %s\n" % enum_ref(at.model, gen)[1])

    # initial statuses installed by the entity constructors
    z = A.At5Zone(7, "z", None)
    for f in dataclasses.fields(z._zone_status):
        if f.name == "zone_number":
            if z._zone_status.zone_number != 7:
                raise TranslateError("At5Zone does not install its zone number")
            continue
        out.append(field_def("ZONE_INIT", f.name, getattr(z._zone_status, f.name), gen))
    out.append("")
    import pyairtouch.at5.comms.x1FFF11_ac_ability as ab
    import pyairtouch.at5.comms.xC022_ac_ctrl as acc
    ability = ab.AcAbility(ac_number=3, ac_name="a", start_zone=0, zone_count=0,
                           ac_mode_support={k: True for k in acc.AcModeControl},
                           fan_speed_support={k: True for k in acc.AcFanSpeedControl},
                           min_cool_set_point=1, max_cool_set_point=2, min_heat_set_point=3, max_heat_set_point=4)
    a = A.At5AirConditioner(3, [], ability, None)
    for f in dataclasses.fields(a._ac_status):
        if f.name == "ac_number":
            if a._ac_status.ac_number != 3:
                raise TranslateError("At5AirConditioner does not install its AC number")
            continue
        v = getattr(a._ac_status, f.name)
        if isinstance(v, float):
            out.append("/-- tenths -/\ndef AC_INIT_%s : Int := %d" % (f.name, tenths(v, f.name)))
        else:
            out.append(field_def("AC_INIT", f.name, v, gen))
    ts = a._ac_timer_status
    if ts.ac_number != 3:
        raise TranslateError("At5AirConditioner does not install its AC number in the timer status")
    for which in ("on_timer", "off_timer"):
        t = getattr(ts, which)
        out.append("def AC_INIT_%s : Bool × Nat × Nat := (%s, %d, %d)" % (which, "true" if t.disabled else "false", t.hour, t.minute))
    if a._ac_error_info is not None:
        raise TranslateError("initial AC error info is not None")
    out.append("\nend PyAirtouch.Gen.Api5\n")
    write_if_changed(os.path.join(GEN_DIR, "Api5.lean"), "\n".join(out))
    return {"api_enums": n_api, "api5_mappings": n_maps}
