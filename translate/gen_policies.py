"""Gen/Policies.lean: retry policies, queue size, delays, heartbeat and discovery constants (ticks of 1/8 s)."""
import os
from common import GEN_DIR, HEADER, TranslateError, repo_import, write_if_changed


def tk(x, what):
    q = x * 8
    if abs(q - round(q)) > 1e-9 or q < 0:
        raise TranslateError("%s = %r is not a non-negative multiple of 1/8 s" % (what, x))
    return int(round(q))


def generate():
    S = repo_import("pyairtouch.comms.socket")
    H = repo_import("pyairtouch.comms.heartbeat")
    out = [HEADER, "namespace PyAirtouch.Gen\n"]

    def d(name, val, doc):
        out.append("/-- `%s` -/\ndef %s : Nat := %d\n" % (doc, name, val))

    d("connectRetryDelay", tk(S._CONNECT_RETRY_DELAY, "_CONNECT_RETRY_DELAY"), "socket._CONNECT_RETRY_DELAY (ticks)")
    d("maxMessageQueueSize", int(S.MAX_MESSAGE_QUEUE_SIZE), "socket.MAX_MESSAGE_QUEUE_SIZE")
    d("defaultMessageLifetime", tk(S.DEFAULT_MESSAGE_LIFETIME, "DEFAULT_MESSAGE_LIFETIME"), "socket.DEFAULT_MESSAGE_LIFETIME (ticks)")
    for nm, lean in (("RETRY_IDEMPOTENT", "retryIdempotent"), ("RETRY_NON_IDEMPOTENT", "retryNonIdempotent"), ("RETRY_CONNECTED", "retryConnected")):
        pol = getattr(S, nm)
        if not isinstance(pol.max_retries, int) or pol.max_retries < 0:
            raise TranslateError(nm + ".max_retries is not a natural number")
        out.append("/-- `socket.%s` as (max_retries, max_lifetime in ticks) -/\ndef %s : Nat × Nat := (%d, %d)\n" % (
            nm, lean, pol.max_retries, tk(pol.max_lifetime, nm + ".max_lifetime")))
    d("heartbeatInterval", tk(H.DEFAULT_HEARTBEAT_INTERVAL, "DEFAULT_HEARTBEAT_INTERVAL"), "heartbeat.DEFAULT_HEARTBEAT_INTERVAL (ticks)")
    d("heartbeatResponseDelay", tk(H.DEFAULT_HEARTBEAT_RESPONSE_DELAY, "DEFAULT_HEARTBEAT_RESPONSE_DELAY"), "heartbeat.DEFAULT_HEARTBEAT_RESPONSE_DELAY (ticks)")
    import dataclasses
    f = {x.name: x for x in dataclasses.fields(H.HeartbeatConfig)}
    d("heartbeatDefaultIntervalField", tk(f["interval"].default, "HeartbeatConfig.interval"), "HeartbeatConfig.interval default (ticks)")
    d("heartbeatDefaultTimeoutField", tk(f["timeout"].default, "HeartbeatConfig.timeout"), "HeartbeatConfig.timeout default (ticks)")
    out.append("end PyAirtouch.Gen\n")
    write_if_changed(os.path.join(GEN_DIR, "Policies.lean"), "\n".join(out))
    return {}
