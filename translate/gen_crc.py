"""Gen/CrcTable.lean: the 256 words of pyairtouch.comms.crc16._CRC_TABLE and the checksum length."""
import os
from common import GEN_DIR, HEADER, TranslateError, repo_import, write_if_changed


def generate():
    m = repo_import("pyairtouch.comms.crc16")
    table = getattr(m, "_CRC_TABLE", None)
    if not isinstance(table, (list, tuple)) or not all(isinstance(x, int) and x >= 0 for x in table):
        raise TranslateError("crc16._CRC_TABLE is not a list of non-negative ints")
    clen = m.Crc16Modbus.checksum_length
    if not isinstance(clen, int):
        raise TranslateError("Crc16Modbus.checksum_length is not an int")
    rows = []
    for i in range(0, len(table), 8):
        rows.append("  " + ", ".join("0x%04X" % x for x in table[i:i + 8]))
    text = HEADER + "namespace PyAirtouch.Gen\n\n"
    text += "/-- `pyairtouch.comms.crc16._CRC_TABLE` -/\ndef crcTable : List Nat := [\n" + ",\n".join(rows) + "\n]\n\n"
    text += "/-- `Crc16Modbus.checksum_length` -/\ndef crcChecksumLength : Nat := %d\n\n" % clen
    text += "end PyAirtouch.Gen\n"
    write_if_changed(os.path.join(GEN_DIR, "CrcTable.lean"), text)
    return {"crc_table_len": len(table)}
