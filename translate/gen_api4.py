"""Gen/ApiEnums.lean and Gen/Api4.lean.

* `Gen/ApiEnums.lean` (shared with the AirTouch 5 API generator, which must produce the identical file):
  every `enum.Enum` class of `pyairtouch/api.py`, in source order, as a Lean inductive with `name` and `all`
  (no numeric values: the members are `auto()`).
* `Gen/Api4.lean`: for `pyairtouch/at4/api.py`
    - every module-level dict whose keys and values are enum members, as an association list in the dict's
      insertion order, obtained by *evaluating* the dict (a changed entry changes the model);
    - `_GROUP_STATUS_TIMEOUT` (ticks of 1/8 s), `_TARGET_TEMPERATURE_RESOLUTION` (tenths), `DEFAULT_PORT_NUMBER`;
    - the `_AirTouchState` enum;
    - the `timeout=` literal of the `asyncio.wait_for` in `AirTouch4.init` (ticks), read from the syntax tree;
    - the default field values the constructors of `At4Zone` / `At4AirConditioner` give their records are NOT
      generated (they are written out in the model and covered by the differential `view` right after the
      handshake).
"""
import ast
import enum
import os

from common import GEN_DIR, HEADER, TranslateError, repo_import, repo_source, write_if_changed
from gen_comms import mod_ns


def tk(x, what):
    q = x * 8
    if abs(q - round(q)) > 1e-9 or q < 0:
        raise TranslateError("%s = %r is not a non-negative multiple of 1/8 s" % (what, x))
    return int(round(q))


def gen_plain_enum(cls):
    name = cls.__name__
    members = list(cls)
    if not members:
        raise TranslateError("enum %s has no members" % name)
    out = ["inductive %s" % name]
    for m in members:
        out.append("  | %s" % m.name)
    out.append("deriving DecidableEq, Repr\n")
    out.append("def %s.name : %s → String" % (name, name))
    for m in members:
        out.append("  | .%s => \"%s\"" % (m.name, m.name))
    out.append("")
    out.append("def %s.all : List %s := [%s]\n" % (name, name, ", ".join("." + m.name for m in members)))
    return "\n".join(out)


def api_enums_text():
    """Gen/ApiEnums.lean: a function of pyairtouch/api.py only, character for character the text `gen_api5` writes
    (every `enum.Enum` class defined there, sorted by class name: inductive, `name`, `all`)"""
    api = repo_import("pyairtouch.api")
    classes = [v for k, v in sorted(vars(api).items())
               if isinstance(v, type) and issubclass(v, enum.Enum) and v.__module__ == "pyairtouch.api"]
    if not classes:
        raise TranslateError("no enums in pyairtouch/api.py")
    text = HEADER + "namespace PyAirtouch.Gen.ApiEnums\n\n"
    text += "\n".join(gen_plain_enum(c) for c in classes)
    text += "\nend PyAirtouch.Gen.ApiEnums\n"
    return text


def lean_enum_type(cls, gen):
    mod = cls.__module__
    if mod == "pyairtouch.api":
        return "PyAirtouch.Gen.ApiEnums." + cls.__name__
    prefix = "pyairtouch.at%d.comms." % gen
    if mod.startswith(prefix):
        return "PyAirtouch.Gen.At%d.%s.%s" % (gen, mod_ns(mod), cls.__name__)
    raise TranslateError("enum %s.%s is neither a pyairtouch.api enum nor an at%d comms enum" % (mod, cls.__name__, gen))


def mapping_defs(module, gen):
    out = []
    names = []
    for k, v in vars(module).items():          # module dict order = definition order
        if not isinstance(v, dict) or k.startswith("__"):
            continue
        if not v:
            raise TranslateError("%s is an empty dict" % k)
        kt = {type(x) for x in v.keys()}
        vt = {type(x) for x in v.values()}
        if len(kt) != 1 or len(vt) != 1:
            raise TranslateError("%s: keys / values are not all of one type" % k)
        kt, vt = kt.pop(), vt.pop()
        if not (issubclass(kt, enum.Enum) and issubclass(vt, enum.Enum)):
            raise TranslateError("%s is not an enum-to-enum mapping" % k)
        nm = k.lstrip("_")
        out.append("/-- `%s.%s` (insertion order) -/" % (module.__name__, k))
        out.append("def %s : List (%s × %s) :=\n  [%s]\n" % (
            nm, lean_enum_type(kt, gen), lean_enum_type(vt, gen),
            ", ".join("(.%s, .%s)" % (a.name, b.name) for a, b in v.items())))
        names.append(nm)
    return out, names


def init_timeout(rel, cls_name):
    """the `timeout=` keyword of the `asyncio.wait_for(...)` call inside `<cls_name>.init`"""
    tree = ast.parse(repo_source(rel))
    for node in ast.walk(tree):
        if isinstance(node, ast.ClassDef) and node.name == cls_name:
            for fn in node.body:
                if isinstance(fn, ast.AsyncFunctionDef) and fn.name == "init":
                    found = []
                    for c in ast.walk(fn):
                        if isinstance(c, ast.Call) and isinstance(c.func, ast.Attribute) and c.func.attr == "wait_for":
                            for kw in c.keywords:
                                if kw.arg == "timeout" and isinstance(kw.value, ast.Constant):
                                    found.append(kw.value.value)
                    if len(found) != 1:
                        raise TranslateError("%s.init: expected exactly one wait_for(..., timeout=<literal>)" % cls_name)
                    return found[0]
    raise TranslateError("%s.init not found" % cls_name)


def state_enum(cls):
    out = ["/-- `%s.%s` -/" % (cls.__module__, cls.__name__), "inductive AirTouchState"]
    for m in cls:
        out.append("  | %s" % m.name)
    out.append("deriving DecidableEq, Repr\n")
    out.append("def AirTouchState.all : List AirTouchState := [%s]\n" % ", ".join("." + m.name for m in cls))
    return out


def generate():
    repo_import("pyairtouch")
    write_if_changed(os.path.join(GEN_DIR, "ApiEnums.lean"), api_enums_text())
    A = repo_import("pyairtouch.at4.api")
    out = [HEADER, "import PyAirtouch.Gen.At4\nimport PyAirtouch.Gen.ApiEnums\n", "namespace PyAirtouch.Gen.Api4\n"]
    maps, names = mapping_defs(A, 4)
    out += maps
    out.append("/-- `_GROUP_STATUS_TIMEOUT` (ticks of 1/8 s) -/\ndef GROUP_STATUS_TIMEOUT : Nat := %d\n"
               % tk(A._GROUP_STATUS_TIMEOUT, "_GROUP_STATUS_TIMEOUT"))
    r = A._TARGET_TEMPERATURE_RESOLUTION * 10
    if abs(r - round(r)) > 1e-9 or r <= 0:
        raise TranslateError("_TARGET_TEMPERATURE_RESOLUTION is not a positive number of tenths")
    out.append("/-- `_TARGET_TEMPERATURE_RESOLUTION` (tenths of a degree) -/\ndef TARGET_TEMPERATURE_RESOLUTION_tenths : Int := %d\n" % int(round(r)))
    out.append("/-- `DEFAULT_PORT_NUMBER` -/\ndef DEFAULT_PORT_NUMBER : Nat := %d\n" % A.DEFAULT_PORT_NUMBER)
    out.append("/-- the `timeout=` of `asyncio.wait_for` in `AirTouch4.init` (ticks of 1/8 s) -/\ndef INIT_TIMEOUT : Nat := %d\n"
               % tk(init_timeout("pyairtouch/at4/api.py", "AirTouch4"), "init timeout"))
    out += state_enum(A._AirTouchState)
    out.append("end PyAirtouch.Gen.Api4\n")
    write_if_changed(os.path.join(GEN_DIR, "Api4.lean"), "\n".join(out))
    return {"api4_mappings": len(names)}
