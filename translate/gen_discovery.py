"""Gen/Discovery.lean: discovery interval / max requests, and per generation the request string, response marker,
number of parts, part indices, ports; default TCP ports of the API classes."""
import os
from common import GEN_DIR, HEADER, TranslateError, repo_import, write_if_changed
from gen_policies import tk


def lb(b):
    return "[" + ", ".join(str(x) for x in b) + "]"


def generate():
    D = repo_import("pyairtouch.comms.discovery")
    out = [HEADER, "namespace PyAirtouch.Gen.Discovery\n"]
    out.append("def requestInterval : Nat := %d" % tk(D._DISCOVERY_REQUEST_INTERVAL, "_DISCOVERY_REQUEST_INTERVAL"))
    out.append("def maxRequests : Nat := %d" % int(D._DISCOVERY_MAX_REQUESTS))
    for gen in (4, 5):
        M = repo_import("pyairtouch.at%d.comms.discovery" % gen)
        A = repo_import("pyairtouch.at%d.api" % gen)
        out.append("\nnamespace At%d" % gen)
        out.append("def port : Nat := %d" % M.PORT)
        out.append("def requestData : List Nat := %s" % lb(M._REQUEST_DATA))
        out.append("def responseId : List Nat := %s" % lb(M._RESPONSE_ID))
        out.append("def responseIdStripped : List Nat := %s" % lb(M._RESPONSE_ID.strip(b",")))
        out.append("def numParts : Nat := %d" % M._NUM_RESPONSE_PARTS)
        for nm in ("_PART_HOST", "_PART_SERIAL", "_PART_RESPONSE_ID", "_PART_AIRTOUCH_ID", "_PART_NAME"):
            if hasattr(M, nm):
                out.append("def %s : Nat := %d" % (nm.lower().lstrip("_").replace("part_", "part"), getattr(M, nm)))
        out.append("def defaultTcpPort : Nat := %d" % A.DEFAULT_PORT_NUMBER)
        if M.CONFIG.local_port != M.PORT or M.CONFIG.remote_port != M.PORT:
            raise TranslateError("discovery CONFIG ports differ from PORT")
        out.append("end At%d" % gen)
    out.append("\nend PyAirtouch.Gen.Discovery\n")
    write_if_changed(os.path.join(GEN_DIR, "Discovery.lean"), "\n".join(out))
    return {}
