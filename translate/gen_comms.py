"""Gen/At4.lean, Gen/At5.lean: for every module under pyairtouch/atN/comms —
  * each enum.Enum class as a Lean inductive with `toNat`, `ofNat?` (Python's `Cls(value)`, including
    `_missing_` fall-backs, tabulated by *calling* the class on every value 0..65535 that matters) and `name`;
  * module-level int / float / bytes / str constants (MESSAGE_ID, magic numbers, prefixes, separators);
  * every `struct.Struct` as its format string, its size and its list of field widths;
  * the registry: registered ids, extended (0x1F) and control/status (0xC0) sub-ids.
"""
import enum
import importlib
import os
import pkgutil
import struct

from common import GEN_DIR, HEADER, TranslateError, repo_import, write_if_changed


def lean_ident(s):
    return s.lstrip("_") if s.lstrip("_") else s


def mod_ns(modname):
    base = modname.rsplit(".", 1)[1]
    parts = base.split("_")
    return "".join(p[:1].upper() + p[1:] for p in parts)


def struct_fields(fmt):
    """('!BBBxH') -> list of (width, kind) with kind in int|pad|bytes; big/little endian flag"""
    order = "big"
    f = fmt
    if f[:1] in "!><=@":
        order = {"!": "big", ">": "big", "<": "little"}.get(f[0])
        if order is None:
            raise TranslateError("struct format %r uses native byte order" % fmt)
        f = f[1:]
    fields = []
    num = ""
    for ch in f:
        if ch.isdigit():
            num += ch
            continue
        n = int(num) if num else 1
        num = ""
        if ch == "x":
            fields += [(1, "pad")] * n
        elif ch == "s":
            fields.append((n, "bytes"))
        elif ch in "Bb":
            if ch == "b":
                raise TranslateError("signed struct field in %r" % fmt)
            fields += [(1, "int")] * n
        elif ch == "H":
            fields += [(2, "int")] * n
        elif ch in "IL":
            fields += [(4, "int")] * n
        else:
            raise TranslateError("unsupported struct code %r in %r" % (ch, fmt))
    return order, fields


def gen_enum(cls):
    members = list(cls)
    for m in members:
        if not isinstance(m.value, int) or m.value < 0:
            raise TranslateError("enum %s.%s has a non-natural value %r" % (cls.__name__, m.name, m.value))
    name = cls.__name__
    out = ["inductive %s" % name]
    for m in members:
        out.append("  | %s" % m.name)
    out.append("deriving DecidableEq, Repr\n")
    out.append("def %s.toNat : %s → Nat" % (name, name))
    for m in members:
        out.append("  | .%s => %d" % (m.name, m.value))
    out.append("")
    # ofNat?: call the class on a range of values
    table = {}
    hi = 65536 if max(m.value for m in members) >= 256 else 1024
    for v in range(hi):
        try:
            table[v] = cls(v).name
        except ValueError:
            table[v] = None
    # aliases: members with equal values resolve to the first
    explicit = {m.value: table[m.value] for m in members}
    others = {r for v, r in table.items() if v not in explicit}
    if len(others) != 1:
        raise TranslateError("enum %s: values outside the members do not all behave alike" % name)
    default = others.pop()
    out.append("/-- Python `%s(value)`; `none` = ValueError -/" % name)
    out.append("def %s.ofNat? : Nat → Option %s" % (name, name))
    for v in sorted(explicit):
        out.append("  | %d => some .%s" % (v, explicit[v]))
    out.append("  | _ => %s" % ("none" if default is None else "some .%s" % default))
    out.append("")
    out.append("def %s.name : %s → String" % (name, name))
    for m in members:
        out.append("  | .%s => \"%s\"" % (m.name, m.name))
    out.append("")
    out.append("def %s.all : List %s := [%s]\n" % (name, name, ", ".join("." + m.name for m in members)))
    return "\n".join(out)


def lean_bytes(b):
    return "[" + ", ".join(str(x) for x in b) + "]"


def lean_str(s):
    return '"' + s.replace("\\", "\\\\").replace('"', '\\"') + '"'


def gen_module(modname):
    m = importlib.import_module(modname)
    ns = mod_ns(modname)
    body = []
    for k, v in sorted(vars(m).items()):
        if isinstance(v, type) and issubclass(v, enum.Enum) and v.__module__ == modname:
            body.append(gen_enum(v))
    for k, v in sorted(vars(m).items()):
        if k.startswith("__") or not k.upper() == k or k in ("CONFIG", "INSTANCE") or k.startswith("_LOGGER"):
            continue
        nm = lean_ident(k)
        if isinstance(v, bool):
            continue
        if isinstance(v, int):
            if v < 0:
                raise TranslateError("%s.%s is negative" % (modname, k))
            body.append("def %s : Nat := %d" % (nm, v))
        elif isinstance(v, float):
            q = v * 10
            if abs(q - round(q)) > 1e-9:
                raise TranslateError("%s.%s = %r is not a multiple of 0.1" % (modname, k, v))
            body.append("/-- tenths -/\ndef %s_tenths : Int := %d" % (nm, int(round(q))))
        elif isinstance(v, (bytes, bytearray)):
            body.append("def %s : List Nat := %s" % (nm, lean_bytes(v)))
        elif isinstance(v, str):
            body.append("def %s : String := %s" % (nm, lean_str(v)))
        elif isinstance(v, struct.Struct):
            order, fields = struct_fields(v.format)
            if sum(w for w, _ in fields) != v.size:
                raise TranslateError("struct %s.%s: size mismatch" % (modname, k))
            body.append("def %s_format : String := %s" % (nm, lean_str(v.format)))
            body.append("def %s_size : Nat := %d" % (nm, v.size))
            body.append("def %s_littleEndian : Bool := %s" % (nm, "true" if order == "little" else "false"))
            body.append("/-- field widths; padding bytes are marked 0 -/\ndef %s_fields : List Nat := [%s]" % (
                nm, ", ".join(str(w if kind != "pad" else 0) for w, kind in fields)))
    if not body:
        return ""
    return "namespace %s\n\n%s\n\nend %s\n" % (ns, "\n".join(body), ns)


def gen_registry(gen):
    R = importlib.import_module("pyairtouch.at%d.comms.registry" % gen)
    inst = R.INSTANCE
    enc = sorted(inst._encoder_map)
    dec = sorted(inst._decoder_map)
    out = ["namespace Registry\n"]
    out.append("def encoderIds : List Nat := %s" % lean_bytes(enc))
    out.append("def decoderIds : List Nat := %s" % lean_bytes(dec))
    ext_enc = inst._encoder_map.get(0x1F)
    ext_dec = inst._decoder_map.get(0x1F)
    out.append("def extEncoderIds : List Nat := %s" % lean_bytes(sorted(ext_enc._encoder_map)))
    out.append("def extDecoderIds : List Nat := %s" % lean_bytes(sorted(ext_dec._decoder_map)))
    if gen == 5:
        cs_enc = inst._encoder_map.get(0xC0)
        cs_dec = inst._decoder_map.get(0xC0)
        out.append("def csEncoderIds : List Nat := %s" % lean_bytes(sorted(cs_enc._encoder_map)))
        out.append("def csDecoderIds : List Nat := %s" % lean_bytes(sorted(cs_dec._decoder_map)))
    # header factory: address rule and packet id modulus, observed by calling it
    fac = type(inst.header_factory)()

    class M:
        def __init__(self, mid):
            self.message_id = mid
    tos = {}
    for mid in range(256):
        h = fac.create_from_message(M(mid), 0)
        tos[mid] = (h.to_address, h.from_address)
    ext_to = tos[0x1F]
    normal = {v for k, v in tos.items() if k != 0x1F}
    if len(normal) != 1:
        raise TranslateError("header factory address rule is not 'extended vs everything else'")
    normal = normal.pop()
    out.append("def toAddressExtended : Nat := %d" % ext_to[0])
    out.append("def toAddressNormal : Nat := %d" % normal[0])
    out.append("def fromAddress : Nat := %d" % normal[1])
    if ext_to[1] != normal[1]:
        raise TranslateError("header factory uses different from-addresses")
    fac = type(inst.header_factory)()
    ids = [fac.create_from_message(M(1), 0).packet_id for _ in range(600)]
    period = next((p for p in range(1, 513) if all(ids[i] == (ids[0] + i) % p for i in range(600))), None)
    if period is None or ids[0] != 0:
        raise TranslateError("packet ids are not n mod p starting at 0")
    out.append("def packetIdModulus : Nat := %d" % period)
    out.append("\nend Registry\n")
    return "\n".join(out)


def generate():
    repo_import("pyairtouch")
    info = {}
    for gen in (4, 5):
        pkg = importlib.import_module("pyairtouch.at%d.comms" % gen)
        mods = sorted(name for _, name, _ in pkgutil.iter_modules(pkg.__path__))
        text = HEADER + "namespace PyAirtouch.Gen.At%d\n\n" % gen
        pk = []
        for k, v in sorted(vars(pkg).items()):
            if k.upper() == k and isinstance(v, int) and not k.startswith("__"):
                pk.append("def %s : Nat := %d" % (lean_ident(k), v))
        if pk:
            text += "\n".join(pk) + "\n\n"
        n_enums = 0
        for mn in mods:
            if mn in ("registry",):
                continue
            t = gen_module("pyairtouch.at%d.comms.%s" % (gen, mn))
            n_enums += t.count("\ninductive ")
            text += t + "\n" if t else ""
        text += gen_registry(gen)
        text += "\nend PyAirtouch.Gen.At%d\n" % gen
        write_if_changed(os.path.join(GEN_DIR, "At%d.lean" % gen), text)
        info["at%d_enums" % gen] = n_enums
    return info
