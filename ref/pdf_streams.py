import re, sys, zlib
data = open(sys.argv[1],'rb').read()
# find all streams
objs = {}
for m in re.finditer(rb'(\d+) (\d+) obj(.*?)endobj', data, re.S):
    objs[int(m.group(1))] = m.group(3)
print(len(objs), "objects")
n=0
for k,v in objs.items():
    sm = re.search(rb'stream\r?\n(.*?)\r?\nendstream', v, re.S)
    if not sm: continue
    hdr = v[:sm.start()]
    raw = sm.group(1)
    if b'FlateDecode' in hdr:
        try: raw = zlib.decompress(raw)
        except Exception as e:
            try: raw = zlib.decompressobj().decompress(raw)
            except Exception as e2: print(k,'fail',e2); continue
    open(f'/tmp/pdfx/{sys.argv[2]}_{k}.bin','wb').write(raw)
    n+=1
    print(k, hdr[:120].replace(b'\n',b' '), len(raw))
