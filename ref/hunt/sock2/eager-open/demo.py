"""C07/C15: with eagerly started tasks the client never even tries to connect.

Run:  cd /tmp/hunt2/sock && PYTHONPATH=/tmp/hunt2/sock /venv/bin/python _hunt/eager-open/demo.py

`asyncio.eager_task_factory` is a standard-library option of Python 3.12 (the
interpreter used here): `loop.create_task(coro)` then runs the coroutine
immediately up to its first suspension instead of deferring its first step.

AirTouchSocket.open_socket() does

        self._schedule(self._connect())     # create_task(...)
        self.is_open = True

and _connect() (since the "close() is final" repair) returns at once when
`self.is_open` is False.  With eager tasks _connect() therefore runs BEFORE
is_open is set, is "ignored", and nothing ever retries: init() fails although a
healthy console is listening; the console never sees a connection attempt; a
shutdown() followed by a new init() fails in the same way.
A fake AirTouch 5 console on real TCP (127.0.0.1) is used.  Exit status 1 = defect.
"""

import asyncio
import logging
import os
import sys

sys.path.insert(0, os.path.dirname(os.path.abspath(__file__)))

import pyairtouch  # noqa: E402
import pyairtouch.api  # noqa: E402
from fake_at5 import FakeConsole  # noqa: E402

logging.disable(logging.CRITICAL)


async def scenario(port: int) -> dict:
    console = FakeConsole()
    await console.start(port)
    airtouch = pyairtouch.connect(
        pyairtouch.api.AirTouchModel.AIRTOUCH_5, "127.0.0.1", port
    )
    result = {}
    result["init"] = await airtouch.init()  # waits up to 5 s
    await asyncio.sleep(5.0)  # more than two connect-retry periods (2 s)
    sock = airtouch._socket
    result["is_open"] = sock.is_open
    result["is_connected"] = sock.is_connected
    result["pending socket tasks"] = len(sock._background_tasks)
    result["connection attempts seen by the console"] = console.connections
    result["initialised"] = airtouch.initialised

    await airtouch.shutdown()
    result["re-init after shutdown"] = await airtouch.init()
    result["connection attempts seen by the console (total)"] = console.connections
    await airtouch.shutdown()
    await console.stop()
    return result


def run(eager: bool, port: int) -> dict:
    def loop_factory() -> asyncio.AbstractEventLoop:
        loop = asyncio.new_event_loop()
        if eager:
            loop.set_task_factory(asyncio.eager_task_factory)
        return loop

    return asyncio.run(scenario(port), loop_factory=loop_factory)


def main() -> int:
    print("--- default task factory ---")
    normal = run(eager=False, port=19301)
    for key, value in normal.items():
        print(f"  {key}: {value}")
    print("--- asyncio.eager_task_factory ---")
    eager = run(eager=True, port=19302)
    for key, value in eager.items():
        print(f"  {key}: {value}")

    if normal["init"] and not eager["init"]:
        print(
            "\nDEFECT (C07/C15): with eager task start the client is open but never "
            "attempts a connection (no attempt reached the console in 10 s, no "
            "connect/retry task exists), so init() and a later re-init() fail on a "
            "healthy network."
        )
        return 1
    print("\nno defect shown")
    return 0


if __name__ == "__main__":
    sys.exit(main())
