"""C08: a custom heartbeat interval makes the heartbeat reset a perfectly healthy link.

Run:  cd /tmp/hunt2/sock && PYTHONPATH=/tmp/hunt2/sock /venv/bin/python _hunt/heartbeat-config/demo.py

The real AirTouchSocket is connected over real TCP (127.0.0.1) to a fake
AirTouch 5 console that answers EVERY console-version request immediately and
never drops the link.  A real HeartbeatManager is started on it.  Only the event
loop's clock is virtual (warp.py), so 2000 s take about a second.

  run 1: HeartbeatConfig(message, response_match)                  - defaults
  run 2: HeartbeatConfig(message, response_match, interval=600.0)  - custom interval
  run 3: HeartbeatConfig(..., interval=600.0, timeout=630.0)       - both given

In run 2 every heartbeat is answered at once, yet the heartbeat manager resets
the connection again and again: `timeout` silently stays at 330 s (300 + 30)
instead of following the configured interval (documented: interval + 30 s).
Exit status 1 = defect shown.
"""

import asyncio
import logging
import os
import sys

sys.path.insert(0, os.path.dirname(os.path.abspath(__file__)))

import pyairtouch.at5.comms.x1FFF30_console_ver as console_ver_msg  # noqa: E402
import pyairtouch.comms.heartbeat as heartbeat  # noqa: E402
import pyairtouch.comms.socket as airtouch_socket  # noqa: E402
import warp  # noqa: E402
from fake_at5 import REG, FakeConsole, describe  # noqa: E402
from pyairtouch.at5.comms.x1F_ext import ExtendedMessage  # noqa: E402

logging.disable(logging.CRITICAL)

DURATION = 2000.0


def is_response(message) -> bool:
    return (
        isinstance(message, ExtendedMessage)
        and message.sub_message.message_id == console_ver_msg.MESSAGE_ID
    )


async def run(title: str, port: int, **config_kwargs) -> int:
    loop = asyncio.get_running_loop()
    t0 = loop.time()
    log: list[str] = []
    resets = 0

    def on_request(console, conn_no, n, message, writer):
        log.append(
            f"  t={loop.time() - t0:7.1f}  console: connection #{conn_no} <- "
            f"{describe(message)}  (answered immediately)"
        )
        return None  # answer normally

    console = FakeConsole(on_request)
    await console.start(port)
    sock = airtouch_socket.AirTouchSocket(loop, "127.0.0.1", port, REG)

    ending = False

    async def connection_changed(*, connected: bool) -> None:
        nonlocal resets
        if ending:
            return  # the close() at the end of the run
        if not connected:
            resets += 1
        log.append(
            f"  t={loop.time() - t0:7.1f}  client : "
            + ("connected again" if connected else "RESETS THE CONNECTION (heartbeat timeout)")
        )

    sock.subscribe_on_connection_changed(connection_changed)
    await sock.open_socket()
    await asyncio.sleep(1.0)
    t0 = loop.time()

    config = heartbeat.HeartbeatConfig(
        message=ExtendedMessage(console_ver_msg.ConsoleVersionRequest()),
        response_match=is_response,
        **config_kwargs,
    )
    print(f"=== {title}")
    print(f"  effective config: interval={config.interval} s, timeout={config.timeout} s")
    manager = heartbeat.HeartbeatManager(loop, sock, config)
    await manager.start()
    await asyncio.sleep(DURATION)
    in_window = resets
    ending = True
    await manager.stop()
    await sock.close()
    await console.stop()
    print("\n".join(log[1:]))  # log[0] is the initial "connected"
    print(
        f"  -> {in_window} connection reset(s) in {DURATION:.0f} s on a link that "
        f"never failed and answered every heartbeat at once\n"
    )
    return in_window


async def main() -> int:
    r1 = await run("run 1: default configuration", 19201)
    r2 = await run("run 2: only the interval is customised (600 s)", 19202, interval=600.0)
    r3 = await run(
        "run 3: interval and timeout both customised (600 s / 630 s)",
        19203,
        interval=600.0,
        timeout=630.0,
    )
    if r1 == 0 and r3 == 0 and r2 > 0:
        print(
            f"DEFECT (C08): with HeartbeatConfig(interval=600) the heartbeat reset the "
            f"healthy, promptly answering link {r2} times; the timeout stayed at "
            f"{heartbeat.HeartbeatConfig(None, None, interval=600.0).timeout} s "
            f"(< interval) instead of interval + 30 s."
        )
        return 1
    print("no defect shown", r1, r2, r3)
    return 0


if __name__ == "__main__":
    sys.exit(warp.run(main()))
