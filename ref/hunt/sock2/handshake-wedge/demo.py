"""C07: one transient fault during the initialisation handshake wedges the client.

Run:  cd /tmp/hunt2/sock && PYTHONPATH=/tmp/hunt2/sock /venv/bin/python _hunt/handshake-wedge/demo.py

A fake AirTouch 5 console (real TCP on 127.0.0.1, frames built with pyairtouch's
own codec) answers every request correctly.  The only fault is injected on the
FIRST connection, while the handshake is under way:

  scenario A: the console resets the TCP connection after the 2nd request;
  scenario B: the console's answer to the 2nd request has a damaged check byte
              (the client itself resets the connection, as it should).

The client reconnects within milliseconds and the network is perfect from then
on, but the handshake is never resumed: the client stays open and connected,
never becomes initialised, has no ACs/zones, never starts its heartbeat, and a
status frame sent afterwards is not delivered.  Exit status 1 = defect shown.
"""

import asyncio
import logging
import os
import sys

sys.path.insert(0, os.path.dirname(os.path.abspath(__file__)))

import pyairtouch  # noqa: E402
import pyairtouch.api  # noqa: E402
from fake_at5 import (  # noqa: E402
    FakeConsole,
    answer_for,
    describe,
    encode_frame,
    zone_status,
)

logging.disable(logging.CRITICAL)


async def scenario(name: str, fault: str, port: int) -> bool:
    print(f"=== scenario {name}: {fault} on connection #1, request #2 ===")

    def on_request(console, conn_no, n, message, writer):
        if conn_no == 1 and n == 2:
            if fault == "reset":
                return "drop"
            if fault == "bad-crc":
                frame = bytearray(encode_frame(answer_for(message)))
                frame[-1] ^= 0x01
                writer.write(bytes(frame))
                console.log.append(f"console: #1 -> answer with damaged CRC")
                return "ignore"
        return None

    console = FakeConsole(on_request)
    await console.start(port)
    airtouch = pyairtouch.connect(
        pyairtouch.api.AirTouchModel.AIRTOUCH_5, "127.0.0.1", console.port
    )
    loop = asyncio.get_running_loop()
    t0 = loop.time()
    ok = await airtouch.init()
    print(f"init() returned {ok} after {loop.time() - t0:.1f} s")

    # Give the client plenty of additional time on a perfectly healthy network.
    await asyncio.sleep(3.0)
    await console.push(zone_status(temp=25.5))
    await asyncio.sleep(0.5)

    print("\n".join("  " + line for line in console.log))
    sock = airtouch._socket
    acs = airtouch.air_conditioners
    delivered = bool(acs) and acs[0].zones[0].current_temperature == 25.5
    heartbeat_running = bool(airtouch._heartbeat_manager._heartbeat_tasks)
    print(f"{loop.time() - t0:.1f} s after init() was called:")
    print(f"  socket open={sock.is_open} connected={sock.is_connected}")
    print(f"  console sees {console.live_connections()} live connection(s)")
    print(f"  airtouch.initialised = {airtouch.initialised}")
    print(f"  internal handshake state = {airtouch._state.name}")
    print(f"  air_conditioners = {len(acs)}")
    print(f"  status frame sent after healing delivered = {delivered}")
    print(f"  heartbeat running = {heartbeat_running}")

    wedged = (
        sock.is_open
        and sock.is_connected
        and (not airtouch.initialised or not delivered)
    )
    await airtouch.shutdown()
    await console.stop()
    print("  => WEDGED" if wedged else "  => recovered")
    print()
    return wedged


async def main() -> int:
    wedged_a = await scenario("A", "reset", 19105)
    wedged_b = await scenario("B", "bad-crc", 19106)
    if wedged_a or wedged_b:
        print(
            "DEFECT (C07): after one transient fault during the handshake the client "
            "is open and connected on a healthy network, but never initialises and "
            "does not deliver status frames."
        )
        return 1
    print("no defect shown")
    return 0


if __name__ == "__main__":
    sys.exit(asyncio.run(main()))
