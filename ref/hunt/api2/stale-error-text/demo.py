"""C12 / C10: an error-text frame for an AC that has no error code.

Run:  cd /tmp/hunt2/api && PYTHONPATH=/tmp/hunt2/api /venv/bin/python _hunt/stale-error-text/demo.py

Frame sequence after init() (identical for AirTouch 4 and AirTouch 5):

  F1  AC status, AC 0, error code 0xFFFE        -> client asks for the error text
  F2  AC status, AC 0, error code 0             -> error cleared
  F3  AC error information, AC 0, "ER: FFFE"    -> the text, arriving late
  F4  AC status, AC 0, error code 7             -> a different, new error

What goes wrong on the unmodified code:

  * F3 changes no exposed attribute of the AC (error_info is None before and
    after, everything else is untouched) and still every subscriber of the AC
    is invoked.
  * F3's text is stored although no error code is present; at F4 the
    subscribers are invoked with error_info == AcErrorInfo(code=7,
    description='ER: FFFE'): the description of the cleared error is shown as
    the detail of the new one.

Exit status 1 when the defect shows.
"""
import os
import sys

sys.path.insert(0, os.path.dirname(os.path.abspath(__file__)))

from harness import (  # noqa: E402
    Console4, Console5, at4_ac, at4_acs, at4_err, at5_ac, at5_acs, at5_err,
    run, settle,
)


def snapshot(ac):
    """Every exposed attribute of the air-conditioner."""
    import pyairtouch.api as api

    return (
        ac.power_state, ac.selected_mode, ac.active_mode, ac.selected_fan_speed,
        ac.active_fan_speed, ac.current_temperature, ac.target_temperature,
        ac.min_target_temperature, ac.max_target_temperature, ac.spill_state,
        ac.next_quick_timer(api.AcTimerType.ON_TIMER),
        ac.next_quick_timer(api.AcTimerType.OFF_TIMER), ac.error_info,
    )


async def scenario(C):
    is5 = C is Console5
    failures = []
    c = C()
    c.install()
    at = c.make_client()
    assert await at.init()
    ac = at.air_conditioners[0]
    print(f"--- {at.model.value}")

    seen = []

    async def subscriber(ac_id):
        seen.append(ac.error_info)

    async def state_subscriber(ac_id):
        seen.append(ac.error_info)

    ac.subscribe(subscriber)
    ac.subscribe_ac_state(state_subscriber)

    # The console holds back its answers to error-information requests so that
    # the demo decides when the text arrives.
    def hold(msg, link):
        return type(getattr(msg, "sub_message", None)).__name__ == "AcErrorInformationRequest"

    c.hooks.append(hold)

    if is5:
        status = lambda err: c.cs(at5_acs.AcStatusMessage([at5_ac(0, err=err)]))  # noqa: E731
        text = c.ext(at5_err.AcErrorInformationMessage(ac_number=0, error_info="ER: FFFE"))
    else:
        status = lambda err: at4_acs.AcStatusMessage([at4_ac(0, err=err)])  # noqa: E731
        text = c.ext(at4_err.AcErrorInformationMessage(ac_number=0, error_info="ER: FFFE"))

    c.push(status(0xFFFE)); await settle()   # F1
    c.push(status(0)); await settle()        # F2
    print("  after F2 (error cleared): error_info =", ac.error_info)

    before = snapshot(ac)
    seen.clear()
    c.push(text); await settle()             # F3
    after = snapshot(ac)
    print("  F3 (late text): exposed attributes changed:", before != after,
          "| subscriber invocations:", len(seen))
    if before == after and seen:
        failures.append(
            f"{len(seen)} subscriber invocation(s) for a frame that changed no exposed attribute"
        )

    seen.clear()
    c.push(status(7)); await settle()        # F4
    print("  F4 (new error 7): subscribers saw error_info =", seen[0] if seen else None)
    if ac.error_info is not None and ac.error_info.description == "ER: FFFE":
        failures.append(
            "error code 7 is exposed with the description 'ER: FFFE' that was "
            "received while no error code was present"
        )
    await at.shutdown()
    return failures


async def main():
    bad = []
    for C in (Console4, Console5):
        for f in await scenario(C):
            bad.append(f"{C.__name__}: {f}")
    return bad


if __name__ == "__main__":
    bad = run(main)
    print()
    for b in bad:
        print("DEFECT:", b)
    if not bad:
        print("no defect observed")
    sys.exit(1 if bad else 0)
