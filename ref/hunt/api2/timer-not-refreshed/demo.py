"""C14: quick-timer state is never refreshed after a reconnection.

Run:  cd /tmp/hunt2/api && PYTHONPATH=/tmp/hunt2/api /venv/bin/python _hunt/timer-not-refreshed/demo.py

History (same for AirTouch 4 and AirTouch 5, unmodified package code, in-memory
console, virtual time):

  1. init() completes; console reports "no quick timers".
  2. the TCP connection is lost for 30 s.
  3. while the client is disconnected somebody sets the OFF timer to 22:00 on
     the wall console (a console state change made while disconnected).
  4. the client reconnects and refreshes - but only AC status and zone/group
     status.  The AC status answer even carries "timer set = 1".
  5. ten minutes later the model still says "no OFF timer".
  6. the application sets the ON timer to 07:00.  Because the other timer is
     copied from the stale model, the transmitted frame *disables* the OFF
     timer the user had set on the console.

Exit status 1 when the defect shows.
"""
import asyncio
import datetime
import os
import sys

sys.path.insert(0, os.path.dirname(os.path.abspath(__file__)))

import pyairtouch.api as api  # noqa: E402
import pyairtouch.at4.comms.x36_ac_timer_ctrl as at4_tc  # noqa: E402
import pyairtouch.at5.comms.xC032_ac_timer_ctrl as at5_tc  # noqa: E402
from harness import (  # noqa: E402
    Console4, Console5, at4_ac, at4_timer, at4_ts, at5_ac, at5_timer, at5_ts,
    run, settle,
)

OFF = api.AcTimerType.OFF_TIMER
ON = api.AcTimerType.ON_TIMER


def console_off_timer(c):
    t = c.timers[0].off_timer
    return None if t.disabled else datetime.time(t.hour, t.minute)


def install_timer_control(c, is5):
    """Make the fake console obey timer control frames like a real one."""

    def hook(msg, link):
        inner = getattr(msg, "sub_message", msg)
        if isinstance(inner, (at4_tc.AcTimerControlMessage, at5_tc.AcTimerControlMessage)):
            for d in inner.ac_timer_status:
                if d.ac_number == 0:  # the demo only looks at AC 0
                    c.timers[0] = d
            if is5:
                c.push(c.cs(at5_ts.AcTimerStatusMessage(c.timers)), link)
            else:
                c.push(at4_ts.AcTimerStatusMessage(c.timers), link)
            return True
        return False

    c.hooks.append(hook)


async def scenario(C):
    is5 = C is Console5
    failures = []
    c = C()
    c.install()
    install_timer_control(c, is5)
    at = c.make_client()
    assert await at.init()
    ac = at.air_conditioners[0]
    print(f"--- {at.model.value}")
    print("  after init       : model OFF timer =", ac.next_quick_timer(OFF),
          "| console OFF timer =", console_off_timer(c))

    # 2. connection loss
    c.refuse = True
    c.link.drop()
    await asyncio.sleep(30)

    # 3. the user sets the OFF timer at the wall console while we are away
    if is5:
        c.timers = [at5_timer(0, off=(22, 0))]
        c.acs = [at5_ac(0, timer=True)]
    else:
        c.timers = [at4_timer(0, off=(22, 0))] + [at4_timer(i) for i in (1, 2, 3)]
        c.acs = [at4_ac(0, timer=True)]

    # 4. reconnect
    c.refuse = False
    c.requests.clear()
    await asyncio.sleep(600)
    names = [type(getattr(m, "sub_message", m)).__name__ for _, m in c.requests]
    print("  requests in the 10 min after reconnecting:", names)
    if "AcTimerStatusRequest" not in names:
        failures.append("no AC timer status request after the reconnection")

    # 5. model vs console
    print("  10 min later     : model OFF timer =", ac.next_quick_timer(OFF),
          "| console OFF timer =", console_off_timer(c))
    if ac.next_quick_timer(OFF) != console_off_timer(c):
        failures.append(
            f"model OFF timer {ac.next_quick_timer(OFF)} != console {console_off_timer(c)}"
        )

    # 6. the application sets the *other* timer
    await ac.set_quick_timer(ON, datetime.time(7, 0))
    await settle()
    print("  after set_quick_timer(ON, 07:00): console OFF timer =", console_off_timer(c),
          "(was 22:00, the call was only about the ON timer)")
    if console_off_timer(c) != datetime.time(22, 0):
        failures.append("setting the ON timer wiped the OFF timer stored on the console")

    await at.shutdown()
    return failures


async def main():
    bad = []
    for C in (Console4, Console5):
        for f in await scenario(C):
            bad.append(f"{C.__name__}: {f}")
    return bad


if __name__ == "__main__":
    bad = run(main)
    print()
    for b in bad:
        print("DEFECT:", b)
    if not bad:
        print("no defect observed")
    sys.exit(1 if bad else 0)
