"""C19 / C04: the same zone call has a different protocol meaning on AT4 and AT5.

Run:  cd /tmp/hunt2/api && PYTHONPATH=/tmp/hunt2/api /venv/bin/python _hunt/at5-zone-control-type/demo.py

Zone.set_target_temperature(23) and Zone.set_damper_percentage(60) are issued
on an AirTouch 4 and on an AirTouch 5 client describing the same installation
(a zone with a sensor).  The transmitted frames are captured as raw bytes and
Byte2 of the zone/group control record is read according to

  * AirTouch 4 protocol v1.6, 4.a "Group control message (0x2A)":
      Bit8-6 group setting value, Bit5-4 "Set percentage or temperature
      control: 00 keep control method, 01 change, 10 set to percentage control,
      11 set to temperature control", Bit3-1 power
  * AirTouch 5 protocol v1.2, 4.a.i "Zone control (0x20)":
      Bit8-6 zone setting value, Bit5-4 "Control type: 01 change type, 10 set
      to percentage control, 11 set to temperature control, 00 keep setting
      value (must set 00 when no sensor)", Bit3-1 power

(v1.1 of the AirTouch 5 document still had "Bit5-4 Keep 0"; the package states
that it implements v1.2.)

Exit status 1 when the two generations give the call a different meaning.
"""
import os
import sys

sys.path.insert(0, os.path.dirname(os.path.abspath(__file__)))

from harness import Console4, Console5, run, settle  # noqa: E402

SETTING = {0: "keep", 2: "decrease", 3: "increase", 4: "set open percentage",
           5: "set target setpoint"}
CONTROL = {0: "keep", 1: "change", 2: "set to percentage control",
           3: "set to temperature control"}
POWER = {0: "keep", 1: "toggle", 2: "off", 3: "on", 5: "turbo"}


def read_byte2(b2):
    return {
        "setting": SETTING.get(b2 >> 5, "keep"),
        "control type": CONTROL[(b2 >> 3) & 0x3],
        "power": POWER.get(b2 & 0x7, "keep"),
    }


async def capture(C, call):
    c = C()
    c.install()
    at = c.make_client()
    assert await at.init()
    zone = at.air_conditioners[0].zones[0]
    assert zone.has_temp_sensor
    c.raw.clear()
    await call(zone)
    await settle()
    if C is Console5:
        # 0xC0 control/status message with sub type 0x20 (zone control)
        frames = [(h, b) for _, h, b in c.raw if h.message_id == 0xC0 and b[0] == 0x20]
    else:
        frames = [(h, b) for _, h, b in c.raw if h.message_id == 0x2A]
    assert len(frames) == 1, c.raw  # exactly one control frame per call
    header, body = frames[0]
    # AT5: the record follows the 8 byte control/status sub header
    record = body[8:] if C is Console5 else body
    await at.shutdown()
    return body, record


async def main():
    bad = []
    calls = {
        "set_target_temperature(23)": lambda z: z.set_target_temperature(23),
        "set_damper_percentage(60)": lambda z: z.set_damper_percentage(60),
    }
    for name, call in calls.items():
        body4, rec4 = await capture(Console4, call)
        body5, rec5 = await capture(Console5, call)
        m4, m5 = read_byte2(rec4[1]), read_byte2(rec5[1])
        print(name)
        print(f"  AirTouch 4 frame data {body4.hex(' ')}: Byte2={rec4[1]:08b} -> {m4}")
        print(f"  AirTouch 5 frame data {body5.hex(' ')}: Byte2={rec5[1]:08b} -> {m5}")
        if m4 != m5:
            bad.append(
                f"{name}: AT4 says control type '{m4['control type']}', "
                f"AT5 says control type '{m5['control type']}'"
            )
    return bad


if __name__ == "__main__":
    bad = run(main)
    print()
    for b in bad:
        print("DEFECT:", b)
    if not bad:
        print("no defect observed")
    sys.exit(1 if bad else 0)
