"""Shared scratch harness: virtual-time loop + in-memory fake AirTouch 4 console.

Nothing in the package is modified; only asyncio.open_connection is patched.
"""

from __future__ import annotations

import asyncio
import selectors
from typing import Any, Callable, Optional

import pyairtouch.at4.api as at4_api
import pyairtouch.at4.comms.hdr as at4_hdr
import pyairtouch.at4.comms.registry as at4_registry
import pyairtouch.at4.comms.x1F_ext as at4_ext
import pyairtouch.at4.comms.x1FFF10_err_info as at4_err
import pyairtouch.at4.comms.x1FFF11_ac_ability as at4_abil
import pyairtouch.at4.comms.x1FFF12_group_names as at4_names
import pyairtouch.at4.comms.x1FFF30_console_ver as at4_ver
import pyairtouch.at4.comms.x2B_group_status as at4_gs
import pyairtouch.at4.comms.x2C_ac_ctrl as at4_acc
import pyairtouch.at4.comms.x2D_ac_status as at4_acs
import pyairtouch.at4.comms.x37_ac_timer_status as at4_ts
import pyairtouch.comms.socket as sock


# --------------------------------------------------------------------------
# virtual time
# --------------------------------------------------------------------------
class _VSelector(selectors.SelectSelector):
    def __init__(self, loop_ref: list) -> None:
        super().__init__()
        self._loop_ref = loop_ref

    def select(self, timeout: Optional[float] = None):  # type: ignore[override]
        loop = self._loop_ref[0]
        if timeout is None:
            # Nothing scheduled at all: the program would sleep for ever.
            raise RuntimeError("virtual loop: idle for ever")
        if timeout > 0:
            loop._vtime += timeout
        return super().select(0)


class VirtualLoop(asyncio.SelectorEventLoop):
    def __init__(self) -> None:
        ref: list = [None]
        super().__init__(_VSelector(ref))
        ref[0] = self
        self._vtime = 0.0

    def time(self) -> float:  # type: ignore[override]
        return self._vtime


def run(coro: Any) -> Any:
    loop = VirtualLoop()
    asyncio.set_event_loop(loop)
    try:
        return loop.run_until_complete(coro)
    finally:
        loop.close()


# --------------------------------------------------------------------------
# fake transport
# --------------------------------------------------------------------------
class FakeWriter:
    """Stands in for asyncio.StreamWriter."""

    def __init__(self, conn: "Connection") -> None:
        self.conn = conn
        self._closing = False
        self._closed = asyncio.get_event_loop().create_future()
        self.fail_writes: Optional[BaseException] = None

    def write(self, data: bytes) -> None:
        if self._closing:
            return
        self.conn.inbuf.extend(data)

    async def drain(self) -> None:
        if self.fail_writes is not None:
            raise self.fail_writes
        if self._closing:
            await asyncio.sleep(0)
            return
        self.conn.console._on_bytes(self.conn)

    def close(self) -> None:
        if not self._closing:
            self._closing = True
            self.conn.open = False
            # the reader sees EOF when we close our side
            self.conn.reader.feed_eof()
            asyncio.get_event_loop().call_soon(self._set_closed)

    def _set_closed(self) -> None:
        if not self._closed.done():
            self._closed.set_result(None)

    def is_closing(self) -> bool:
        return self._closing

    async def wait_closed(self) -> None:
        await asyncio.shield(self._closed)


class Connection:
    def __init__(self, console: "At4Console") -> None:
        self.console = console
        self.reader = asyncio.StreamReader()
        self.writer = FakeWriter(self)
        self.inbuf = bytearray()
        self.open = True
        self.received: list[Any] = []  # decoded client messages (header, msg)

    def drop(self) -> None:
        """Console side closes the connection (FIN)."""
        if self.open:
            self.open = False
            self.reader.feed_eof()


# --------------------------------------------------------------------------
# fake AirTouch 4 console
# --------------------------------------------------------------------------
ALL_MODES = {m: True for m in at4_acc.AcModeControl if m.name != "UNCHANGED"}
ALL_FANS = {f: True for f in at4_acc.AcFanSpeedControl if f.name != "UNCHANGED"}


def ability(n: int, groups: Optional[set[int]], start: int = 0, count: int = 0):
    modes = {m: True for m in at4_acc.AcModeControl}
    fans = {f: True for f in at4_acc.AcFanSpeedControl}
    return at4_abil.AcAbility(
        ac_number=n,
        ac_name=f"AC{n}",
        ac_mode_support=modes,
        fan_speed_support=fans,
        min_set_point=16,
        max_set_point=30,
        groups=groups,
        start_group=start,
        group_count=count,
    )


def ac_status(n: int, **kw: Any) -> at4_acs.AcStatusData:
    d = dict(
        ac_number=n,
        power_state=at4_acs.AcPowerState.ON,
        mode=at4_acs.AcMode.COOL,
        fan_speed=at4_acs.AcFanSpeed.LOW,
        spill_active=False,
        timer_set=False,
        set_point=24,
        temperature=25.0,
        error_code=0,
    )
    d.update(kw)
    return at4_acs.AcStatusData(**d)


def group_status(n: int, **kw: Any) -> at4_gs.GroupStatusData:
    d = dict(
        group_number=n,
        power_state=at4_gs.GroupPowerState.ON,
        control_method=at4_gs.GroupControlMethod.TEMPERATURE,
        spill_active=False,
        supports_turbo=False,
        has_sensor=True,
        battery_status=at4_gs.SensorBatteryStatus.NORMAL,
        temperature=22.0,
        damper_percentage=50,
        set_point=23,
    )
    d.update(kw)
    return at4_gs.GroupStatusData(**d)


def timer_status(n: int) -> at4_ts.AcTimerStatusData:
    off = at4_ts.AcTimerState(disabled=True, hour=0, minute=0)
    return at4_ts.AcTimerStatusData(ac_number=n, on_timer=off, off_timer=off)


class At4Console:
    """A console that answers every request from its current state."""

    def __init__(self, n_acs: int = 1, n_groups: int = 2) -> None:
        self.reg = at4_registry.INSTANCE
        self.connections: list[Connection] = []
        self.connect_delay = 0.0
        self.refuse = False
        self.version = at4_ver.ConsoleVersionMessage(False, ["1.2.3"])
        self.names = {g: f"G{g}" for g in range(n_groups)}
        self.abilities = [
            ability(a, set(range(n_groups)) if a == 0 else set()) for a in range(n_acs)
        ]
        self.acs = {a: ac_status(a) for a in range(n_acs)}
        self.groups = {g: group_status(g) for g in range(n_groups)}
        self.timers = {a: timer_status(a) for a in range(4)}
        self.errors: dict[int, Optional[str]] = {}
        self.silent: set[str] = set()  # class names of requests not answered
        self.log: list[tuple[float, int, str]] = []  # (time, conn#, request)
        self.hook: Optional[Callable[[Connection, Any], bool]] = None
        self._pkt = 0

    # -- connection management -------------------------------------------
    async def open_connection(self, host: str = "", port: int = 0, **_: Any):
        if self.connect_delay:
            await asyncio.sleep(self.connect_delay)
        if self.refuse:
            raise ConnectionRefusedError("refused")
        conn = Connection(self)
        self.connections.append(conn)
        return conn.reader, conn.writer

    @property
    def current(self) -> Connection:
        return self.connections[-1]

    # -- wire --------------------------------------------------------------
    def frame(self, message: Any, to: int = at4_hdr.ADDRESS_CLIENT) -> bytes:
        enc = self.reg.get_encoder(message.message_id)
        length = enc.size(message)
        frm = (
            at4_hdr.ADDRESS_AIRTOUCH_EXTENDED
            if message.message_id == at4_ext.MESSAGE_ID
            else at4_hdr.ADDRESS_AIRTOUCH
        )
        self._pkt = (self._pkt + 1) % 256
        header = at4_hdr.At4Header(to, frm, self._pkt, message.message_id, length)
        eh = self.reg.header_encoder.encode(header)
        body = bytes(enc.encode(header, message))
        crc = self.reg.checksum_calculator.calculate(eh.checksum_data + body)
        return eh.header_bytes + body + crc

    def push(self, message: Any, conn: Optional[Connection] = None) -> None:
        conn = conn or self.current
        if conn.open:
            conn.reader.feed_data(self.frame(message))

    def _on_bytes(self, conn: Connection) -> None:
        hl = self.reg.header_decoder.header_length
        while len(conn.inbuf) >= hl:
            hr = self.reg.header_decoder.decode(bytes(conn.inbuf[:hl]))
            total = hl + hr.header.message_length + 2
            if len(conn.inbuf) < total:
                return
            body = bytes(conn.inbuf[hl : total - 2])
            del conn.inbuf[:total]
            msg = self.reg.get_decoder(hr.header.message_id).decode(body, hr.header)
            conn.received.append((hr.header, msg.message))
            self._answer(conn, msg.message)

    def _answer(self, conn: Connection, msg: Any) -> None:
        inner = msg.sub_message if isinstance(msg, at4_ext.ExtendedMessage) else msg
        name = type(inner).__name__
        now = asyncio.get_event_loop().time()
        self.log.append((now, self.connections.index(conn), name))
        if self.hook and self.hook(conn, inner):
            return
        if name in self.silent:
            return
        match inner:
            case at4_ver.ConsoleVersionRequest():
                self.push(at4_ext.ExtendedMessage(self.version), conn)
            case at4_names.GroupNamesRequest():
                self.push(
                    at4_ext.ExtendedMessage(at4_names.GroupNamesMessage(self.names)),
                    conn,
                )
            case at4_abil.AcAbilityRequest():
                self.push(
                    at4_ext.ExtendedMessage(at4_abil.AcAbilityMessage(self.abilities)),
                    conn,
                )
            case at4_acs.AcStatusRequest():
                self.push(at4_acs.AcStatusMessage(list(self.acs.values())), conn)
            case at4_ts.AcTimerStatusRequest():
                self.push(
                    at4_ts.AcTimerStatusMessage(list(self.timers.values())), conn
                )
            case at4_gs.GroupStatusRequest():
                self.push(at4_gs.GroupStatusMessage(list(self.groups.values())), conn)
            case at4_err.AcErrorInformationRequest():
                self.push(
                    at4_ext.ExtendedMessage(
                        at4_err.AcErrorInformationMessage(
                            inner.ac_number, self.errors.get(inner.ac_number)
                        )
                    ),
                    conn,
                )
            case _:
                pass


def make_at4(console: At4Console):
    """Create an AirTouch4 client wired to the fake console."""
    asyncio.open_connection = console.open_connection  # type: ignore[assignment]
    loop = asyncio.get_running_loop()
    s = sock.AirTouchSocket(loop, "console", 9004, at4_registry.INSTANCE)
    at = at4_api.AirTouch4(loop, "id", "serial", "name", s)
    return at, s


async def settle(n: int = 30) -> None:
    for _ in range(n):
        await asyncio.sleep(0)
