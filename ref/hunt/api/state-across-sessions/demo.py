"""State that survives from one init()/shutdown() session into the next.

Part A: after an init() that timed out, a second init() sends nothing at all and
        can never succeed, although the console now answers every request.
Part B: a command queued in one session is transmitted in the next session
        (after shutdown() + init()), ahead of the discovery requests.

Run:  cd /tmp/hunt/api && PYTHONPATH=/tmp/hunt/api /venv/bin/python _hunt/state-across-sessions/demo.py
Exit status 1 = defect shown.
"""

import asyncio
import logging
import os
import sys

sys.path.insert(0, os.path.join(os.path.dirname(os.path.abspath(__file__)), ".."))
from harness import At4Console, make_at4, run  # noqa: E402


async def part_a() -> bool:
    loop = asyncio.get_running_loop()
    console = At4Console(n_acs=1, n_groups=2)
    airtouch, sock = make_at4(console)

    console.silent.add("AcAbilityRequest")  # the console goes silent at step 3
    first = await airtouch.init()
    print(f"A: init() #1 -> {first} at t={loop.time():.0f}s (console silent at step 3: expected)")

    console.silent.clear()  # from now on the console answers every request
    seen = len(console.log)
    second = await airtouch.init()
    requests = [r for _, _, r in console.log[seen:]]
    print(f"A: init() #2 -> {second} at t={loop.time():.0f}s, requests issued: {requests}, "
          f"socket connected: {sock.is_connected}, state: {airtouch._state.name}")
    third = await airtouch.init()
    print(f"A: init() #3 -> {third} at t={loop.time():.0f}s")
    await airtouch.shutdown()
    return (not second) and requests == []


async def part_b() -> bool:
    console = At4Console(n_acs=1, n_groups=2)
    airtouch, sock = make_at4(console)
    assert await airtouch.init()
    ac = airtouch.air_conditioners[0]

    console.refuse = True
    console.current.drop()          # connection lost, console unreachable
    await asyncio.sleep(0.5)
    await ac.set_target_temperature(20)   # queued (30 s lifetime)
    await airtouch.shutdown()             # the application gives up
    print(f"B: after shutdown() the socket still holds {len(sock._message_queue)} queued message(s)")

    console.refuse = False
    seen = len(console.log)
    assert await airtouch.init()          # new session 10 s later
    requests = [r for _, _, r in console.log[seen:]][:7]
    print("B: frames sent in the new session:", requests)
    await airtouch.shutdown()
    return requests[0] == "AcControlMessage"


async def main() -> int:
    a = await part_a()
    print()
    b = await part_b()
    print()
    if a:
        print("DEFECT A: init() after a failed init() issues no request and returns False "
              "for ever (the handshake is only started by a 'connected' notification, "
              "which never comes because the TCP connection is still up).")
    if b:
        print("DEFECT B: a set-point command of the previous session is the first frame "
              "of the new session, before the version request.")
    return 1 if (a or b) else 0


logging.basicConfig(level=logging.ERROR)
sys.exit(run(main()))
