"""AirTouch 4 with ACs but no groups (zones): init() never completes.

Run:  cd /tmp/hunt/api && PYTHONPATH=/tmp/hunt/api /venv/bin/python _hunt/at4-zero-groups/demo.py
Exit status 1 = defect shown.
"""

import asyncio
import logging
import os
import sys

sys.path.insert(0, os.path.join(os.path.dirname(os.path.abspath(__file__)), ".."))
from harness import At4Console, at4_ext, at4_names, make_at4, run  # noqa: E402


async def main() -> int:
    loop = asyncio.get_running_loop()
    console = At4Console(n_acs=1, n_groups=0)

    # What the console puts on the wire for "the names of all my (zero) groups":
    frame = console.frame(at4_ext.ExtendedMessage(at4_names.GroupNamesMessage({})))
    print("answer to the group names request on the wire:", frame.hex(" "))

    airtouch, _ = make_at4(console)
    ok = await airtouch.init()
    print(f"init() -> {ok} at t={loop.time():.1f}s, state={airtouch._state.name}")
    print("requests seen (and answered) by the console:", [r for _, _, r in console.log])
    answered = len(console.current.received)
    await airtouch.shutdown()

    if not ok:
        print(
            f"\nDEFECT: the console answered all {answered} requests it was sent, yet "
            "init() gave up after 5 s. The empty group names answer (0xFF12 with no "
            "data, 0x90 -> 0xB0) is decoded as a GroupNamesRequest and ignored, so the "
            "AC ability / status requests are never issued. The AirTouch 5 client "
            "handles exactly this answer (docs/design.md, 'systems without zones')."
        )
        return 1
    print("no defect shown")
    return 0


logging.basicConfig(level=logging.ERROR)
sys.exit(run(main()))
