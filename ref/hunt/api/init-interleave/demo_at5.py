"""Same defect on AirTouch 5, driven through a stub socket (no wire encoding).

Run:  cd /tmp/hunt/api && PYTHONPATH=/tmp/hunt/api /venv/bin/python _hunt/init-interleave/demo_at5.py
Exit status 1 = defect shown.
"""

import asyncio
import logging
import sys

import pyairtouch.at5.api as at5_api
import pyairtouch.at5.comms.hdr as hdr
import pyairtouch.at5.comms.x1FFF11_ac_ability as abil
import pyairtouch.at5.comms.x1FFF13_zone_names as names
import pyairtouch.at5.comms.x1FFF30_console_ver as ver
import pyairtouch.at5.comms.xC021_zone_status as zs
import pyairtouch.at5.comms.xC022_ac_ctrl as acc
import pyairtouch.at5.comms.xC023_ac_status as acs
import pyairtouch.at5.comms.xC033_ac_timer_status as ts
from pyairtouch.at5.comms.x1F_ext import ExtendedMessage
from pyairtouch.at5.comms.xC0_ctrl_status import ControlStatusMessage


def ac_status(n: int, **kw):
    d = dict(
        ac_number=n, power_state=acs.AcPowerState.ON, mode=acs.AcMode.COOL,
        fan_speed=acs.AcFanSpeed.LOW, turbo_active=False, bypass_active=False,
        spill_active=False, timer_set=False, set_point=24.0, temperature=25.0,
        error_code=0,
    )
    d.update(kw)
    return acs.AcStatusData(**d)


def ability(n: int, start: int, count: int):
    return abil.AcAbility(
        ac_number=n, ac_name=f"AC{n}", start_zone=start, zone_count=count,
        ac_mode_support={m: True for m in acc.AcModeControl},
        fan_speed_support={f: True for f in acc.AcFanSpeedControl},
        min_cool_set_point=16, max_cool_set_point=30,
        min_heat_set_point=16, max_heat_set_point=30,
    )


class StubSocket:
    """Answers every request; delivers frames to the subscribers in order."""

    host = "console"
    is_open = False
    is_connected = False

    def __init__(self) -> None:
        self.conn_subs, self.msg_subs, self.sent = [], [], []
        self.acs = {0: ac_status(0), 1: ac_status(1, mode=acs.AcMode.HEAT, set_point=21.0)}
        self.inbox: asyncio.Queue = asyncio.Queue()

    def subscribe_on_connection_changed(self, s): self.conn_subs.append(s)
    def subscribe_on_message_received(self, s): self.msg_subs.append(s)
    def unsubcribe_on_message_received(self, s): self.msg_subs.remove(s)

    async def open_socket(self):
        self.is_open = self.is_connected = True
        asyncio.get_running_loop().create_task(self._run())

    async def close(self): self.is_open = self.is_connected = False

    async def _run(self):
        for s in self.conn_subs:
            await s(connected=True)
        while True:
            msg = await self.inbox.get()
            h = hdr.At5Header(hdr.ADDRESS_CLIENT, hdr.ADDRESS_AIRTOUCH, 0, msg.message_id, 0)
            for s in list(self.msg_subs):
                await s(h, msg)

    async def send(self, message, retry_policy):
        inner = message.sub_message
        self.sent.append(type(inner).__name__)
        match inner:
            case ver.ConsoleVersionRequest():
                self.inbox.put_nowait(ExtendedMessage(ver.ConsoleVersionMessage(False, ["1.0"])))
            case names.ZoneNamesRequest():
                self.inbox.put_nowait(ExtendedMessage(names.ZoneNamesMessage({0: "Z0", 1: "Z1"})))
            case abil.AcAbilityRequest():
                self.inbox.put_nowait(ExtendedMessage(abil.AcAbilityMessage([ability(0, 0, 1), ability(1, 1, 1)])))
            case acs.AcStatusRequest():
                # unsolicited report for AC0 only, immediately followed by the answer
                self.inbox.put_nowait(ControlStatusMessage(acs.AcStatusMessage([self.acs[0]])))
                self.inbox.put_nowait(ControlStatusMessage(acs.AcStatusMessage(list(self.acs.values()))))
            case ts.AcTimerStatusRequest():
                off = ts.AcTimerState(disabled=True, hour=0, minute=0)
                self.inbox.put_nowait(ControlStatusMessage(ts.AcTimerStatusMessage(
                    [ts.AcTimerStatusData(n, off, off) for n in (0, 1)])))
            case zs.ZoneStatusRequest():
                self.inbox.put_nowait(ControlStatusMessage(zs.ZoneStatusMessage([
                    zs.ZoneStatusData(z, zs.ZonePowerState.ON, False, zs.ZoneControlMethod.DAMPER,
                                      False, zs.SensorBatteryStatus.NORMAL, None, 50, None)
                    for z in (0, 1)])))


async def main() -> int:
    sock = StubSocket()
    at = at5_api.AirTouch5(asyncio.get_running_loop(), "id", "serial", "name", sock)  # type: ignore[arg-type]
    ok = await at.init()
    await asyncio.sleep(0.1)
    ac1 = at.air_conditioners[1]
    shown = (ac1.power_state.name, ac1.selected_mode.name, ac1.target_temperature)
    print("init() ->", ok, "| requests:", sock.sent[:6])
    print("AC1 according to the console: ('ON', 'HEAT', 21.0)")
    print("AC1 according to the model  :", shown)
    await at.shutdown()
    if ok and shown != ("ON", "HEAT", 21.0):
        print("\nDEFECT (AirTouch 5): the answer to the AC status request was discarded.")
        return 1
    return 0


logging.basicConfig(level=logging.ERROR)
sys.exit(asyncio.run(main()))
