"""An unsolicited partial AC status frame during init() makes the real answer be dropped.

Run:  cd /tmp/hunt/api && PYTHONPATH=/tmp/hunt/api /venv/bin/python _hunt/init-interleave/demo.py
Exit status 1 = defect shown.
"""

import asyncio
import logging
import os
import sys

sys.path.insert(0, os.path.join(os.path.dirname(os.path.abspath(__file__)), ".."))
from harness import (  # noqa: E402
    At4Console,
    ac_status,
    at4_acs,
    make_at4,
    run,
    settle,
)


async def main() -> int:
    # Console with two ACs. AC1 is ON / HEAT / 21 degC.
    console = At4Console(n_acs=2, n_groups=2)
    console.acs[1] = ac_status(
        1,
        power_state=at4_acs.AcPowerState.ON,
        mode=at4_acs.AcMode.HEAT,
        set_point=21,
    )

    # When the AC status *request* arrives the console first emits the status
    # report it was about to publish anyway for AC0 (an unsolicited frame that
    # covers only the AC that changed) and then answers the request with the
    # full report (AC0 + AC1).  Every request is answered.
    def hook(conn, request) -> bool:
        if isinstance(request, at4_acs.AcStatusRequest):
            console.push(at4_acs.AcStatusMessage([console.acs[0]]), conn)
        return False  # carry on with the normal answer

    console.hook = hook

    airtouch, _ = make_at4(console)
    ok = await airtouch.init()
    await settle()
    print("init() ->", ok)
    print("requests seen by the console:", [r for _, _, r in console.log])

    ac1 = airtouch.air_conditioners[1]
    shown = (ac1.power_state.name, ac1.selected_mode.name, ac1.target_temperature)
    print("AC1 according to the console: ('ON', 'HEAT', 21)")
    print("AC1 according to the model  :", shown)

    # Nothing refreshes it either: an hour later it is still wrong.
    await asyncio.sleep(3600)
    later = (ac1.power_state.name, ac1.selected_mode.name, ac1.target_temperature)
    print("AC1 according to the model 1 h later:", later)
    await airtouch.shutdown()

    if ok and later != ("ON", "HEAT", 21):
        print(
            "\nDEFECT: init() returned True, the console reported AC1 in its answer "
            "to the AC status request, but that answer was discarded because the "
            "state machine had already advanced on the unsolicited frame."
        )
        return 1
    print("no defect shown")
    return 0


logging.basicConfig(level=logging.ERROR)
sys.exit(run(main()))
