"""AT4: setting/clearing a quick timer (time of day) on one AC rewrites the timers of the other ACs.

Run:  cd /tmp/hunt/api && PYTHONPATH=/tmp/hunt/api /venv/bin/python _hunt/at4-timer-other-acs/demo.py
Exit status 1 = defect shown.
"""

import asyncio
import datetime
import logging
import os
import sys

sys.path.insert(0, os.path.join(os.path.dirname(os.path.abspath(__file__)), ".."))
import pyairtouch.api as api  # noqa: E402
import pyairtouch.at4.comms.x36_ac_timer_ctrl as at4_tc  # noqa: E402
from harness import At4Console, at4_ts, make_at4, run, settle  # noqa: E402

ON, OFF = api.AcTimerType.ON_TIMER, api.AcTimerType.OFF_TIMER


async def main() -> int:
    console = At4Console(n_acs=2, n_groups=2)
    S = at4_ts.AcTimerState
    # Console report: AC1 has no ON timer and an OFF timer at 22:15.
    console.timers[1] = at4_ts.AcTimerStatusData(
        1, on_timer=S(True, 0, 0), off_timer=S(False, 22, 15)
    )

    # The console applies a 0x36 frame the way the library itself reads one
    # (same layout as the 0x37 status: four implicit AC slots, bit 8 = disabled)
    # and then publishes the resulting timer status.
    def hook(conn, request) -> bool:
        if isinstance(request, at4_tc.AcTimerControlMessage):
            for entry in request.ac_timer_status:
                console.timers[entry.ac_number] = at4_ts.AcTimerStatusData(
                    entry.ac_number, entry.on_timer, entry.off_timer
                )
            console.push(at4_ts.AcTimerStatusMessage(list(console.timers.values())), conn)
            return True
        return False

    console.hook = hook

    airtouch, _ = make_at4(console)
    assert await airtouch.init()
    ac0, ac1 = airtouch.air_conditioners
    before = (ac1.next_quick_timer(ON), ac1.next_quick_timer(OFF))
    print("AC1 timers as reported by the console (on, off):", before)

    await ac0.set_quick_timer(ON, datetime.time(7, 30))  # a request about AC0 only
    await settle()

    sent = [m for _, m in console.current.received if isinstance(m, at4_tc.AcTimerControlMessage)][-1]
    print("\nframe transmitted for ac0.set_quick_timer(ON, 07:30), decoded by the library:")
    for entry in sent.ac_timer_status:
        print("   ", entry)
    raw = console.reg.get_encoder(sent.message_id).encode(None, sent)
    print("    raw data:", bytes(raw).hex(" "))

    after = (ac1.next_quick_timer(ON), ac1.next_quick_timer(OFF))
    print("\nAC1 timers afterwards (on, off):", after)
    await airtouch.shutdown()

    slot1 = sent.ac_timer_status[1]
    if (slot1.on_timer, slot1.off_timer) != (S(True, 0, 0), S(False, 22, 15)):
        print(
            "\nDEFECT: the frame for AC0 carries AC1 (and AC2, AC3) with both timers "
            "ENABLED at 00:00 instead of their last reported values; AC1's OFF timer "
            "22:15 is overwritten and an ON timer at 00:00 is created."
        )
        return 1
    print("no defect shown")
    return 0


logging.basicConfig(level=logging.ERROR)
sys.exit(run(main()))
