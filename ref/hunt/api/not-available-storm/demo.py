"""AT4: an AC reported with the documented power state '10/11: Not available' causes an
endless, zero-delay reconnect storm; the other ACs in the frame are never updated.

Run:  cd /tmp/hunt/api && PYTHONPATH=/tmp/hunt/api /venv/bin/python _hunt/not-available-storm/demo.py
Exit status 1 = defect shown.
"""

import asyncio
import logging
import os
import sys

sys.path.insert(0, os.path.join(os.path.dirname(os.path.abspath(__file__)), ".."))
from harness import At4Console, ac_status, at4_acs, at4_hdr, make_at4, run  # noqa: E402

STORM_LIMIT = 200  # the demo console recovers after this many connections


def frame(console: At4Console, message_id: int, body: bytes) -> bytes:
    console._pkt = (console._pkt + 1) % 256
    header = at4_hdr.At4Header(0xB0, 0x80, console._pkt, message_id, len(body))
    eh = console.reg.header_encoder.encode(header)
    crc = console.reg.checksum_calculator.calculate(eh.checksum_data + body)
    return eh.header_bytes + body + crc


async def main() -> int:
    loop = asyncio.get_running_loop()
    console = At4Console(n_acs=2, n_groups=2)
    airtouch, sock = make_at4(console)
    assert await airtouch.init()
    ac0, _ac1 = airtouch.air_conditioners
    t_start = loop.time()

    not_available = True
    encoder = console.reg.get_encoder(0x2D)

    def status_body() -> bytes:
        body = bytearray(
            encoder.encode(None, at4_acs.AcStatusMessage([console.acs[0], console.acs[1]]))
        )
        if not_available:
            # AC1, byte 1: bits 8-7 = 10 -> "10/11: Not available" (protocol v1.6, 4.d)
            body[8] = (0b10 << 6) | 1
        return bytes(body)

    def hook(conn, request) -> bool:
        nonlocal not_available
        if isinstance(request, at4_acs.AcStatusRequest):
            if len(console.connections) > STORM_LIMIT:
                not_available = False  # AC1 comes back so that the demo terminates
            conn.reader.feed_data(frame(console, 0x2D, status_body()))
            return True
        return False

    console.hook = hook

    # AC1 loses contact with the console; in the same report AC0's set-point changes to 18.
    console.acs[0] = ac_status(0, set_point=18)
    console.current.reader.feed_data(frame(console, 0x2D, status_body()))

    samples = []
    for _ in range(10):
        await asyncio.sleep(0.1)
        samples.append((round(loop.time() - t_start, 1), len(console.connections), ac0.target_temperature))
    print("(virtual seconds since the report, TCP connections opened so far, AC0 set-point in the model)")
    for s in samples:
        print("   ", s)
    await airtouch.shutdown()

    reconnects = samples[0][1] - 1
    if reconnects >= STORM_LIMIT:
        print(
            f"\nDEFECT: within {samples[0][0]} s the client tore down and re-opened the "
            f"connection {reconnects} times (no back-off; it only stopped because the demo "
            "console gave in). Each time the refresh answer contained the same documented "
            "'Not available' value, the decoder raised ValueError, the whole frame - including "
            "AC0's new set-point - was thrown away and the connection was reset again."
        )
        return 1
    print("no defect shown")
    return 0


class _Capture(logging.Handler):
    records: list = []

    def emit(self, record: logging.LogRecord) -> None:
        if record.exc_info and len(self.records) < 1:
            self.records.append(record)
            print(f"first error logged by the socket: {record.getMessage()!r} -> "
                  f"{record.exc_info[0].__name__}: {record.exc_info[1]}")


logging.basicConfig(level=logging.CRITICAL)
logging.getLogger("pyairtouch").addHandler(_Capture())
logging.getLogger("pyairtouch").propagate = False
logging.getLogger("pyairtouch").setLevel(logging.ERROR)
sys.exit(run(main()))
