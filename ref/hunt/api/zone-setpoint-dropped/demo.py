"""Zone.set_target_temperature() accepts values it cannot encode and then sends nothing.

Run:  cd /tmp/hunt/api && PYTHONPATH=/tmp/hunt/api /venv/bin/python _hunt/zone-setpoint-dropped/demo.py
Exit status 1 = defect shown.
"""

import asyncio
import logging
import sys

import pyairtouch.at4.api as at4_api
import pyairtouch.at4.comms.registry as reg4
import pyairtouch.at4.comms.x2B_group_status as gs4
import pyairtouch.at5.api as at5_api
import pyairtouch.at5.comms.registry as reg5
import pyairtouch.at5.comms.xC021_zone_status as zs5
import pyairtouch.comms.socket as sock

written: list[bytes] = []


class Writer:
    def write(self, data: bytes) -> None: written.append(bytes(data))
    async def drain(self) -> None: pass
    def close(self) -> None: pass
    def is_closing(self) -> bool: return False
    async def wait_closed(self) -> None: pass


async def open_connection(host: str, port: int):
    return asyncio.StreamReader(), Writer()


async def try_set(zone, temperature: float) -> tuple[str, int]:
    before = len(written)
    try:
        await zone.set_target_temperature(temperature)
        outcome = "accepted"
    except Exception as ex:  # noqa: BLE001
        outcome = f"raised {type(ex).__name__}"
    frames = 1 if len(written) > before else 0
    return outcome, frames


async def main() -> int:
    asyncio.open_connection = open_connection  # type: ignore[assignment]
    loop = asyncio.get_running_loop()
    bad = []

    # ---- AirTouch 5 -----------------------------------------------------
    s5 = sock.AirTouchSocket(loop, "h", 9005, reg5.INSTANCE)
    await s5.open_socket()
    await asyncio.sleep(0.01)
    z5 = at5_api.At5Zone(3, "Zone", s5)
    await z5.update_zone_status(zs5.ZoneStatusData(
        3, zs5.ZonePowerState.ON, False, zs5.ZoneControlMethod.TEMPERATURE, True,
        zs5.SensorBatteryStatus.NORMAL, 22.0, 50, 23.0))
    for t in (35.0, 35.6, 36.0, 40.0, 9.9, 5.0):
        outcome, frames = await try_set(z5, t)
        print(f"AT5 zone.set_target_temperature({t:>5}) -> {outcome}, frames transmitted: {frames}")
        if outcome == "accepted" and frames != 1:
            bad.append(("AT5", t))
    await s5.close()

    # ---- AirTouch 4 -----------------------------------------------------
    s4 = sock.AirTouchSocket(loop, "h", 9004, reg4.INSTANCE)
    await s4.open_socket()
    await asyncio.sleep(0.01)
    z4 = at4_api.At4Zone(3, "Zone", s4)
    await z4.update_group_status(gs4.GroupStatusData(
        3, gs4.GroupPowerState.ON, gs4.GroupControlMethod.TEMPERATURE, False, False, True,
        gs4.SensorBatteryStatus.NORMAL, 22.0, 50, 23))
    for t in (30.0, 255.0, 256.0, -1.0):
        outcome, frames = await try_set(z4, t)
        print(f"AT4 zone.set_target_temperature({t:>5}) -> {outcome}, frames transmitted: {frames}")
        if outcome == "accepted" and frames != 1:
            bad.append(("AT4", t))
    await s4.close()

    if bad:
        print(f"\nDEFECT: accepted without error but nothing was transmitted: {bad}")
        return 1
    print("no defect shown")
    return 0


logging.basicConfig(level=logging.CRITICAL)
sys.exit(asyncio.run(main()))
