"""Two ways in which a raising subscriber still disturbs the others / later frames.

Part A: a subscriber whose coroutine ends with asyncio.CancelledError (it awaited a job
        that had been cancelled elsewhere) kills the socket's read task: no frame is
        received any more until the heartbeat time-out resets the connection (up to 330 s).
Part B: a subscriber that is a plain callable returning an awaitable (allowed by
        UpdateSubscriber = Callable[[int], Awaitable[Any]]) and raises before returning
        it prevents the other subscribers from being called and makes the rest of the
        frame (the following zones) be dropped.

Run:  cd /tmp/hunt/api && PYTHONPATH=/tmp/hunt/api /venv/bin/python _hunt/subscriber-escapes/demo.py
Exit status 1 = defect shown.
"""

import asyncio
import logging
import os
import sys

sys.path.insert(0, os.path.join(os.path.dirname(os.path.abspath(__file__)), ".."))
from harness import (  # noqa: E402
    At4Console, ac_status, at4_acs, at4_gs, group_status, make_at4, run, settle,
)


async def part_a() -> bool:
    loop = asyncio.get_running_loop()
    console = At4Console(n_acs=1, n_groups=2)
    airtouch, sock = make_at4(console)
    assert await airtouch.init()
    ac = airtouch.air_conditioners[0]
    calls: list[str] = []

    job = loop.create_future()
    job.cancel()  # e.g. a task of the application that was cancelled

    async def bad(_: int) -> None:
        calls.append("bad")
        await job  # -> CancelledError inside the subscriber

    async def good(_: int) -> None:
        calls.append("good")

    ac.subscribe(bad)
    ac.subscribe(good)

    console.acs[0] = ac_status(0, set_point=20)
    console.push(at4_acs.AcStatusMessage([console.acs[0]]))
    await settle()
    print(f"A: frame 1 (set-point 20): calls={calls}, model={ac.target_temperature}, "
          f"socket.is_connected={sock.is_connected}, background tasks={len(sock._background_tasks)}")

    ac.unsubscribe(bad)
    t0 = loop.time()
    console.acs[0] = ac_status(0, set_point=19)
    console.push(at4_acs.AcStatusMessage([console.acs[0]]))
    await asyncio.sleep(120)
    print(f"A: frame 2 (set-point 19) sent {loop.time() - t0:.0f}s ago: model={ac.target_temperature}")
    deaf = ac.target_temperature != 19
    while ac.target_temperature != 19 and loop.time() < 1000:
        await asyncio.sleep(1)
    print(f"A: model caught up at t={loop.time():.0f}s after {len(console.connections) - 1} reconnection(s)")
    await airtouch.shutdown()
    return deaf


async def part_b() -> bool:
    console = At4Console(n_acs=1, n_groups=3)
    airtouch, _ = make_at4(console)
    assert await airtouch.init()
    zones = airtouch.air_conditioners[0].zones
    calls: list[str] = []

    def bad(zone_id: int):  # plain callable -> Awaitable, raises before returning it
        raise RuntimeError("boom")

    async def good(zone_id: int) -> None:
        calls.append(f"good{zone_id}")

    zones[0].subscribe(bad)
    zones[0].subscribe(good)
    zones[1].subscribe(good)
    zones[2].subscribe(good)

    for g in range(3):
        console.groups[g] = group_status(g, set_point=18)
    console.push(at4_gs.GroupStatusMessage(list(console.groups.values())))
    await settle()
    shown = [z.target_temperature for z in zones]
    print(f"B: one frame set all three zones to 18: model={shown}, calls={calls}")
    await airtouch.shutdown()
    return shown != [18, 18, 18] or "good0" not in calls


async def main() -> int:
    a = await part_a()
    print()
    b = await part_b()
    print()
    if a:
        print("DEFECT A: after one subscriber ended with CancelledError the read task is "
              "gone (is_connected stays True); later frames are not received until the "
              "heartbeat time-out resets the connection.")
    if b:
        print("DEFECT B: the raising subscriber stopped the other subscriber of zone 0 and "
              "the updates of zones 1 and 2 contained in the same frame.")
    return 1 if (a or b) else 0


logging.basicConfig(level=logging.CRITICAL)
sys.exit(run(main()))
