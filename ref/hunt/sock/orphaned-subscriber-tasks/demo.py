"""shutdown() returns while a message-handler task of the client is still scheduled; that
task later writes data of the old session into the model rebuilt by the next init().

Run:  cd /tmp/hunt/sock && PYTHONPATH=/tmp/hunt/sock /venv/bin/python _hunt/orphaned-subscriber-tasks/demo.py
"""
import asyncio
import logging
import os
import sys

sys.path.insert(0, os.path.join(os.path.dirname(os.path.abspath(__file__)), ".."))
import at5console  # noqa: E402
import harness  # noqa: E402

import pyairtouch.at5.api as at5_api  # noqa: E402
import pyairtouch.at5.comms.registry as reg  # noqa: E402
import pyairtouch.comms.socket as S  # noqa: E402

logging.disable(logging.CRITICAL)
problems = []


def client_tasks():
    me = asyncio.current_task()
    return sorted(
        t.get_coro().__qualname__ for t in asyncio.all_tasks()
        if t is not me and not t.done()
    )


async def main(loop):
    net = harness.FakeNet(loop)
    asyncio.open_connection = net.open_connection
    con = at5console.Console(loop, net)          # reports set point 22.0 for zones 0 and 1
    sock = S.AirTouchSocket(loop, "10.0.0.1", 9005, reg.INSTANCE)
    at = at5_api.AirTouch5(loop, "id", "serial", "name", sock)

    assert await at.init()
    zones = {z.zone_id: z for z in at.air_conditioners[0].zones}
    print(f"t={loop.time():5.2f} session 1 initialised, zone set points "
          f"{ {i: z.target_temperature for i, z in zones.items()} }")

    async def slow_subscriber(zone_id):       # e.g. an application that stores the update somewhere
        await asyncio.sleep(1.0)

    zones[0].subscribe(slow_subscriber)

    # The console pushes one zone status frame: somebody set both zones to 27 degC.
    net.cur.peer_send(at5console.frame_from_console(at5console.zone_status(sp=27.0)))
    await asyncio.sleep(0.2)                  # zone 0 updated, its subscriber is running

    await at.shutdown()
    left = client_tasks()
    print(f"t={loop.time():5.2f} shutdown() returned; tasks still scheduled: {left}")
    if any("_message_received" in n for n in left):
        problems.append(f"after shutdown() returned a task of the client is still scheduled: {left}")

    # Re-initialise straight away (e.g. the application reloads its configuration).
    # In the meantime the set points were put back to 22 degC, which is what the console reports.
    assert await at.init()
    new_zones = {z.zone_id: z for z in at.air_conditioners[0].zones}
    assert new_zones[1] is not zones[1]       # the model really was rebuilt
    before = {i: z.target_temperature for i, z in new_zones.items()}
    print(f"t={loop.time():5.2f} session 2 initialised, zone set points {before} (fresh from the console)")

    await asyncio.sleep(2.0)                  # nothing is received during this time
    after = {i: z.target_temperature for i, z in new_zones.items()}
    print(f"t={loop.time():5.2f} two idle seconds later:          zone set points {after}")
    if after != before:
        problems.append(
            f"the rebuilt model changed from {before} to {after} without any frame being received in "
            "session 2: the handler task orphaned by shutdown() resumed and applied the rest of a "
            "status frame of session 1 to the objects of session 2")
    await at.shutdown()


harness.run(main)
print()
if problems:
    print("DEFECT (C15: no task of the client remains scheduled after shutdown(); re-init rebuilds the model from scratch):")
    for p in problems:
        print(" *", p)
    sys.exit(1)
print("no defect observed")
