"""Eleven unexpired messages are held for a down link and no QueueOverflowError was raised.

Run:  cd /tmp/hunt/sock && PYTHONPATH=/tmp/hunt/sock /venv/bin/python _hunt/eleven-held-messages/demo.py
"""
import asyncio
import logging
import os
import sys

sys.path.insert(0, os.path.join(os.path.dirname(os.path.abspath(__file__)), ".."))
import at5console  # noqa: E402
import harness  # noqa: E402

import pyairtouch.at5.comms.registry as reg  # noqa: E402
import pyairtouch.comms.socket as S  # noqa: E402
from pyairtouch.at5.comms import xC020_zone_ctrl as zc, xC0_ctrl_status as cs  # noqa: E402

logging.disable(logging.CRITICAL)
problems = []


def damper(n):
    return cs.ControlStatusMessage(zc.ZoneControlMessage([zc.ZoneControlData(
        zone_number=0, zone_power=zc.ZonePowerControl.UNCHANGED, zone_setting=zc.ZoneDamperControl(n))]))


def ident(m):
    return m.sub_message.zone_control[0].zone_setting.open_percentage


async def main(loop):
    net = harness.FakeNet(loop, default=("refuse", 0.01))
    asyncio.open_connection = net.open_connection
    sock = S.AirTouchSocket(loop, "10.0.0.1", 9005, reg.INSTANCE)
    connected = asyncio.Event()

    async def on_conn(*, connected: bool):
        if connected:
            globals()["_ev"].set()
    globals()["_ev"] = connected
    sock.subscribe_on_connection_changed(on_conn)

    await sock.open_socket()
    await asyncio.sleep(0.5)
    for n in range(1, 10):                         # 9 commands while the link is down
        await sock.send(damper(n), S.RETRY_IDEMPOTENT)
    print(f"t={loop.time():5.2f} link down, held: {len(sock._message_queue)}")

    # The next attempt is accepted, but the peer resets at once: the first write on the
    # new connection fails (EPIPE). Afterwards the console is unreachable again.
    def arm(tr):
        tr.fail_write_no = 1
    net.on_accept = arm
    net.script = [("accept", 0.01)]

    await connected.wait()
    # The application reacts to the connection by pushing two settings at once.
    raised = []

    async def cmd(n):
        try:
            await sock.send(damper(n), S.RETRY_IDEMPOTENT)
        except S.QueueOverflowError:
            raised.append(n)

    await asyncio.gather(cmd(10), cmd(11))
    await asyncio.sleep(0.5)
    held = [ident(e.message) for e in sock._message_queue]
    print(f"t={loop.time():5.2f} connected={sock.is_connected}; QueueOverflowError raised for: {raised or 'none'}")
    print(f"          held for the down link: {len(held)} messages {held} (MAX_MESSAGE_QUEUE_SIZE={S.MAX_MESSAGE_QUEUE_SIZE})")
    now = loop.time()
    unexpired = [e for e in sock._message_queue if e.expiry > now]
    if len(unexpired) > S.MAX_MESSAGE_QUEUE_SIZE and not raised:
        problems.append(f"{len(unexpired)} unexpired messages are held for a down link; the send that made it "
                        "eleven was accepted without QueueOverflowError")
    # and they are all transmitted later
    net.on_accept = None
    net.default = ("accept", 0.01)
    await asyncio.sleep(3.0)
    frames, _ = at5console.decode_frames(b"".join(d for _, d in net.cur.written))
    print(f"t={loop.time():5.2f} reconnected; transmitted: {[ident(m) for _, m in frames]}")
    await sock.close()


harness.run(main)
print()
if problems:
    print("DEFECT (C16: at most ten unexpired messages are ever held for a down link):")
    for p in problems:
        print(" *", p)
    sys.exit(1)
print("no defect observed")
