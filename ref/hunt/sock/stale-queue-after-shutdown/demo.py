"""Commands held for a down link survive shutdown() and are transmitted by the NEXT session.

Run:  cd /tmp/hunt/sock && PYTHONPATH=/tmp/hunt/sock /venv/bin/python _hunt/stale-queue-after-shutdown/demo.py

Uses the real AirTouchSocket / AirTouch5 / HeartbeatManager on a virtual-time
event loop; asyncio.open_connection is replaced by a fake network whose
connections are genuine asyncio StreamReader/StreamWriter objects on a fake
transport (see ../harness.py), with a small AirTouch 5 console simulator
(../at5console.py) answering the handshake.
"""
import asyncio
import logging
import os
import sys

sys.path.insert(0, os.path.join(os.path.dirname(os.path.abspath(__file__)), ".."))
import at5console  # noqa: E402
import harness  # noqa: E402

import pyairtouch.api  # noqa: E402
import pyairtouch.at5.api as at5_api  # noqa: E402
import pyairtouch.at5.comms.registry as reg  # noqa: E402
import pyairtouch.comms.socket as S  # noqa: E402

logging.disable(logging.CRITICAL)
problems = []


async def part1_api(loop):
    """A power TOGGLE accepted while the link was down is executed by the next session."""
    print("--- part 1: AirTouch5 API, one held non-idempotent command")
    net = harness.FakeNet(loop)
    asyncio.open_connection = net.open_connection
    con = at5console.Console(loop, net)
    sock = S.AirTouchSocket(loop, "10.0.0.1", 9005, reg.INSTANCE)
    at = at5_api.AirTouch5(loop, "id", "serial", "name", sock)

    assert await at.init()
    ac = at.air_conditioners[0]

    # The console goes away: peer closes, further connection attempts are refused.
    net.default = ("refuse", 0.01)
    net.cur.peer_eof()
    await asyncio.sleep(1.0)
    assert not sock.is_connected

    # The user presses "toggle power" while the link is down: accepted, held (30 s lifetime).
    await ac.set_power(pyairtouch.api.AcPowerControl.TOGGLE)
    t_cmd = loop.time()
    await asyncio.sleep(3.0)

    # The user gives up and shuts the client down.
    await at.shutdown()
    t_shutdown = loop.time()
    held = len(sock._message_queue)
    print(f"t={t_shutdown:6.2f}  shutdown() returned; socket.is_open={sock.is_open}; "
          f"messages still held by the closed socket: {held}")
    try:
        await at.check_for_updates()
        problems.append("send after shutdown did not raise")
    except S.NotOpenError:
        print("           sending now raises NotOpenError (as it should)")

    n_frames = len(con.log)
    n_wire = len(net.wire)
    await asyncio.sleep(10.0)
    assert len(net.wire) == n_wire  # nothing while shut down

    # The console is back; the application creates a new session on the same object.
    net.default = ("accept", 0.01)
    ok = await at.init()
    print(f"t={loop.time():6.2f}  init() again -> {ok}; frames written by the new session:")
    new = con.log[n_frames:]
    for t, conn, what in new:
        print(f"           t={t:6.2f} conn#{conn} {what[:110]}")
    stale = [x for x in new if "TOGGLE" in x[2]]
    if stale:
        problems.append(
            f"the power TOGGLE accepted at t={t_cmd:.2f} (before shutdown() at t={t_shutdown:.2f}) "
            f"was transmitted at t={stale[0][0]:.2f} by the session started after shutdown - "
            "it is even the first frame of that session, ahead of the handshake")
    await at.shutdown()


async def part2_socket(loop):
    """Ten held commands of the old session make the new session refuse its own messages."""
    print("--- part 2: AirTouchSocket, full backlog carried into the next session")
    net = harness.FakeNet(loop, default=("refuse", 0.01))
    asyncio.open_connection = net.open_connection
    sock = S.AirTouchSocket(loop, "10.0.0.1", 9005, reg.INSTANCE)
    from pyairtouch.at5.comms import x1F_ext, x1FFF30_console_ver as cv
    msg = x1F_ext.ExtendedMessage(cv.ConsoleVersionRequest())

    await sock.open_socket()
    await asyncio.sleep(0.5)
    for _ in range(S.MAX_MESSAGE_QUEUE_SIZE):
        await sock.send(msg, S.RETRY_IDEMPOTENT)
    await sock.close()
    print(f"t={loop.time():6.2f}  close() returned with {len(sock._message_queue)} messages held")
    await asyncio.sleep(5.0)
    await sock.open_socket()  # "as on a fresh object"
    try:
        await sock.send(msg, S.RETRY_IDEMPOTENT)
        print("           first send of the new session accepted")
    except S.QueueOverflowError:
        problems.append("the very first send() after close()+open_socket() raises QueueOverflowError: "
                        "the 10 messages of the previous session still occupy the buffer")
    await sock.close()


async def part3_api_full(loop):
    """Ten held commands of the old session make the next init() fail on a healthy console."""
    print("--- part 3: AirTouch5 API, ten held commands, shutdown, init again")
    net = harness.FakeNet(loop)
    asyncio.open_connection = net.open_connection
    con = at5console.Console(loop, net)
    sock = S.AirTouchSocket(loop, "10.0.0.1", 9005, reg.INSTANCE)
    at = at5_api.AirTouch5(loop, "id", "serial", "name", sock)
    assert await at.init()
    ac = at.air_conditioners[0]
    net.default = ("refuse", 0.01)
    net.cur.peer_eof()
    await asyncio.sleep(1.0)
    for i in range(S.MAX_MESSAGE_QUEUE_SIZE):
        await ac.set_target_temperature(20 + i % 5)
    await at.shutdown()
    await asyncio.sleep(5.0)
    net.default = ("accept", 0.01)
    n_frames = len(con.log)
    ok = await at.init()
    print(f"t={loop.time():6.2f}  init() again on a healthy console -> {ok}; "
          f"{len(con.log) - n_frames} frames written, initialised={at.initialised}")
    if not ok:
        kinds = sorted({w.split("(")[0] for _, _, w in con.log[n_frames:]})
        problems.append("init() after shutdown() returns False although the console answers everything: the new "
                        "session's ConsoleVersionRequest was refused (QueueOverflowError) because the buffer was "
                        f"still full of the previous session's commands; frames seen by the console: {kinds}")
    await at.shutdown()


async def main(loop):
    await part1_api(loop)
    await part2_socket(loop)
    await part3_api_full(loop)


harness.run(main)
print()
if problems:
    print("DEFECT (C15 shutdown is final / re-init works as on a fresh object):")
    for p in problems:
        print(" *", p)
    sys.exit(1)
print("no defect observed")
