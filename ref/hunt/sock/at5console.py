"""A tiny AirTouch 5 console simulator sitting behind harness.FakeNet."""
import pyairtouch.at5.comms.registry as reg
from pyairtouch.at5.comms import hdr as at5hdr
from pyairtouch.at5.comms import (
    x1F_ext, x1FFF11_ac_ability as ab, x1FFF13_zone_names as zn, x1FFF30_console_ver as cv,
    xC0_ctrl_status as cs, xC021_zone_status as zs, xC022_ac_ctrl as acc, xC023_ac_status as acs,
    xC033_ac_timer_status as ats, xC020_zone_ctrl as zc,
)

R = reg.INSTANCE
_pid = [0]


def frame_from_console(message):
    enc = R.get_encoder(message.message_id)
    mid = message.message_id
    header = at5hdr.At5Header(
        to_address=at5hdr.ADDRESS_CLIENT,
        from_address=at5hdr.ADDRESS_AIRTOUCH_EXTENDED if mid == x1F_ext.MESSAGE_ID else at5hdr.ADDRESS_AIRTOUCH,
        packet_id=_pid[0] % 256, message_id=mid, message_length=enc.size(message))
    _pid[0] += 1
    eh = R.header_encoder.encode(header)
    mb = enc.encode(header, message)
    return eh.header_bytes + mb + R.checksum_calculator.calculate(eh.checksum_data + mb)


def decode_frames(data):
    """Decode a client byte stream into [(header, message)], leftover."""
    out = []
    hl = R.header_decoder.header_length
    while len(data) >= hl:
        hr = R.header_decoder.decode(data[:hl])
        h = hr.header
        total = hl + h.message_length + 2
        if len(data) < total:
            break
        body = data[hl:hl + h.message_length]
        crc = data[hl + h.message_length:total]
        assert R.checksum_calculator.validate(hr.checksum_data + body, crc), "client sent bad CRC"
        m = R.get_decoder(h.message_id).decode(body, h).message
        out.append((h, m))
        data = data[total:]
    return out, data


def describe(m):
    sub = getattr(m, "sub_message", None)
    return type(sub).__name__ + (repr(sub) if sub is not None and len(repr(sub)) < 200 else "") if sub is not None else repr(m)


CONSOLE_VERSION = x1F_ext.ExtendedMessage(cv.ConsoleVersionMessage(update_available=False, versions=["1.2.3"]))
ZONE_NAMES = x1F_ext.ExtendedMessage(zn.ZoneNamesMessage(zone_names={0: "Living", 1: "Bed"}))
AC_ABILITY = x1F_ext.ExtendedMessage(ab.AcAbilityMessage(ac_abilities=[ab.AcAbility(
    ac_number=0, ac_name="AC", start_zone=0, zone_count=2,
    ac_mode_support={m: True for m in acc.AcModeControl},
    fan_speed_support={f: True for f in acc.AcFanSpeedControl},
    min_cool_set_point=16, max_cool_set_point=30, min_heat_set_point=16, max_heat_set_point=30)]))


def ac_status(set_point=22.0, power=acs.AcPowerState.ON):
    return cs.ControlStatusMessage(acs.AcStatusMessage([acs.AcStatusData(
        ac_number=0, power_state=power, mode=acs.AcMode.COOL, fan_speed=acs.AcFanSpeed.LOW,
        turbo_active=False, bypass_active=False, spill_active=False, timer_set=False,
        set_point=set_point, temperature=24.0, error_code=0)]))


AC_TIMER = cs.ControlStatusMessage(ats.AcTimerStatusMessage([ats.AcTimerStatusData(
    ac_number=0, on_timer=ats.AcTimerState(True, 0, 0), off_timer=ats.AcTimerState(True, 0, 0))]))


def zone_status(sp=22.0):
    return cs.ControlStatusMessage(zs.ZoneStatusMessage([zs.ZoneStatusData(
        zone_number=z, power_state=zs.ZonePowerState.ON, spill_active=False,
        control_method=zs.ZoneControlMethod.TEMPERATURE, has_sensor=True,
        battery_status=zs.SensorBatteryStatus.NORMAL, temperature=23.0, damper_percentage=50, set_point=sp)
        for z in (0, 1)]))


class Console:
    """Answers the handshake / heartbeat requests on every accepted connection."""

    def __init__(self, loop, net, answer_version=True, latency=0.0):
        self.loop = loop
        self.net = net
        self.answer_version = answer_version  # may be flipped at run time
        self.latency = latency
        self.log = []  # (time, conn, description) for every frame the client wrote
        self.mute = False
        net.on_accept = self._accept

    def _accept(self, tr):
        buf = bytearray()
        orig_write = tr.write

        def write(data):
            n_before = len(tr.written)
            orig_write(data)
            if len(tr.written) == n_before:
                return
            buf.extend(data)
            try:
                frames, rest = decode_frames(bytes(buf))
            except Exception as ex:  # garbage from the client
                self.log.append((self.loop.time(), tr.idx, f"UNDECODABLE {ex!r} {bytes(buf).hex()}"))
                buf.clear()
                return
            del buf[:len(buf) - len(rest)]
            for h, m in frames:
                self.log.append((self.loop.time(), tr.idx, describe(m)))
                self.loop.call_soon(self._react, tr, m)

        tr.write = write

    def reply(self, tr, message):
        data = frame_from_console(message)
        if self.latency:
            self.loop.call_later(self.latency, tr.peer_send, data)
        else:
            self.loop.call_soon(tr.peer_send, data)

    def _react(self, tr, m):
        if self.mute:
            return
        sub = getattr(m, "sub_message", None)
        if isinstance(sub, cv.ConsoleVersionRequest):
            if self.answer_version:
                self.reply(tr, CONSOLE_VERSION)
        elif isinstance(sub, zn.ZoneNamesRequest):
            self.reply(tr, ZONE_NAMES)
        elif isinstance(sub, ab.AcAbilityRequest):
            self.reply(tr, AC_ABILITY)
        elif isinstance(sub, acs.AcStatusRequest):
            self.reply(tr, ac_status())
        elif isinstance(sub, ats.AcTimerStatusRequest):
            self.reply(tr, AC_TIMER)
        elif isinstance(sub, zs.ZoneStatusRequest):
            self.reply(tr, zone_status())
