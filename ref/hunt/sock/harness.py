"""Virtual-time loop + faithful fake TCP transport under the *real* asyncio streams.

The fake transport mimics asyncio.selector_events._SelectorSocketTransport:
  * close()        -> is_closing() True at once, connection_lost(None) via call_soon
  * write error    -> _fatal_error -> _force_close(exc): is_closing() True at once,
                      connection_lost(exc) via call_soon (reader.set_exception)
  * peer FIN       -> protocol.eof_received() (streams keep the transport open)
  * peer RST       -> _fatal_error(ConnectionResetError)
The StreamReader / StreamReaderProtocol / StreamWriter are the genuine asyncio classes.
"""
import asyncio
import heapq
import logging


class Deadlock(Exception):
    pass


class VLoop(asyncio.SelectorEventLoop):
    def __init__(self):
        super().__init__()
        self._vt = 0.0
        real_select = self._selector.select
        loop = self

        def select(timeout=None):
            if timeout is None:
                raise Deadlock("nothing scheduled: loop would sleep for ever")
            if timeout > 0 and loop._scheduled:
                loop._vt = max(loop._vt, loop._scheduled[0]._when)
            return real_select(0)

        self._selector.select = select

    def time(self):
        return self._vt


class FakeTransport(asyncio.Transport):
    def __init__(self, loop, protocol, net, idx):
        super().__init__()
        self._loop = loop
        self._protocol = protocol
        self.net = net
        self.idx = idx
        self._closing = False
        self._conn_lost = 0
        self.lost_called = False
        self.written = []  # (time, bytes)
        self.fail_write_no = None  # fail on the n-th write() call (1-based) from now
        self._write_calls = 0
        self.opened_at = loop.time()
        self.closed_at = None

    # -- client side API
    def is_closing(self):
        return self._closing

    def get_extra_info(self, name, default=None):
        return default

    def get_write_buffer_size(self):
        return 0

    def pause_reading(self):
        pass

    def resume_reading(self):
        pass

    def write(self, data):
        if self._conn_lost:
            self._conn_lost += 1
            return
        self._write_calls += 1
        if self.fail_write_no is not None and self._write_calls >= self.fail_write_no:
            self.fail_write_no = None
            self._fatal_error(BrokenPipeError(32, "Broken pipe (scripted)"))
            return
        self.written.append((self._loop.time(), bytes(data)))
        self.net.wire.append((self._loop.time(), self.idx, bytes(data)))

    def close(self):
        if self._closing:
            return
        self._closing = True
        self._conn_lost += 1
        self._loop.call_soon(self._call_connection_lost, None)

    def abort(self):
        self._force_close(None)

    def _fatal_error(self, exc):
        self._force_close(exc)

    def _force_close(self, exc):
        if self._conn_lost:
            return
        self._closing = True
        self._conn_lost += 1
        self._loop.call_soon(self._call_connection_lost, exc)

    def _call_connection_lost(self, exc):
        if self.lost_called:
            return
        self.lost_called = True
        self.closed_at = self._loop.time()
        self._protocol.connection_lost(exc)

    # -- peer side
    def peer_send(self, data):
        if not self._conn_lost and not getattr(self, "_peer_eof", False):
            self._protocol.data_received(data)

    def peer_eof(self):
        if not self._conn_lost and not getattr(self, "_peer_eof", False):
            self._peer_eof = True
            keep = self._protocol.eof_received()
            if not keep:
                self.close()

    def peer_reset(self):
        if getattr(self, "_peer_eof", False):
            # After EOF asyncio no longer watches the socket for reading: a RST
            # is only noticed by the next write.
            if not self._conn_lost and self.fail_write_no is None:
                self.fail_write_no = self._write_calls + 1
            return
        self._fatal_error(ConnectionResetError(104, "Connection reset by peer (scripted)"))

    @property
    def is_open(self):
        return not self.lost_called and not self._closing


class FakeNet:
    """Replacement for asyncio.open_connection driven by a script.

    script: list of ('refuse', latency) / ('accept', latency); when exhausted `default` is used.
    """

    def __init__(self, loop, script=(), default=("accept", 0.01)):
        self.loop = loop
        self.script = list(script)
        self.default = default
        self.transports = []
        self.attempts = []  # (time, kind)
        self.wire = []  # (time, conn idx, bytes)
        self.on_accept = None
        self.max_open = 0

    async def open_connection(self, host=None, port=None, **kw):
        kind, latency = self.script.pop(0) if self.script else self.default
        self.attempts.append((self.loop.time(), kind))
        # a real connect always suspends at least once
        await asyncio.sleep(latency)
        if kind == "refuse":
            raise ConnectionRefusedError(111, "Connection refused (scripted)")
        if kind == "raise":
            raise latency_exc  # noqa
        reader = asyncio.StreamReader(limit=2**16, loop=self.loop)
        protocol = asyncio.StreamReaderProtocol(reader, loop=self.loop)
        tr = FakeTransport(self.loop, protocol, self, len(self.transports))
        self.transports.append(tr)
        protocol.connection_made(tr)
        writer = asyncio.StreamWriter(tr, protocol, reader, self.loop)
        n_open = sum(1 for t in self.transports if not t.lost_called)
        self.max_open = max(self.max_open, n_open)
        if self.on_accept:
            self.on_accept(tr)
        return reader, writer

    @property
    def cur(self):
        return self.transports[-1]

    def open_count(self):
        return sum(1 for t in self.transports if not t.lost_called)


def frame(registry, message):
    """Encode a message exactly as AirTouchSocket._write does."""
    enc = registry.get_encoder(message.message_id)
    header = registry.header_factory.create_from_message(message, enc.size(message))
    eh = registry.header_encoder.encode(header)
    mb = enc.encode(header, message)
    crc = registry.checksum_calculator.calculate(eh.checksum_data + mb)
    return eh.header_bytes + mb + crc


def run(main_factory, debug=False):
    """Run `await main_factory(loop)` on a fresh virtual loop."""
    loop = VLoop()
    asyncio.set_event_loop(loop)
    if debug:
        logging.basicConfig(level=logging.DEBUG)
    try:
        return loop.run_until_complete(main_factory(loop))
    finally:
        try:
            loop.run_until_complete(loop.shutdown_asyncgens())
        except Exception:
            pass
        asyncio.set_event_loop(None)
        loop.close()


def split_frames_at5(data):
    """Split a byte string into AT5 frames (for pretty printing the wire)."""
    out = []
    while data:
        i = data.find(b"\x55\x55\x55\xab", 1)
        if i < 0:
            out.append(data)
            break
        out.append(data[:i])
        data = data[i:]
    return out
