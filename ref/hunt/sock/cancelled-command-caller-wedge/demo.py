"""A caller of an ordinary API command (not of reset_connection()) that is cancelled while the
socket handles the write error of that command leaves the client disconnected for ever.

Run:  cd /tmp/hunt/sock && PYTHONPATH=/tmp/hunt/sock /venv/bin/python _hunt/cancelled-command-caller-wedge/demo.py
"""
import asyncio
import logging
import os
import sys

sys.path.insert(0, os.path.join(os.path.dirname(os.path.abspath(__file__)), ".."))
import at5console  # noqa: E402
import harness  # noqa: E402

import pyairtouch.at5.api as at5_api  # noqa: E402
import pyairtouch.at5.comms.registry as reg  # noqa: E402
import pyairtouch.comms.socket as S  # noqa: E402

logging.disable(logging.CRITICAL)


async def one(loop, n_iterations):
    net = harness.FakeNet(loop)
    asyncio.open_connection = net.open_connection
    con = at5console.Console(loop, net)
    sock = S.AirTouchSocket(loop, "10.0.0.1", 9005, reg.INSTANCE)
    at = at5_api.AirTouch5(loop, "id", "serial", "name", sock)
    assert await at.init()                       # heartbeat is running from here on
    ac = at.air_conditioners[0]

    async def app_callback(ac_id):               # an application callback that takes half a second
        await asyncio.sleep(0.5)
    ac.subscribe(app_callback)

    t0 = loop.time()
    # t0      : the console pushes an AC status; _read() delivers it and waits for the callback
    net.cur.peer_send(at5console.frame_from_console(at5console.ac_status(set_point=25.0)))
    await asyncio.sleep(0.1)
    # t0+0.1  : the console goes down: FIN, and it will answer anything further with RST
    #           (_read() is busy in the callback and has not looked at the stream yet)
    net.cur.peer_eof()
    net.cur.peer_reset()
    await asyncio.sleep(0.1)
    # t0+0.2  : the application issues a command; the caller gives up n loop iterations later
    #           (wait_for() timeout, TaskGroup sibling failure, user abort, ...)
    cmd = loop.create_task(ac.set_target_temperature(23))
    for _ in range(n_iterations):
        await asyncio.sleep(0)
    cmd.cancel()
    try:
        await cmd
        outcome = "completed"
    except asyncio.CancelledError:
        outcome = "cancelled"

    # The console is back at once and behaves perfectly from now on.
    await asyncio.sleep(2000.0)
    attempts_after = [t for t, _ in net.attempts if t > t0]
    state = dict(outcome=outcome, is_open=sock.is_open, is_connected=sock.is_connected,
                 open_transports=net.open_count(), connect_attempts_after=len(attempts_after),
                 pending_connect_tasks=len(sock._background_tasks))
    wedged = not (sock.is_connected and net.open_count() == 1)
    if not wedged:
        # still receiving and transmitting?
        n = len(con.log)
        await ac.set_target_temperature(24)
        wedged = len(con.log) == n
    await at.shutdown()
    return wedged, state


bad = []
print("n = loop iterations between the command and the cancellation of its caller")
for n in range(0, 14):
    wedged, state = harness.run(lambda loop: one(loop, n))
    print(f"  n={n:2d}: {'WEDGED' if wedged else 'ok    '} {state}")
    if wedged:
        bad.append((n, state))

print()
if bad:
    print("DEFECT (C07: the connection heals itself and never wedges):")
    print(f" * for n in {[n for n, _ in bad]} the client is still not connected 2000 s after the fault although it is open,")
    print("   the console accepts connections and answers, and the heartbeat is running: is_connected=False,")
    print("   no connection attempt was made after the fault and no connect task is pending.")
    sys.exit(1)
print("no defect observed")
