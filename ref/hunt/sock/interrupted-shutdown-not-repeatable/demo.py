"""After a shutdown() whose caller was cancelled, a second, undisturbed shutdown() returns
normally but leaves the TCP connection open for ever, and init() never works again.

Run:  cd /tmp/hunt/sock && PYTHONPATH=/tmp/hunt/sock /venv/bin/python _hunt/interrupted-shutdown-not-repeatable/demo.py
"""
import asyncio
import logging
import os
import sys

sys.path.insert(0, os.path.join(os.path.dirname(os.path.abspath(__file__)), ".."))
import at5console  # noqa: E402
import harness  # noqa: E402

import pyairtouch.at5.api as at5_api  # noqa: E402
import pyairtouch.at5.comms.registry as reg  # noqa: E402
import pyairtouch.comms.socket as S  # noqa: E402

logging.disable(logging.CRITICAL)


async def one(loop, n):
    net = harness.FakeNet(loop)
    asyncio.open_connection = net.open_connection
    at5console.Console(loop, net)
    sock = S.AirTouchSocket(loop, "10.0.0.1", 9005, reg.INSTANCE)
    at = at5_api.AirTouch5(loop, "id", "serial", "name", sock)
    assert await at.init()

    # First shutdown: its caller is cancelled n loop iterations later
    # (asyncio.wait_for(at.shutdown(), t) expiring, the application's own stop timeout, Ctrl-C ...).
    first = loop.create_task(at.shutdown())
    for _ in range(n):
        await asyncio.sleep(0)
    first.cancel()
    try:
        await first
        outcome = "returned"
    except asyncio.CancelledError:
        outcome = "cancelled"

    # The application notices and simply shuts down again - this time nothing interferes.
    await at.shutdown()
    second_returned_at = loop.time()
    await asyncio.sleep(1000.0)
    res = dict(first=outcome, open_connections=net.open_count(), is_open=sock.is_open,
               is_connected=sock.is_connected)
    try:
        await at.check_for_updates()
        res["send"] = "accepted"
    except S.NotOpenError:
        res["send"] = "NotOpenError"
    n_att = len(net.attempts)
    res["reinit"] = await at.init()
    res["attempts_during_reinit"] = len(net.attempts) - n_att
    await at.shutdown()
    res["open_connections_after_3rd_shutdown"] = net.open_count()
    res["init_after_3rd_shutdown"] = await at.init()
    await at.shutdown()
    return res


bad = []
print("n = loop iterations between the first shutdown() call and the cancellation of its caller")
for n in range(0, 14):
    r = harness.run(lambda loop: one(loop, n))
    broken = r["open_connections"] > 0 or not r["reinit"]
    print(f"  n={n:2d}: {'BROKEN' if broken else 'ok    '} {r}")
    if broken:
        bad.append((n, r))

print()
if bad:
    leaks = [n for n, r in bad if r["open_connections"]]
    dead = [n for n, r in bad if not r["reinit"]]
    print("DEFECT (C15: after shutdown() returns every connection that was opened has been closed; a later init() works):")
    print(f" * n in {leaks}: 1000 s after the second shutdown() returned normally the TCP connection to the console is still open")
    print(f" * n in {dead}: init() after that shutdown() returns False - no connection attempt is made at all; the object only")
    print("   recovers when, after this failed init(), shutdown() is called a third time")
    sys.exit(1)
print("no defect observed")
