"""C05 / C17: an AC status record whose power state, mode or fan speed carries
one of the values the vendor protocol documents as "Other: Not available" is not
decoded to an absent value.  The enum conversion raises ValueError inside the
receive task, the whole frame (all ACs in it) is thrown away, the TCP connection
is reset - and because the client re-requests the AC status on every
re-connection and gets the same answer, it re-connects in a tight loop for as
long as the air-conditioner stays in that state.

Self-contained: scripted in-memory console built from the vendor byte layouts,
real client created with pyairtouch.connect() and initialised normally.

Exit status 1 when the defect shows.
"""

import asyncio
import logging
import sys
from unittest import mock

import pyairtouch


# ---------------------------------------------------------------- wire helpers
def crc16_modbus(data: bytes) -> bytes:
    crc = 0xFFFF
    for b in data:
        crc ^= b
        for _ in range(8):
            crc = (crc >> 1) ^ 0xA001 if crc & 1 else crc >> 1
    return crc.to_bytes(2, "big")


def at4_frame(msg_type: int, payload: bytes, frm: int = 0x80, pid: int = 1) -> bytes:
    body = bytes([0xB0, frm, pid, msg_type]) + len(payload).to_bytes(2, "big") + payload
    return b"\x55\x55" + body + crc16_modbus(body)


def at5_frame(msg_type: int, payload: bytes, frm: int = 0x80, pid: int = 1) -> bytes:
    body = bytes([0xB0, frm, pid, msg_type]) + len(payload).to_bytes(2, "big") + payload
    inner = b"\x55\x55\x55\xaa" + body + crc16_modbus(body)
    n = len(inner).to_bytes(2, "big")
    return b"\x55\x55\x55\xab\x00\x00" + n + n + inner


def c0(sub: int, repeat_len: int, records: list[bytes]) -> bytes:
    return (
        bytes([sub, 0, 0, 0])
        + repeat_len.to_bytes(2, "big")
        + len(records).to_bytes(2, "big")
        + b"".join(records)
    )


# ------------------------------------------------------------ scripted console
class Writer:
    def __init__(self, console: "Console") -> None:
        self.console = console
        self.closing = False
        self.closed = asyncio.get_running_loop().create_future()

    def write(self, data: bytes) -> None:
        self.console.from_client(bytes(data))

    async def drain(self) -> None:
        await asyncio.sleep(0)

    def is_closing(self) -> bool:
        return self.closing

    def close(self) -> None:
        self.closing = True
        if not self.closed.done():
            self.closed.set_result(None)

    async def wait_closed(self) -> None:
        await self.closed


class Console:
    """Answers the client's requests with canned frames."""

    def __init__(self, generation: int, ac_status_record: bytes) -> None:
        self.generation = generation
        self.ac_status_record = ac_status_record
        self.rx = bytearray()
        self.reader: asyncio.StreamReader | None = None

    async def open_connection(self, host=None, port=None, **_):  # noqa: ANN001
        self.reader = asyncio.StreamReader()
        self.rx.clear()
        return self.reader, Writer(self)

    def from_client(self, data: bytes) -> None:
        self.rx.extend(data)
        hdr = 8 if self.generation == 4 else 20
        while len(self.rx) >= hdr:
            length = int.from_bytes(self.rx[hdr - 2 : hdr], "big")
            if len(self.rx) < hdr + length + 2:
                return
            msg_type, payload = self.rx[hdr - 3], bytes(self.rx[hdr : hdr + length])
            pid = self.rx[hdr - 4]
            del self.rx[: hdr + length + 2]
            answer = (self.answer4 if self.generation == 4 else self.answer5)(
                msg_type, payload, pid
            )
            if answer and self.reader:
                self.reader.feed_data(answer)

    # AirTouch 4, protocol v1.6 section 4
    def answer4(self, t: int, p: bytes, pid: int) -> bytes | None:
        if t == 0x1F and p[:2] == b"\xff\x30":
            return at4_frame(0x1F, b"\xff\x30\x00\x05" + b"1.3.3", 0x90, pid)
        if t == 0x1F and p[:2] == b"\xff\x12":
            return at4_frame(0x1F, b"\xff\x12\x00" + b"Living\0\0", 0x90, pid)
        if t == 0x1F and p[:2] == b"\xff\x11":
            rec = bytes([0x00, 0x16]) + b"UNIT".ljust(16, b"\0")
            rec += bytes([0x00, 0x01, 0x17, 0x1D, 0x11, 0x1F])
            return at4_frame(0x1F, b"\xff\x11" + rec, 0x90, pid)
        if t == 0x2D:
            return at4_frame(0x2D, self.ac_status_record, 0x80, pid)
        if t == 0x37:
            return at4_frame(0x37, bytes([0x80, 0, 0x80, 0, 0, 0, 0, 0]) * 4, 0x80, pid)
        if t == 0x2B:
            return at4_frame(0x2B, bytes([0x40, 0x64, 0x00, 0x00, 0xFF, 0x00]), 0x80, pid)
        return None

    # AirTouch 5, protocol v1.2 section 4
    def answer5(self, t: int, p: bytes, pid: int) -> bytes | None:
        if t == 0x1F and p[:2] == b"\xff\x30":
            return at5_frame(0x1F, b"\xff\x30\x00\x05" + b"1.0.3", 0x90, pid)
        if t == 0x1F and p[:2] == b"\xff\x13":
            return at5_frame(0x1F, b"\xff\x13\x00\x06" + b"Living", 0x90, pid)
        if t == 0x1F and p[:2] == b"\xff\x11":
            rec = bytes([0x00, 0x18]) + b"UNIT".ljust(16, b"\0")
            rec += bytes([0x00, 0x01, 0x17, 0x1D, 0x10, 0x1F, 0x12, 0x1F])
            return at5_frame(0x1F, b"\xff\x11" + rec, 0x90, pid)
        if t == 0xC0 and p[0] == 0x23:
            return at5_frame(0xC0, c0(0x23, 10, [self.ac_status_record]), 0x80, pid)
        if t == 0xC0 and p[0] == 0x33:
            return at5_frame(0xC0, c0(0x33, 9, [bytes([0, 0x80, 0, 0x80, 0, 0, 0, 0, 0])]), 0x80, pid)
        if t == 0xC0 and p[0] == 0x21:
            zone = bytes([0x40, 0x80, 0x96, 0x80, 0x02, 0xE7, 0x00, 0x00])
            return at5_frame(0xC0, c0(0x21, 8, [zone]), 0x80, pid)
        return None



class Capture(logging.Handler):
    def __init__(self) -> None:
        super().__init__()
        self.errors: list[str] = []

    def emit(self, record: logging.LogRecord) -> None:
        if record.levelno >= logging.ERROR:
            exc = record.exc_info[1] if record.exc_info else None
            self.errors.append(f"{record.getMessage()} [{exc!r}]")


async def scenario(generation: int, good: bytes, not_available: bytes, what: str) -> int:
    console = Console(generation, good)
    connections = 0
    original = console.open_connection

    async def counting_open_connection(*args, **kwargs):  # noqa: ANN002, ANN003, ANN202
        nonlocal connections
        connections += 1
        return await original(*args, **kwargs)

    model = (
        pyairtouch.AirTouchModel.AIRTOUCH_4
        if generation == 4
        else pyairtouch.AirTouchModel.AIRTOUCH_5
    )
    capture = Capture()
    logger = logging.getLogger("pyairtouch")
    logger.addHandler(capture)
    logger.propagate = False
    try:
        with mock.patch.object(asyncio, "open_connection", counting_open_connection):
            airtouch = pyairtouch.connect(model, "console", 9000 + generation)
            assert await airtouch.init(), "handshake with the scripted console failed"
            ac = airtouch.air_conditioners[0]
            assert connections == 1
            updates = []

            async def on_update(ac_id: int) -> None:
                updates.append(ac_id)

            ac.subscribe(on_update)

            # The AC goes into a state in which the console reports 'not
            # available' (e.g. the unit lost communication).  The console
            # publishes the change and answers every later AC status request
            # with the same record.
            console.ac_status_record = not_available
            if generation == 4:
                frame = at4_frame(0x2D, not_available)
            else:
                frame = at5_frame(0xC0, c0(0x23, 10, [not_available]))
            assert console.reader is not None
            console.reader.feed_data(frame)

            turns = 3000
            for _ in range(turns):
                await asyncio.sleep(0)

            print(f"AirTouch {generation}: AC status with {what}")
            print(f"   connections opened in {turns} event-loop turns : {connections}")
            print(f"   subscriber notifications                       : {len(updates)}")
            print(f"   first error logged by the receive task         : "
                  f"{capture.errors[0] if capture.errors else None}")
            await airtouch.shutdown()
    finally:
        logger.removeHandler(capture)

    # A correct client decodes the record (field absent) on the connection it has;
    # even a client that rejects the frame must not reconnect more than once.
    return 1 if connections > 2 else 0


async def main() -> int:
    bad = 0
    # AirTouch 4 (0x2D): Byte2 Bit4-1 fan speed, "Other: Not available" -> 0xF.
    bad += await scenario(
        4,
        bytes([0x40, 0x42, 0x1A, 0x00, 0x61, 0x80, 0x00, 0x00]),
        bytes([0x40, 0x4F, 0x1A, 0x00, 0x61, 0x80, 0x00, 0x00]),
        "fan speed 0b1111 ('Other: Not available')",
    )
    # AirTouch 4 (0x2D): Byte1 Bit8-7 power state, "10/11: Not available".
    bad += await scenario(
        4,
        bytes([0x40, 0x42, 0x1A, 0x00, 0x61, 0x80, 0x00, 0x00]),
        bytes([0x80, 0x42, 0x1A, 0x00, 0x61, 0x80, 0x00, 0x00]),
        "power state 0b10 ('10/11: Not available')",
    )
    # AirTouch 5 (0xC0/0x23): Byte2 Bit8-5 mode, "Other: Not available" -> 0xF.
    bad += await scenario(
        5,
        bytes([0x10, 0x12, 0x78, 0xC0, 0x02, 0xDA, 0, 0, 0x80, 0]),
        bytes([0x10, 0xF2, 0x78, 0xC0, 0x02, 0xDA, 0, 0, 0x80, 0]),
        "mode 0b1111 ('Other: Not available')",
    )
    if bad:
        print(f"\nDEFECT (C05/C17): in {bad} scenario(s) a documented 'not available' "
              "value made the client reset and re-open the connection in a tight loop.")
        return 1
    print("no defect observed")
    return 0


if __name__ == "__main__":
    sys.exit(asyncio.run(main()))
