"""C05: the documented 'not available' values of the AC status records are
decoded to ordinary temperatures / set-points instead of absent values.

Self-contained: a scripted in-memory console (built from the byte layouts of the
vendor protocol documents, without using the pyairtouch codecs) is connected to
the real client through a patched asyncio.open_connection.  The client is
created with the public factory (pyairtouch.connect) and initialised with the
normal handshake; afterwards the public properties are read.

Exit status 1 when the defect shows.
"""

import asyncio
import sys
from unittest import mock

import pyairtouch


# ---------------------------------------------------------------- wire helpers
def crc16_modbus(data: bytes) -> bytes:
    crc = 0xFFFF
    for b in data:
        crc ^= b
        for _ in range(8):
            crc = (crc >> 1) ^ 0xA001 if crc & 1 else crc >> 1
    return crc.to_bytes(2, "big")


def at4_frame(msg_type: int, payload: bytes, frm: int = 0x80, pid: int = 1) -> bytes:
    body = bytes([0xB0, frm, pid, msg_type]) + len(payload).to_bytes(2, "big") + payload
    return b"\x55\x55" + body + crc16_modbus(body)


def at5_frame(msg_type: int, payload: bytes, frm: int = 0x80, pid: int = 1) -> bytes:
    body = bytes([0xB0, frm, pid, msg_type]) + len(payload).to_bytes(2, "big") + payload
    inner = b"\x55\x55\x55\xaa" + body + crc16_modbus(body)
    n = len(inner).to_bytes(2, "big")
    return b"\x55\x55\x55\xab\x00\x00" + n + n + inner


def c0(sub: int, repeat_len: int, records: list[bytes]) -> bytes:
    return (
        bytes([sub, 0, 0, 0])
        + repeat_len.to_bytes(2, "big")
        + len(records).to_bytes(2, "big")
        + b"".join(records)
    )


# ------------------------------------------------------------ scripted console
class Writer:
    def __init__(self, console: "Console") -> None:
        self.console = console
        self.closing = False
        self.closed = asyncio.get_running_loop().create_future()

    def write(self, data: bytes) -> None:
        self.console.from_client(bytes(data))

    async def drain(self) -> None:
        await asyncio.sleep(0)

    def is_closing(self) -> bool:
        return self.closing

    def close(self) -> None:
        self.closing = True
        if not self.closed.done():
            self.closed.set_result(None)

    async def wait_closed(self) -> None:
        await self.closed


class Console:
    """Answers the client's requests with canned frames."""

    def __init__(self, generation: int, ac_status_record: bytes) -> None:
        self.generation = generation
        self.ac_status_record = ac_status_record
        self.rx = bytearray()
        self.reader: asyncio.StreamReader | None = None

    async def open_connection(self, host=None, port=None, **_):  # noqa: ANN001
        self.reader = asyncio.StreamReader()
        self.rx.clear()
        return self.reader, Writer(self)

    def from_client(self, data: bytes) -> None:
        self.rx.extend(data)
        hdr = 8 if self.generation == 4 else 20
        while len(self.rx) >= hdr:
            length = int.from_bytes(self.rx[hdr - 2 : hdr], "big")
            if len(self.rx) < hdr + length + 2:
                return
            msg_type, payload = self.rx[hdr - 3], bytes(self.rx[hdr : hdr + length])
            pid = self.rx[hdr - 4]
            del self.rx[: hdr + length + 2]
            answer = (self.answer4 if self.generation == 4 else self.answer5)(
                msg_type, payload, pid
            )
            if answer and self.reader:
                self.reader.feed_data(answer)

    # AirTouch 4, protocol v1.6 section 4
    def answer4(self, t: int, p: bytes, pid: int) -> bytes | None:
        if t == 0x1F and p[:2] == b"\xff\x30":
            return at4_frame(0x1F, b"\xff\x30\x00\x05" + b"1.3.3", 0x90, pid)
        if t == 0x1F and p[:2] == b"\xff\x12":
            return at4_frame(0x1F, b"\xff\x12\x00" + b"Living\0\0", 0x90, pid)
        if t == 0x1F and p[:2] == b"\xff\x11":
            rec = bytes([0x00, 0x16]) + b"UNIT".ljust(16, b"\0")
            rec += bytes([0x00, 0x01, 0x17, 0x1D, 0x11, 0x1F])
            return at4_frame(0x1F, b"\xff\x11" + rec, 0x90, pid)
        if t == 0x2D:
            return at4_frame(0x2D, self.ac_status_record, 0x80, pid)
        if t == 0x37:
            return at4_frame(0x37, bytes([0x80, 0, 0x80, 0, 0, 0, 0, 0]) * 4, 0x80, pid)
        if t == 0x2B:
            return at4_frame(0x2B, bytes([0x40, 0x64, 0x00, 0x00, 0xFF, 0x00]), 0x80, pid)
        return None

    # AirTouch 5, protocol v1.2 section 4
    def answer5(self, t: int, p: bytes, pid: int) -> bytes | None:
        if t == 0x1F and p[:2] == b"\xff\x30":
            return at5_frame(0x1F, b"\xff\x30\x00\x05" + b"1.0.3", 0x90, pid)
        if t == 0x1F and p[:2] == b"\xff\x13":
            return at5_frame(0x1F, b"\xff\x13\x00\x06" + b"Living", 0x90, pid)
        if t == 0x1F and p[:2] == b"\xff\x11":
            rec = bytes([0x00, 0x18]) + b"UNIT".ljust(16, b"\0")
            rec += bytes([0x00, 0x01, 0x17, 0x1D, 0x10, 0x1F, 0x12, 0x1F])
            return at5_frame(0x1F, b"\xff\x11" + rec, 0x90, pid)
        if t == 0xC0 and p[0] == 0x23:
            return at5_frame(0xC0, c0(0x23, 10, [self.ac_status_record]), 0x80, pid)
        if t == 0xC0 and p[0] == 0x33:
            return at5_frame(0xC0, c0(0x33, 9, [bytes([0, 0x80, 0, 0x80, 0, 0, 0, 0, 0])]), 0x80, pid)
        if t == 0xC0 and p[0] == 0x21:
            zone = bytes([0x40, 0x80, 0x96, 0x80, 0x02, 0xE7, 0x00, 0x00])
            return at5_frame(0xC0, c0(0x21, 8, [zone]), 0x80, pid)
        return None


async def read_ac(generation: int, record: bytes):  # noqa: ANN201
    console = Console(generation, record)
    model = (
        pyairtouch.AirTouchModel.AIRTOUCH_4
        if generation == 4
        else pyairtouch.AirTouchModel.AIRTOUCH_5
    )
    with mock.patch.object(asyncio, "open_connection", console.open_connection):
        airtouch = pyairtouch.connect(model, "console", 9000 + generation)
        ok = await airtouch.init()
        assert ok, "handshake with the scripted console failed"
        ac = airtouch.air_conditioners[0]
        result = (ac.current_temperature, ac.target_temperature, ac.power_state)
        await airtouch.shutdown()
    return result


async def main() -> int:
    bad = 0

    # Sanity: the example records of the protocol documents decode as documented.
    t, sp, _ = await read_ac(4, bytes([0x40, 0x42, 0x1A, 0x00, 0x61, 0x80, 0x00, 0x00]))
    assert (t, sp) == (28.0, 26), (t, sp)
    t, sp, _ = await read_ac(5, bytes([0x10, 0x12, 0x78, 0xC0, 0x02, 0xDA, 0, 0, 0x80, 0]))
    assert (t, sp) == (23.0, 22.0), (t, sp)

    # AirTouch 4, AC status (0x2D): "Byte5 = 0xff, Not available".
    t, sp, _ = await read_ac(4, bytes([0x40, 0x42, 0x1A, 0x00, 0xFF, 0x00, 0x00, 0x00]))
    print(f"AT4 AC status, Byte5=0xff (temperature not available): "
          f"current_temperature = {t!r}")
    if t is not None:
        bad += 1
        print("   -> WRONG: the documented 'not available' value is reported as a "
              "measured temperature")

    # AirTouch 5, AC status (0xC0/0x23): Byte3 "0-250 ... Other: Not available",
    # Byte5-6 "0-2000 ... Other: Not available".
    t, sp, _ = await read_ac(5, bytes([0x10, 0x12, 0xFF, 0xC0, 0x07, 0xFF, 0, 0, 0, 0]))
    print(f"AT5 AC status, Byte3=0xff, Byte5-6=0x07ff (both not available): "
          f"target_temperature = {sp!r}, current_temperature = {t!r}")
    if sp is not None:
        bad += 1
        print("   -> WRONG: set-point 'not available' is reported as a set-point")
    if t is not None:
        bad += 1
        print("   -> WRONG: temperature 'not available' is reported as a temperature")

    # For comparison, the zone/group records treat the same sentinels correctly.
    if bad:
        print(f"\nDEFECT (C05): {bad} documented not-available sentinel(s) of the AC "
              "status were decoded to ordinary values.")
        return 1
    print("no defect observed")
    return 0


if __name__ == "__main__":
    sys.exit(asyncio.run(main()))
