"""C13 / C06: the read loop of a connection that has been replaced keeps running
and starts to read from the NEW connection's stream.

`AirTouchSocket._read()` loops on `while self._reader:` - the attribute, not the
reader it was started for.  While the loop is suspended in the delivery of a
message to a slow subscriber, somebody else (the heartbeat monitor, a failing
`send()`) may reset the connection and the re-connection may complete.  When the
old loop resumes, `self._reader` is the new connection's reader, so two loops
read from one stream.  The second `readexactly()` raises
RuntimeError("readexactly() called while another coroutine is already waiting
for incoming data"), `_read()` treats that as a broken connection and resets the
perfectly healthy new connection: a frame of which the console had sent the first
TCP segment is never delivered.

Fake transport: real asyncio.StreamReader objects, an in-memory writer and an
`asyncio.open_connection` that takes 5 ms.  Exit status 1 when the defect shows.
"""

import asyncio
import logging
import sys
from unittest import mock

import pyairtouch.at4.comms.registry as at4_registry
from pyairtouch import comms
from pyairtouch.comms.socket import AirTouchSocket


def crc16_modbus(data: bytes) -> bytes:
    crc = 0xFFFF
    for b in data:
        crc ^= b
        for _ in range(8):
            crc = (crc >> 1) ^ 0xA001 if crc & 1 else crc >> 1
    return crc.to_bytes(2, "big")


def at4_frame(msg_type: int, payload: bytes) -> bytes:
    body = bytes([0xB0, 0x80, 1, msg_type]) + len(payload).to_bytes(2, "big") + payload
    return b"\x55\x55" + body + crc16_modbus(body)


class Writer:
    """In-memory stand-in for the StreamWriter of one connection."""

    def __init__(self, reader: asyncio.StreamReader) -> None:
        self.reader = reader
        self.closing = False
        self.closed = asyncio.get_running_loop().create_future()

    def write(self, data: bytes) -> None:
        pass

    async def drain(self) -> None:
        await asyncio.sleep(0)

    def is_closing(self) -> bool:
        return self.closing

    def close(self) -> None:
        if self.closing:
            return
        self.closing = True
        # Like a real transport: connection_lost() runs on the next loop turn,
        # ends the stream for the reader and completes wait_closed().
        loop = asyncio.get_running_loop()
        loop.call_soon(self.reader.feed_eof)
        loop.call_soon(self.closed.set_result, None)

    async def wait_closed(self) -> None:
        await self.closed


class Capture(logging.Handler):
    def __init__(self) -> None:
        super().__init__(logging.ERROR)
        self.errors: list[str] = []

    def emit(self, record: logging.LogRecord) -> None:
        exc = record.exc_info[1] if record.exc_info else None
        self.errors.append(f"{record.getMessage()} [{exc!r}]")


async def main() -> int:
    loop = asyncio.get_running_loop()
    t0 = loop.time()

    def ms() -> str:
        return f"{(loop.time() - t0) * 1000:5.0f} ms"

    connections: list[tuple[asyncio.StreamReader, Writer]] = []

    async def open_connection(host=None, port=None, **_):  # noqa: ANN001, ANN003, ANN202
        await asyncio.sleep(0.005)  # a TCP handshake on the LAN
        reader = asyncio.StreamReader()
        pair = (reader, Writer(reader))
        connections.append(pair)
        print(f"{ms()}  connection #{len(connections)} established")
        return pair

    capture = Capture()
    logging.getLogger("pyairtouch").addHandler(capture)
    logging.getLogger("pyairtouch").propagate = False

    delivered: list[bytes] = []

    async def slow_subscriber(_: object, message: comms.Message) -> None:
        assert isinstance(message, comms.UnsupportedMessage)
        delivered.append(bytes(message.raw_data))
        print(f"{ms()}  subscriber got {bytes(message.raw_data)!r}")
        await asyncio.sleep(0.05)  # an application callback that takes 50 ms

    with mock.patch.object(asyncio, "open_connection", open_connection):
        sock = AirTouchSocket(loop, "console", 9004, at4_registry.INSTANCE)
        sock.subscribe_on_message_received(slow_subscriber)
        await sock.open_socket()
        await asyncio.sleep(0.02)

        # The console sends F1; the read loop of connection #1 delivers it and is
        # now suspended in the 50 ms subscriber.
        connections[0][0].feed_data(at4_frame(0x77, b"F1"))
        await asyncio.sleep(0.01)

        # Meanwhile another party resets the connection.  This is what
        # HeartbeatManager does on a heartbeat timeout and what a failing
        # send() does.
        print(f"{ms()}  reset_connection() by another task (e.g. heartbeat timeout)")
        await sock.reset_connection()
        await asyncio.sleep(0.01)
        assert len(connections) == 2 and sock.is_connected

        # The console sends F2 on the new connection, cut into two TCP segments
        # that arrive 60 ms apart.
        f2 = at4_frame(0x77, b"F2" * 20)
        print(f"{ms()}  console sends the first segment of F2 on connection #2")
        connections[1][0].feed_data(f2[:13])
        await asyncio.sleep(0.06)
        print(f"{ms()}  console wants to send the second segment of F2 on connection #2"
              f" - the client has closed that connection: {connections[1][1].closing}")
        if not connections[1][1].closing:
            connections[1][0].feed_data(f2[13:])
        await asyncio.sleep(0.15)

        await sock.close()

    print()
    print("connections opened :", len(connections), "(expected 2)")
    print("messages delivered :", delivered, "(expected F1 and F2)")
    print("errors logged      :", capture.errors)
    if len(connections) != 2 or delivered != [b"F1", b"F2" * 20]:
        print("\nDEFECT (C13/C06): the stale read loop of connection #1 read from "
              "connection #2; the healthy connection #2 was reset and F2 was lost.")
        return 1
    print("no defect observed")
    return 0


if __name__ == "__main__":
    sys.exit(asyncio.run(main()))
