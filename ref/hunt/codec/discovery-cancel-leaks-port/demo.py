"""C18 ("... and always returns"): a discovery that is cancelled by its caller
(the usual `asyncio.wait_for(..., timeout)` pattern) never closes its UDP
endpoint.  The endpoint stays bound to 0.0.0.0:49004 / 49005 for the life of the
event loop, so every later discovery in the same process fails with
OSError(EADDRINUSE) instead of returning a (possibly empty) list.

Uses real UDP sockets on the loopback interface (unicast mode, nobody answers).
Exit status 1 when the defect shows.
"""

import asyncio
import sys

import pyairtouch
import pyairtouch.at4.comms.discovery as at4_discovery
import pyairtouch.at5.comms.discovery as at5_discovery
from pyairtouch.comms.discovery import AirTouchDiscoverer


async def part1() -> int:
    """AirTouchDiscoverer.search() cancelled while it waits for answers."""
    print("Part 1: AirTouchDiscoverer.search() (AirTouch 5, unicast to 127.0.0.1)")
    discoverer = AirTouchDiscoverer(at5_discovery.CONFIG, remote_host="127.0.0.1")

    print("   reference: an undisturbed search returns", await discoverer.search())
    await asyncio.sleep(0.1)  # let the loop finish closing the reference endpoint

    try:
        # The search needs 3 x 0.5 s when nobody answers; the caller allows 0.7 s.
        await asyncio.wait_for(discoverer.search(), timeout=0.7)
    except asyncio.TimeoutError:
        print("   the caller's 0.7 s timeout cancelled the second search")

    bad = 0
    for wait in (0.0, 3.0):
        await asyncio.sleep(wait)
        try:
            result = await discoverer.search()
            print(f"   search {wait:.0f} s after the cancellation returned {result}")
        except OSError as ex:
            bad = 1
            print(f"   search {wait:.0f} s after the cancellation RAISED {ex!r}")
    return bad


async def part2() -> int:
    """The public entry point: pyairtouch.discover()."""
    print("Part 2: pyairtouch.discover(remote_host='127.0.0.1')")
    try:
        await asyncio.wait_for(pyairtouch.discover(remote_host="127.0.0.1"), 0.7)
    except asyncio.TimeoutError:
        print("   the caller's 0.7 s timeout cancelled discover()")
    try:
        result = await pyairtouch.discover(remote_host="127.0.0.1")
        print("   the next discover() returned", result)
    except OSError as ex:
        print(f"   the next discover() RAISED {ex!r}")
        return 1
    return 0


async def part3() -> int:
    """Side observation: two searches directly after one another."""
    print("Part 3: two AirTouchDiscoverer.search() calls back to back (AirTouch 4)")
    discoverer = AirTouchDiscoverer(at4_discovery.CONFIG, remote_host="127.0.0.1")
    print("   first search returned", await discoverer.search())
    try:
        print("   second search returned", await discoverer.search())
    except OSError as ex:
        # transport.close() only schedules the close of the socket; search()
        # returns before the port is free again.
        print(f"   second search RAISED {ex!r}")
        return 1
    return 0


async def main() -> int:
    loop = asyncio.get_running_loop()
    loop.set_exception_handler(lambda *_: None)  # keep the output readable
    # Part 2 first: Part 1 leaves port 49005 blocked for the rest of the process.
    bad2 = await part2()
    await asyncio.sleep(2.0)  # let the detached searches of part 2 finish
    bad3 = await part3()
    await asyncio.sleep(0.1)
    bad1 = await part1()
    if bad3:
        print("\nSIDE OBSERVATION: search() returns before its own endpoint is closed, "
              "so an immediately following search() cannot bind the port.")
    if bad1 or bad2:
        print("\nDEFECT (C18): after a cancelled discovery the next discovery does not "
              "return; the UDP endpoint of the cancelled search was never closed.")
        return 1
    print("no defect observed")
    return 0


if __name__ == "__main__":
    sys.exit(asyncio.run(main()))
