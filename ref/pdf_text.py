import re, sys, glob
# crude text extraction from content streams: collect (page, y, x, text)
def parse_cmap(b):
    m = {}
    for blk in re.findall(rb'beginbfchar(.*?)endbfchar', b, re.S):
        for a, c in re.findall(rb'<([0-9A-Fa-f]+)>\s*<([0-9A-Fa-f]+)>', blk):
            m[int(a,16)] = bytes.fromhex(c.decode()).decode('utf-16-be', 'replace')
    for blk in re.findall(rb'beginbfrange(.*?)endbfrange', b, re.S):
        for line in blk.strip().split(b'\n'):
            mm = re.match(rb'\s*<([0-9A-Fa-f]+)>\s*<([0-9A-Fa-f]+)>\s*<([0-9A-Fa-f]+)>', line)
            if mm:
                a, z, c = (int(g,16) for g in mm.groups())
                for i in range(a, z+1): m[i] = chr(c + i - a)
                continue
            mm = re.match(rb'\s*<([0-9A-Fa-f]+)>\s*<([0-9A-Fa-f]+)>\s*\[(.*)\]', line)
            if mm:
                a = int(mm.group(1),16)
                for i, c in enumerate(re.findall(rb'<([0-9A-Fa-f]+)>', mm.group(3))):
                    m[a+i] = bytes.fromhex(c.decode()).decode('utf-16-be','replace')
    return m
prefix = sys.argv[1]
cmaps = {}
allmap = {}
for f in glob.glob(f'/tmp/pdfx/{prefix}_*.bin'):
    b = open(f,'rb').read()
    if b.startswith(b'/CIDInit'):
        allmap.update(parse_cmap(b))
def unesc(s):
    out = bytearray(); i = 0
    while i < len(s):
        c = s[i]
        if c == 0x5c:
            i += 1; d = s[i:i+1]
            if d in b'nrtbf': out += {b'n':b'\n',b'r':b'\r',b't':b'\t',b'b':b'\b',b'f':b'\f'}[d]
            elif d.isdigit():
                j = i
                while j < i+3 and s[j:j+1].isdigit(): j += 1
                out.append(int(s[i:j],8) & 255); i = j-1
            else: out += d
        else: out.append(c)
        i += 1
    return out.decode('latin-1')
files = sorted([f for f in glob.glob(f'/tmp/pdfx/{prefix}_*.bin')], key=lambda f:int(re.search(r'_(\d+)\.bin',f).group(1)))
for f in files:
    b = open(f,'rb').read()
    if b'BT' not in b or b' Tf' not in b: continue
    items = []
    x = y = 0.0
    for bt in re.findall(rb'BT(.*?)ET', b, re.S):
        tm = re.search(rb'1 0 0 1 ([\d.\-]+) ([\d.\-]+) Tm', bt)
        if tm: x, y = float(tm.group(1)), float(tm.group(2))
        txt = ''
        for arr in re.findall(rb'\[(.*?)\]\s*TJ', bt, re.S):
            for tok in re.finditer(rb'\(((?:\\.|[^\\)])*)\)|<([0-9A-Fa-f]+)>', arr):
                if tok.group(1) is not None: txt += unesc(tok.group(1))
                else:
                    h = tok.group(2).decode()
                    for i in range(0, len(h), 4):
                        txt += allmap.get(int(h[i:i+4],16), '?')
        for tok in re.finditer(rb'\(((?:\\.|[^\\)])*)\)\s*Tj', bt):
            txt += unesc(tok.group(1))
        for tok in re.finditer(rb'<([0-9A-Fa-f]+)>\s*Tj', bt):
            h = tok.group(1).decode()
            for i in range(0, len(h), 4): txt += allmap.get(int(h[i:i+4],16), '?')
        if txt: items.append((round(y), x, txt))
    print(f'===== stream {f} =====')
    rows = {}
    for yy, xx, t in items: rows.setdefault(yy, []).append((xx, t))
    for yy in sorted(rows, reverse=True):
        print(' | '.join(t for _, t in sorted(rows[yy])).replace('  ',' '))
