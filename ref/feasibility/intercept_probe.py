"""Prototype of harness-level interception (no repo edits): every call the socket makes into its
environment is logged with the current task and a snapshot of the socket's private state."""
import asyncio, sys, logging, functools
sys.path.insert(0,'/tmp/proto')
from vloop import *
import pyairtouch.comms.socket as S
import pyairtouch.at4.comms.registry as R4
import pyairtouch.at4.comms.x2C_ac_ctrl as ac
logging.basicConfig(level=logging.CRITICAL)
LOG=[]; TASKS={}
def tid():
    t = asyncio.current_task()
    if t is None: return "-"
    if t not in TASKS: TASKS[t] = f"T{len(TASKS)}:{t.get_coro().__qualname__.split('.')[-1]}"
    return TASKS[t]
SOCK=None
def snap():
    s=SOCK
    return dict(open=s.is_open, conn=s.is_connected, w=(None if s._writer is None else s._writer.cid), q=[(e.message.ac_number,e.retries_remaining) for e in s._message_queue], bg=len(s._background_tasks))
def ev(kind, **kw): LOG.append((tid(), kind, kw, snap()))

class WProxy:
    def __init__(self, w, cid): self._w=w; self.cid=cid
    def write(self, b): ev("write", n=len(b)); self._w.write(b)
    def close(self): ev("wclose"); self._w.close()
    def is_closing(self): r=self._w.is_closing(); ev("is_closing", r=r); return r
    async def drain(self):
        ev("drain>")
        try: await self._w.drain()
        except BaseException as e: ev("drain!", e=type(e).__name__); raise
        ev("drain<")
    async def wait_closed(self):
        ev("wait_closed>")
        try: await self._w.wait_closed()
        except BaseException as e: ev("wait_closed!", e=type(e).__name__); raise
        ev("wait_closed<")
class RProxy:
    def __init__(self, r, cid): self._r=r; self.cid=cid
    async def readexactly(self, n):
        ev("read>", n=n, cid=self.cid)
        try: d = await self._r.readexactly(n)
        except BaseException as e: ev("read!", e=type(e).__name__, cid=self.cid); raise
        ev("read<", n=n, cid=self.cid); return d
_real_open = asyncio.open_connection
async def open_connection(host=None, port=None, **kw):
    ev("open>")
    try: r, w = await _real_open(host=host, port=port, **kw)
    except BaseException as e: ev("open!", e=type(e).__name__); raise
    cid = w.transport.cid
    ev("open<", cid=cid)
    return RProxy(r, cid), WProxy(w, cid)
asyncio.open_connection = open_connection

def mk(n): return ac.AcControlMessage(ac_number=n, power=ac.AcPowerControl.TURN_ON, mode=ac.AcModeControl.UNCHANGED, fan_speed=ac.AcFanSpeedControl.UNCHANGED, set_point_control=None)
async def main(loop):
    global SOCK
    net = loop.net = Net(); net.latency=0.05
    s = SOCK = S.AirTouchSocket(loop, "h", 9004, R4.INSTANCE)
    async def csub(*, connected): ev("sub_conn", c=connected)
    async def msub(h, m): ev("sub_msg", m=type(m).__name__)
    s.subscribe_on_connection_changed(csub); s.subscribe_on_message_received(msub)
    ev("api:open"); await s.open_socket(); await asyncio.sleep(0.1)
    ev("api:send"); await s.send(mk(1), S.RETRY_IDEMPOTENT); ev("api:send<")
    net.conns[0].peer_send(bytes.fromhex("555580b0012d0000f4cf")); await asyncio.sleep(0.01)
    net.conns[0].fail_writes=True
    ev("api:send"); await s.send(mk(2), S.RETRY_IDEMPOTENT); ev("api:send<")
    await asyncio.sleep(1)
    ev("api:close"); await s.close(); ev("api:close<")
loop = VLoop(); asyncio.set_event_loop(loop)
loop.run_until_complete(main(loop))
for l in LOG: print(l)
