-- scratch: proof-style feasibility
namespace T

/-- vendor style bit slice: bits hi..lo (1-based, inclusive) of byte b -/
def bits (b hi lo : Nat) : Nat := (b / 2^(lo-1)) % 2^(hi-lo+1)

structure AcCtl where
  ac : Nat      -- < 64
  power : Nat   -- < 4
  mode : Nat    -- 0..4 or 15 (keep)
  fan : Nat     -- 0..6 or 15
  spType : Nat  -- < 4
  spVal : Nat   -- < 64
deriving DecidableEq, Repr

def AcCtl.WF (m : AcCtl) : Prop := m.ac < 64 ∧ m.power < 4 ∧ m.mode < 16 ∧ m.fan < 16 ∧ m.spType < 4 ∧ m.spVal < 64

def enc (m : AcCtl) : List Nat := [m.power * 64 + m.ac, m.mode * 16 + m.fan, m.spType * 64 + m.spVal, 0]

def dec : List Nat → Option AcCtl
  | [b1, b2, b3, _] => some { ac := b1 % 64, power := (b1 / 64) % 4, mode := (b2 / 16) % 16, fan := b2 % 16, spType := (b3/64) % 4, spVal := b3 % 64 }
  | _ => none

theorem rt (m : AcCtl) (h : m.WF) : dec (enc m) = some m := by
  obtain ⟨h1,h2,h3,h4,h5,h6⟩ := h
  cases m
  simp only [enc, dec, Option.some.injEq, AcCtl.mk.injEq] at *
  omega

-- spec reader in vendor notation agrees
theorem spec_power (m : AcCtl) (h : m.WF) : bits ((enc m)[0]!) 8 7 = m.power := by
  obtain ⟨h1,h2,h3,h4,h5,h6⟩ := h
  simp [enc, bits]; omega

-- UTF-8
#eval (String.fromUTF8? ⟨#[0xC0, 0x80]⟩)          -- overlong NUL must be rejected
#eval (String.fromUTF8? ⟨#[0xED, 0xA0, 0x80]⟩)    -- surrogate must be rejected
#eval (String.fromUTF8? ⟨#[0xF4, 0x90, 0x80, 0x80]⟩)  -- > U+10FFFF rejected
#eval (String.fromUTF8? ⟨#[0xE2, 0x82, 0xAC]⟩)    -- €
#eval ("é€".toUTF8)
end T
