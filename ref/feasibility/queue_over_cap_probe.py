import asyncio, sys, logging
sys.path.insert(0,'/tmp/proto')
from vloop import *
import pyairtouch.comms.socket as S
import pyairtouch.at4.comms.registry as R4
import pyairtouch.at4.comms.x2C_ac_ctrl as ac
logging.basicConfig(level=logging.CRITICAL)
def mk(n): return ac.AcControlMessage(ac_number=n, power=ac.AcPowerControl.TURN_ON, mode=ac.AcModeControl.UNCHANGED, fan_speed=ac.AcFanSpeedControl.UNCHANGED, set_point_control=None)
async def main(loop):
    net = loop.net = Net(); net.mode="refuse"
    s = S.AirTouchSocket(loop, "h", 9004, R4.INSTANCE)
    await s.open_socket(); await asyncio.sleep(0.1)
    # one message at a time so the shadowing defect does not matter: queue of 1, then connect with blocked drain
    await s.send(mk(0), S.RETRY_IDEMPOTENT)
    net.mode="accept"
    orig = Net.connect
    async def connect(self, loop_, pf, host, port):
        t, p = await orig(self, loop_, pf, host, port)
        p.pause_writing()          # drain() will block until resume_writing or connection_lost
        return t, p
    Net.connect = connect
    await asyncio.sleep(2.5)
    print("connected", s.is_connected, "queue", len(s._message_queue))
    tasks = [asyncio.ensure_future(s.send(mk(i % 4), S.RETRY_IDEMPOTENT)) for i in range(1, 14)]
    await asyncio.sleep(0.1)
    print("in-flight sends:", sum(not t.done() for t in tasks), "queue", len(s._message_queue))
    Net.connect = orig; net.mode = "refuse"
    net.conns[-1].peer_reset()
    await asyncio.sleep(0.5)
    print("after write failures: queue length =", len(s._message_queue), "(MAX_MESSAGE_QUEUE_SIZE = 10)")
    for t in tasks: t.cancel()
    await s.close()
loop = VLoop(); asyncio.set_event_loop(loop)
loop.run_until_complete(main(loop))
