import Crcp.Crc
namespace Crcp

def fb (c : Nat) : Nat := if c % 2 = 1 then 0xA001 else 0

theorem bitStep_eq (c : Nat) : bitStep c = (c / 2) ^^^ fb c := by
  unfold bitStep fb; split <;> simp [Nat.shiftRight_eq_div_pow]

theorem xor_even_mod2 (a d : Nat) (hd : d % 2 = 0) : (a ^^^ d) % 2 = a % 2 := by
  have := @Nat.xor_mod_two_pow a d 1
  simp only [Nat.pow_one] at this
  rw [this, hd, Nat.xor_zero]

theorem bitStep_xor_even (a d : Nat) (hd : d % 2 = 0) :
    bitStep (a ^^^ d) = bitStep a ^^^ (d / 2) := by
  simp only [bitStep_eq, fb, xor_even_mod2 a d hd, Nat.xor_div_two]
  rw [Nat.xor_assoc, Nat.xor_comm (d / 2), ← Nat.xor_assoc]

def bitStepN : Nat → Nat → Nat
  | 0, c => c
  | n+1, c => bitStepN n (bitStep c)

theorem bitStepN_xor (n : Nat) : ∀ (a d : Nat), d % 2^n = 0 →
    bitStepN n (a ^^^ d) = bitStepN n a ^^^ (d / 2^n) := by
  induction n with
  | zero => intro a d _; simp [bitStepN]
  | succ n ih =>
    intro a d hd
    rw [Nat.pow_succ] at hd
    have hd2 : d % 2 = 0 := by
      have h := Nat.mod_mul_left_mod d (2^n) 2
      omega
    have hshift : (d / 2) % 2^n = 0 := by
      have h := @Nat.mod_mul_right_div_self d 2 (2^n)
      rw [Nat.mul_comm] at hd
      omega
    simp only [bitStepN]
    rw [bitStep_xor_even a d hd2, ih _ _ hshift, Nat.div_div_eq_div_mul, Nat.pow_succ, Nat.mul_comm]

theorem stepBitwise_eq (crc b : Nat) : stepBitwise crc b = bitStepN 8 (crc ^^^ b) := rfl


theorem split_xor (c : Nat) : c = (c % 2^8) ^^^ ((c / 2^8) * 2^8) := by
  apply Nat.eq_of_testBit_eq
  intro i
  simp only [Nat.testBit_xor, Nat.testBit_mod_two_pow, Nat.testBit_mul_two_pow, Nat.testBit_div_two_pow]
  by_cases h : i < 8
  · have h2 : ¬ 8 ≤ i := by omega
    simp [h, h2]
  · have : 8 ≤ i := by omega
    simp [h, this]

theorem table_spec' (i : Nat) (h : i < 256) : crcTable.getD i 0 = bitStepN 8 i := by
  have := table_spec ⟨i, h⟩
  simpa [bitStepN] using this

/-- the classic byte-at-a-time identity, for every register value and byte -/
theorem stepTable_eq_stepBitwise (crc b : Nat) (hb : b < 256) :
    stepTable crc b = stepBitwise crc b := by
  rw [stepBitwise_eq]
  generalize hc : crc ^^^ b = c
  have hdiv : c / 2^8 = crc / 2^8 := by
    rw [← hc, Nat.xor_div_two_pow, Nat.div_eq_of_lt (a := b) (by simpa using hb), Nat.xor_zero]
  have hlow : (c / 2^8 * 2^8) % 2^8 = 0 := Nat.mul_mod_left _ _
  conv => rhs; rw [split_xor c]
  rw [bitStepN_xor 8 _ _ hlow, Nat.mul_div_cancel _ (by decide : 0 < 2^8), hdiv]
  unfold stepTable
  have hidx : (b ^^^ crc) &&& 0xFF = c % 2^8 := by
    rw [Nat.xor_comm, hc]; exact Nat.and_two_pow_sub_one_eq_mod c 8
  simp only [hidx]
  rw [table_spec' _ (Nat.mod_lt _ (by decide)), Nat.shiftRight_eq_div_pow, Nat.xor_comm]

theorem crc_table_eq_bitwise (bs : List Nat) (h : ∀ b ∈ bs, b < 256) :
    crcTableDriven bs = crcBitwise bs := by
  unfold crcTableDriven crcBitwise
  generalize 0xFFFF = init
  induction bs generalizing init with
  | nil => rfl
  | cons b bs ih =>
    simp only [List.foldl_cons]
    rw [stepTable_eq_stepBitwise init b (h b (by simp))]
    exact ih (fun x hx => h x (by simp [hx])) _

#print axioms crc_table_eq_bitwise
end Crcp
