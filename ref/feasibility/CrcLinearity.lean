import Crcp.CrcProof
namespace Crcp

theorem fb_xor (a b : Nat) : fb (a ^^^ b) = fb a ^^^ fb b := by
  have h := @Nat.xor_mod_two_pow a b 1
  simp only [Nat.pow_one] at h
  unfold fb
  have ha : a % 2 = 0 ∨ a % 2 = 1 := by omega
  have hb : b % 2 = 0 ∨ b % 2 = 1 := by omega
  rcases ha with ha | ha <;> rcases hb with hb | hb <;> simp [h, ha, hb]

theorem bitStep_xor (a b : Nat) : bitStep (a ^^^ b) = bitStep a ^^^ bitStep b := by
  simp only [bitStep_eq, fb_xor, Nat.xor_div_two]
  -- (a/2 ^^^ b/2) ^^^ (fa ^^^ fb) = (a/2 ^^^ fa) ^^^ (b/2 ^^^ fb)
  simp only [Nat.xor_assoc]
  congr 1
  rw [← Nat.xor_assoc, Nat.xor_comm (b / 2), Nat.xor_assoc]

theorem bitStepN_lin (n : Nat) : ∀ a b, bitStepN n (a ^^^ b) = bitStepN n a ^^^ bitStepN n b := by
  induction n with
  | zero => intro a b; rfl
  | succ n ih => intro a b; simp only [bitStepN, bitStep_xor, ih]

theorem stepBitwise_lin (r r' b b' : Nat) :
    stepBitwise (r ^^^ r') (b ^^^ b') = stepBitwise r b ^^^ stepBitwise r' b' := by
  simp only [stepBitwise_eq]
  rw [← bitStepN_lin]
  congr 1
  -- (r ^^^ r') ^^^ (b ^^^ b') = (r ^^^ b) ^^^ (r' ^^^ b')
  simp only [Nat.xor_assoc]
  congr 1
  rw [← Nat.xor_assoc, Nat.xor_comm r', Nat.xor_assoc]

def xorL : List Nat → List Nat → List Nat
  | a :: as, b :: bs => (a ^^^ b) :: xorL as bs
  | _, _ => []

theorem run_lin (bs : List Nat) : ∀ (es : List Nat) (r r' : Nat), bs.length = es.length →
    (xorL bs es).foldl stepBitwise (r ^^^ r') = bs.foldl stepBitwise r ^^^ es.foldl stepBitwise r' := by
  induction bs with
  | nil => intro es r r' h; cases es <;> simp_all [xorL]
  | cons b bs ih =>
    intro es r r' h
    cases es with
    | nil => simp at h
    | cons e es =>
      simp only [xorL, List.foldl_cons]
      rw [stepBitwise_lin]
      exact ih es _ _ (by simpa using h)

/-- the register after a damaged message = register after the original xor the register the
    error pattern alone produces from 0 -/
theorem crc_damage (bs es : List Nat) (h : bs.length = es.length) :
    crcBitwise (xorL bs es) = crcBitwise bs ^^^ es.foldl stepBitwise 0 := by
  unfold crcBitwise
  have := run_lin bs es 0xFFFF 0 h
  simpa using this

#print axioms crc_damage
end Crcp
