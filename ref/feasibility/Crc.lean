import Crcp.Table
namespace Crcp

/-- table driven, as in crc16.py (Nat arithmetic, like Python ints) -/
def stepTable (crc : Nat) (b : Nat) : Nat :=
  let idx := (b ^^^ crc) &&& 0xFF
  (crc >>> 8) ^^^ crcTable.getD idx 0

def crcTableDriven (bs : List Nat) : Nat := bs.foldl stepTable 0xFFFF

/-- bitwise reference CRC-16/MODBUS: reflected poly 0xA001 -/
def bitStep (crc : Nat) : Nat :=
  if crc % 2 = 1 then (crc >>> 1) ^^^ 0xA001 else crc >>> 1

def stepBitwise (crc : Nat) (b : Nat) : Nat :=
  let c := crc ^^^ b
  bitStep (bitStep (bitStep (bitStep (bitStep (bitStep (bitStep (bitStep c)))))))

def crcBitwise (bs : List Nat) : Nat := bs.foldl stepBitwise 0xFFFF

-- table entries equal 8 bit-steps of the index
theorem table_spec : ∀ i : Fin 256, crcTable.getD i.val 0 =
    bitStep (bitStep (bitStep (bitStep (bitStep (bitStep (bitStep (bitStep i.val))))))) := by
  decide +kernel

end Crcp
