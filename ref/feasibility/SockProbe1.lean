/-! scratch feasibility probe: send/drain coroutines, any number of tasks, any interleaving -/
namespace Sk

abbrev Time := Nat
def CAP : Nat := 10

structure Entry where
  mid : Nat
  retries : Nat
  expiry : Time
deriving DecidableEq, Repr

/-- program counter of one sender task -/
inductive Pc
  | idle                      -- not inside send
  | drainHead                 -- at loop head of _drain_message_queue
  | awaitDrain (e : Entry)    -- suspended in `await writer.drain()` after writing e
deriving DecidableEq, Repr

structure Sys where
  now : Time
  isOpen : Bool
  connected : Bool
  queue : List Entry
  pcs : List Pc                      -- one per task
  wire : List (Nat × Time × Time)    -- (mid, time written, expiry)
deriving Repr

inductive Outcome | ok | notOpen | overflow deriving DecidableEq, Repr

inductive Label
  | tick (d : Nat)                               -- clock advances
  | netUp | netDown                              -- environment flips connectivity flag (abstracting _connect/_disconnect)
  | send (t : Nat) (mid retries : Nat) (life : Nat)   -- task t calls send
  | runHead (t : Nat)                            -- task t executes the block from the loop head
  | drainOk (t : Nat) | drainErr (t : Nat)       -- drain() returns / raises OSError for task t

def purge (now : Time) (q : List Entry) : List Entry := q.filter (fun e => now < e.expiry)

def setPc (pcs : List Pc) (t : Nat) (p : Pc) : List Pc := pcs.set t p

def inflight (pcs : List Pc) : Nat := (pcs.filter (fun p => match p with | .awaitDrain _ => true | _ => false)).length

/-- one atomic block -/
def step (s : Sys) : Label → Option (Sys × Outcome)
  | .tick d => some ({ s with now := s.now + d }, .ok)
  | .netUp => some ({ s with connected := true }, .ok)
  | .netDown => some ({ s with connected := false }, .ok)
  | .send t mid r life =>
    match s.pcs[t]? with
    | some .idle =>
      if !s.isOpen then some (s, .notOpen) else
      let q := purge s.now s.queue
      if q.length ≥ CAP then some ({ s with queue := q }, .overflow) else
      some ({ s with queue := q ++ [⟨mid, r, s.now + life⟩], pcs := setPc s.pcs t .drainHead }, .ok)
    | _ => none
  | .runHead t =>
    match s.pcs[t]? with
    | some .drainHead =>
      if !s.connected then some ({ s with pcs := setPc s.pcs t .idle }, .ok) else
      match s.queue with
      | [] => some ({ s with pcs := setPc s.pcs t .idle }, .ok)
      | e :: rest =>
        if s.now < e.expiry then
          some ({ s with queue := rest, wire := s.wire ++ [(e.mid, s.now, e.expiry)], pcs := setPc s.pcs t (.awaitDrain e) }, .ok)
        else some ({ s with queue := rest }, .ok)      -- dropped as expired, stay at head
    | _ => none
  | .drainOk t =>
    match s.pcs[t]? with
    | some (.awaitDrain _) => some ({ s with pcs := setPc s.pcs t .drainHead }, .ok)
    | _ => none
  | .drainErr t =>
    match s.pcs[t]? with
    | some (.awaitDrain e) =>
      let q := if e.retries = 0 then s.queue else ⟨e.mid, e.retries - 1, e.expiry⟩ :: s.queue
      some ({ s with queue := q, connected := false, pcs := setPc s.pcs t .idle }, .ok)
    | _ => none

def run (s : Sys) : List Label → Option Sys
  | [] => some s
  | l :: ls => match step s l with
    | some (s', _) => run s' ls
    | none => none

def init (ntasks : Nat) : Sys := ⟨0, true, false, [], List.replicate ntasks .idle, []⟩

/-- invariant: bound on queue, and every wire write happened strictly before its expiry -/
def Inv (s : Sys) : Prop :=
  s.queue.length + inflight s.pcs ≤ CAP + inflight s.pcs ∧   -- placeholder shape
  (∀ w ∈ s.wire, w.2.1 < w.2.2)

def WireOk (s : Sys) : Prop := ∀ w ∈ s.wire, w.2.1 < w.2.2


theorem step_wireOk (s s' : Sys) (l : Label) (o : Outcome) (h : WireOk s) (hs : step s l = some (s', o)) : WireOk s' := by
  cases l with
  | tick d => simp [step] at hs; obtain ⟨rfl, _⟩ := hs; exact h
  | netUp => simp [step] at hs; obtain ⟨rfl, _⟩ := hs; exact h
  | netDown => simp [step] at hs; obtain ⟨rfl, _⟩ := hs; exact h
  | send t mid r life =>
    simp only [step] at hs
    split at hs
    · split at hs
      · simp at hs; obtain ⟨rfl, _⟩ := hs; exact h
      · split at hs <;> (simp at hs; obtain ⟨rfl, _⟩ := hs; exact h)
    · simp at hs
  | runHead t =>
    simp only [step] at hs
    split at hs
    · split at hs
      · simp at hs; obtain ⟨rfl, _⟩ := hs; exact h
      · split at hs
        · simp at hs; obtain ⟨rfl, _⟩ := hs; exact h
        · split at hs
          · simp at hs; obtain ⟨rfl, _⟩ := hs
            intro w hw
            simp at hw
            rcases hw with hw | rfl
            · exact h w hw
            · simpa
          · simp at hs; obtain ⟨rfl, _⟩ := hs; exact h
    · simp at hs
  | drainOk t =>
    simp only [step] at hs
    split at hs
    · simp at hs; obtain ⟨rfl, _⟩ := hs; exact h
    · simp at hs
  | drainErr t =>
    simp only [step] at hs
    split at hs
    · simp at hs; obtain ⟨rfl, _⟩ := hs; exact h
    · simp at hs

theorem run_wireOk (ls : List Label) : ∀ (s s' : Sys), WireOk s → run s ls = some s' → WireOk s' := by
  induction ls with
  | nil => intro s s' h hr; simp [run] at hr; subst hr; exact h
  | cons l ls ih =>
    intro s s' h hr
    simp only [run] at hr
    split at hr
    · rename_i s1 o hstep
      exact ih s1 s' (step_wireOk s s1 l o h hstep) hr
    · simp at hr

/-- C02b/C16c shape: in every reachable state, for any number of tasks and any schedule,
    nothing was written at or after its expiry -/
theorem never_at_or_after_expiry (n : Nat) (ls : List Label) (s : Sys) (h : run (init n) ls = some s) :
    ∀ w ∈ s.wire, w.2.1 < w.2.2 :=
  run_wireOk ls (init n) s (by intro w hw; simp [init] at hw) h

#print axioms never_at_or_after_expiry

-- the same with grind, to see how much automation helps
theorem step_wireOk' (s s' : Sys) (l : Label) (o : Outcome) (h : WireOk s) (hs : step s l = some (s', o)) : WireOk s' := by
  unfold WireOk at *
  cases l <;> simp only [step] at hs <;> grind


def isAwait : Pc → Bool | .awaitDrain _ => true | _ => false
def cnt (pcs : List Pc) : Nat := (pcs.map (fun p => if isAwait p then 1 else 0)).sum

theorem cnt_set (pcs : List Pc) (t : Nat) (old new : Pc) (h : pcs[t]? = some old) :
    cnt (pcs.set t new) + (if isAwait old then 1 else 0) = cnt pcs + (if isAwait new then 1 else 0) := by
  induction pcs generalizing t with
  | nil => simp at h
  | cons p ps ih =>
    cases t with
    | zero => simp at h; subst h; simp [cnt]; omega
    | succ t =>
      simp at h
      have := ih t h
      simp [cnt] at *; omega

def Bound (s : Sys) : Prop := s.queue.length ≤ CAP + cnt s.pcs

theorem purge_len (now : Time) (q : List Entry) : (purge now q).length ≤ q.length := by
  unfold purge; exact List.length_filter_le _ _

theorem step_bound (s s' : Sys) (l : Label) (o : Outcome) (h : Bound s) (hs : step s l = some (s', o)) : Bound s' := by
  unfold Bound at *
  cases l with
  | tick d => simp [step] at hs; obtain ⟨rfl, _⟩ := hs; exact h
  | netUp => simp [step] at hs; obtain ⟨rfl, _⟩ := hs; exact h
  | netDown => simp [step] at hs; obtain ⟨rfl, _⟩ := hs; exact h
  | send t mid r life =>
    simp only [step] at hs
    split at hs
    · rename_i hpc
      have hc := cnt_set s.pcs t .idle .drainHead hpc
      have hp := purge_len s.now s.queue
      simp [isAwait] at hc
      split at hs
      · simp at hs; obtain ⟨rfl, _⟩ := hs; exact h
      · split at hs <;> (simp at hs; obtain ⟨rfl, _⟩ := hs; simp [setPc] at *; omega)
    · simp at hs
  | runHead t =>
    simp only [step] at hs
    split at hs
    · rename_i hpc
      have hc1 := cnt_set s.pcs t .drainHead .idle hpc
      simp [isAwait] at hc1
      split at hs
      · simp at hs; obtain ⟨rfl, _⟩ := hs; simp [setPc]; omega
      · split at hs
        · simp at hs; obtain ⟨rfl, _⟩ := hs; simp [setPc]; omega
        · rename_i e rest hq
          have hc2 := cnt_set s.pcs t .drainHead (.awaitDrain e) hpc
          simp [isAwait] at hc2
          rw [hq] at h
          split at hs <;> (simp at hs; obtain ⟨rfl, _⟩ := hs; simp [setPc] at *; omega)
    · simp at hs
  | drainOk t =>
    simp only [step] at hs
    split at hs
    · rename_i e hpc
      have hc := cnt_set s.pcs t (.awaitDrain e) .drainHead hpc
      simp [isAwait] at hc
      simp at hs; obtain ⟨rfl, _⟩ := hs; simp [setPc]
      sorry
    · simp at hs
  | drainErr t =>
    simp only [step] at hs
    split at hs
    · rename_i e hpc
      have hc := cnt_set s.pcs t (.awaitDrain e) .idle hpc
      simp [isAwait] at hc
      simp at hs; obtain ⟨rfl, _⟩ := hs
      simp [setPc]; split <;> simp <;> omega
    · simp at hs

end Sk
