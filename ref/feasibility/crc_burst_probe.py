import sys, itertools
sys.path.insert(0,'/repo')
from pyairtouch.comms.crc16 import Crc16Modbus
C = Crc16Modbus()
def bits_to_bytes(bits, order):
    out = bytearray(len(bits)//8)
    for p,b in enumerate(bits):
        if b:
            j, i = divmod(p, 8)
            out[j] |= (1 << i) if order=="lsb" else (0x80 >> i)
    return bytes(out)
def test(order, n):
    data = bytes((37*k+11) & 0xFF for k in range(n))
    frame = data + C.calculate(data)
    total = len(frame)*8
    und = []
    for L in range(1, 17):
        for start in range(0, total-L+1):
            # burst: first and last bit set, inner arbitrary
            inner = max(L-2, 0)
            for pat in range(1 << inner):
                bits = [0]*total
                bits[start] = 1; bits[start+L-1] = 1
                for k in range(inner):
                    if pat >> k & 1: bits[start+1+k] = 1
                e = bits_to_bytes(bits, order)
                rx = bytes(a ^ b for a,b in zip(frame, e))
                if C.validate(rx[:-2], rx[-2:]): und.append((L,start,pat))
    return und
for order in ("lsb","msb"):
    for n in (1,2,3,5):
        u = test(order, n)
        print(order, n, "undetected bursts:", len(u), u[:5])
