/-! scratch probe 3: interleaving model of the repaired socket lifecycle
    (connect / disconnect / reset / read / close / send+drain), every schedule. -/
namespace Sk3
abbrev Time := Nat
def RETRY_DELAY : Nat := 16   -- 2 s in ticks of 1/8 s
def CAP : Nat := 10

structure Entry where
  mid : Nat
  retries : Nat
  expiry : Time
  requeued : Bool
  encOk : Bool
deriving DecidableEq, Repr

/-- continuation: what the coroutine does when the awaited sub-procedure returns -/
inductive Ret
  | done
  | connAfterNotify
  | connAfterDrain
  | resetTail (r : Ret)
  | readLoop
deriving DecidableEq, Repr

inductive Pc
  | connDelay (due : Time)
  | connStart
  | connOpening
  | drainAwait (e : Entry) (r : Ret)
  | discWait (w : Nat) (r : Ret)
  | notifyWait (r : Ret)
  | readStart
  | readWait (c : Nat)
  | finished
deriving DecidableEq, Repr

inductive ConnSt | opened | closed | lost deriving DecidableEq, Repr

structure Task where
  pc : Pc
  bg : Bool
deriving DecidableEq, Repr

structure Sys where
  now : Time
  isOpen : Bool
  isConnected : Bool
  connecting : Bool
  rw : Option Nat
  queue : List Entry
  conns : List ConnSt
  tasks : List Task
  wire : List (Nat × Nat × Time)
  notes : List Bool
  attemptsAfterClose : Nat      -- ghost: open_connection calls made while not open
deriving Repr

def init : Sys := ⟨0, false, false, false, none, [], [], [], [], [], 0⟩

def setPc (s : Sys) (t : Nat) (pc : Pc) : Sys :=
  { s with tasks := s.tasks.modify t (fun k => { k with pc := pc }) }
def spawn (s : Sys) (pc : Pc) : Sys := { s with tasks := s.tasks ++ [⟨pc, true⟩] }
def closeConn (s : Sys) (w : Nat) : Sys :=
  { s with conns := s.conns.modify w (fun c => if c = .opened then .closed else c) }

inductive Kont
  | drain (r : Ret)
  | ret (r : Ret)
  | disconnect (r : Ret)
  | discTail (w : Option Nat) (r : Ret)

/-- pop entries until one is written (then suspend in drain) or the queue is empty -/
def drainLoop (s : Sys) : List Entry → (Option Entry × List Entry)
  | [] => (none, [])
  | e :: rest => if s.now < e.expiry ∧ e.encOk ∧ s.rw.isSome then (some e, rest) else drainLoop s rest

/-- run task `t` from continuation `k` until its next suspension point -/
def exec : Nat → Sys → Nat → Kont → Sys
  | 0, s, _, _ => s
  | fuel+1, s, t, .drain r =>
    if !s.isConnected then exec fuel s t (.ret r) else
    match drainLoop s s.queue with
    | (none, q) => exec fuel { s with queue := q } t (.ret r)
    | (some e, q) =>
      let c := s.rw.getD 0
      setPc { s with queue := q, wire := s.wire ++ [(c, e.mid, s.now)] } t (.drainAwait e r)
  | fuel+1, s, t, .disconnect r =>
    match s.rw with
    | some w => setPc (closeConn s w) t (.discWait w r)
    | none => exec fuel s t (.discTail none r)
  | fuel+1, s, t, .discTail w r =>
    if s.rw = w then
      setPc { s with isConnected := false, rw := none, notes := s.notes ++ [false] } t (.notifyWait r)
    else exec fuel s t (.ret r)
  | _+1, s, t, .ret .done => setPc s t .finished
  | fuel+1, s, t, .ret .connAfterNotify => exec fuel s t (.drain .connAfterDrain)
  | _+1, s, t, .ret .connAfterDrain =>
    let s := spawn s .readStart
    let s := if !s.isConnected && s.isOpen then spawn s (.connDelay (s.now + RETRY_DELAY)) else s
    setPc s t .finished
  | fuel+1, s, t, .ret (.resetTail r) =>
    let s := if s.isOpen then spawn s .connStart else s
    exec fuel s t (.ret r)
  | _+1, s, t, .ret .readLoop =>
    match s.rw with
    | some c => setPc s t (.readWait c)
    | none => setPc s t .finished

def FUEL : Nat := 12

inductive Label
  | tick (d : Nat)
  | apiOpen
  | apiClose
  | apiSend (mid retries life : Nat) (encOk : Bool)
  | apiReset
  | start (t : Nat)
  | timerFire (t : Nat)
  | openOk (t : Nat) | openFail (t : Nat)
  | drainOk (t : Nat) | drainErr (t : Nat)
  | closed (t : Nat)
  | notifyDone (t : Nat)
  | frameOk (t : Nat) | frameBad (t : Nat) | frameEof (t : Nat) | frameErr (t : Nat)
  | peerLost (c : Nat)

def purge (now : Time) (q : List Entry) : List Entry := q.filter (fun e => now < e.expiry)

def connectBody (s : Sys) (t : Nat) : Sys :=
  if s.isConnected || s.connecting || !s.isOpen then setPc s t .finished
  else setPc { s with connecting := true, attemptsAfterClose := s.attemptsAfterClose + (if s.isOpen then 0 else 1) } t .connOpening

def cancelBg (s : Sys) : Sys :=
  { s with
    connecting := false
    tasks := s.tasks.map (fun k => if k.bg then { k with pc := .finished } else k) }

def step (s : Sys) : Label → Option Sys
  | .tick d => some { s with now := s.now + d }
  | .apiOpen =>
    if s.isOpen then some s else some { spawn s .connStart with isOpen := true }
  | .apiClose =>
    let t := s.tasks.length
    let s : Sys := { s with tasks := s.tasks ++ [(⟨.finished, false⟩ : Task)] }
    if s.isOpen then
      let s := cancelBg { s with isOpen := false }
      some (exec FUEL s t (.disconnect .done))
    else some s
  | .apiSend mid r life enc =>
    let t := s.tasks.length
    let s : Sys := { s with tasks := s.tasks ++ [(⟨.finished, false⟩ : Task)] }
    if !s.isOpen then some s else
    let q := purge s.now s.queue
    if q.length ≥ CAP then some { s with queue := q } else
    some (exec FUEL { s with queue := q ++ [⟨mid, r, s.now + life, false, enc⟩] } t (.drain .done))
  | .apiReset =>
    let t := s.tasks.length
    let s : Sys := { s with tasks := s.tasks ++ [(⟨.finished, false⟩ : Task)] }
    some (exec FUEL s t (.disconnect (.resetTail .done)))
  | .start t =>
    match s.tasks[t]? with
    | some ⟨.connStart, _⟩ => some (connectBody s t)
    | some ⟨.readStart, _⟩ => some (exec FUEL s t (.ret .readLoop))
    | _ => none
  | .timerFire t =>
    match s.tasks[t]? with
    | some ⟨.connDelay due, _⟩ => if due ≤ s.now then some (connectBody s t) else none
    | _ => none
  | .openOk t =>
    match s.tasks[t]? with
    | some ⟨.connOpening, _⟩ =>
      let c := s.conns.length
      some (setPc { s with conns := s.conns ++ [.opened], connecting := false, rw := some c,
                           isConnected := true, notes := s.notes ++ [true] } t (.notifyWait .connAfterNotify))
    | _ => none
  | .openFail t =>
    match s.tasks[t]? with
    | some ⟨.connOpening, _⟩ =>
      let s := { s with connecting := false }
      let s := if !s.isConnected && s.isOpen then spawn s (.connDelay (s.now + RETRY_DELAY)) else s
      some (setPc s t .finished)
    | _ => none
  | .drainOk t =>
    match s.tasks[t]? with
    | some ⟨.drainAwait _ r, _⟩ => some (exec FUEL s t (.drain r))
    | _ => none
  | .drainErr t =>
    match s.tasks[t]? with
    | some ⟨.drainAwait e r, _⟩ =>
      let q := if e.retries = 0 then s.queue else { e with retries := e.retries - 1, requeued := true } :: s.queue
      some (exec FUEL { s with queue := q } t (.disconnect (.resetTail r)))
    | _ => none
  | .closed t =>
    match s.tasks[t]? with
    | some ⟨.discWait w r, _⟩ => some (exec FUEL s t (.discTail (some w) r))
    | _ => none
  | .notifyDone t =>
    match s.tasks[t]? with
    | some ⟨.notifyWait r, _⟩ => some (exec FUEL s t (.ret r))
    | _ => none
  | .frameOk t =>
    match s.tasks[t]? with
    | some ⟨.readWait _, _⟩ => some (setPc s t (.notifyWait .readLoop))
    | _ => none
  | .frameBad t =>
    match s.tasks[t]? with
    | some ⟨.readWait _, _⟩ => some (exec FUEL s t (.disconnect (.resetTail .readLoop)))
    | _ => none
  | .frameEof t =>
    match s.tasks[t]? with
    | some ⟨.readWait _, _⟩ =>
      match s.rw with
      | some w => if s.conns[w]? = some .opened then some (exec FUEL s t (.disconnect (.resetTail .done)))
                  else some (setPc s t .finished)
      | none => some (setPc s t .finished)
    | _ => none
  | .frameErr t =>
    match s.tasks[t]? with
    | some ⟨.readWait _, _⟩ => some (exec FUEL s t (.disconnect (.resetTail .done)))
    | _ => none
  | .peerLost c =>
    some { s with conns := s.conns.modify c (fun k => if k = .opened then .lost else k) }

def run (s : Sys) : List Label → Option Sys
  | [] => some s
  | l :: ls => (step s l).bind (fun s' => run s' ls)

/-- transports the client still holds open -/
def held (s : Sys) : Nat := (s.conns.filter (· = .opened)).length

-- quick executable sanity: write fault with two resets and concurrent connects
def demo : List Label :=
  [.apiOpen, .start 0, .openOk 0, .notifyDone 0, .start 1,      -- connected, read task 1 waiting
   .apiSend 7 2 240 true,                                        -- task 2 writes, awaits drain
   .peerLost 0, .frameErr 1, .drainErr 2,                        -- both error paths
   .closed 1, .closed 2, .notifyDone 1, .start 3, .start 4, .openOk 3, .notifyDone 3]
#eval (run init demo).map (fun s => (s.isConnected, s.rw, s.conns, s.tasks.map (·.pc), s.queue.map (·.mid), s.notes))
end Sk3
