import asyncio, sys, logging
sys.path.insert(0,'/tmp/proto')
from vloop import *
import pyairtouch.comms.socket as S
import pyairtouch.at4.comms.registry as R4
import pyairtouch.at4.comms.x2C_ac_ctrl as ac
logging.basicConfig(level=logging.CRITICAL)
def mk(n): return ac.AcControlMessage(ac_number=n, power=ac.AcPowerControl.TURN_ON, mode=ac.AcModeControl.UNCHANGED, fan_speed=ac.AcFanSpeedControl.UNCHANGED, set_point_control=None)
def ev(net): return [x for x in net.log if x[0]!="w"]
async def double_reset(loop):
    net = loop.net = Net(); net.latency = 0.05
    s = S.AirTouchSocket(loop, "h", 9004, R4.INSTANCE)
    got=[]
    async def sub(h, m): got.append(m)
    s.subscribe_on_message_received(sub)
    await s.open_socket(); await asyncio.sleep(0.1)
    net.conns[0].fail_writes = True
    await s.send(mk(1), S.RETRY_IDEMPOTENT)
    await asyncio.sleep(5)
    print(ev(net), "open conns", len(net.open_conns()), "tasks", len(s._background_tasks))
    print("writes", [(x[1], x[2].hex()) for x in net.log if x[0]=="w"])
    for c in net.open_conns(): c.peer_send(bytes.fromhex("555580b0012d0000f4cf"))
    await asyncio.sleep(1)
    print("delivered", len(got))
    await s.close()
    await asyncio.sleep(5)
    print("after close open conns", len(net.open_conns()), ev(net)[-3:])
loop = VLoop(); asyncio.set_event_loop(loop)
loop.run_until_complete(double_reset(loop))
