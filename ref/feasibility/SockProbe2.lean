/-! scratch probe 2: corrected queue invariant (count only entries that were never requeued) -/
namespace Sk2
abbrev Time := Nat
def CAP : Nat := 10
structure Entry where
  mid : Nat
  retries : Nat
  expiry : Time
  requeued : Bool        -- ghost: set when put back at the head after a failed write
deriving DecidableEq, Repr
inductive Pc | idle | drainHead | awaitDrain (e : Entry) deriving DecidableEq, Repr
structure Sys where
  now : Time
  isOpen : Bool
  connected : Bool
  queue : List Entry
  pcs : List Pc
deriving Repr
inductive Outcome | ok | notOpen | overflow deriving DecidableEq, Repr
inductive Label
  | tick (d : Nat) | netUp | netDown
  | send (t mid retries life : Nat) | runHead (t : Nat) | drainOk (t : Nat) | drainErr (t : Nat)
def purge (now : Time) (q : List Entry) : List Entry := q.filter (fun e => now < e.expiry)
def fresh (q : List Entry) : Nat := (q.filter (fun e => !e.requeued)).length

/-- pop expired entries, as the real loop does inside one block -/
def dropExpired (now : Time) : List Entry → List Entry
  | [] => []
  | e :: rest => if now < e.expiry then e :: rest else dropExpired now rest

def step (s : Sys) : Label → Option (Sys × Outcome)
  | .tick d => some ({ s with now := s.now + d }, .ok)
  | .netUp => some ({ s with connected := true }, .ok)
  | .netDown => some ({ s with connected := false }, .ok)
  | .send t mid r life =>
    match s.pcs[t]? with
    | some .idle =>
      if !s.isOpen then some (s, .notOpen) else
      let q := purge s.now s.queue
      if q.length ≥ CAP then some ({ s with queue := q }, .overflow) else
      some ({ s with queue := q ++ [⟨mid, r, s.now + life, false⟩], pcs := s.pcs.set t .drainHead }, .ok)
    | _ => none
  | .runHead t =>
    match s.pcs[t]? with
    | some .drainHead =>
      if !s.connected then some ({ s with pcs := s.pcs.set t .idle }, .ok) else
      match dropExpired s.now s.queue with
      | [] => some ({ s with queue := [], pcs := s.pcs.set t .idle }, .ok)
      | e :: rest => some ({ s with queue := rest, pcs := s.pcs.set t (.awaitDrain e) }, .ok)
    | _ => none
  | .drainOk t =>
    match s.pcs[t]? with
    | some (.awaitDrain _) => some ({ s with pcs := s.pcs.set t .drainHead }, .ok)
    | _ => none
  | .drainErr t =>
    match s.pcs[t]? with
    | some (.awaitDrain e) =>
      let q := if e.retries = 0 then s.queue else ⟨e.mid, e.retries - 1, e.expiry, true⟩ :: s.queue
      some ({ s with queue := q, connected := false, pcs := s.pcs.set t .idle }, .ok)
    | _ => none

def Inv (s : Sys) : Prop := fresh s.queue ≤ CAP

theorem fresh_le (q : List Entry) : fresh q ≤ q.length := List.length_filter_le _ _
theorem fresh_purge (now : Time) (q : List Entry) : fresh (purge now q) ≤ fresh q := by
  unfold fresh purge
  rw [List.filter_filter]
  have : (List.filter (fun e => (!e.requeued) && decide (now < e.expiry)) q).length ≤ (List.filter (fun e => !e.requeued) q).length := by
    induction q with
    | nil => simp
    | cons a q ih => simp only [List.filter_cons]; split <;> split <;> simp_all <;> omega
  simpa [Bool.and_comm] using this
theorem fresh_tail (e : Entry) (q : List Entry) : fresh q ≤ fresh (e :: q) := by
  simp only [fresh, List.filter_cons]; split <;> simp
theorem fresh_dropExpired (now : Time) (q : List Entry) : fresh (dropExpired now q) ≤ fresh q := by
  induction q with
  | nil => simp [dropExpired]
  | cons a q ih =>
    simp only [dropExpired]; split
    · exact Nat.le_refl _
    · have := fresh_tail a q; omega
theorem fresh_append_fresh (q : List Entry) (e : Entry) (h : e.requeued = false) : fresh (q ++ [e]) = fresh q + 1 := by
  simp [fresh, List.filter_append, h]
theorem fresh_cons_requeued (q : List Entry) (e : Entry) (h : e.requeued = true) : fresh (e :: q) = fresh q := by
  simp [fresh, List.filter_cons, h]

theorem step_inv (s s' : Sys) (l : Label) (o : Outcome) (h : Inv s) (hs : step s l = some (s', o)) : Inv s' := by
  unfold Inv at *
  cases l with
  | tick d => simp [step] at hs; obtain ⟨rfl, _⟩ := hs; exact h
  | netUp => simp [step] at hs; obtain ⟨rfl, _⟩ := hs; exact h
  | netDown => simp [step] at hs; obtain ⟨rfl, _⟩ := hs; exact h
  | send t mid r life =>
    simp only [step] at hs
    split at hs
    · split at hs
      · simp at hs; obtain ⟨rfl, _⟩ := hs; exact h
      · have hp := fresh_purge s.now s.queue
        split at hs
        · simp at hs; obtain ⟨rfl, _⟩ := hs; simp; omega
        · rename_i hlen
          simp at hs; obtain ⟨rfl, _⟩ := hs
          have hf := fresh_append_fresh (purge s.now s.queue) ⟨mid, r, s.now + life, false⟩ rfl
          have := fresh_le (purge s.now s.queue)
          simp only [] at *
          omega
    · simp at hs
  | runHead t =>
    simp only [step] at hs
    split at hs
    · split at hs
      · simp at hs; obtain ⟨rfl, _⟩ := hs; exact h
      · have hd := fresh_dropExpired s.now s.queue
        split at hs
        · simp at hs; obtain ⟨rfl, _⟩ := hs; simp [fresh]
        · rename_i e rest hq
          simp at hs; obtain ⟨rfl, _⟩ := hs
          rw [hq] at hd
          have := fresh_tail e rest
          simp; omega
    · simp at hs
  | drainOk t =>
    simp only [step] at hs
    split at hs
    · simp at hs; obtain ⟨rfl, _⟩ := hs; exact h
    · simp at hs
  | drainErr t =>
    simp only [step] at hs
    split at hs
    · simp at hs; obtain ⟨rfl, _⟩ := hs
      simp only []
      split
      · exact h
      · rw [fresh_cons_requeued _ _ rfl]; exact h
    · simp at hs

/-- corollary shape for C16: if nothing in the queue was requeued, at most CAP entries are held -/
theorem bound_without_requeue (s : Sys) (h : Inv s) (hn : ∀ e ∈ s.queue, e.requeued = false) : s.queue.length ≤ CAP := by
  unfold Inv fresh at h
  have : s.queue.filter (fun e => !e.requeued) = s.queue := by
    apply List.filter_eq_self.mpr; intro e he; simp [hn e he]
  rw [this] at h; exact h
#print axioms step_inv
end Sk2
