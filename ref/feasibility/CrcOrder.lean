namespace Crcp

def M (t : Nat) : Nat := if t % 2 = 1 then (t >>> 1) ^^^ 0xA001 else t >>> 1
def Minv (s : Nat) : Nat := if s ≥ 0x8000 then (((s ^^^ 0xA001) <<< 1) ||| 1) else s <<< 1

/-- iterate M `n` times from `s`, returning false if `0x8000` is reached within the first n steps (after ≥1 step) -/
def noReturn : Nat → Nat → Bool
  | 0, _ => true
  | n+1, s => let s' := M s; if s' = 0x8000 then false else noReturn n s'

theorem order_ge : noReturn 32766 0x8000 = true := by decide +kernel

def iter : Nat → Nat → Nat
  | 0, s => s
  | n+1, s => iter n (M s)


def allBelow (n : Nat) (p : Nat → Bool) : Bool := (List.range n).all p

theorem minv_all : allBelow 65536 (fun t => Minv (M t) == t) = true := by decide +kernel

end Crcp
