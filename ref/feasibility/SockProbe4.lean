/-! scratch probe 4: same model, restructured so that the socket's own state (Core) is separate
    from the task table; exec is a pure function Core -> (Core, next pc, spawned pcs). -/
namespace Sk4
abbrev Time := Nat
def RETRY_DELAY : Nat := 16
def CAP : Nat := 10

structure Entry where
  mid : Nat
  retries : Nat
  expiry : Time
  requeued : Bool
  encOk : Bool
deriving DecidableEq, Repr

inductive Ret | done | connAfterNotify | connAfterDrain | resetTail (r : Ret) | readLoop
deriving DecidableEq, Repr

inductive Pc
  | connDelay (due : Time) | connStart | connOpening
  | drainAwait (e : Entry) (r : Ret) | discWait (w : Nat) (r : Ret) | notifyWait (r : Ret)
  | readStart | readWait (c : Nat) | finished
deriving DecidableEq, Repr

inductive ConnSt | opened | closed | lost deriving DecidableEq, Repr

structure Core where
  now : Time
  isOpen : Bool
  isConnected : Bool
  connecting : Bool
  rw : Option Nat
  queue : List Entry
  conns : List ConnSt
  wire : List (Nat × Nat × Time)
  notes : List Bool
deriving Repr

structure Out where
  core : Core
  pc : Pc
  spawned : List Pc

inductive Kont | drain (r : Ret) | ret (r : Ret) | disconnect (r : Ret) | discTail (w : Option Nat) (r : Ret)

def closeConn (c : Core) (w : Nat) : Core :=
  { c with conns := c.conns.modify w (fun k => if k = .opened then .closed else k) }

def drainLoop (c : Core) : List Entry → (Option Entry × List Entry)
  | [] => (none, [])
  | e :: rest => if c.now < e.expiry ∧ e.encOk ∧ c.rw.isSome then (some e, rest) else drainLoop c rest

def exec : Nat → Core → List Pc → Kont → Out
  | 0, c, sp, _ => ⟨c, .finished, sp⟩
  | fuel+1, c, sp, .drain r =>
    if !c.isConnected then exec fuel c sp (.ret r) else
    match drainLoop c c.queue with
    | (none, q) => exec fuel { c with queue := q } sp (.ret r)
    | (some e, q) => ⟨{ c with queue := q, wire := c.wire ++ [(c.rw.getD 0, e.mid, c.now)] }, .drainAwait e r, sp⟩
  | fuel+1, c, sp, .disconnect r =>
    match c.rw with
    | some w => ⟨closeConn c w, .discWait w r, sp⟩
    | none => exec fuel c sp (.discTail none r)
  | fuel+1, c, sp, .discTail w r =>
    if c.rw = w then ⟨{ c with isConnected := false, rw := none, notes := c.notes ++ [false] }, .notifyWait r, sp⟩
    else exec fuel c sp (.ret r)
  | _+1, c, sp, .ret .done => ⟨c, .finished, sp⟩
  | fuel+1, c, sp, .ret .connAfterNotify => exec fuel c sp (.drain .connAfterDrain)
  | _+1, c, sp, .ret .connAfterDrain =>
    ⟨c, .finished, sp ++ [.readStart] ++ (if !c.isConnected && c.isOpen then [.connDelay (c.now + RETRY_DELAY)] else [])⟩
  | fuel+1, c, sp, .ret (.resetTail r) => exec fuel c (if c.isOpen then sp ++ [.connStart] else sp) (.ret r)
  | _+1, c, sp, .ret .readLoop =>
    match c.rw with
    | some k => ⟨c, .readWait k, sp⟩
    | none => ⟨c, .finished, sp⟩

def FUEL : Nat := 12

/-- what exec may do to the socket's own state -/
def CoreInv (c : Core) : Prop :=
  (∀ i, c.conns[i]? = some .opened → c.rw = some i) ∧
  (c.isConnected = c.rw.isSome) ∧
  (c.connecting = true → c.isConnected = false)

/-- the current reader/writer is a transport that exists -/
def RwValid (c : Core) : Prop := ∀ w, c.rw = some w → w < c.conns.length

theorem closeConn_opened (c : Core) (w i : Nat) (h : (closeConn c w).conns[i]? = some .opened) :
    c.conns[i]? = some .opened ∧ i ≠ w := by
  unfold closeConn at h
  simp only [List.getElem?_modify] at h
  by_cases hi : w = i
  · subst hi
    cases hc : c.conns[w]? with
    | none => simp [hc] at h
    | some k => simp [hc] at h; split at h <;> simp_all
  · simp [hi] at h; exact ⟨h, fun e => hi e.symm⟩

/-- side condition on the continuation: a disconnect that resumes after `wait_closed(w)` relies on
    `w` having been closed by the block that suspended it -/
def KontOk (c : Core) : Kont → Prop
  | .discTail (some w) _ => c.conns[w]? ≠ some .opened
  | _ => True

theorem exec_inv (fuel : Nat) : ∀ (c : Core) (sp : List Pc) (k : Kont), CoreInv c → KontOk c k → CoreInv (exec fuel c sp k).core := by
  induction fuel with
  | zero => intro c sp k h _; simpa [exec] using h
  | succ n ih =>
    intro c sp k h hk
    obtain ⟨ha, hc, he⟩ := h
    cases k with
    | drain r =>
      simp only [exec]
      split
      · exact ih _ _ _ ⟨ha, hc, he⟩ trivial
      · split
        · exact ih _ _ _ ⟨ha, hc, he⟩ trivial
        · exact ⟨ha, hc, he⟩
    | disconnect r =>
      simp only [exec]
      split
      · rename_i w hw
        refine ⟨?_, ?_, ?_⟩
        · intro i hi
          have := closeConn_opened c w i hi
          have := ha i this.1
          simp [closeConn, this]
        · simpa [closeConn] using hc
        · simpa [closeConn] using he
      · exact ih _ _ _ ⟨ha, hc, he⟩ trivial
    | discTail w r =>
      simp only [exec]
      split
      · rename_i hw
        refine ⟨?_, rfl, fun _ => rfl⟩
        intro i hi
        simp only [] at hi
        have hrw := ha i hi
        -- rw = some i = w, but w is not opened (KontOk) / rw = none contradicts
        cases w with
        | none => simp [hw] at hrw
        | some w =>
          have : i = w := by rw [hw] at hrw; simpa using hrw.symm
          subst this
          exact absurd hi hk
      · exact ih _ _ _ ⟨ha, hc, he⟩ trivial
    | ret r =>
      cases r with
      | done => simpa [exec] using ⟨ha, hc, he⟩
      | connAfterNotify => simp only [exec]; exact ih _ _ _ ⟨ha, hc, he⟩ trivial
      | connAfterDrain => simpa [exec] using ⟨ha, hc, he⟩
      | resetTail r => simp only [exec]; exact ih _ _ _ ⟨ha, hc, he⟩ trivial
      | readLoop => simp only [exec]; split <;> exact ⟨ha, hc, he⟩

/-! ### frame lemmas for exec -/

def Spawnable : Pc → Prop
  | .connStart | .readStart | .connDelay _ => True
  | _ => False

theorem exec_spawned (fuel : Nat) : ∀ (c : Core) (sp : List Pc) (k : Kont),
    (∀ p ∈ sp, Spawnable p) → ∀ p ∈ (exec fuel c sp k).spawned, Spawnable p := by
  induction fuel with
  | zero => intro c sp k h; simpa [exec] using h
  | succ n ih =>
    intro c sp k h
    cases k with
    | drain r => simp only [exec]; split; · exact ih _ _ _ h
                 split; · exact ih _ _ _ h
                 exact h
    | disconnect r => simp only [exec]; split; · exact h
                      exact ih _ _ _ h
    | discTail w r => simp only [exec]; split; · exact h
                      exact ih _ _ _ h
    | ret r =>
      cases r with
      | done => simpa [exec] using h
      | connAfterNotify => simp only [exec]; exact ih _ _ _ h
      | connAfterDrain =>
        simp only [exec]; intro p hp
        simp only [List.mem_append, List.mem_singleton] at hp
        rcases hp with (hp | hp) | hp
        · exact h p hp
        · subst hp; trivial
        · split at hp <;> simp at hp; subst hp; trivial
      | resetTail r =>
        simp only [exec]; apply ih; split
        · intro p hp; simp only [List.mem_append, List.mem_singleton] at hp
          rcases hp with hp | hp
          · exact h p hp
          · subst hp; trivial
        · exact h
      | readLoop => simp only [exec]; split <;> exact h

/-- exec never opens a transport and never touches `connecting` -/
theorem exec_frame (fuel : Nat) : ∀ (c : Core) (sp : List Pc) (k : Kont),
    (exec fuel c sp k).core.connecting = c.connecting ∧
    (exec fuel c sp k).core.isOpen = c.isOpen ∧
    (∀ i : Nat, (exec fuel c sp k).core.conns[i]? = some ConnSt.opened → c.conns[i]? = some ConnSt.opened) := by
  induction fuel with
  | zero => intro c sp k; simp [exec]
  | succ n ih =>
    intro c sp k
    cases k with
    | drain r => simp only [exec]; split; · exact ih _ _ _
                 split; · exact ih _ _ _
                 simp
    | disconnect r =>
      simp only [exec]; split
      · refine ⟨rfl, rfl, fun i hi => (closeConn_opened c _ i hi).1⟩
      · exact ih _ _ _
    | discTail w r => simp only [exec]; split; · simp
                      exact ih _ _ _
    | ret r =>
      cases r with
      | done => simp [exec]
      | connAfterNotify => simp only [exec]; exact ih _ _ _
      | connAfterDrain => simp [exec]
      | resetTail r => simp only [exec]; exact ih _ _ _
      | readLoop => simp only [exec]; split <;> simp

/-- if exec suspends in `discWait w`, it has just closed `w` -/
theorem exec_discWait (fuel : Nat) : ∀ (c : Core) (sp : List Pc) (k : Kont) (out : Out),
    exec fuel c sp k = out → ∀ (w : Nat) (r : Ret), out.pc = .discWait w r → out.core.conns[w]? ≠ some .opened := by
  induction fuel with
  | zero => intro c sp k out ho w r h; subst ho; simp [exec] at h
  | succ n ih =>
    intro c sp k out ho w r h
    cases k with
    | drain r' =>
      simp only [exec] at ho; split at ho
      · exact ih _ _ _ _ ho _ _ h
      · split at ho
        · exact ih _ _ _ _ ho _ _ h
        · subst ho; simp at h
    | disconnect r' =>
      simp only [exec] at ho; split at ho
      · rename_i w' hw
        subst ho; simp at h; obtain ⟨rfl, _⟩ := h
        intro hc; exact (closeConn_opened c w' w' hc).2 rfl
      · exact ih _ _ _ _ ho _ _ h
    | discTail w' r' =>
      simp only [exec] at ho; split at ho
      · subst ho; simp at h
      · exact ih _ _ _ _ ho _ _ h
    | ret r' =>
      cases r' with
      | done => simp only [exec] at ho; subst ho; simp at h
      | connAfterNotify => simp only [exec] at ho; exact ih _ _ _ _ ho _ _ h
      | connAfterDrain => simp only [exec] at ho; subst ho; simp at h
      | resetTail r'' => simp only [exec] at ho; exact ih _ _ _ _ ho _ _ h
      | readLoop => simp only [exec] at ho; split at ho <;> (subst ho; simp at h)

theorem closeConn_len (c : Core) (w : Nat) : (closeConn c w).conns.length = c.conns.length := by
  simp [closeConn]

theorem exec_len (fuel : Nat) : ∀ (c : Core) (sp : List Pc) (k : Kont) (out : Out),
    exec fuel c sp k = out → out.core.conns.length = c.conns.length ∧ (RwValid c → RwValid out.core) ∧
      (∀ (w : Nat) (r : Ret), out.pc = .discWait w r → RwValid c → w < c.conns.length) := by
  induction fuel with
  | zero => intro c sp k out ho; subst ho; simp [exec]
  | succ n ih =>
    intro c sp k out ho
    cases k with
    | drain r' =>
      simp only [exec] at ho; split at ho
      · exact ih _ _ _ _ ho
      · split at ho
        · have := ih _ _ _ _ ho; simpa [RwValid] using this
        · subst ho; simp [RwValid]
    | disconnect r' =>
      simp only [exec] at ho; split at ho
      · rename_i w' hw
        subst ho
        refine ⟨closeConn_len c w', ?_, ?_⟩
        · intro hv w hw'; simp only [closeConn] at hw' ⊢; simpa using hv w hw'
        · intro w r h hv; simp at h; obtain ⟨rfl, _⟩ := h; exact hv _ hw
      · exact ih _ _ _ _ ho
    | discTail w' r' =>
      simp only [exec] at ho; split at ho
      · subst ho; simp [RwValid]
      · exact ih _ _ _ _ ho
    | ret r' =>
      cases r' with
      | done => simp only [exec] at ho; subst ho; simp
      | connAfterNotify => simp only [exec] at ho; exact ih _ _ _ _ ho
      | connAfterDrain => simp only [exec] at ho; subst ho; simp
      | resetTail r'' => simp only [exec] at ho; exact ih _ _ _ _ ho
      | readLoop => simp only [exec] at ho; split at ho <;> (subst ho; simp)


theorem exec_not_connOpening (fuel : Nat) : ∀ (c : Core) (sp : List Pc) (k : Kont),
    (exec fuel c sp k).pc ≠ .connOpening := by
  induction fuel with
  | zero => intro c sp k; simp [exec]
  | succ n ih =>
    intro c sp k
    cases k with
    | drain r => simp only [exec]; split; · exact ih _ _ _
                 split; · exact ih _ _ _
                 simp
    | disconnect r => simp only [exec]; split; · simp
                      exact ih _ _ _
    | discTail w r => simp only [exec]; split; · simp
                      exact ih _ _ _
    | ret r =>
      cases r with
      | done => simp [exec]
      | connAfterNotify => simp only [exec]; exact ih _ _ _
      | connAfterDrain => simp [exec]
      | resetTail r => simp only [exec]; exact ih _ _ _
      | readLoop => simp only [exec]; split <;> simp


/-! ### the task table and one step of the whole system -/

structure Task where
  pc : Pc
  bg : Bool
deriving DecidableEq, Repr

structure Sys where
  core : Core
  tasks : List Task

def pcAt (s : Sys) (t : Nat) : Option Pc := (s.tasks[t]?).map (·.pc)

def upd (s : Sys) (t : Nat) (out : Out) : Sys :=
  { core := out.core
    tasks := s.tasks.modify t (fun k => { k with pc := out.pc }) ++ out.spawned.map (fun p => ⟨p, true⟩) }

theorem pcAt_upd (s : Sys) (t i : Nat) (out : Out) (p : Pc) (h : pcAt (upd s t out) i = some p) :
    (i = t ∧ p = out.pc) ∨ (i ≠ t ∧ pcAt s i = some p) ∨ (p ∈ out.spawned) := by
  unfold pcAt upd at h
  simp only [List.getElem?_append] at h
  split at h
  · rename_i hlt
    simp only [List.getElem?_modify, List.length_modify] at h hlt
    by_cases hti : t = i
    · subst hti
      left
      cases hk : s.tasks[t]? with
      | none => simp [hk] at h
      | some k => simp [hk] at h; exact ⟨rfl, h.symm⟩
    · right; left
      simp [hti] at h
      exact ⟨fun e => hti e.symm, by simpa [pcAt] using h⟩
  · right; right
    simp only [List.getElem?_map, Option.map_map, List.length_modify] at h
    cases hk : out.spawned[i - s.tasks.length]? with
    | none => simp [hk] at h
    | some q =>
      simp [hk] at h; subst h
      exact List.mem_of_getElem? hk

def SysInv (s : Sys) : Prop :=
  CoreInv s.core ∧ RwValid s.core ∧
  (∀ t w r, pcAt s t = some (.discWait w r) → w < s.core.conns.length ∧ s.core.conns[w]? ≠ some .opened) ∧
  (∀ t, pcAt s t = some .connOpening → s.core.connecting = true) ∧
  (∀ t t', pcAt s t = some .connOpening → pcAt s t' = some .connOpening → t = t')

/-- generic preservation: a task that is not opening a connection runs a continuation -/
theorem upd_exec_inv (s : Sys) (t : Nat) (k : Kont) (c0 : Core)
    (hinv : SysInv s)
    (hc0 : CoreInv c0) (hv0 : RwValid c0) (hk : KontOk c0 k)
    (hconn : c0.connecting = s.core.connecting)
    (hlen : c0.conns.length = s.core.conns.length)
    (hconns : ∀ i : Nat, c0.conns[i]? = some ConnSt.opened → s.core.conns[i]? = some ConnSt.opened) :
    SysInv (upd s t (exec FUEL c0 [] k)) := by
  obtain ⟨_, _, hdw, hco, huniq⟩ := hinv
  have hfr := exec_frame FUEL c0 [] k
  have hsp := exec_spawned FUEL c0 [] k (by simp)
  have hl := exec_len FUEL c0 [] k _ rfl
  refine ⟨exec_inv FUEL c0 [] k hc0 hk, hl.2.1 hv0, ?_, ?_, ?_⟩
  · intro i w r hp
    rcases pcAt_upd s t i _ _ hp with ⟨_, hpc⟩ | ⟨_, hold⟩ | hsp'
    · refine ⟨?_, exec_discWait FUEL c0 [] k _ rfl w r hpc.symm⟩
      show w < (exec FUEL c0 [] k).core.conns.length
      rw [hl.1]; exact hl.2.2 w r hpc.symm hv0
    · refine ⟨?_, ?_⟩
      · show w < (exec FUEL c0 [] k).core.conns.length
        rw [hl.1, hlen]; exact (hdw i w r hold).1
      · intro hop
        exact (hdw i w r hold).2 (hconns w (hfr.2.2 w hop))
    · exact absurd (hsp _ hsp') (by simp [Spawnable])
  · intro i hp
    rcases pcAt_upd s t i _ _ hp with ⟨_, hpc⟩ | ⟨_, hold⟩ | hsp'
    · exact absurd hpc.symm (exec_not_connOpening FUEL c0 [] k)
    · show (exec FUEL c0 [] k).core.connecting = true
      rw [hfr.1, hconn]; exact hco i hold
    · exact absurd (hsp _ hsp') (by simp [Spawnable])
  · intro i j hi hj
    rcases pcAt_upd s t i _ _ hi with ⟨_, hpc⟩ | ⟨_, holdi⟩ | hsp'
    · exact absurd hpc.symm (exec_not_connOpening FUEL c0 [] k)
    · rcases pcAt_upd s t j _ _ hj with ⟨_, hpc⟩ | ⟨_, holdj⟩ | hsp'
      · exact absurd hpc.symm (exec_not_connOpening FUEL c0 [] k)
      · exact huniq i j holdi holdj
      · exact absurd (hsp _ hsp') (by simp [Spawnable])
    · exact absurd (hsp _ hsp') (by simp [Spawnable])

/-- e.g. the block that resumes after `wait_closed` -/
theorem step_closed (s : Sys) (t w : Nat) (r : Ret) (hinv : SysInv s) (hpc : pcAt s t = some (.discWait w r)) :
    SysInv (upd s t (exec FUEL s.core [] (.discTail (some w) r))) :=
  upd_exec_inv s t _ s.core hinv hinv.1 hinv.2.1 (hinv.2.2.1 t w r hpc).2 rfl rfl (fun _ h => h)

/-- the block in which `open_connection` returns a new transport -/
theorem step_openOk (s : Sys) (t : Nat) (hinv : SysInv s) (hpc : pcAt s t = some .connOpening) :
    SysInv (upd s t ⟨{ s.core with conns := s.core.conns ++ [.opened], connecting := false,
                                   rw := some s.core.conns.length, isConnected := true,
                                   notes := s.core.notes ++ [true] },
                     .notifyWait .connAfterNotify, []⟩) := by
  obtain ⟨⟨ha, hc, he⟩, hv, hdw, hco, huniq⟩ := hinv
  have hconning := hco t hpc
  have hnc := he hconning
  have hrw : s.core.rw = none := by
    have := hc; rw [hnc] at this
    cases h : s.core.rw with
    | none => rfl
    | some x => simp [h] at this
  have hnoopen : ∀ i : Nat, s.core.conns[i]? ≠ some ConnSt.opened := by
    intro i hi; have := ha i hi; rw [hrw] at this; simp at this
  refine ⟨⟨?_, ?_, ?_⟩, ?_, ?_, ?_, ?_⟩
  · intro i hi
    simp only [upd, List.getElem?_append] at hi
    split at hi
    · exact absurd hi (hnoopen i)
    · rename_i hge
      cases hlen : i - s.core.conns.length with
      | zero => simp only [upd]; congr 1; omega
      | succ m => simp [hlen] at hi
  · simp [upd]
  · simp [upd]
  · intro w hw; simp [upd] at hw ⊢; omega
  · intro i w r hp
    rcases pcAt_upd s t i _ _ hp with ⟨_, hpc'⟩ | ⟨_, hold⟩ | hsp'
    · simp at hpc'
    · have hold' := hdw i w r hold
      refine ⟨by simp [upd]; omega, ?_⟩
      intro hop
      simp only [upd, List.getElem?_append] at hop
      split at hop
      · exact hold'.2 hop
      · rename_i hge; exact hge hold'.1
    · simp at hsp'
  · intro i hp
    rcases pcAt_upd s t i _ _ hp with ⟨_, hpc'⟩ | ⟨hne, hold⟩ | hsp'
    · simp at hpc'
    · exact absurd (huniq i t hold hpc) hne
    · simp at hsp'
  · intro i j hi hj
    rcases pcAt_upd s t i _ _ hi with ⟨_, hpc'⟩ | ⟨hne, hold⟩ | hsp'
    · simp at hpc'
    · exact absurd (huniq i t hold hpc) hne
    · simp at hsp'

/-- the headline consequence: every transport the client still holds open is its current one,
    so it never holds two -/
theorem at_most_one_open (s : Sys) (h : SysInv s) (i j : Nat)
    (hi : s.core.conns[i]? = some .opened) (hj : s.core.conns[j]? = some .opened) : i = j := by
  have h1 := h.1.1 i hi
  have h2 := h.1.1 j hj
  rw [h1] at h2; simpa using h2

#print axioms step_openOk
#print axioms step_closed
end Sk4
