import asyncio, sys, logging
sys.path.insert(0,'/tmp/proto')
from vloop import *
import pyairtouch.comms.socket as S
import pyairtouch.comms.heartbeat as H
import pyairtouch.at4.comms.registry as R4
import pyairtouch.at4.comms.x2C_ac_ctrl as ac
import pyairtouch.at4.comms.x2A_group_ctrl as gc
import pyairtouch.at4.comms.x1F_ext as ext
import pyairtouch.at4.comms.x1FFF30_console_ver as cv
logging.basicConfig(level=logging.CRITICAL)
def mk(n): return ac.AcControlMessage(ac_number=n, power=ac.AcPowerControl.TURN_ON, mode=ac.AcModeControl.UNCHANGED, fan_speed=ac.AcFanSpeedControl.UNCHANGED, set_point_control=None)
def ev(net): return [x for x in net.log if x[0]!="w"]

async def hb(loop):
    print("== heartbeat with silent console")
    net = loop.net = Net()
    s = S.AirTouchSocket(loop, "h", 9004, R4.INSTANCE)
    await s.open_socket(); await asyncio.sleep(0.1)
    m = H.HeartbeatManager(loop, s, H.HeartbeatConfig(message=ext.ExtendedMessage(cv.ConsoleVersionRequest()), response_match=lambda m: True))
    await m.start()
    await asyncio.sleep(2000)
    print(ev(net), "writes:", sum(1 for x in net.log if x[0]=="w")//3)
    await m.stop(); await s.close()

async def wedge(loop):
    print("== unencodable message queued during outage")
    net = loop.net = Net(); net.mode="refuse"
    s = S.AirTouchSocket(loop, "h", 9004, R4.INSTANCE)
    got=[]
    async def sub(h, m): got.append(m)
    s.subscribe_on_message_received(sub)
    await s.open_socket(); await asyncio.sleep(0.1)
    bad = gc.GroupControlMessage(group_number=1, power=gc.GroupPowerControl.UNCHANGED, control_method=gc.GroupControlMethod.TEMPERATURE, setting=gc.GroupSetPointControl(set_point=300))
    await s.send(bad, S.RETRY_IDEMPOTENT)
    net.mode="accept"
    await asyncio.sleep(3)
    print(ev(net), "connected", s.is_connected, "tasks", len(s._background_tasks))
    # console sends an AC status request frame (valid): 55 55 80 b0 01 2d 00 00 f4 cf
    net.conns[-1].peer_send(bytes.fromhex("555580b0012d0000f4cf"))
    await asyncio.sleep(1)
    print("delivered:", got)
    await s.close()

async def after_close(loop):
    print("== close during back-off")
    net = loop.net = Net(); net.mode="refuse"
    s = S.AirTouchSocket(loop, "h", 9004, R4.INSTANCE)
    await s.open_socket(); await asyncio.sleep(0.5)
    await s.close()
    net.mode="accept"
    await asyncio.sleep(10)
    print(ev(net), "is_open", s.is_open, "connected", s.is_connected, "open conns", len(net.open_conns()))

async def double_reset(loop):
    print("== write error => read error + drain error in same iteration")
    net = loop.net = Net()
    s = S.AirTouchSocket(loop, "h", 9004, R4.INSTANCE)
    await s.open_socket(); await asyncio.sleep(0.1)
    net.conns[0].fail_writes = True
    await s.send(mk(1), S.RETRY_IDEMPOTENT)
    await asyncio.sleep(5)
    print(ev(net), "open conns", len(net.open_conns()), "tasks", len(s._background_tasks))
    await s.close()
    await asyncio.sleep(5)
    print("after close open conns", len(net.open_conns()))

if __name__ != "__main__": raise SystemExit
loop = VLoop(); asyncio.set_event_loop(loop)
for f in (hb, wedge, after_close, double_reset):
    loop.run_until_complete(f(loop))
