"""Prototype: virtual-time asyncio loop + in-memory transports (scratch, not the framework)."""
import asyncio, heapq, selectors, collections

class VLoop(asyncio.SelectorEventLoop):
    def __init__(self):
        super().__init__(selectors.SelectSelector())
        self._vt = 0.0
        self.net = None
    def time(self): return self._vt
    def _run_once(self):
        # drop cancelled timers at head
        while self._scheduled and self._scheduled[0]._cancelled:
            h = heapq.heappop(self._scheduled); h._scheduled = False
        if not self._ready and self._scheduled:
            w = self._scheduled[0]._when
            if w > self._vt: self._vt = w
        super()._run_once()
    async def create_connection(self, protocol_factory, host=None, port=None, **kw):
        return await self.net.connect(self, protocol_factory, host, port)

class FakeTransport(asyncio.Transport):
    def __init__(self, loop, proto, net, cid):
        super().__init__(); self.loop=loop; self.proto=proto; self.net=net; self.cid=cid
        self.closing=False; self.lost=False; self.written=bytearray(); self.fail_writes=False
    def write(self, data):
        if self.lost or self.closing: return
        if self.fail_writes:
            self._fatal(ConnectionResetError("injected write error")); return
        self.written += data; self.net.log.append(("w", self.cid, bytes(data), self.loop.time()))
    def _fatal(self, exc):
        if self.lost: return
        self.closing=True; self.lost=True
        self.loop.call_soon(self.proto.connection_lost, exc)
        self.net.log.append(("lost", self.cid, repr(exc), self.loop.time()))
    def close(self):
        if self.closing: return
        self.closing=True; self.lost=True
        self.net.log.append(("close", self.cid, self.loop.time()))
        self.loop.call_soon(self.proto.connection_lost, None)
    def abort(self): self.close()
    def is_closing(self): return self.closing
    def get_extra_info(self, name, default=None): return default
    def get_write_buffer_size(self): return 0
    def can_write_eof(self): return False
    def pause_reading(self): pass
    def resume_reading(self): pass
    def is_reading(self): return True
    # peer actions
    def peer_send(self, data): 
        if not self.lost: self.proto.data_received(data)
    def peer_eof(self):
        if not self.lost:
            keep = self.proto.eof_received()
            if not keep: self.close()
    def peer_reset(self): self._fatal(ConnectionResetError("peer reset"))

class Net:
    def __init__(self): self.log=[]; self.conns=[]; self.mode="accept"; self.latency=0.0; self.attempts=0
    async def connect(self, loop, pf, host, port):
        self.attempts += 1
        self.log.append(("attempt", loop.time()))
        if self.latency: await asyncio.sleep(self.latency)
        if self.mode == "refuse": raise ConnectionRefusedError("refused")
        proto = pf(); t = FakeTransport(loop, proto, self, len(self.conns)); self.conns.append(t)
        self.log.append(("open", t.cid, loop.time()))
        proto.connection_made(t)
        return t, proto
    def open_conns(self): return [c for c in self.conns if not c.closing]
