import PyAirtouch.Lemmas.Crc
