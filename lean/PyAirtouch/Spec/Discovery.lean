/-!
# Specification: discovery (property C18)

From the vendor documents: AirTouch 4 answers the broadcast `HF-A11ASSISTHREAD` (port 49004) with
`[IP],[MAC/serial],AirTouch4,[AirTouch ID]`; AirTouch 5 answers
`::REQUEST-POLYAIRE-AIRTOUCH-DEVICE-INFO:;` (port 49005) with
`[IP],[ConsoleID],AirTouch5,[AirTouch ID],[Device Name]` — the device name is the rest of the
datagram, commas included.  A datagram is a *response* iff it has exactly that shape and every
field is valid UTF-8; anything else contributes nothing.

The search: the request is sent at `t0`, `t0+4`, `t0+8` ticks (0.5 s apart) at most; a request is
only sent while no response has been collected; the search ends at the end of the first interval in
which a response was collected, at the latest at `t0+12`; the result is the set of distinct responses
collected by then.
-/
namespace PyAirtouch.Spec.Discovery

abbrev Bytes := List Nat

def comma : Nat := 44

/-- split at the first `n` commas: `n+1` fields if there are at least `n` commas -/
def splitFirst : Nat → Bytes → List Bytes
  | 0, bs => [bs]
  | n+1, bs =>
    match bs.span (· ≠ comma) with
    | (pre, []) => [pre]
    | (pre, _ :: rest) => pre :: splitFirst n rest

def toByteArray (bs : Bytes) : ByteArray := ⟨(bs.map (fun b => b.toUInt8)).toArray⟩
def utf8Valid (bs : Bytes) : Bool := (String.fromUTF8? (toByteArray bs)).isSome

structure Response where
  gen : Nat
  host : Bytes
  serial : Bytes
  airtouchId : Bytes
  name : Option Bytes        -- AirTouch 5 only
deriving DecidableEq, Repr

def marker4 : Bytes := "AirTouch4".toUTF8.toList.map (·.toNat)
def marker5 : Bytes := "AirTouch5".toUTF8.toList.map (·.toNat)

/-- the vendor response format of generation `gen`; `none` = not a response -/
def readResponse (gen : Nat) (d : Bytes) : Option Response :=
  if gen = 4 then
    match splitFirst 3 d with
    | [host, serial, mk, aid] =>
      if mk = marker4 ∧ utf8Valid host ∧ utf8Valid serial ∧ utf8Valid aid
      then some { gen := 4, host := host, serial := serial, airtouchId := aid, name := none } else none
    | _ => none
  else
    match splitFirst 4 d with
    | [host, serial, mk, aid, name] =>
      if mk = marker5 ∧ utf8Valid host ∧ utf8Valid serial ∧ utf8Valid aid ∧ utf8Valid name
      then some { gen := 5, host := host, serial := serial, airtouchId := aid, name := some name } else none
    | _ => none

/-- arrival of datagrams relative to the start of the search: `(tick, datagram)` in time order.
    Expected result: requests sent at 0, 4, 8 while nothing was collected before that instant;
    the search returns at the end of the interval in which the first response arrived (or at 12);
    responses arriving before the return are collected, de-duplicated. -/
def expectedRequests (gen : Nat) (arrivals : List (Nat × Bytes)) : List Nat :=
  [0, 4, 8].filter fun t => (arrivals.filter (fun a => a.1 < t ∧ (readResponse gen a.2).isSome)).isEmpty

def returnTime (gen : Nat) (arrivals : List (Nat × Bytes)) : Nat :=
  match (expectedRequests gen arrivals).getLast? with
  | some t => t + 4
  | none => 0

def dedup {α} [DecidableEq α] : List α → List α
  | [] => []
  | x :: xs => if x ∈ xs then dedup xs else x :: dedup xs

def expectedResponses (gen : Nat) (arrivals : List (Nat × Bytes)) : List Response :=
  dedup ((arrivals.filter (fun a => a.1 < returnTime gen arrivals)).filterMap (fun a => readResponse gen a.2))

end PyAirtouch.Spec.Discovery
