import PyAirtouch.Spec.Crc

/-!
# Specification: reading AirTouch 5 messages

Written ONLY from "AirTouch 5 Communication Protocol V1.2" (Polyaire Pty Ltd).  Section numbers below
(3.a … 4.b.iv) are the document's.  Nothing here was derived from any client implementation.

Bytes are `List Nat`.  The vendor numbers bits `Bit8` (most significant) … `Bit1` (least significant);
`bits b hi lo` is the field occupying vendor bits `hi`..`lo` of byte `b`.  The vendor numbers the bytes of
a table `Byte1`, `Byte2`, …; in the readers the variables `b1`, `b2`, … are exactly those bytes.
Multi-byte fields are big-endian (3.e states it for the data length; the examples show it for every other
two-byte field).  Temperatures / set-points are `Int` tenths of a degree Celsius.

## Readers, record types and rendered field names

Frame (section 3) — `readFrame : List Nat → Option Frame`, `frameOk : List Nat → Bool`, `renderFrame`
| field        | document                                        | values                                   |
|--------------|-------------------------------------------------|------------------------------------------|
| address      | 3.b Address (2 bytes)                           | hex, e.g. `80b0`                         |
| msg_id       | 3.c Message id                                  | decimal                                  |
| msg_type     | 3.d Message type                                | `control_status`(0xC0) `extended`(0x1F) `other(n)` |
| data_length  | 3.e Data length (high byte first)               | decimal                                  |
| data         | 3.f Data                                        | hex                                      |
| check        | 3.g Check bytes                                 | hex (2 bytes)                            |

Sub-header of a 0xC0 message (4.a) — `readSubMessage : List Nat → Option SubMessage`, `renderSubHeader`
| sub_type     | Byte1 Sub message type                          | decimal (0x20=32, 0x21=33, 0x22=34, 0x23=35) |
| reserved     | Byte2 "Keep 0"                                  | decimal (raw byte)                       |
| normal_length| Byte3-4 Normal data length                      | decimal                                  |
| repeat_length| Byte5-6 Each repeat data length                 | decimal                                  |
| repeat_count | Byte7-8 Repeat data count                       | decimal                                  |

Zone control (4.a.i, 0x20) — `readZoneControl : List Nat → Option (List ZoneControl)`, `renderZoneControl`
| zone         | Byte1 Bit6-1 Zone index                         | decimal                                  |
| setting      | Byte2 Bit8-6 Zone setting value                 | `decrease` `increase` `set_percentage` `set_setpoint` `keep` |
| control_type | Byte2 Bit5-4 Control type                       | `change` `percentage` `temperature` `keep` |
| power        | Byte2 Bit3-1 Power                              | `change` `off` `on` `turbo` `keep`       |
| value        | Byte3 Value to set, as qualified by `setting`   | `percentage(n)` `setpoint(tenths)` `keep` |
| value_raw    | Byte3                                           | decimal                                  |
| reserved_zero| Byte1 Bit8-7 and Byte4, both "Keep 0"           | `true` / `false`                         |

Zone status (4.a.ii, 0x21) — `readZoneStatus : List Nat → Option (List ZoneStatus)`, `renderZoneStatus`;
request form `isZoneStatusRequest`
| zone         | Byte1 Bit6-1 Zone index                         | decimal                                  |
| power        | Byte1 Bit8-7 Zone power state                   | `off` `on` `turbo` `other(2)`            |
| control_method | Byte2 Bit8 Control method                     | `temperature` `percentage`               |
| open_percentage | Byte2 Bit7-1 Open percentage                 | decimal                                  |
| setpoint     | Byte3 Set point, (value+100)/10, 0xFF invalid   | tenths, or `none`                        |
| has_sensor   | Byte4 Bit8 Sensor                               | `true` / `false`                         |
| temperature  | Byte5 Bit3-1 ++ Byte6, 0..2000: (VALUE-500)/10  | tenths, or `none` (not available)        |
| spill        | Byte7 Bit2 Spill                                | `true` / `false`                         |
| low_battery  | Byte7 Bit1 Low battery                          | `true` / `false`                         |

AC control (4.a.iii, 0x22) — `readAcControl : List Nat → Option (List AcControl)`, `renderAcControl`
| ac           | Byte1 Bit4-1 AC index                           | decimal                                  |
| power        | Byte1 Bit8-5 Power setting                      | `change` `off` `on` `away` `sleep` `keep` |
| mode         | Byte2 Bit8-5 AC mode                            | `auto` `heat` `dry` `fan` `cool` `keep`  |
| fan_speed    | Byte2 Bit4-1 AC fan speed                       | `auto` `quiet` `low` `medium` `high` `powerful` `turbo` `intelligent_auto` `keep` |
| setpoint     | Byte3 Setpoint control + Byte4 Setpoint value   | `keep` `set(tenths)` `invalid(code)`     |
| setpoint_value_raw | Byte4                                     | decimal                                  |

AC status (4.a.iv, 0x23) — `readAcStatus : List Nat → Option (List AcStatus)`, `renderAcStatus`;
request form `isAcStatusRequest`
| ac           | Byte1 Bit4-1 AC index                           | decimal                                  |
| power        | Byte1 Bit8-5 AC power state                     | `off` `on` `away_off` `away_on` `sleep` `not_available` |
| mode         | Byte2 Bit8-5 AC mode                            | `auto` `heat` `dry` `fan` `cool` `auto_heat` `auto_cool` `not_available` |
| fan_speed    | Byte2 Bit4-1 AC fan speed                       | `auto` `quiet` `low` `medium` `high` `powerful` `turbo` `intelligent_auto` `not_available` |
| setpoint     | Byte3, 0..250: (VALUE+100)/10, other n/a        | tenths, or `none`                        |
| turbo        | Byte4 Bit4 Turbo                                | `true` / `false`                         |
| bypass       | Byte4 Bit3 Bypass                               | `true` / `false`                         |
| spill        | Byte4 Bit2 Spill                                | `true` / `false`                         |
| timer        | Byte4 Bit1 Timer status                         | `true` / `false`                         |
| temperature  | Byte5 Bit3-1 ++ Byte6, 0..2000: (VALUE-500)/10  | tenths, or `none` (not available)        |
| error_code   | Byte7-8 Error code, 0 = no error                | decimal, or `none` (no error)            |

All 0xC0 sub-messages together: `readControlStatus : List Nat → Option ControlStatus`, `renderControlStatus`.

AC ability (4.b.i, 0xFF 0x11) — `readAcAbility : List Nat → Option (List AcAbility)`, `renderAcAbility`
| ac           | Byte3 AC index                                  | decimal                                  |
| following_length | Byte4 Following data length                 | decimal                                  |
| name         | Byte5-20 AC name, bytes before the first 0x00   | hex                                      |
| start_zone   | Byte21 Start zone index                         | decimal                                  |
| zone_count   | Byte22 Zone count                               | decimal                                  |
| mode_cool / mode_fan / mode_dry / mode_heat / mode_auto | Byte23 Bit5 / 4 / 3 / 2 / 1 | `true` / `false`      |
| fan_intelligent_auto / fan_turbo / fan_powerful / fan_high / fan_medium / fan_low / fan_quiet / fan_auto | Byte24 Bit8 … Bit1 | `true` / `false` |
| min_cool_setpoint / max_cool_setpoint / min_heat_setpoint / max_heat_setpoint | Byte25 / 26 / 27 / 28 (whole °C in the example) | tenths |

AC error information (4.b.ii, 0xFF 0x10) — `readAcError : List Nat → Option AcError`, `renderAcError`
| ac           | Byte3 AC index                                  | decimal                                  |
| error_info   | Byte4 length + Byte5.. Error info string        | hex (empty when no error)                |

Zone names (4.b.iii, 0xFF 0x13) — `readZoneNames : List Nat → Option (List ZoneName)`, `renderZoneNames`
| zone         | Byte3 Zone index                                | decimal                                  |
| name         | Byte4 Name length + Byte5..n Zone name          | hex                                      |

Console version (4.b.iv, 0xFF 0x30) — `readConsoleVersion : List Nat → Option ConsoleVersion`, `renderConsoleVersion`
| update_sign  | Byte3 Update sign                               | decimal (raw byte)                       |
| update_available | Byte3 ≠ 0 ("Other - new version available") | `true` / `false`                         |
| versions     | Byte4 length + Byte5.. split at "," (0x2C)      | hex strings joined with `,` ; first = master / the console communicated with |

Requests of extended messages (4.b) — `readExtendedRequest : List Nat → Option ExtRequest`, `renderExtRequest`
| request      | `ac_ability_all` `ac_ability(n)` `ac_error(n)` `zone_names_all` `zone_name(n)` `console_version` |
Responses together: `readExtendedResponse : List Nat → Option ExtResponse`, `renderExtResponse`.

## Redundant bytes (3.h) — documented rule, NOT implemented here

"To prevent the package bytes from containing the same bytes as header, a 00 is inserted after every three
consecutive 0x55s in the package.  The inserted 00 is redundant bytes.  Redundant bytes do not participate
in check calculation."  All readers in this file take the package with the redundant bytes already removed;
the data length (3.e "length of actual data") and the check bytes refer to that form.

## The undocumented outer wrapper

Not part of the document, not specified here: `readFrame` starts at the documented header 0x55 0x55 0x55 0xAA.
-/
namespace PyAirtouch.Spec.At5

/-! ## Helpers -/

/-- the field occupying vendor bits `hi`..`lo` (Bit8 = most significant … Bit1 = least significant) of byte `b` -/
def bits (b hi lo : Nat) : Nat := (b >>> (lo - 1)) % 2 ^ (hi + 1 - lo)

/-- a single vendor bit as a flag -/
def bit (b n : Nat) : Bool := bits b n n == 1

/-- big-endian two-byte number: "The first byte is the high byte, the second byte is the low byte." (3.e) -/
def be16 (hi lo : Nat) : Nat := hi * 256 + lo

example : bits 0xC5 8 7 = 3 := by decide
example : bits 0xC5 6 1 = 5 := by decide
example : bits 0x17 5 5 = 1 ∧ bits 0x17 4 4 = 0 := by decide

def hexByte (b : Nat) : String :=
  let ds := Nat.toDigits 16 b
  String.ofList (if ds.length < 2 then '0' :: ds else ds)

/-- byte string as lowercase hex -/
def hex (bs : List Nat) : String := String.join (bs.map hexByte)

def renderBool (b : Bool) : String := if b then "true" else "false"
def renderOptInt : Option Int → String
  | none => "none"
  | some i => toString i
def renderOptNat : Option Nat → String
  | none => "none"
  | some n => toString n
/-- records of a repeated message are separated by ` | ` -/
def renderRecords {α : Type} (f : α → String) (xs : List α) : String := " | ".intercalate (xs.map f)

/-- the bytes before the first 0x00 ("If less than 16 bytes, end with 0") -/
def untilNul : List Nat → List Nat
  | [] => []
  | b :: bs => if b = 0 then [] else b :: untilNul bs

/-- split a byte string at every occurrence of `sep` -/
def splitAt (sep : Nat) : List Nat → List (List Nat)
  | [] => [[]]
  | b :: bs =>
    if b = sep then [] :: splitAt sep bs
    else match splitAt sep bs with
      | [] => [[b]]
      | w :: ws => (b :: w) :: ws

/-- `(value + 100)/10` °C, in tenths -/
def setpointTenths (value : Nat) : Int := (value : Int) + 100
/-- `(VALUE − 500)/10` °C for VALUE in 0..2000, in tenths; "Other: Not available" -/
def temperatureTenths (value : Nat) : Option Int :=
  if value ≤ 2000 then some ((value : Int) - 500) else none

/-! ## Section 3: package format -/

/-- 3.a "Header is always 0x55 0x55 0x55 0xAA." -/
def header : List Nat := [0x55, 0x55, 0x55, 0xAA]

/-- 3.b address when sending a 0xC0 message to AirTouch -/
def addrToAirtouch : List Nat := [0x80, 0xb0]
/-- 3.b address when sending an extended message to AirTouch -/
def addrToAirtouchExtended : List Nat := [0x90, 0xb0]
/-- 3.b "When receiving from AirTouch, last byte of address will be 0x80 …" -/
def addrLastFromAirtouch : Nat := 0x80
/-- 3.b "… or 0x90/0x91 (for Extended message)"; 4.b: "the last byte of address will be 0x9X" -/
def addrLastFromAirtouchExtended : List Nat := [0x90, 0x91]
/-- first address byte of every received example in the document (the document states no rule for it) -/
def addrFirstFromAirtouchInExamples : Nat := 0xb0

/-- 3.d message types -/
def msgTypeControlStatus : Nat := 0xC0
def msgTypeExtended : Nat := 0x1F

inductive MsgType
  | controlStatus        -- 0xC0 control command and status message
  | extended             -- 0x1F extended message
  | other (code : Nat)   -- "Ignore any other received types."
deriving DecidableEq, Repr

def MsgType.ofCode (c : Nat) : MsgType :=
  if c = 0xC0 then .controlStatus else if c = 0x1F then .extended else .other c

def MsgType.render : MsgType → String
  | .controlStatus => "control_status"
  | .extended => "extended"
  | .other c => s!"other({c})"

/-- The parts of one package (after removal of redundant bytes, see 3.h). -/
structure Frame where
  address : List Nat    -- 2 bytes
  msgId : Nat
  msgType : Nat
  dataLen : Nat         -- as announced by the two length bytes, high byte first
  data : List Nat
  check : List Nat      -- 2 bytes as transmitted
deriving DecidableEq, Repr

/-- Header (4) | Address (2) | Message id (1) | Message type (1) | Data length (2) | Data | CRC16 (2).
`none` when the header is not 0x55 0x55 0x55 0xAA or the byte count is not exactly what the data length
announces. -/
def readFrame (bs : List Nat) : Option Frame :=
  match bs with
  | h1 :: h2 :: h3 :: h4 :: a1 :: a2 :: mid :: ty :: lh :: ll :: rest =>
    let n := be16 lh ll
    if [h1, h2, h3, h4] = header ∧ rest.length = n + 2 then
      some { address := [a1, a2], msgId := mid, msgType := ty, dataLen := n,
             data := rest.take n, check := rest.drop n }
    else none
  | _ => none

/-- 3.g: the bytes the check covers: "all the package bytes except the header (Address, Message id, Message
type, Data length, Data)". -/
def checkedBytes (bs : List Nat) : List Nat := (bs.drop 4).take (bs.length - 6)

/-- the package is well-framed and its check bytes are the CRC16 MODBUS of `checkedBytes`, high byte first
(every example of the document shows this order) -/
def frameOk (bs : List Nat) : Bool :=
  match readFrame bs with
  | some f => f.check == PyAirtouch.Spec.checkBytes (checkedBytes bs)
  | none => false

def renderFrame (f : Frame) : String :=
  s!"address={hex f.address};msg_id={f.msgId};msg_type={(MsgType.ofCode f.msgType).render};" ++
  s!"data_length={f.dataLen};data={hex f.data};check={hex f.check}"

/-! ## Section 4.a: control command and status message (0xC0) -/

def subTypeZoneControl : Nat := 0x20
def subTypeZoneStatus : Nat := 0x21
def subTypeAcControl : Nat := 0x22
def subTypeAcStatus : Nat := 0x23

/-- "First 8 bytes are the sub message type and data length details." -/
structure SubHeader where
  subType : Nat      -- Byte1
  reserved : Nat     -- Byte2 "Keep 0"
  normalLen : Nat    -- Byte3-4
  eachLen : Nat      -- Byte5-6 each repeat data length
  count : Nat        -- Byte7-8 repeat data count
deriving DecidableEq, Repr

structure SubMessage where
  hdr : SubHeader
  normal : List Nat            -- the normal data (`normalLen` bytes)
  records : List (List Nat)    -- `count` repeat data blocks of `eachLen` bytes each
deriving DecidableEq, Repr

/-- `count` consecutive blocks of `each` bytes -/
def splitRecords (each : Nat) : Nat → List Nat → List (List Nat)
  | 0, _ => []
  | n + 1, bs => bs.take each :: splitRecords each n (bs.drop each)

/-- Reads the data of one 0xC0 message.  `none` unless
"Data length = 8 + Normal data length + repeat data length * repeat data count". -/
def readSubMessage (data : List Nat) : Option SubMessage :=
  match data with
  | b1 :: b2 :: b3 :: b4 :: b5 :: b6 :: b7 :: b8 :: sub =>
    let h : SubHeader :=
      { subType := b1, reserved := b2, normalLen := be16 b3 b4, eachLen := be16 b5 b6, count := be16 b7 b8 }
    if sub.length = h.normalLen + h.eachLen * h.count then
      some { hdr := h, normal := sub.take h.normalLen,
             records := splitRecords h.eachLen h.count (sub.drop h.normalLen) }
    else none
  | _ => none

def renderSubHeader (h : SubHeader) : String :=
  s!"sub_type={h.subType};reserved={h.reserved};normal_length={h.normalLen};" ++
  s!"repeat_length={h.eachLen};repeat_count={h.count}"

/-- the request form of the status messages: "without any sub data (data length: 0x00 0x08, repeat count:
0x00, repeat length: 0x00)" -/
def isRequestOf (subType : Nat) (data : List Nat) : Bool :=
  match readSubMessage data with
  | some m => m.hdr.subType == subType && m.hdr.normalLen == 0 && m.hdr.eachLen == 0 && m.hdr.count == 0
  | none => false

/-- Reads every repeat data block with `f`; `f` gets the whole block of the announced length and looks only
at the documented prefix (newer versions may append bytes). -/
def readAll {α : Type} (f : List Nat → Option α) : List (List Nat) → Option (List α)
  | [] => some []
  | r :: rs =>
    match f r, readAll f rs with
    | some x, some xs => some (x :: xs)
    | _, _ => none

/-! ### 4.a.i Zone control (0x20) -/

/-- Byte2 Bit8-6 -/
inductive ZoneSettingCmd
  | decrease        -- 010: Value decrease (-1°C/-5%)
  | increase        -- 011: Value increase (+1°C/+5%)
  | setPercentage   -- 100: Set open percentage
  | setSetpoint     -- 101: Set target setpoint
  | keep            -- Other: Keep setting value
deriving DecidableEq, Repr

def ZoneSettingCmd.ofCode : Nat → ZoneSettingCmd
  | 2 => .decrease | 3 => .increase | 4 => .setPercentage | 5 => .setSetpoint | _ => .keep

def ZoneSettingCmd.render : ZoneSettingCmd → String
  | .decrease => "decrease" | .increase => "increase" | .setPercentage => "set_percentage"
  | .setSetpoint => "set_setpoint" | .keep => "keep"

/-- Byte2 Bit5-4 -/
inductive ZoneControlTypeCmd
  | keep          -- 00: Keep setting value (Must set 00 when no sensor)
  | change        -- 01: Change type
  | percentage    -- 10: Set to percentage control
  | temperature   -- 11: Set to temperature control
deriving DecidableEq, Repr

def ZoneControlTypeCmd.ofCode : Nat → ZoneControlTypeCmd
  | 1 => .change | 2 => .percentage | 3 => .temperature | _ => .keep

def ZoneControlTypeCmd.render : ZoneControlTypeCmd → String
  | .keep => "keep" | .change => "change" | .percentage => "percentage" | .temperature => "temperature"

/-- Byte2 Bit3-1 -/
inductive ZonePowerCmd
  | change   -- 001: Change on/off state
  | off      -- 010: Set to off
  | on       -- 011: Set to on
  | turbo    -- 101: Set to turbo
  | keep     -- Other: Keep power state
deriving DecidableEq, Repr

def ZonePowerCmd.ofCode : Nat → ZonePowerCmd
  | 1 => .change | 2 => .off | 3 => .on | 5 => .turbo | _ => .keep

def ZonePowerCmd.render : ZonePowerCmd → String
  | .change => "change" | .off => "off" | .on => "on" | .turbo => "turbo" | .keep => "keep"

/-- Byte3 as qualified by the zone setting value field -/
inductive ZoneValue
  | percentage (pct : Nat)     -- "When set percentage: 0-100"
  | setpoint (tenths : Int)    -- "When set temperature: 0-250, setpoint=(value+100)/10"
  | keep                       -- "Other: Keep setting value"
deriving DecidableEq, Repr

def ZoneValue.render : ZoneValue → String
  | .percentage p => s!"percentage({p})" | .setpoint t => s!"setpoint({t})" | .keep => "keep"

def zoneValueOf (s : ZoneSettingCmd) (raw : Nat) : ZoneValue :=
  match s with
  | .setPercentage => if raw ≤ 100 then .percentage raw else .keep
  | .setSetpoint => if raw ≤ 250 then .setpoint (setpointTenths raw) else .keep
  | _ => .keep

structure ZoneControl where
  zone : Nat                       -- Byte1 Bit6-1
  setting : ZoneSettingCmd         -- Byte2 Bit8-6
  controlType : ZoneControlTypeCmd -- Byte2 Bit5-4
  power : ZonePowerCmd             -- Byte2 Bit3-1
  value : ZoneValue                -- Byte3, interpreted
  valueRaw : Nat                   -- Byte3
  reservedZero : Bool              -- Byte1 Bit8-7 = 0 and Byte4 = 0 ("Keep 0")
deriving DecidableEq, Repr

def readZoneControlRecord : List Nat → Option ZoneControl
  | b1 :: b2 :: b3 :: b4 :: _ =>
    let s := ZoneSettingCmd.ofCode (bits b2 8 6)
    some { zone := bits b1 6 1
           setting := s
           controlType := ZoneControlTypeCmd.ofCode (bits b2 5 4)
           power := ZonePowerCmd.ofCode (bits b2 3 1)
           value := zoneValueOf s b3
           valueRaw := b3
           reservedZero := bits b1 8 7 == 0 && b4 == 0 }
  | _ => none

/-- Data of a 0xC0 message with sub type 0x20.  A command to AirTouch: "No normal data (byte3 byte4: 0).
Each repeat data (4 bytes) … (byte5 byte6: 0x00 0x04)" — both are required here, the document allows no
other layout for a command. -/
def readZoneControl (data : List Nat) : Option (List ZoneControl) :=
  match readSubMessage data with
  | some m =>
    if m.hdr.subType = subTypeZoneControl ∧ m.hdr.normalLen = 0 ∧ m.hdr.eachLen = 4 then
      readAll readZoneControlRecord m.records
    else none
  | none => none

/-- whether the record changes the zone's setting value (open percentage / set-point) -/
def ZoneControl.changesValue (c : ZoneControl) : Bool :=
  match c.setting with
  | .decrease | .increase => true
  | .setPercentage | .setSetpoint => c.value != .keep
  | .keep => false

/-- the attributes this record does NOT keep, among `value`, `control_type`, `power` -/
def ZoneControl.changes (c : ZoneControl) : List String :=
  (if c.changesValue then ["value"] else []) ++
  (if c.controlType != .keep then ["control_type"] else []) ++
  (if c.power != .keep then ["power"] else [])

def renderZoneControlRecord (c : ZoneControl) : String :=
  s!"zone={c.zone};setting={c.setting.render};control_type={c.controlType.render};power={c.power.render};" ++
  s!"value={c.value.render};value_raw={c.valueRaw};reserved_zero={renderBool c.reservedZero}"

def renderZoneControl (cs : List ZoneControl) : String := renderRecords renderZoneControlRecord cs

/-! ### 4.a.ii Zone status (0x21) -/

/-- Byte1 Bit8-7 -/
inductive ZonePower
  | off | on | turbo       -- 00 / 01 / 11
  | other (code : Nat)     -- 10 is not defined by the document
deriving DecidableEq, Repr

def ZonePower.ofCode : Nat → ZonePower
  | 0 => .off | 1 => .on | 3 => .turbo | c => .other c

def ZonePower.render : ZonePower → String
  | .off => "off" | .on => "on" | .turbo => "turbo" | .other c => s!"other({c})"

/-- Byte2 Bit8: "1: temperature control, 0: percentage control" -/
inductive ControlMethod
  | temperature | percentage
deriving DecidableEq, Repr

def ControlMethod.render : ControlMethod → String
  | .temperature => "temperature" | .percentage => "percentage"

structure ZoneStatus where
  zone : Nat                    -- Byte1 Bit6-1
  power : ZonePower             -- Byte1 Bit8-7
  controlMethod : ControlMethod -- Byte2 Bit8
  openPercentage : Nat          -- Byte2 Bit7-1
  setpoint : Option Int         -- Byte3; none = 0xFF invalid
  hasSensor : Bool              -- Byte4 Bit8
  temperature : Option Int      -- Byte5 Bit3-1 ++ Byte6; none = not available
  spill : Bool                  -- Byte7 Bit2
  lowBattery : Bool             -- Byte7 Bit1
deriving DecidableEq, Repr

/-- The documented 8-byte prefix of a zone record (Byte4 Bit7-1, Byte5 Bit8-4, Byte7 Bit8-3, Byte8: NOT USED). -/
def readZoneStatusRecord : List Nat → Option ZoneStatus
  | b1 :: b2 :: b3 :: b4 :: b5 :: b6 :: b7 :: _b8 :: _ =>
    some { zone := bits b1 6 1
           power := ZonePower.ofCode (bits b1 8 7)
           controlMethod := if bit b2 8 then .temperature else .percentage
           openPercentage := bits b2 7 1
           setpoint := if b3 = 0xFF then none else some (setpointTenths b3)
           hasSensor := bit b4 8
           temperature := temperatureTenths (be16 (bits b5 3 1) b6)
           spill := bit b7 2
           lowBattery := bit b7 1 }
  | _ => none

/-- Data of a 0xC0 message with sub type 0x21 received from AirTouch.  The normal data (whatever length is
announced) is skipped, the zones are read at multiples of the announced each-repeat-data length ("If the
protocol is upgraded, this value may change. Use this specific value for data parsing.").  `none` when the
announced record length is shorter than the documented 8 bytes — in particular for the request form. -/
def readZoneStatus (data : List Nat) : Option (List ZoneStatus) :=
  match readSubMessage data with
  | some m =>
    if m.hdr.subType = subTypeZoneStatus ∧ 8 ≤ m.hdr.eachLen then readAll readZoneStatusRecord m.records
    else none
  | none => none

def isZoneStatusRequest (data : List Nat) : Bool := isRequestOf subTypeZoneStatus data

def renderZoneStatusRecord (z : ZoneStatus) : String :=
  s!"zone={z.zone};power={z.power.render};control_method={z.controlMethod.render};" ++
  s!"open_percentage={z.openPercentage};setpoint={renderOptInt z.setpoint};" ++
  s!"has_sensor={renderBool z.hasSensor};temperature={renderOptInt z.temperature};" ++
  s!"spill={renderBool z.spill};low_battery={renderBool z.lowBattery}"

def renderZoneStatus (zs : List ZoneStatus) : String := renderRecords renderZoneStatusRecord zs

/-! ### 4.a.iii AC control (0x22) -/

/-- Byte1 Bit8-5 -/
inductive AcPowerCmd
  | change   -- 0001: Change on/off status
  | off      -- 0010: Set to off
  | on       -- 0011: Set to on
  | away     -- 0100: Set to away
  | sleep    -- 0101: Set to sleep
  | keep     -- Other: Keep power setting
deriving DecidableEq, Repr

def AcPowerCmd.ofCode : Nat → AcPowerCmd
  | 1 => .change | 2 => .off | 3 => .on | 4 => .away | 5 => .sleep | _ => .keep

def AcPowerCmd.render : AcPowerCmd → String
  | .change => "change" | .off => "off" | .on => "on" | .away => "away" | .sleep => "sleep" | .keep => "keep"

/-- Byte2 Bit8-5 -/
inductive AcModeCmd
  | auto | heat | dry | fan | cool   -- 0000 / 0001 / 0010 / 0011 / 0100
  | keep                             -- Other: Keep mode setting
deriving DecidableEq, Repr

def AcModeCmd.ofCode : Nat → AcModeCmd
  | 0 => .auto | 1 => .heat | 2 => .dry | 3 => .fan | 4 => .cool | _ => .keep

def AcModeCmd.render : AcModeCmd → String
  | .auto => "auto" | .heat => "heat" | .dry => "dry" | .fan => "fan" | .cool => "cool" | .keep => "keep"

/-- Byte2 Bit4-1 -/
inductive AcFanCmd
  | auto | quiet | low | medium | high | powerful | turbo   -- 0000 … 0110
  | intelligentAuto                                         -- 1000
  | keep                                                    -- Other: Keep fan speed setting
deriving DecidableEq, Repr

def AcFanCmd.ofCode : Nat → AcFanCmd
  | 0 => .auto | 1 => .quiet | 2 => .low | 3 => .medium | 4 => .high | 5 => .powerful | 6 => .turbo
  | 8 => .intelligentAuto | _ => .keep

def AcFanCmd.render : AcFanCmd → String
  | .auto => "auto" | .quiet => "quiet" | .low => "low" | .medium => "medium" | .high => "high"
  | .powerful => "powerful" | .turbo => "turbo" | .intelligentAuto => "intelligent_auto" | .keep => "keep"

/-- Byte3 Setpoint control, Byte4 Setpoint value -/
inductive AcSetpointCmd
  | keep                    -- 0x00: Keep setpoint value
  | set (tenths : Int)      -- 0x40: Change setpoint; "Data to be sent = (setpoint * 10) - 100"
  | invalid (code : Nat)    -- Other: "Invalidate data."
deriving DecidableEq, Repr

def AcSetpointCmd.render : AcSetpointCmd → String
  | .keep => "keep" | .set t => s!"set({t})" | .invalid c => s!"invalid({c})"

structure AcControl where
  ac : Nat                   -- Byte1 Bit4-1
  power : AcPowerCmd         -- Byte1 Bit8-5
  mode : AcModeCmd           -- Byte2 Bit8-5
  fanSpeed : AcFanCmd        -- Byte2 Bit4-1
  setpoint : AcSetpointCmd   -- Byte3 (+ Byte4)
  setpointValueRaw : Nat     -- Byte4
deriving DecidableEq, Repr

def readAcControlRecord : List Nat → Option AcControl
  | b1 :: b2 :: b3 :: b4 :: _ =>
    some { ac := bits b1 4 1
           power := AcPowerCmd.ofCode (bits b1 8 5)
           mode := AcModeCmd.ofCode (bits b2 8 5)
           fanSpeed := AcFanCmd.ofCode (bits b2 4 1)
           setpoint := if b3 = 0x40 then .set (setpointTenths b4) else if b3 = 0x00 then .keep else .invalid b3
           setpointValueRaw := b4 }
  | _ => none

/-- Data of a 0xC0 message with sub type 0x22.  A command to AirTouch: no normal data and 4-byte repeat
data are required (the document writes "byte7 byte8: 0x00 0x04" for the repeat length; by 4.a and by both
examples the repeat length is Byte5-6 and Byte7-8 is the count). -/
def readAcControl (data : List Nat) : Option (List AcControl) :=
  match readSubMessage data with
  | some m =>
    if m.hdr.subType = subTypeAcControl ∧ m.hdr.normalLen = 0 ∧ m.hdr.eachLen = 4 then
      readAll readAcControlRecord m.records
    else none
  | none => none

/-- the attributes this record does NOT keep, among `power`, `mode`, `fan_speed`, `setpoint`
(an `invalid` set-point control byte is listed too: it is not "keep") -/
def AcControl.changes (c : AcControl) : List String :=
  (if c.power != .keep then ["power"] else []) ++
  (if c.mode != .keep then ["mode"] else []) ++
  (if c.fanSpeed != .keep then ["fan_speed"] else []) ++
  (if c.setpoint != .keep then ["setpoint"] else [])

def renderAcControlRecord (c : AcControl) : String :=
  s!"ac={c.ac};power={c.power.render};mode={c.mode.render};fan_speed={c.fanSpeed.render};" ++
  s!"setpoint={c.setpoint.render};setpoint_value_raw={c.setpointValueRaw}"

def renderAcControl (cs : List AcControl) : String := renderRecords renderAcControlRecord cs

/-! ### 4.a.iv AC status (0x23) -/

/-- Byte1 Bit8-5 -/
inductive AcPower
  | off | on | awayOff | awayOn   -- 0000 / 0001 / 0010 Away(Off) / 0011 Away(On)
  | sleep                         -- 0101
  | notAvailable (code : Nat)     -- Other: Not available
deriving DecidableEq, Repr

def AcPower.ofCode : Nat → AcPower
  | 0 => .off | 1 => .on | 2 => .awayOff | 3 => .awayOn | 5 => .sleep | c => .notAvailable c

def AcPower.render : AcPower → String
  | .off => "off" | .on => "on" | .awayOff => "away_off" | .awayOn => "away_on" | .sleep => "sleep"
  | .notAvailable _ => "not_available"

/-- Byte2 Bit8-5 -/
inductive AcMode
  | auto | heat | dry | fan | cool   -- 0000 … 0100
  | autoHeat | autoCool              -- 1000 / 1001
  | notAvailable (code : Nat)        -- Other: Not available
deriving DecidableEq, Repr

def AcMode.ofCode : Nat → AcMode
  | 0 => .auto | 1 => .heat | 2 => .dry | 3 => .fan | 4 => .cool | 8 => .autoHeat | 9 => .autoCool
  | c => .notAvailable c

def AcMode.render : AcMode → String
  | .auto => "auto" | .heat => "heat" | .dry => "dry" | .fan => "fan" | .cool => "cool"
  | .autoHeat => "auto_heat" | .autoCool => "auto_cool" | .notAvailable _ => "not_available"

/-- Byte2 Bit4-1 -/
inductive AcFan
  | auto | quiet | low | medium | high | powerful | turbo   -- 0000 … 0110
  | intelligentAuto (code : Nat)                            -- 1001 - 1110: Intelligent Auto
  | notAvailable (code : Nat)                               -- Other: Not available
deriving DecidableEq, Repr

def AcFan.ofCode (c : Nat) : AcFan :=
  match c with
  | 0 => .auto | 1 => .quiet | 2 => .low | 3 => .medium | 4 => .high | 5 => .powerful | 6 => .turbo
  | _ => if 9 ≤ c ∧ c ≤ 14 then .intelligentAuto c else .notAvailable c

def AcFan.render : AcFan → String
  | .auto => "auto" | .quiet => "quiet" | .low => "low" | .medium => "medium" | .high => "high"
  | .powerful => "powerful" | .turbo => "turbo" | .intelligentAuto _ => "intelligent_auto"
  | .notAvailable _ => "not_available"

structure AcStatus where
  ac : Nat                   -- Byte1 Bit4-1
  power : AcPower            -- Byte1 Bit8-5
  mode : AcMode              -- Byte2 Bit8-5
  fanSpeed : AcFan           -- Byte2 Bit4-1
  setpoint : Option Int      -- Byte3; 0..250, other not available
  turbo : Bool               -- Byte4 Bit4
  bypass : Bool              -- Byte4 Bit3
  spill : Bool               -- Byte4 Bit2
  timer : Bool               -- Byte4 Bit1
  temperature : Option Int   -- Byte5 Bit3-1 ++ Byte6
  errorCode : Option Nat     -- Byte7-8; none = "0: No error"
deriving DecidableEq, Repr

/-- The documented 8-byte prefix of an AC record (Byte9-10 NOT USED: "Some version does not have those two
bytes. Length defined in data Byte5-6"). -/
def readAcStatusRecord : List Nat → Option AcStatus
  | b1 :: b2 :: b3 :: b4 :: b5 :: b6 :: b7 :: b8 :: _ =>
    some { ac := bits b1 4 1
           power := AcPower.ofCode (bits b1 8 5)
           mode := AcMode.ofCode (bits b2 8 5)
           fanSpeed := AcFan.ofCode (bits b2 4 1)
           setpoint := if b3 ≤ 250 then some (setpointTenths b3) else none
           turbo := bit b4 4
           bypass := bit b4 3
           spill := bit b4 2
           timer := bit b4 1
           temperature := temperatureTenths (be16 (bits b5 3 1) b6)
           errorCode := if be16 b7 b8 = 0 then none else some (be16 b7 b8) }
  | _ => none

/-- Data of a 0xC0 message with sub type 0x23 received from AirTouch; parsed like `readZoneStatus`
(announced normal length skipped, records at multiples of the announced length, which must be ≥ 8). -/
def readAcStatus (data : List Nat) : Option (List AcStatus) :=
  match readSubMessage data with
  | some m =>
    if m.hdr.subType = subTypeAcStatus ∧ 8 ≤ m.hdr.eachLen then readAll readAcStatusRecord m.records
    else none
  | none => none

def isAcStatusRequest (data : List Nat) : Bool := isRequestOf subTypeAcStatus data

def renderAcStatusRecord (a : AcStatus) : String :=
  s!"ac={a.ac};power={a.power.render};mode={a.mode.render};fan_speed={a.fanSpeed.render};" ++
  s!"setpoint={renderOptInt a.setpoint};turbo={renderBool a.turbo};bypass={renderBool a.bypass};" ++
  s!"spill={renderBool a.spill};timer={renderBool a.timer};temperature={renderOptInt a.temperature};" ++
  s!"error_code={renderOptNat a.errorCode}"

def renderAcStatus (xs : List AcStatus) : String := renderRecords renderAcStatusRecord xs

/-! ### Any 0xC0 message -/

inductive ControlStatus
  | zoneControl (cs : List ZoneControl)
  | zoneStatusRequest
  | zoneStatus (zs : List ZoneStatus)
  | acControl (cs : List AcControl)
  | acStatusRequest
  | acStatus (xs : List AcStatus)
deriving DecidableEq, Repr

/-- The data of a 0xC0 message, by sub message type.  A sub type 0x21 / 0x23 message whose normal length,
repeat length and repeat count are all 0 is the request form.  `none` for any other sub type (the document
names only these four). -/
def readControlStatus (data : List Nat) : Option ControlStatus :=
  match readSubMessage data with
  | none => none
  | some m =>
    let t := m.hdr.subType
    if t = subTypeZoneControl then (readZoneControl data).map .zoneControl
    else if t = subTypeZoneStatus then
      if isZoneStatusRequest data then some .zoneStatusRequest else (readZoneStatus data).map .zoneStatus
    else if t = subTypeAcControl then (readAcControl data).map .acControl
    else if t = subTypeAcStatus then
      if isAcStatusRequest data then some .acStatusRequest else (readAcStatus data).map .acStatus
    else none

def renderControlStatus : ControlStatus → String
  | .zoneControl cs => "zone_control: " ++ renderZoneControl cs
  | .zoneStatusRequest => "zone_status_request"
  | .zoneStatus zs => "zone_status: " ++ renderZoneStatus zs
  | .acControl cs => "ac_control: " ++ renderAcControl cs
  | .acStatusRequest => "ac_status_request"
  | .acStatus xs => "ac_status: " ++ renderAcStatus xs

/-! ## Section 4.b: extended message (0x1F)

"The first two bytes of the data are used to specify the specific command." -/

def extAcError : List Nat := [0xFF, 0x10]
def extAcAbility : List Nat := [0xFF, 0x11]
def extZoneName : List Nat := [0xFF, 0x13]
def extConsoleVersion : List Nat := [0xFF, 0x30]

/-! ### Requests (messages sent to AirTouch) -/

inductive ExtRequest
  | acAbilityAll            -- 0xFF 0x11
  | acAbility (ac : Nat)    -- 0xFF 0x11 [0-3]
  | acError (ac : Nat)      -- 0xFF 0x10 [0-15]
  | zoneNamesAll            -- 0xFF 0x13
  | zoneName (zone : Nat)   -- 0xFF 0x13 [0-15]
  | consoleVersion          -- 0xFF 0x30
deriving DecidableEq, Repr

/-- Data of an extended message sent to AirTouch.  The index byte is exposed as sent; the document gives the
ranges [0-3] (AC ability), [0-15] (AC error, zone name) but no rule for other values.  The AC error request
exists only with an index ("to request the error code of one specific AC"). -/
def readExtendedRequest (data : List Nat) : Option ExtRequest :=
  match data with
  | [b1, b2] =>
    if [b1, b2] = extAcAbility then some .acAbilityAll
    else if [b1, b2] = extZoneName then some .zoneNamesAll
    else if [b1, b2] = extConsoleVersion then some .consoleVersion
    else none
  | [b1, b2, b3] =>
    if [b1, b2] = extAcAbility then some (.acAbility b3)
    else if [b1, b2] = extAcError then some (.acError b3)
    else if [b1, b2] = extZoneName then some (.zoneName b3)
    else none
  | _ => none

def renderExtRequest : ExtRequest → String
  | .acAbilityAll => "request=ac_ability_all"
  | .acAbility n => s!"request=ac_ability({n})"
  | .acError n => s!"request=ac_error({n})"
  | .zoneNamesAll => "request=zone_names_all"
  | .zoneName n => s!"request=zone_name({n})"
  | .consoleVersion => "request=console_version"

/-! ### 4.b.i AC ability (0xFF 0x11) -/

structure AcAbility where
  ac : Nat                      -- Byte3
  followingLength : Nat         -- Byte4 (24 at this moment)
  name : List Nat               -- Byte5-20, bytes before the first 0
  startZone : Nat               -- Byte21
  zoneCount : Nat               -- Byte22
  modeCool : Bool               -- Byte23 Bit5
  modeFan : Bool                -- Byte23 Bit4
  modeDry : Bool                -- Byte23 Bit3
  modeHeat : Bool               -- Byte23 Bit2
  modeAuto : Bool               -- Byte23 Bit1
  fanIntelligentAuto : Bool     -- Byte24 Bit8
  fanTurbo : Bool               -- Byte24 Bit7
  fanPowerful : Bool            -- Byte24 Bit6
  fanHigh : Bool                -- Byte24 Bit5
  fanMedium : Bool              -- Byte24 Bit4
  fanLow : Bool                 -- Byte24 Bit3
  fanQuiet : Bool               -- Byte24 Bit2
  fanAuto : Bool                -- Byte24 Bit1
  minCoolSetpoint : Int         -- Byte25, tenths
  maxCoolSetpoint : Int         -- Byte26, tenths
  minHeatSetpoint : Int         -- Byte27, tenths
  maxHeatSetpoint : Int         -- Byte28, tenths
deriving DecidableEq, Repr

/-- Byte25-28: the document gives no formula; its example reads 0x10 as 16 °C, 0x1F as 31 °C, 0x12 as 18 °C,
i.e. whole degrees.  Rendered in tenths like every other set-point. -/
def wholeDegreesTenths (b : Nat) : Int := (b : Int) * 10

/-- One AC: `ac` = Byte3, `len` = Byte4, `body` = the `len` following bytes (Byte5 …).  The documented
layout needs 24 following bytes; more are allowed (ignored), fewer cannot be read. -/
def readAcAbilityBody (ac len : Nat) (body : List Nat) : Option AcAbility :=
  match body.drop 16 with
  | b21 :: b22 :: b23 :: b24 :: b25 :: b26 :: b27 :: b28 :: _ =>
    some { ac := ac
           followingLength := len
           name := untilNul (body.take 16)
           startZone := b21
           zoneCount := b22
           modeCool := bit b23 5
           modeFan := bit b23 4
           modeDry := bit b23 3
           modeHeat := bit b23 2
           modeAuto := bit b23 1
           fanIntelligentAuto := bit b24 8
           fanTurbo := bit b24 7
           fanPowerful := bit b24 6
           fanHigh := bit b24 5
           fanMedium := bit b24 4
           fanLow := bit b24 3
           fanQuiet := bit b24 2
           fanAuto := bit b24 1
           minCoolSetpoint := wholeDegreesTenths b25
           maxCoolSetpoint := wholeDegreesTenths b26
           minHeatSetpoint := wholeDegreesTenths b27
           maxHeatSetpoint := wholeDegreesTenths b28 }
  | _ => none

/-- records after the two command bytes: AC index, following length, that many bytes; repeated -/
def readAcAbilityRecords : Nat → List Nat → Option (List AcAbility)
  | _, [] => some []
  | 0, _ :: _ => none
  | fuel + 1, ac :: len :: rest =>
    if rest.length < len then none
    else
      match readAcAbilityBody ac len (rest.take len), readAcAbilityRecords fuel (rest.drop len) with
      | some r, some rs => some (r :: rs)
      | _, _ => none
  | _ + 1, [_] => none

/-- Data of an extended message 0xFF 0x11 received from AirTouch: "If there are more than one AC, the data
will be repeated … 2 ACs will receive 54 (2+26+26) bytes" — the two command bytes once, then one record per
AC, each advanced by its own "following data length". -/
def readAcAbility (data : List Nat) : Option (List AcAbility) :=
  match data with
  | b1 :: b2 :: rest => if [b1, b2] = extAcAbility then readAcAbilityRecords rest.length rest else none
  | _ => none

def renderAcAbilityRecord (a : AcAbility) : String :=
  s!"ac={a.ac};following_length={a.followingLength};name={hex a.name};start_zone={a.startZone};" ++
  s!"zone_count={a.zoneCount};mode_cool={renderBool a.modeCool};mode_fan={renderBool a.modeFan};" ++
  s!"mode_dry={renderBool a.modeDry};mode_heat={renderBool a.modeHeat};mode_auto={renderBool a.modeAuto};" ++
  s!"fan_intelligent_auto={renderBool a.fanIntelligentAuto};fan_turbo={renderBool a.fanTurbo};" ++
  s!"fan_powerful={renderBool a.fanPowerful};fan_high={renderBool a.fanHigh};" ++
  s!"fan_medium={renderBool a.fanMedium};fan_low={renderBool a.fanLow};fan_quiet={renderBool a.fanQuiet};" ++
  s!"fan_auto={renderBool a.fanAuto};min_cool_setpoint={a.minCoolSetpoint};" ++
  s!"max_cool_setpoint={a.maxCoolSetpoint};min_heat_setpoint={a.minHeatSetpoint};" ++
  s!"max_heat_setpoint={a.maxHeatSetpoint}"

def renderAcAbility (xs : List AcAbility) : String := renderRecords renderAcAbilityRecord xs

/-! ### 4.b.ii AC error information (0xFF 0x10) -/

structure AcError where
  ac : Nat                 -- Byte3
  errorInfo : List Nat     -- Byte5.., Byte4 bytes long ("If no error, will be 0")
deriving DecidableEq, Repr

/-- Data of an extended message 0xFF 0x10 received from AirTouch: exactly one AC ("one specific AC"), the
string is exactly as long as Byte4 says. -/
def readAcError (data : List Nat) : Option AcError :=
  match data with
  | b1 :: b2 :: b3 :: b4 :: rest =>
    if [b1, b2] = extAcError ∧ rest.length = b4 then some { ac := b3, errorInfo := rest } else none
  | _ => none

def renderAcError (e : AcError) : String := s!"ac={e.ac};error_info={hex e.errorInfo}"

/-! ### 4.b.iii Zone name (0xFF 0x13) -/

structure ZoneName where
  zone : Nat           -- Byte3
  name : List Nat      -- Byte5..n, Byte4 bytes long
deriving DecidableEq, Repr

def readZoneNameRecords : Nat → List Nat → Option (List ZoneName)
  | _, [] => some []
  | 0, _ :: _ => none
  | fuel + 1, z :: len :: rest =>
    if rest.length < len then none
    else
      match readZoneNameRecords fuel (rest.drop len) with
      | some rs => some ({ zone := z, name := rest.take len } :: rs)
      | none => none
  | _ + 1, [_] => none

/-- Data of an extended message 0xFF 0x13 received from AirTouch: the two command bytes once, then (zone
index, name length, name) repeated, as in the document's three-zone example. -/
def readZoneNames (data : List Nat) : Option (List ZoneName) :=
  match data with
  | b1 :: b2 :: rest => if [b1, b2] = extZoneName then readZoneNameRecords rest.length rest else none
  | _ => none

def renderZoneNameRecord (z : ZoneName) : String := s!"zone={z.zone};name={hex z.name}"
def renderZoneNames (zs : List ZoneName) : String := renderRecords renderZoneNameRecord zs

/-! ### 4.b.iv Console version (0xFF 0x30) -/

structure ConsoleVersion where
  updateSign : Nat              -- Byte3: "0 - latest version, Other - new version available."
  versions : List (List Nat)    -- Byte5.. (Byte4 bytes) split at ","; "The first one is the master." /
                                -- "the first value is the version of the one that communicates with"
deriving DecidableEq, Repr

def ConsoleVersion.updateAvailable (v : ConsoleVersion) : Bool := v.updateSign != 0

/-- Data of an extended message 0xFF 0x30 received from AirTouch; the string is exactly as long as Byte4 says. -/
def readConsoleVersion (data : List Nat) : Option ConsoleVersion :=
  match data with
  | b1 :: b2 :: b3 :: b4 :: rest =>
    if [b1, b2] = extConsoleVersion ∧ rest.length = b4 then
      some { updateSign := b3, versions := splitAt 0x2C rest }
    else none
  | _ => none

def renderConsoleVersion (v : ConsoleVersion) : String :=
  s!"update_sign={v.updateSign};update_available={renderBool v.updateAvailable};" ++
  s!"versions={",".intercalate (v.versions.map hex)}"

/-! ### Any extended response -/

inductive ExtResponse
  | acAbility (xs : List AcAbility)
  | acError (e : AcError)
  | zoneNames (zs : List ZoneName)
  | consoleVersion (v : ConsoleVersion)
deriving DecidableEq, Repr

/-- Data of an extended message received from AirTouch, by its first two bytes; `none` for other commands. -/
def readExtendedResponse (data : List Nat) : Option ExtResponse :=
  if data.take 2 = extAcAbility then (readAcAbility data).map .acAbility
  else if data.take 2 = extAcError then (readAcError data).map .acError
  else if data.take 2 = extZoneName then (readZoneNames data).map .zoneNames
  else if data.take 2 = extConsoleVersion then (readConsoleVersion data).map .consoleVersion
  else none

def renderExtResponse : ExtResponse → String
  | .acAbility xs => "ac_ability: " ++ renderAcAbility xs
  | .acError e => "ac_error: " ++ renderAcError e
  | .zoneNames zs => "zone_names: " ++ renderZoneNames zs
  | .consoleVersion v => "console_version: " ++ renderConsoleVersion v

/-! ## The document's examples

`pkg a i t d` assembles header, address, id, type, length (of `d`) and data — without check bytes; the
examples append the check bytes printed in the document and `frameOk` recomputes them. -/

def pkg (addr : List Nat) (mid ty : Nat) (data : List Nat) : List Nat :=
  header ++ addr ++ [mid, ty, data.length / 256, data.length % 256] ++ data

/-! ### 4.a.i "Turn off the second zone" -/

def exZoneControlData : List Nat := [0x20, 0x00, 0x00, 0x00, 0x00, 0x04, 0x00, 0x01, 0x01, 0x02, 0xFF, 0x00]
def exZoneControlFrame : List Nat :=
  [0x55, 0x55, 0x55, 0xAA, 0x80, 0xB0, 0x0F, 0xC0, 0x00, 0x0C] ++ exZoneControlData ++ [0xF0, 0xA1]

example : exZoneControlFrame = pkg addrToAirtouch 0x0F 0xC0 exZoneControlData ++ [0xF0, 0xA1] := by decide
example : frameOk exZoneControlFrame = true := by decide +kernel
example : PyAirtouch.Spec.checkBytes (checkedBytes exZoneControlFrame) = [0xF0, 0xA1] := by decide +kernel
example : readFrame exZoneControlFrame =
    some { address := [0x80, 0xB0], msgId := 0x0F, msgType := 0xC0, dataLen := 12,
           data := exZoneControlData, check := [0xF0, 0xA1] } := by decide
example : (readFrame exZoneControlFrame).map renderFrame =
    some "address=80b0;msg_id=15;msg_type=control_status;data_length=12;data=20000000000400010102ff00;check=f0a1" := by
  decide +kernel
example : (readSubMessage exZoneControlData).map (·.hdr) =
    some { subType := 0x20, reserved := 0, normalLen := 0, eachLen := 4, count := 1 } := by decide
example : readZoneControl exZoneControlData =
    some [{ zone := 1, setting := .keep, controlType := .keep, power := .off, value := .keep,
            valueRaw := 0xFF, reservedZero := true }] := by decide
example : (readZoneControl exZoneControlData).map renderZoneControl =
    some "zone=1;setting=keep;control_type=keep;power=off;value=keep;value_raw=255;reserved_zero=true" := by
  decide +kernel
example : (readZoneControl exZoneControlData).map (·.map (·.changes)) = some [["power"]] := by decide +kernel

-- not in the document: the two value-carrying settings, to show the formulas
example : (readZoneControlRecord [0x03, 0x80, 0x32, 0x00]).map renderZoneControlRecord =
    some "zone=3;setting=set_percentage;control_type=keep;power=keep;value=percentage(50);value_raw=50;reserved_zero=true" := by
  decide +kernel
example : (readZoneControlRecord [0x03, 0xA0, 0x8C, 0x00]).map renderZoneControlRecord =
    some "zone=3;setting=set_setpoint;control_type=keep;power=keep;value=setpoint(240);value_raw=140;reserved_zero=true" := by
  decide +kernel

/-! ### 4.a.ii "Request status of zones" and the response -/

def exZoneStatusRequestFrame : List Nat :=
  [0x55, 0x55, 0x55, 0xAA, 0x80, 0xB0, 0x01, 0xC0, 0x00, 0x08,
   0x21, 0x00, 0x00, 0x00, 0x00, 0x00, 0x00, 0x00, 0xA4, 0x31]

example : frameOk exZoneStatusRequestFrame = true := by decide +kernel
example : (readFrame exZoneStatusRequestFrame).map (fun f => isZoneStatusRequest f.data) = some true := by decide
example : (readFrame exZoneStatusRequestFrame).bind (fun f => readControlStatus f.data) =
    some .zoneStatusRequest := by decide
example : (readFrame exZoneStatusRequestFrame).bind (fun f => readZoneStatus f.data) = none := by decide

/-- The response exactly as printed: "response with data for 1 zone", data length 0x00 0x18, repeat count
0x00 0x01 — but sixteen bytes of repeat data ("Zone 1 data", "Zone 2 data") follow.  INCONSISTENT with 4.a
(Data length = 8 + normal + repeat length * repeat count: 0x18 = 8 + 0 + 8 * 2, not 8 * 1); as printed the
data is not a well-formed 0xC0 message. -/
def exZoneStatusDataAsPrinted : List Nat :=
  [0x21, 0x00, 0x00, 0x00, 0x00, 0x08, 0x00, 0x01,
   0x40, 0x80, 0x96, 0x80, 0x02, 0xE7, 0x00, 0x00, 0x01, 0x64, 0xFF, 0x00, 0x07, 0xFF, 0x00, 0x00]
example : exZoneStatusDataAsPrinted.length = 0x18 := by decide
example : readZoneStatus exZoneStatusDataAsPrinted = none := by decide

/-- the same with the repeat count corrected to 2, which agrees with the printed data length 0x18 -/
def exZoneStatusData : List Nat :=
  [0x21, 0x00, 0x00, 0x00, 0x00, 0x08, 0x00, 0x02,
   0x40, 0x80, 0x96, 0x80, 0x02, 0xE7, 0x00, 0x00, 0x01, 0x64, 0xFF, 0x00, 0x07, 0xFF, 0x00, 0x00]

-- "Zone 1 data: Power on, Temperature control, Set point = (150+100)/10: 25, Has sensor, Temperature =
-- (743-500)/10: 24.3"; "Zone 2 data: Power off, Current open percentage setting: 100. No sensor, invalid
-- temperature".  (The document counts the zones 1, 2; their index fields are 0 and 1.)
example : readZoneStatus exZoneStatusData =
    some [{ zone := 0, power := .on, controlMethod := .temperature, openPercentage := 0, setpoint := some 250,
            hasSensor := true, temperature := some 243, spill := false, lowBattery := false },
          { zone := 1, power := .off, controlMethod := .percentage, openPercentage := 100, setpoint := none,
            hasSensor := false, temperature := none, spill := false, lowBattery := false }] := by decide
example : (readZoneStatus exZoneStatusData).map renderZoneStatus =
    some ("zone=0;power=on;control_method=temperature;open_percentage=0;setpoint=250;has_sensor=true;" ++
          "temperature=243;spill=false;low_battery=false | " ++
          "zone=1;power=off;control_method=percentage;open_percentage=100;setpoint=none;has_sensor=false;" ++
          "temperature=none;spill=false;low_battery=false") := by decide +kernel
example : (readFrame (pkg [0xB0, 0x80] 0x01 0xC0 exZoneStatusData ++ [0, 0])).map (·.dataLen) = some 0x18 := by
  decide

-- records are read at multiples of the announced length: the same two zones in 10-byte records after
-- 3 bytes of normal data (a hypothetical newer version)
example : readZoneStatus
    [0x21, 0x00, 0x00, 0x03, 0x00, 0x0A, 0x00, 0x02, 0xAA, 0xBB, 0xCC,
     0x40, 0x80, 0x96, 0x80, 0x02, 0xE7, 0x00, 0x00, 0x11, 0x22,
     0x01, 0x64, 0xFF, 0x00, 0x07, 0xFF, 0x00, 0x00, 0x33, 0x44] = readZoneStatus exZoneStatusData := by decide

/-! ### 4.a.iii "Turn off the second AC"; "Set the first AC to cool mode and second AC 26 degree" -/

def exAcControlOffData : List Nat := [0x22, 0x00, 0x00, 0x00, 0x00, 0x04, 0x00, 0x01, 0x21, 0xFF, 0x00, 0xFF]
def exAcControlOffFrame : List Nat :=
  [0x55, 0x55, 0x55, 0xAA, 0x80, 0xb0, 0x01, 0xC0, 0x00, 0x0C] ++ exAcControlOffData ++ [0xD3, 0x47]

example : frameOk exAcControlOffFrame = true := by decide +kernel
example : (readFrame exAcControlOffFrame).bind (fun f => readAcControl f.data) =
    some [{ ac := 1, power := .off, mode := .keep, fanSpeed := .keep, setpoint := .keep,
            setpointValueRaw := 0xFF }] := by decide
example : (readAcControl exAcControlOffData).map renderAcControl =
    some "ac=1;power=off;mode=keep;fan_speed=keep;setpoint=keep;setpoint_value_raw=255" := by decide +kernel
example : (readAcControl exAcControlOffData).map (·.map (·.changes)) = some [["power"]] := by decide +kernel

/-- second example (its check bytes are not printed); data length 0x00 0x10 = 8 + 4 * 2 -/
def exAcControlTwoData : List Nat :=
  [0x22, 0x00, 0x00, 0x00, 0x00, 0x04, 0x00, 0x02, 0x00, 0x4F, 0x00, 0xFF, 0x01, 0xFF, 0x40, 0xA0]
example : exAcControlTwoData.length = 0x10 := by decide
example : readAcControl exAcControlTwoData =
    some [{ ac := 0, power := .keep, mode := .cool, fanSpeed := .keep, setpoint := .keep, setpointValueRaw := 0xFF },
          { ac := 1, power := .keep, mode := .keep, fanSpeed := .keep, setpoint := .set 260,
            setpointValueRaw := 0xA0 }] := by decide
example : (readAcControl exAcControlTwoData).map renderAcControl =
    some ("ac=0;power=keep;mode=cool;fan_speed=keep;setpoint=keep;setpoint_value_raw=255 | " ++
          "ac=1;power=keep;mode=keep;fan_speed=keep;setpoint=set(260);setpoint_value_raw=160") := by decide +kernel
example : (readAcControl exAcControlTwoData).map (·.map (·.changes)) = some [["mode"], ["setpoint"]] := by
  decide +kernel

/-! ### 4.a.iv "Request status of ACs" and the response for 2 ACs

The text says the request has "data length: 0x00 0x0A"; the example (and the zone status request, and
4.a's formula with no sub data) has 0x00 0x08.  INCONSISTENT; the example's check bytes confirm 0x08. -/

def exAcStatusRequestFrame : List Nat :=
  [0x55, 0x55, 0x55, 0xAA, 0x80, 0xB0, 0x01, 0xC0, 0x00, 0x08,
   0x23, 0x00, 0x00, 0x00, 0x00, 0x00, 0x00, 0x00, 0x7D, 0xB0]

example : frameOk exAcStatusRequestFrame = true := by decide +kernel
example : (readFrame exAcStatusRequestFrame).bind (fun f => readControlStatus f.data) =
    some .acStatusRequest := by decide

def exAcStatusData : List Nat :=
  [0x23, 0x00, 0x00, 0x00, 0x00, 0x0A, 0x00, 0x02,
   0x10, 0x12, 0x78, 0xC0, 0x02, 0xDA, 0x00, 0x00, 0x80, 0x00,
   0x01, 0x42, 0x64, 0xC0, 0x02, 0xE4, 0x00, 0x00, 0x80, 0x00]
example : exAcStatusData.length = 0x1C := by decide

-- "AC 0 is on, in heat mode and low fan speed and no error. … setpoint … 22 … Temperature: 23";
-- "AC 1 is off, in cool mode and low fan speed and no error. … setpoint … 20 … Temperature: 24"
example : readAcStatus exAcStatusData =
    some [{ ac := 0, power := .on, mode := .heat, fanSpeed := .low, setpoint := some 220, turbo := false,
            bypass := false, spill := false, timer := false, temperature := some 230, errorCode := none },
          { ac := 1, power := .off, mode := .cool, fanSpeed := .low, setpoint := some 200, turbo := false,
            bypass := false, spill := false, timer := false, temperature := some 240, errorCode := none }] := by
  decide
example : (readAcStatus exAcStatusData).map renderAcStatus =
    some ("ac=0;power=on;mode=heat;fan_speed=low;setpoint=220;turbo=false;bypass=false;spill=false;" ++
          "timer=false;temperature=230;error_code=none | " ++
          "ac=1;power=off;mode=cool;fan_speed=low;setpoint=200;turbo=false;bypass=false;spill=false;" ++
          "timer=false;temperature=240;error_code=none") := by decide +kernel

-- the 8-byte version of the same records ("Some version does not have those two bytes")
example : readAcStatus
    [0x23, 0x00, 0x00, 0x00, 0x00, 0x08, 0x00, 0x02,
     0x10, 0x12, 0x78, 0xC0, 0x02, 0xDA, 0x00, 0x00,
     0x01, 0x42, 0x64, 0xC0, 0x02, 0xE4, 0x00, 0x00] = readAcStatus exAcStatusData := by decide

/-! ### 4.b.i AC ability: "Request ability of AC 0" and the response -/

def exAcAbilityRequestFrame : List Nat :=
  [0x55, 0x55, 0x55, 0xAA, 0x90, 0xB0, 0x01, 0x1F, 0x00, 0x03, 0xFF, 0x11, 0x00, 0x09, 0x83]

example : frameOk exAcAbilityRequestFrame = true := by decide +kernel
example : (readFrame exAcAbilityRequestFrame).bind (fun f => readExtendedRequest f.data) =
    some (.acAbility 0) := by decide
example : readExtendedRequest [0xFF, 0x11] = some .acAbilityAll := by decide

/-- The response data as printed.  The printed data length is 0x00 0x1A (26) but 28 bytes are printed, and
28 is what the text itself announces for one AC (2 + 26).  INCONSISTENT length in the example. -/
def exAcAbilityData : List Nat :=
  [0xFF, 0x11, 0x00, 0x18,
   0x55, 0x4E, 0x49, 0x54, 0x00, 0x00, 0x00, 0x00, 0x00, 0x00, 0x00, 0x00, 0x00, 0x00, 0x00, 0x00,
   0x00, 0x04, 0x17, 0x1D, 0x10, 0x1f, 0x12, 0x1f]
example : exAcAbilityData.length = 28 := by decide

/- "Name of AC0 is UNIT and it has 4 zones, start with zone 0.  It has cool, heat, fan, auto modes and has
low, mid, high, auto fan speeds.  Minimum setpoint for cool mode is 16, for heat mode is 18; Maximum
setpoint for cool and heat mode is 31."
INCONSISTENT: Byte23 = 0x17 = 000 1 0 1 1 1 is, by the table (Bit5 cool, Bit4 fan, Bit3 dry, Bit2 heat,
Bit1 auto): cool, dry, heat, auto — NOT fan.  The reader follows the table. -/
example : readAcAbility exAcAbilityData =
    some [{ ac := 0, followingLength := 24, name := [0x55, 0x4E, 0x49, 0x54], startZone := 0, zoneCount := 4,
            modeCool := true, modeFan := false, modeDry := true, modeHeat := true, modeAuto := true,
            fanIntelligentAuto := false, fanTurbo := false, fanPowerful := false, fanHigh := true,
            fanMedium := true, fanLow := true, fanQuiet := false, fanAuto := true,
            minCoolSetpoint := 160, maxCoolSetpoint := 310, minHeatSetpoint := 180, maxHeatSetpoint := 310 }] := by
  decide
example : (readAcAbility exAcAbilityData).map renderAcAbility =
    some ("ac=0;following_length=24;name=554e4954;start_zone=0;zone_count=4;mode_cool=true;mode_fan=false;" ++
          "mode_dry=true;mode_heat=true;mode_auto=true;fan_intelligent_auto=false;fan_turbo=false;" ++
          "fan_powerful=false;fan_high=true;fan_medium=true;fan_low=true;fan_quiet=false;fan_auto=true;" ++
          "min_cool_setpoint=160;max_cool_setpoint=310;min_heat_setpoint=180;max_heat_setpoint=310") := by
  decide +kernel

-- "2 ACs will receive 54 (2+26+26) bytes": the record repeated for AC 1, with two appended bytes in the
-- first record announced by its following length (0x1A)
example : (readAcAbility (exAcAbilityData.take 3 ++ [0x1A] ++ (exAcAbilityData.drop 4) ++ [0xEE, 0xEE] ++
                          [0x01] ++ exAcAbilityData.drop 3)).map (·.map (fun a => (a.ac, a.followingLength, a.zoneCount))) =
    some [(0, 26, 4), (1, 24, 4)] := by decide
example : (exAcAbilityData ++ exAcAbilityData.drop 2).length = 54 := by decide

/-! ### 4.b.ii AC error information: "Request Error of AC 0" and the response -/

def exAcErrorRequestFrame : List Nat :=
  [0x55, 0x55, 0x55, 0xAA, 0x90, 0xB0, 0x01, 0x1F, 0x00, 0x03, 0xFF, 0x10, 0x00, 0x99, 0x82]

example : frameOk exAcErrorRequestFrame = true := by decide +kernel
example : (readFrame exAcErrorRequestFrame).bind (fun f => readExtendedRequest f.data) =
    some (.acError 0) := by decide

/-- The response data as printed ("Data: 0xff 0x10 0x00 0x08 …", 12 bytes).  The printed data length is
0x00 0x1A (26).  INCONSISTENT length in the example (it repeats the previous example's). -/
def exAcErrorData : List Nat := [0xFF, 0x10, 0x00, 0x08, 0x45, 0x52, 0x3A, 0x20, 0x46, 0x46, 0x46, 0x45]
example : exAcErrorData.length = 12 := by decide
-- "AC0  Len:8  E R : _ F F F E"
example : readAcError exAcErrorData =
    some { ac := 0, errorInfo := [0x45, 0x52, 0x3A, 0x20, 0x46, 0x46, 0x46, 0x45] } := by decide
example : (readAcError exAcErrorData).map renderAcError = some "ac=0;error_info=45523a2046464645" := by
  decide +kernel
-- "If no error, will be 0"
example : readAcError [0xFF, 0x10, 0x02, 0x00] = some { ac := 2, errorInfo := [] } := by decide

/-! ### 4.b.iii Zone name: one zone, all zones -/

def exZoneNameRequestFrame : List Nat :=
  [0x55, 0x55, 0x55, 0xAA, 0x90, 0xB0, 0x01, 0x1F, 0x00, 0x03, 0xFF, 0x13, 0x00, 0x69, 0x82]
def exZoneNamesRequestFrame : List Nat :=
  [0x55, 0x55, 0x55, 0xAA, 0x90, 0xB0, 0x01, 0x1F, 0x00, 0x02, 0xFF, 0x13, 0x42, 0xCD]

example : frameOk exZoneNameRequestFrame = true := by decide +kernel
example : frameOk exZoneNamesRequestFrame = true := by decide +kernel
example : (readFrame exZoneNameRequestFrame).bind (fun f => readExtendedRequest f.data) =
    some (.zoneName 0) := by decide
example : (readFrame exZoneNamesRequestFrame).bind (fun f => readExtendedRequest f.data) =
    some .zoneNamesAll := by decide

def exZoneNameData : List Nat := [0xFF, 0x13, 0x00, 0x06, 0x4C, 0x69, 0x76, 0x69, 0x6E, 0x67]
example : exZoneNameData.length = 0x0A := by decide   -- as printed
-- "Name of Zone 0 is Living"
example : readZoneNames exZoneNameData = some [{ zone := 0, name := [0x4C, 0x69, 0x76, 0x69, 0x6E, 0x67] }] := by
  decide

/-- All zones, as printed: 28 bytes.  The printed data length is 0x00 0x1D (29).  INCONSISTENT by one. -/
def exZoneNamesData : List Nat :=
  [0xFF, 0x13,
   0x00, 0x06, 0x4C, 0x69, 0x76, 0x69, 0x6E, 0x67,
   0x01, 0x07, 0x4B, 0x69, 0x74, 0x63, 0x68, 0x65, 0x6E,
   0x02, 0x07, 0x42, 0x65, 0x64, 0x72, 0x6F, 0x6F, 0x6D]
example : exZoneNamesData.length = 28 := by decide
-- "Living", "Kitchen", "Bedroom"
example : readZoneNames exZoneNamesData =
    some [{ zone := 0, name := [0x4C, 0x69, 0x76, 0x69, 0x6E, 0x67] },
          { zone := 1, name := [0x4B, 0x69, 0x74, 0x63, 0x68, 0x65, 0x6E] },
          { zone := 2, name := [0x42, 0x65, 0x64, 0x72, 0x6F, 0x6F, 0x6D] }] := by decide
example : (readZoneNames exZoneNamesData).map renderZoneNames =
    some "zone=0;name=4c6976696e67 | zone=1;name=4b69746368656e | zone=2;name=426564726f6f6d" := by
  decide +kernel

/-! ### 4.b.iv Console version -/

def exConsoleVersionRequestFrame : List Nat :=
  [0x55, 0x55, 0x55, 0xAA, 0x90, 0xB0, 0x01, 0x1F, 0x00, 0x02, 0xFF, 0x30, 0x9B, 0x8C]

example : frameOk exConsoleVersionRequestFrame = true := by decide +kernel
example : (readFrame exConsoleVersionRequestFrame).bind (fun f => readExtendedRequest f.data) =
    some .consoleVersion := by decide

def exConsoleVersionData : List Nat :=
  [0xFF, 0x30, 0x00, 0x0B, 0x31, 0x2E, 0x30, 0x2E, 0x33, 0x2C, 0x31, 0x2E, 0x30, 0x2E, 0x33]
example : exConsoleVersionData.length = 0x0F := by decide   -- as printed
-- "Latest  Len:11  1.0.3,1.0.3"
example : readConsoleVersion exConsoleVersionData =
    some { updateSign := 0, versions := [[0x31, 0x2E, 0x30, 0x2E, 0x33], [0x31, 0x2E, 0x30, 0x2E, 0x33]] } := by
  decide
example : (readConsoleVersion exConsoleVersionData).map renderConsoleVersion =
    some "update_sign=0;update_available=false;versions=312e302e33,312e302e33" := by decide +kernel
example : (readExtendedResponse exConsoleVersionData).map renderExtResponse =
    some "console_version: update_sign=0;update_available=false;versions=312e302e33,312e302e33" := by
  decide +kernel

/-! ### Frame-level negatives -/

-- a wrong check byte, a wrong header, a length that does not match
example : frameOk (exZoneControlFrame.take 22 ++ [0xF0, 0xA2]) = false := by decide +kernel
example : readFrame (0x55 :: 0x55 :: 0x55 :: 0xAB :: exZoneControlFrame.drop 4) = none := by decide
example : readFrame (exZoneControlFrame ++ [0x00]) = none := by decide
example : (MsgType.ofCode 0x2B).render = "other(43)" := by decide +kernel

end PyAirtouch.Spec.At5
