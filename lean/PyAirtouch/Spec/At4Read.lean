import PyAirtouch.Spec.Crc

/-!
# Specification reader: AirTouch 4 Communication Protocol V1.6

Written ONLY from the vendor document "AirTouch 4 Communication Protocol V1.6" (Polyaire Pty Ltd,
12/07/2022) and `PyAirtouch.Spec.Crc`.  Nothing of the client implementation was consulted.

Vendor bit numbering: Bit8 = most significant … Bit1 = least significant; `bits b hi lo`.
"ByteN" below is the vendor's 1-based byte number inside the *data* part of the frame.

## Field tables (names used by the `render…` functions)

### `renderFrame` (section 3)
| field        | document                                   | values                                        |
| addr         | 3.b Address (2 bytes)                      | hex, 4 digits                                 |
| direction    | 3.b (derived from the address)             | to_airtouch, from_airtouch, unknown           |
| extended_addr| 3.b / 4.e (0x90 in the address)            | true/false                                    |
| id           | 3.c Message id                             | decimal                                       |
| type         | 3.d Message type / 4.e                     | group_control, group_status, ac_control, ac_status, extended, other(n) |
| length       | 3.e Data length (high byte first)          | decimal                                       |
| data         | 3.f                                        | hex                                           |
| check        | 3.g CRC16 check bytes                      | hex, 4 digits                                 |
| check_ok     | 3.g CRC16 MODBUS over all but the header   | true/false                                    |

### `renderGroupControl` (4.a, 0x2A, 4 data bytes)
| group          | Byte1 Group number (valid 0-15)          | decimal                                       |
| setting        | Byte2 Bit8-6 Group setting value         | keep, decrease, increase, set_open_percentage(P), set_target_setpoint(T tenths °C), other(n) |
| control_method | Byte2 Bit5-4                             | keep, change, percentage, temperature         |
| power          | Byte2 Bit3-1 Power                       | keep, next, off, on, turbo, other(n)          |
| value          | Byte3 Value (raw byte)                   | decimal                                       |
| reserved       | Byte4 "Keep 0" (raw byte)                | decimal                                       |

### `renderGroupStatus` (4.b, 0x2B, 6 data bytes per group; records joined by ` | `)
| group          | Byte1 Bit6-1 Group number                | decimal                                       |
| power          | Byte1 Bit8-7 Group power state           | off, on, turbo, other(2)                      |
| control_method | Byte2 Bit8                               | temperature, percentage                       |
| open_percentage| Byte2 Bit7-1                             | decimal                                       |
| battery_low    | Byte3 Bit8                               | true/false                                    |
| turbo_support  | Byte3 Bit7                               | true/false                                    |
| target_setpoint| Byte3 Bit6-1 (whole °C)                  | tenths of °C, decimal                         |
| has_sensor     | Byte4 Bit8                               | true/false                                    |
| temperature    | Byte5 ++ Byte6 Bit8-6 (11 bits) VALUE; (VALUE-500)/10 °C; Byte5=0xff: n/a | tenths of °C (= VALUE-500), or none |
| spill          | Byte6 Bit5                               | true/false                                    |

### `renderAcControl` (4.c, 0x2C, 4 data bytes)
| ac             | Byte1 Bit6-1 AC number (valid 0-3)       | decimal                                       |
| power          | Byte1 Bit8-7                             | keep, toggle, off, on                         |
| mode           | Byte2 Bit8-5 AC mode                     | auto, heat, dry, fan, cool, keep              |
| fan_speed      | Byte2 Bit4-1 AC fan speed                | auto, quiet, low, medium, high, powerful, turbo, keep |
| setpoint       | Byte3 Bit8-7 Setpoint control type (+ Bit6-1 for `set`) | keep, set(T tenths °C), decrease, increase |
| setpoint_value | Byte3 Bit6-1 Setpoint value (raw)        | decimal                                       |
| reserved       | Byte4 "Keep 0" (raw byte)                | decimal                                       |

### `renderAcStatus` (4.d, 0x2D, 8 data bytes per AC; records joined by ` | `)
| ac             | Byte1 Bit6-1 AC number                   | decimal                                       |
| power          | Byte1 Bit8-7 AC power state              | off, on, not_available                        |
| mode           | Byte2 Bit8-5 AC mode                     | auto, heat, dry, fan, cool, auto_heat, auto_cool, not_available |
| fan_speed      | Byte2 Bit4-1 AC fan speed                | auto, quiet, low, medium, high, powerful, turbo, not_available |
| spill          | Byte3 Bit8                               | true/false                                    |
| timer          | Byte3 Bit7 AC Timer                      | true/false                                    |
| target_setpoint| Byte3 Bit6-1 (whole °C)                  | tenths of °C                                  |
| temperature    | Byte5 ++ Byte6 Bit8-6, as for groups     | tenths of °C, or none                         |
| error_code     | Byte7, Byte8 (16 bit, big-endian); 0 = no error | decimal                                |

### `renderAcAbilityRequest`, `renderAcErrorRequest`, `renderGroupNameRequest`, `renderConsoleVersionRequest` (4.e)
| ac / group     | optional third data byte                 | decimal, or none (= "all")                    |
(the console version request has no fields and renders as the empty string)

### `renderAcAbility` (4.e.i, 0x1F / 0xFF 0x11; one record per AC, joined by ` | `)
| ac              | Byte3 AC number                         | decimal                                       |
| following_length| Byte4 Following data length             | decimal (22 before console 1.2.3, 24 from 1.2.3) |
| name            | Byte5-20 AC name, up to first 0x00      | hex                                           |
| start_group     | Byte21 Start group number               | decimal                                       |
| group_count     | Byte22 Group count                      | decimal                                       |
| mode_cool, mode_fan, mode_dry, mode_heat, mode_auto | Byte23 Bit5, 4, 3, 2, 1 | true/false                     |
| fan_turbo, fan_powerful, fan_high, fan_medium, fan_low, fan_quiet, fan_auto | Byte24 Bit7 … Bit1 | true/false |
| min_setpoint    | Byte25 Minimum set point (whole °C)     | tenths of °C                                  |
| max_setpoint    | Byte26 Maximum set point (whole °C)     | tenths of °C                                  |
| group_display   | Byte27 Bit1..8 = "Group 1".."Group 8", Byte28 Bit1..8 = "Group 9".."Group 16" | 16 characters `1`(show)/`0`(hide), the k-th is the document's "Group k"; none if the bytes are absent |
| extra           | bytes counted by Byte4 beyond those the document describes | hex (normally empty)        |

### `renderAcError` (4.e.ii, 0xFF 0x10)
| ac              | Byte3 AC number                         | decimal                                       |
| error_info      | Byte5.. (Byte4 = length)                | hex (empty when there is no error)            |

### `renderGroupName` (4.e.iii, 0xFF 0x12; 9 bytes per group, joined by ` | `)
| group           | Byte3 Group number                      | decimal                                       |
| name            | Byte4-11, up to first 0x00              | hex                                           |

### `renderConsoleVersion` (4.e.iv, 0xFF 0x30)
| update_available| Byte3 Update sign, 0 = latest, other = new version available | true/false               |
| update_sign     | Byte3 (raw)                             | decimal                                       |
| versions        | Byte5.. (Byte4 = length), split at "|" (0x7c); first = master / the console talked to | hex strings joined by `,` |
-/

namespace PyAirtouch.Spec.At4

/-! ## Helpers -/

/-- the field occupying vendor bits `hi`..`lo` (Bit8 = msb … Bit1 = lsb) of byte `b` -/
def bits (b : Nat) (hi lo : Nat) : Nat := (b % 2 ^ hi) / 2 ^ (lo - 1)

/-- a single vendor bit as a boolean -/
def bit (b : Nat) (n : Nat) : Bool := bits b n n == 1

example : bits 0xC0 8 7 = 3 := by decide
example : bits 0x41 6 1 = 1 := by decide
example : bits 0x80 8 6 = 4 := by decide

def allBytes (bs : List Nat) : Bool := bs.all (· < 256)

/-- bytes up to (not including) the first 0x00 -/
def untilNul : List Nat → List Nat
  | [] => []
  | b :: bs => if b = 0 then [] else b :: untilNul bs

/-- split at every occurrence of `sep` -/
def splitOn (sep : Nat) : List Nat → List (List Nat)
  | [] => [[]]
  | b :: bs =>
    match splitOn sep bs with
    | [] => [[b]]  -- unreachable
    | cur :: rest => if b = sep then [] :: cur :: rest else (b :: cur) :: rest

/-- fixed-size records: `none` if the length is not a multiple of `size` or a record does not read -/
def readRecords {α : Type} (size : Nat) (rd : List Nat → Option α) : Nat → List Nat → Option (List α)
  | _, [] => some []
  | 0, _ :: _ => none
  | fuel + 1, bs@(_ :: _) =>
    if bs.length < size then none else
    match rd (bs.take size), readRecords size rd fuel (bs.drop size) with
    | some r, some rs => some (r :: rs)
    | _, _ => none

def hexDigit (n : Nat) : Char := if n < 10 then Char.ofNat (48 + n) else Char.ofNat (87 + n)
def hex2 (b : Nat) : String := String.singleton (hexDigit (b / 16 % 16)) ++ String.singleton (hexDigit (b % 16))
def hexBytes (bs : List Nat) : String := String.join (bs.map hex2)
def showBool (b : Bool) : String := if b then "true" else "false"
def showOptNat : Option Nat → String
  | none => "none"
  | some n => toString n
def showOptInt : Option Int → String
  | none => "none"
  | some n => toString n
def joinRecords (rs : List String) : String := String.intercalate " | " rs

/-- whole degrees Celsius to tenths -/
def degToTenths (d : Nat) : Int := Int.ofNat d * 10

/-- Sections 4.b / 4.d: the 11 bit temperature made of a whole byte followed by Bit8-6 of the next one.
`Current Temperature = (VALUE - 500)/10` °C, i.e. `VALUE - 500` tenths; "Byte5=0xff, Not available". -/
def readTemperature (b5 b6 : Nat) : Option Int :=
  if b5 = 0xff then none else some (Int.ofNat (b5 * 8 + bits b6 8 6) - 500)

/-! ## Section 3: frame format -/

def headerByte : Nat := 0x55
/-- first address byte when sending an ordinary message to the AirTouch; last address byte when receiving -/
def addrAirTouch : Nat := 0x80
/-- the same for extended messages (type 0x1F) -/
def addrAirTouchExtended : Nat := 0x90
/-- second address byte when sending to the AirTouch (the examples show it as the first byte of replies) -/
def addrClient : Nat := 0xb0

def typeGroupControl : Nat := 0x2a
def typeGroupStatus : Nat := 0x2b
def typeAcControl : Nat := 0x2c
def typeAcStatus : Nat := 0x2d
def typeExtended : Nat := 0x1f

structure Frame where
  addr1 : Nat
  addr2 : Nat
  msgId : Nat
  msgType : Nat
  /-- value of the two data length bytes (high byte first) -/
  dataLen : Nat
  data : List Nat
  /-- the two check bytes as transmitted -/
  check : List Nat
  deriving DecidableEq, Repr

/-- Reads one frame occupying a prefix of `bs`; returns the frame and the bytes after it.
header(2)=0x55 0x55, address(2), id(1), type(1), data length(2, high byte first), data, check(2). -/
def readFramePrefix (bs : List Nat) : Option (Frame × List Nat) :=
  match bs with
  | h1 :: h2 :: a1 :: a2 :: mid :: ty :: lh :: ll :: rest =>
    let n := lh * 256 + ll
    if h1 = headerByte ∧ h2 = headerByte ∧ allBytes bs ∧ n + 2 ≤ rest.length then
      some ({ addr1 := a1, addr2 := a2, msgId := mid, msgType := ty, dataLen := n,
              data := rest.take n, check := (rest.drop n).take 2 }, rest.drop (n + 2))
    else none
  | _ => none

/-- Reads `bs` as exactly one frame (nothing may follow the check bytes). -/
def readFrame (bs : List Nat) : Option Frame :=
  match readFramePrefix bs with
  | some (f, []) => some f
  | _ => none

/-- "Use all the data except the header": address, id, type, data length and data. -/
def Frame.checkedBytes (f : Frame) : List Nat :=
  [f.addr1, f.addr2, f.msgId, f.msgType, f.dataLen / 256, f.dataLen % 256] ++ f.data

/-- the check bytes are the CRC16 MODBUS (high byte first) of everything but the header -/
def frameOk (f : Frame) : Bool := PyAirtouch.Spec.checkBytes f.checkedBytes == f.check

inductive Direction
  | toAirTouch | fromAirTouch | unknown
  deriving DecidableEq, Repr

/-- 3.b: sent to the AirTouch: `0x80 0xb0` or `0x90 0xb0`; received from it: last byte `0x80` or `0x90`. -/
def Frame.direction (f : Frame) : Direction :=
  if f.addr2 = addrClient ∧ (f.addr1 = addrAirTouch ∨ f.addr1 = addrAirTouchExtended) then .toAirTouch
  else if f.addr2 = addrAirTouch ∨ f.addr2 = addrAirTouchExtended then .fromAirTouch
  else .unknown

/-- the address carries the "extended message" marker 0x90 -/
def Frame.extendedAddr (f : Frame) : Bool :=
  match f.direction with
  | .toAirTouch => f.addr1 == addrAirTouchExtended
  | .fromAirTouch => f.addr2 == addrAirTouchExtended
  | .unknown => false

/-- 3.b/4.e: the 0x90 address is used for, and only for, the extended message type 0x1F -/
def Frame.addressOk (f : Frame) : Bool :=
  f.direction != .unknown && (f.extendedAddr == (f.msgType == typeExtended))

inductive MsgType
  | groupControl | groupStatus | acControl | acStatus | extended | other (code : Nat)
  deriving DecidableEq, Repr

def readMsgType (t : Nat) : MsgType :=
  if t = typeGroupControl then .groupControl
  else if t = typeGroupStatus then .groupStatus
  else if t = typeAcControl then .acControl
  else if t = typeAcStatus then .acStatus
  else if t = typeExtended then .extended
  else .other t

def renderMsgType : MsgType → String
  | .groupControl => "group_control"
  | .groupStatus => "group_status"
  | .acControl => "ac_control"
  | .acStatus => "ac_status"
  | .extended => "extended"
  | .other c => s!"other({c})"

def renderDirection : Direction → String
  | .toAirTouch => "to_airtouch"
  | .fromAirTouch => "from_airtouch"
  | .unknown => "unknown"

def renderFrame (f : Frame) : String :=
  s!"addr={hexBytes [f.addr1, f.addr2]};direction={renderDirection f.direction};" ++
  s!"extended_addr={showBool f.extendedAddr};id={f.msgId};type={renderMsgType (readMsgType f.msgType)};" ++
  s!"length={f.dataLen};data={hexBytes f.data};check={hexBytes f.check};check_ok={showBool (frameOk f)}"

/-! ## 4.a Group control message (0x2A) -/

inductive GroupSettingCmd
  /-- 000: Keep setting value -/
  | keep
  /-- 010: Value decrease (-1°C / -5%) -/
  | decrease
  /-- 011: Value increase (+1°C / +5%) -/
  | increase
  /-- 100: Set open percentage, to Byte3 -/
  | setOpenPercentage (percent : Nat)
  /-- 101: Set target setpoint, to Byte3 (°C), here in tenths -/
  | setTargetSetpoint (tenths : Int)
  /-- 001, 110, 111: not defined by the document -/
  | other (code : Nat)
  deriving DecidableEq, Repr

inductive GroupControlMethodCmd
  /-- 00: Keep control method -/
  | keep
  /-- 01: Change control method -/
  | change
  /-- 10: Set to percentage control -/
  | percentage
  /-- 11: Set to temperature control -/
  | temperature
  deriving DecidableEq, Repr

inductive GroupPowerCmd
  /-- 000: Keep power state -/
  | keep
  /-- 001: Change to next state -/
  | next
  /-- 010: Set to off -/
  | off
  /-- 011: Set to on -/
  | on
  /-- 101: Set to turbo -/
  | turbo
  /-- 100, 110, 111: not defined by the document -/
  | other (code : Nat)
  deriving DecidableEq, Repr

structure GroupControl where
  /-- Byte1, valid 0-15 -/
  group : Nat
  setting : GroupSettingCmd
  controlMethod : GroupControlMethodCmd
  power : GroupPowerCmd
  /-- Byte3 as transmitted ("Valid when bit8-6 of byte2 are 100 or 101") -/
  value : Nat
  /-- Byte4 as transmitted ("Keep 0") -/
  reserved : Nat
  deriving DecidableEq, Repr

def readGroupSettingCmd (code value : Nat) : GroupSettingCmd :=
  match code with
  | 0 => .keep
  | 2 => .decrease
  | 3 => .increase
  | 4 => .setOpenPercentage value
  | 5 => .setTargetSetpoint (degToTenths value)
  | c => .other c

def readGroupControlMethodCmd (code : Nat) : GroupControlMethodCmd :=
  match code with
  | 0 => .keep
  | 1 => .change
  | 2 => .percentage
  | _ => .temperature

def readGroupPowerCmd (code : Nat) : GroupPowerCmd :=
  match code with
  | 0 => .keep
  | 1 => .next
  | 2 => .off
  | 3 => .on
  | 5 => .turbo
  | c => .other c

/-- "4 bytes data (Data length: 0x00 0x04)" -/
def readGroupControl (data : List Nat) : Option GroupControl :=
  if !allBytes data then none else
  match data with
  | [b1, b2, b3, b4] =>
    some { group := b1
           setting := readGroupSettingCmd (bits b2 8 6) b3
           controlMethod := readGroupControlMethodCmd (bits b2 5 4)
           power := readGroupPowerCmd (bits b2 3 1)
           value := b3
           reserved := b4 }
  | _ => none

/-- the names of the attributes for which the command does NOT say "keep" -/
def GroupControl.changedAttrs (c : GroupControl) : List String :=
  (if c.setting = .keep then [] else ["setting"]) ++
  (if c.controlMethod = .keep then [] else ["control_method"]) ++
  (if c.power = .keep then [] else ["power"])

/-- everything the document asks of a well-formed command: group 0-15, only documented codes, Byte4 = 0 -/
def GroupControl.wellFormed (c : GroupControl) : Bool :=
  c.group ≤ 15 && c.reserved == 0 &&
  (match c.setting with | .other _ => false | _ => true) &&
  (match c.power with | .other _ => false | _ => true)

def renderGroupSettingCmd : GroupSettingCmd → String
  | .keep => "keep"
  | .decrease => "decrease"
  | .increase => "increase"
  | .setOpenPercentage p => s!"set_open_percentage({p})"
  | .setTargetSetpoint t => s!"set_target_setpoint({t})"
  | .other c => s!"other({c})"

def renderGroupControlMethodCmd : GroupControlMethodCmd → String
  | .keep => "keep"
  | .change => "change"
  | .percentage => "percentage"
  | .temperature => "temperature"

def renderGroupPowerCmd : GroupPowerCmd → String
  | .keep => "keep"
  | .next => "next"
  | .off => "off"
  | .on => "on"
  | .turbo => "turbo"
  | .other c => s!"other({c})"

def renderGroupControl (c : GroupControl) : String :=
  s!"group={c.group};setting={renderGroupSettingCmd c.setting};" ++
  s!"control_method={renderGroupControlMethodCmd c.controlMethod};power={renderGroupPowerCmd c.power};" ++
  s!"value={c.value};reserved={c.reserved}"

/-! ## 4.b Group status message (0x2B) -/

/-- "Sending this message to AirTouch without any data (data length: 0x00 0x00) to request group status" -/
def readGroupStatusRequest (data : List Nat) : Option Unit :=
  if data = [] then some () else none

inductive GroupPower
  /-- 00 -/
  | off
  /-- 01 -/
  | on
  /-- 11 -/
  | turbo
  /-- 10: not defined by the document -/
  | other (code : Nat)
  deriving DecidableEq, Repr

inductive GroupControlMethod
  /-- Bit8 = 1 -/
  | temperature
  /-- Bit8 = 0 -/
  | percentage
  deriving DecidableEq, Repr

structure GroupStatus where
  group : Nat
  power : GroupPower
  controlMethod : GroupControlMethod
  openPercentage : Nat
  batteryLow : Bool
  turboSupport : Bool
  /-- tenths of °C -/
  targetSetpoint : Int
  hasSensor : Bool
  /-- tenths of °C; `none` = "Not available" -/
  temperature : Option Int
  spill : Bool
  deriving DecidableEq, Repr

def readGroupPower (code : Nat) : GroupPower :=
  match code with
  | 0 => .off
  | 1 => .on
  | 3 => .turbo
  | c => .other c

def readGroupStatusRecord (rec : List Nat) : Option GroupStatus :=
  match rec with
  | [b1, b2, b3, b4, b5, b6] =>
    some { group := bits b1 6 1
           power := readGroupPower (bits b1 8 7)
           controlMethod := if bit b2 8 then .temperature else .percentage
           openPercentage := bits b2 7 1
           batteryLow := bit b3 8
           turboSupport := bit b3 7
           targetSetpoint := degToTenths (bits b3 6 1)
           hasSensor := bit b4 8
           temperature := readTemperature b5 b6
           spill := bit b6 5 }
  | _ => none

/-- Data received from AirTouch: 6 bytes per group, repeated.  (Empty data reads as no groups; as a
message sent TO the AirTouch empty data is the request, see `readGroupStatusRequest`.) -/
def readGroupStatus (data : List Nat) : Option (List GroupStatus) :=
  if !allBytes data then none else readRecords 6 readGroupStatusRecord data.length data

def renderGroupPower : GroupPower → String
  | .off => "off"
  | .on => "on"
  | .turbo => "turbo"
  | .other c => s!"other({c})"

def renderGroupControlMethod : GroupControlMethod → String
  | .temperature => "temperature"
  | .percentage => "percentage"

def renderGroupStatusRecord (g : GroupStatus) : String :=
  s!"group={g.group};power={renderGroupPower g.power};" ++
  s!"control_method={renderGroupControlMethod g.controlMethod};open_percentage={g.openPercentage};" ++
  s!"battery_low={showBool g.batteryLow};turbo_support={showBool g.turboSupport};" ++
  s!"target_setpoint={g.targetSetpoint};has_sensor={showBool g.hasSensor};" ++
  s!"temperature={showOptInt g.temperature};spill={showBool g.spill}"

def renderGroupStatus (gs : List GroupStatus) : String := joinRecords (gs.map renderGroupStatusRecord)

/-! ## 4.c AC control message (0x2C) -/

inductive AcPowerCmd
  /-- 00: Keep power state -/
  | keep
  /-- 01: Change on/off state -/
  | toggle
  /-- 10: Set to off -/
  | off
  /-- 11: Set to on -/
  | on
  deriving DecidableEq, Repr

inductive AcModeSetting
  | auto | heat | dry | fan | cool
  deriving DecidableEq, Repr

inductive AcModeCmd
  /-- 0000..0100 -/
  | set (m : AcModeSetting)
  /-- "Other: Keep mode setting" (the code is retained, all such codes mean the same) -/
  | keep (code : Nat)
  deriving DecidableEq, Repr

inductive AcFanSetting
  | auto | quiet | low | medium | high | powerful | turbo
  deriving DecidableEq, Repr

inductive AcFanCmd
  /-- 0000..0110 -/
  | set (s : AcFanSetting)
  /-- "Other: Keep fan speed setting" -/
  | keep (code : Nat)
  deriving DecidableEq, Repr

inductive AcSetpointCmd
  /-- 00: Keep current setpoint -/
  | keep
  /-- 01: Set setpoint to a specific value (Bit6-1, °C), here in tenths -/
  | set (tenths : Int)
  /-- 10: Setpoint decrease 1°C -/
  | decrease
  /-- 11: Setpoint increase 1°C -/
  | increase
  deriving DecidableEq, Repr

structure AcControl where
  /-- Byte1 Bit6-1, valid 0-3 -/
  ac : Nat
  power : AcPowerCmd
  mode : AcModeCmd
  fanSpeed : AcFanCmd
  setpoint : AcSetpointCmd
  /-- Byte3 Bit6-1 as transmitted ("Set to 0x3f when bit8-7 in byte3 are not 01") -/
  setpointValue : Nat
  /-- Byte4 as transmitted ("Keep 0") -/
  reserved : Nat
  deriving DecidableEq, Repr

def readAcPowerCmd (code : Nat) : AcPowerCmd :=
  match code with
  | 0 => .keep
  | 1 => .toggle
  | 2 => .off
  | _ => .on

def readAcModeCmd (code : Nat) : AcModeCmd :=
  match code with
  | 0 => .set .auto
  | 1 => .set .heat
  | 2 => .set .dry
  | 3 => .set .fan
  | 4 => .set .cool
  | c => .keep c

def readAcFanCmd (code : Nat) : AcFanCmd :=
  match code with
  | 0 => .set .auto
  | 1 => .set .quiet
  | 2 => .set .low
  | 3 => .set .medium
  | 4 => .set .high
  | 5 => .set .powerful
  | 6 => .set .turbo
  | c => .keep c

def readAcSetpointCmd (code value : Nat) : AcSetpointCmd :=
  match code with
  | 0 => .keep
  | 1 => .set (degToTenths value)
  | 2 => .decrease
  | _ => .increase

/-- "4 bytes data (Data length: 0x00 0x04)" -/
def readAcControl (data : List Nat) : Option AcControl :=
  if !allBytes data then none else
  match data with
  | [b1, b2, b3, b4] =>
    some { ac := bits b1 6 1
           power := readAcPowerCmd (bits b1 8 7)
           mode := readAcModeCmd (bits b2 8 5)
           fanSpeed := readAcFanCmd (bits b2 4 1)
           setpoint := readAcSetpointCmd (bits b3 8 7) (bits b3 6 1)
           setpointValue := bits b3 6 1
           reserved := b4 }
  | _ => none

/-- the names of the attributes for which the command does NOT say "keep" -/
def AcControl.changedAttrs (c : AcControl) : List String :=
  (if c.power = .keep then [] else ["power"]) ++
  (match c.mode with | .keep _ => [] | .set _ => ["mode"]) ++
  (match c.fanSpeed with | .keep _ => [] | .set _ => ["fan_speed"]) ++
  (match c.setpoint with | .keep => [] | _ => ["setpoint"])

/-- AC number 0-3, Byte4 = 0, setpoint value 0x3f unless a specific value is set -/
def AcControl.wellFormed (c : AcControl) : Bool :=
  c.ac ≤ 3 && c.reserved == 0 &&
  (match c.setpoint with | .set _ => true | _ => c.setpointValue == 0x3f)

def renderAcPowerCmd : AcPowerCmd → String
  | .keep => "keep"
  | .toggle => "toggle"
  | .off => "off"
  | .on => "on"

def renderAcModeSetting : AcModeSetting → String
  | .auto => "auto"
  | .heat => "heat"
  | .dry => "dry"
  | .fan => "fan"
  | .cool => "cool"

def renderAcModeCmd : AcModeCmd → String
  | .set m => renderAcModeSetting m
  | .keep _ => "keep"

def renderAcFanSetting : AcFanSetting → String
  | .auto => "auto"
  | .quiet => "quiet"
  | .low => "low"
  | .medium => "medium"
  | .high => "high"
  | .powerful => "powerful"
  | .turbo => "turbo"

def renderAcFanCmd : AcFanCmd → String
  | .set s => renderAcFanSetting s
  | .keep _ => "keep"

def renderAcSetpointCmd : AcSetpointCmd → String
  | .keep => "keep"
  | .set t => s!"set({t})"
  | .decrease => "decrease"
  | .increase => "increase"

def renderAcControl (c : AcControl) : String :=
  s!"ac={c.ac};power={renderAcPowerCmd c.power};mode={renderAcModeCmd c.mode};" ++
  s!"fan_speed={renderAcFanCmd c.fanSpeed};setpoint={renderAcSetpointCmd c.setpoint};" ++
  s!"setpoint_value={c.setpointValue};reserved={c.reserved}"

/-! ## 4.d AC status message (0x2D) -/

/-- "Sending this message to AirTouch without any data (data length: 0x00 0x00) to request AC status" -/
def readAcStatusRequest (data : List Nat) : Option Unit :=
  if data = [] then some () else none

inductive AcPower
  /-- 00 -/
  | off
  /-- 01 -/
  | on
  /-- 10/11: Not available -/
  | notAvailable (code : Nat)
  deriving DecidableEq, Repr

inductive AcMode
  | auto | heat | dry | fan | cool
  /-- 1000 -/
  | autoHeat
  /-- 1001 -/
  | autoCool
  /-- Other: Not available -/
  | notAvailable (code : Nat)
  deriving DecidableEq, Repr

inductive AcFanSpeed
  | auto | quiet | low | medium | high | powerful | turbo
  /-- Other: Not available -/
  | notAvailable (code : Nat)
  deriving DecidableEq, Repr

structure AcStatus where
  ac : Nat
  power : AcPower
  mode : AcMode
  fanSpeed : AcFanSpeed
  spill : Bool
  timer : Bool
  /-- tenths of °C -/
  targetSetpoint : Int
  /-- tenths of °C; `none` = "Not available" -/
  temperature : Option Int
  /-- Byte7 (high), Byte8 (low); 0 = no error -/
  errorCode : Nat
  deriving DecidableEq, Repr

def readAcPower (code : Nat) : AcPower :=
  match code with
  | 0 => .off
  | 1 => .on
  | c => .notAvailable c

def readAcMode (code : Nat) : AcMode :=
  match code with
  | 0 => .auto
  | 1 => .heat
  | 2 => .dry
  | 3 => .fan
  | 4 => .cool
  | 8 => .autoHeat
  | 9 => .autoCool
  | c => .notAvailable c

def readAcFanSpeed (code : Nat) : AcFanSpeed :=
  match code with
  | 0 => .auto
  | 1 => .quiet
  | 2 => .low
  | 3 => .medium
  | 4 => .high
  | 5 => .powerful
  | 6 => .turbo
  | c => .notAvailable c

def readAcStatusRecord (rec : List Nat) : Option AcStatus :=
  match rec with
  | [b1, b2, b3, _b4, b5, b6, b7, b8] =>
    some { ac := bits b1 6 1
           power := readAcPower (bits b1 8 7)
           mode := readAcMode (bits b2 8 5)
           fanSpeed := readAcFanSpeed (bits b2 4 1)
           spill := bit b3 8
           timer := bit b3 7
           targetSetpoint := degToTenths (bits b3 6 1)
           temperature := readTemperature b5 b6
           errorCode := b7 * 256 + b8 }
  | _ => none

/-- Data received from AirTouch: 8 bytes per AC, repeated. -/
def readAcStatus (data : List Nat) : Option (List AcStatus) :=
  if !allBytes data then none else readRecords 8 readAcStatusRecord data.length data

def renderAcPower : AcPower → String
  | .off => "off"
  | .on => "on"
  | .notAvailable _ => "not_available"

def renderAcMode : AcMode → String
  | .auto => "auto"
  | .heat => "heat"
  | .dry => "dry"
  | .fan => "fan"
  | .cool => "cool"
  | .autoHeat => "auto_heat"
  | .autoCool => "auto_cool"
  | .notAvailable _ => "not_available"

def renderAcFanSpeed : AcFanSpeed → String
  | .auto => "auto"
  | .quiet => "quiet"
  | .low => "low"
  | .medium => "medium"
  | .high => "high"
  | .powerful => "powerful"
  | .turbo => "turbo"
  | .notAvailable _ => "not_available"

def renderAcStatusRecord (a : AcStatus) : String :=
  s!"ac={a.ac};power={renderAcPower a.power};mode={renderAcMode a.mode};" ++
  s!"fan_speed={renderAcFanSpeed a.fanSpeed};spill={showBool a.spill};timer={showBool a.timer};" ++
  s!"target_setpoint={a.targetSetpoint};temperature={showOptInt a.temperature};error_code={a.errorCode}"

def renderAcStatus (as : List AcStatus) : String := joinRecords (as.map renderAcStatusRecord)

/-! ## 4.e Extended message (0x1F)

"The first two bytes of the data are used to specify the specific command."  -/

def extPrefix : Nat := 0xff
def extAcError : Nat := 0x10
def extAcAbility : Nat := 0x11
def extGroupName : Nat := 0x12
def extConsoleVersion : Nat := 0x30

inductive ExtKind
  | acError | acAbility | groupName | consoleVersion
  /-- first two data bytes are not one of the four documented commands -/
  | other (b1 b2 : Nat)
  deriving DecidableEq, Repr

/-- which extended command the data of a 0x1F message carries; `none` if there are not even two bytes -/
def readExtKind (data : List Nat) : Option ExtKind :=
  match data with
  | b1 :: b2 :: _ =>
    if b1 = extPrefix ∧ b2 = extAcError then some .acError
    else if b1 = extPrefix ∧ b2 = extAcAbility then some .acAbility
    else if b1 = extPrefix ∧ b2 = extGroupName then some .groupName
    else if b1 = extPrefix ∧ b2 = extConsoleVersion then some .consoleVersion
    else some (.other b1 b2)
  | _ => none

/-- request data `0xFF sub` (→ `some none`) or `0xFF sub n` (→ `some (some n)`) -/
def readOptArgRequest (sub : Nat) (data : List Nat) : Option (Option Nat) :=
  if !allBytes data then none else
  match data with
  | [b1, b2] => if b1 = extPrefix ∧ b2 = sub then some none else none
  | [b1, b2, n] => if b1 = extPrefix ∧ b2 = sub then some (some n) else none
  | _ => none

/-! ### 4.e.i AC ability (0xFF 0x11) -/

/-- `ac = none`: ability of all ACs (`0xFF 0x11`); `ac = some n`: of AC n (`0xFF 0x11 n`, n in 0-3) -/
structure AcAbilityRequest where
  ac : Option Nat
  deriving DecidableEq, Repr

def readAcAbilityRequest (data : List Nat) : Option AcAbilityRequest :=
  (readOptArgRequest extAcAbility data).map fun a => { ac := a }

def renderAcAbilityRequest (r : AcAbilityRequest) : String := s!"ac={showOptNat r.ac}"

structure AcAbility where
  ac : Nat
  /-- Byte4: count of following bytes that belong to this AC (22, or 24 from console version 1.2.3) -/
  followingLength : Nat
  /-- Byte5-20 up to the first 0x00 -/
  name : List Nat
  /-- Byte21, Byte22.  "If one AC only, ignored these two bytes. All groups belong to this AC." -/
  startGroup : Nat
  groupCount : Nat
  modeCool : Bool
  modeFan : Bool
  modeDry : Bool
  modeHeat : Bool
  modeAuto : Bool
  fanTurbo : Bool
  fanPowerful : Bool
  fanHigh : Bool
  fanMedium : Bool
  fanLow : Bool
  fanQuiet : Bool
  fanAuto : Bool
  /-- tenths of °C -/
  minSetpoint : Int
  maxSetpoint : Int
  /-- Byte27/28 if present: 16 flags, the k-th (k = 1..16) is the document's "Group k" (true = show).
  `none`: bytes absent, "all groups will be displayed". -/
  groupDisplay : Option (List Bool)
  /-- bytes counted by the following length that the document does not describe -/
  extra : List Nat
  deriving DecidableEq, Repr

/-- Bit1..Bit8 of a byte, in that order -/
def bitsLowFirst (b : Nat) : List Bool := [1, 2, 3, 4, 5, 6, 7, 8].map (bit b)

/-- the `following length` bytes after Byte4 -/
def readAcAbilityBody (ac len : Nat) (body : List Nat) : Option AcAbility :=
  if body.length ≠ len ∨ len < 22 then none else
  let name := body.take 16
  match body.drop 16 with
  | sg :: gc :: modes :: fans :: mn :: mx :: tail =>
    let (disp, extra) : Option (List Bool) × List Nat :=
      match tail with
      | d1 :: d2 :: rest => (some (bitsLowFirst d1 ++ bitsLowFirst d2), rest)
      | rest => (none, rest)
    some { ac := ac, followingLength := len, name := untilNul name
           startGroup := sg, groupCount := gc
           modeCool := bit modes 5, modeFan := bit modes 4, modeDry := bit modes 3
           modeHeat := bit modes 2, modeAuto := bit modes 1
           fanTurbo := bit fans 7, fanPowerful := bit fans 6, fanHigh := bit fans 5
           fanMedium := bit fans 4, fanLow := bit fans 3, fanQuiet := bit fans 2, fanAuto := bit fans 1
           minSetpoint := degToTenths mn, maxSetpoint := degToTenths mx
           groupDisplay := disp, extra := extra }
  | _ => none

/-- records `[ac, len, len bytes…]` repeated -/
def readAcAbilityRecords : Nat → List Nat → Option (List AcAbility)
  | _, [] => some []
  | 0, _ :: _ => none
  | fuel + 1, ac :: len :: rest =>
    match readAcAbilityBody ac len (rest.take len), readAcAbilityRecords fuel (rest.drop len) with
    | some r, some rs => some (r :: rs)
    | _, _ => none
  | _ + 1, [_] => none

/-- Data received from AirTouch: `0xFF 0x11` then one record per AC. -/
def readAcAbility (data : List Nat) : Option (List AcAbility) :=
  if !allBytes data then none else
  match data with
  | b1 :: b2 :: rest =>
    if b1 = extPrefix ∧ b2 = extAcAbility then readAcAbilityRecords rest.length rest else none
  | _ => none

def renderGroupDisplay : Option (List Bool) → String
  | none => "none"
  | some fs => String.join (fs.map fun f => if f then "1" else "0")

def renderAcAbilityRecord (a : AcAbility) : String :=
  s!"ac={a.ac};following_length={a.followingLength};name={hexBytes a.name};" ++
  s!"start_group={a.startGroup};group_count={a.groupCount};" ++
  s!"mode_cool={showBool a.modeCool};mode_fan={showBool a.modeFan};mode_dry={showBool a.modeDry};" ++
  s!"mode_heat={showBool a.modeHeat};mode_auto={showBool a.modeAuto};" ++
  s!"fan_turbo={showBool a.fanTurbo};fan_powerful={showBool a.fanPowerful};fan_high={showBool a.fanHigh};" ++
  s!"fan_medium={showBool a.fanMedium};fan_low={showBool a.fanLow};fan_quiet={showBool a.fanQuiet};" ++
  s!"fan_auto={showBool a.fanAuto};min_setpoint={a.minSetpoint};max_setpoint={a.maxSetpoint};" ++
  s!"group_display={renderGroupDisplay a.groupDisplay};extra={hexBytes a.extra}"

def renderAcAbility (as : List AcAbility) : String := joinRecords (as.map renderAcAbilityRecord)

/-! ### 4.e.ii AC error information (0xFF 0x10) -/

/-- the document only gives the form `0xFF 0x10 [0-3]` ("one specific AC"); the two byte form is kept
readable (`ac = none`) but is NOT documented, see `AcErrorRequest.documented` -/
structure AcErrorRequest where
  ac : Option Nat
  deriving DecidableEq, Repr

def readAcErrorRequest (data : List Nat) : Option AcErrorRequest :=
  (readOptArgRequest extAcError data).map fun a => { ac := a }

def AcErrorRequest.documented (r : AcErrorRequest) : Bool := r.ac.isSome

def renderAcErrorRequest (r : AcErrorRequest) : String := s!"ac={showOptNat r.ac}"

structure AcError where
  ac : Nat
  /-- Byte5.. ; Byte4 is its length, 0 if no error -/
  errorInfo : List Nat
  deriving DecidableEq, Repr

/-- `0xFF 0x10 ac len info[len]`, nothing else -/
def readAcError (data : List Nat) : Option AcError :=
  if !allBytes data then none else
  match data with
  | b1 :: b2 :: ac :: len :: info =>
    if b1 = extPrefix ∧ b2 = extAcError ∧ info.length = len then some { ac := ac, errorInfo := info }
    else none
  | _ => none

def renderAcError (e : AcError) : String := s!"ac={e.ac};error_info={hexBytes e.errorInfo}"

/-! ### 4.e.iii Group name (0xFF 0x12) -/

/-- `group = none`: names of all groups (`0xFF 0x12`); `some n`: of group n (`0xFF 0x12 n`, n in 0-15) -/
structure GroupNameRequest where
  group : Option Nat
  deriving DecidableEq, Repr

def readGroupNameRequest (data : List Nat) : Option GroupNameRequest :=
  (readOptArgRequest extGroupName data).map fun g => { group := g }

def renderGroupNameRequest (r : GroupNameRequest) : String := s!"group={showOptNat r.group}"

structure GroupName where
  group : Nat
  /-- Byte4-11 up to the first 0x00 -/
  name : List Nat
  deriving DecidableEq, Repr

def readGroupNameRecord (rec : List Nat) : Option GroupName :=
  match rec with
  | g :: name => if name.length = 8 then some { group := g, name := untilNul name } else none
  | _ => none

/-- `0xFF 0x12` then 9 bytes per group (number, 8 name bytes) -/
def readGroupNames (data : List Nat) : Option (List GroupName) :=
  if !allBytes data then none else
  match data with
  | b1 :: b2 :: rest =>
    if b1 = extPrefix ∧ b2 = extGroupName then readRecords 9 readGroupNameRecord rest.length rest else none
  | _ => none

def renderGroupName (g : GroupName) : String := s!"group={g.group};name={hexBytes g.name}"
def renderGroupNames (gs : List GroupName) : String := joinRecords (gs.map renderGroupName)

/-! ### 4.e.iv Console version (0xFF 0x30) -/

def readConsoleVersionRequest (data : List Nat) : Option Unit :=
  if data = [extPrefix, extConsoleVersion] then some () else none

def renderConsoleVersionRequest (_ : Unit) : String := ""

structure ConsoleVersion where
  /-- Byte3: 0 = latest version, other = new version available -/
  updateSign : Nat
  /-- Byte5.. (Byte4 bytes) split at "|"; "The first one is the master" / the console communicated with -/
  versions : List (List Nat)
  deriving DecidableEq, Repr

def ConsoleVersion.updateAvailable (v : ConsoleVersion) : Bool := v.updateSign != 0

/-- `0xFF 0x30 sign len versions[len]`, nothing else -/
def readConsoleVersion (data : List Nat) : Option ConsoleVersion :=
  if !allBytes data then none else
  match data with
  | b1 :: b2 :: sign :: len :: str =>
    if b1 = extPrefix ∧ b2 = extConsoleVersion ∧ str.length = len then
      some { updateSign := sign, versions := splitOn 0x7c str }
    else none
  | _ => none

def renderConsoleVersion (v : ConsoleVersion) : String :=
  s!"update_available={showBool v.updateAvailable};update_sign={v.updateSign};" ++
  s!"versions={String.intercalate "," (v.versions.map hexBytes)}"

/-! ## Whole messages -/

inductive Message
  | groupControl (c : GroupControl)
  | groupStatusRequest
  | groupStatus (gs : List GroupStatus)
  | acControl (c : AcControl)
  | acStatusRequest
  | acStatus (as : List AcStatus)
  | acAbilityRequest (r : AcAbilityRequest)
  | acAbility (as : List AcAbility)
  | acErrorRequest (r : AcErrorRequest)
  | acError (e : AcError)
  | groupNameRequest (r : GroupNameRequest)
  | groupNames (gs : List GroupName)
  | consoleVersionRequest
  | consoleVersion (v : ConsoleVersion)
  deriving DecidableEq, Repr

/-- messages a client sends to the AirTouch, by message type and data -/
def readMessageToAirTouch (msgType : Nat) (data : List Nat) : Option Message :=
  match readMsgType msgType with
  | .groupControl => (readGroupControl data).map .groupControl
  | .groupStatus => (readGroupStatusRequest data).map fun _ => .groupStatusRequest
  | .acControl => (readAcControl data).map .acControl
  | .acStatus => (readAcStatusRequest data).map fun _ => .acStatusRequest
  | .extended =>
    match readExtKind data with
    | some .acAbility => (readAcAbilityRequest data).map .acAbilityRequest
    | some .acError => (readAcErrorRequest data).map .acErrorRequest
    | some .groupName => (readGroupNameRequest data).map .groupNameRequest
    | some .consoleVersion => (readConsoleVersionRequest data).map fun _ => .consoleVersionRequest
    | _ => none
  | .other _ => none

/-- messages received from the AirTouch ("Ignore any other received type": `none`) -/
def readMessageFromAirTouch (msgType : Nat) (data : List Nat) : Option Message :=
  match readMsgType msgType with
  | .groupStatus => (readGroupStatus data).map .groupStatus
  | .acStatus => (readAcStatus data).map .acStatus
  | .extended =>
    match readExtKind data with
    | some .acAbility => (readAcAbility data).map .acAbility
    | some .acError => (readAcError data).map .acError
    | some .groupName => (readGroupNames data).map .groupNames
    | some .consoleVersion => (readConsoleVersion data).map .consoleVersion
    | _ => none
  | _ => none

/-- a frame with good check bytes and a coherent address, read according to its direction -/
def readMessage (f : Frame) : Option Message :=
  if !(frameOk f && f.addressOk) then none else
  match f.direction with
  | .toAirTouch => readMessageToAirTouch f.msgType f.data
  | .fromAirTouch => readMessageFromAirTouch f.msgType f.data
  | .unknown => none

def renderMessage : Message → String
  | .groupControl c => "group_control:" ++ renderGroupControl c
  | .groupStatusRequest => "group_status_request:"
  | .groupStatus gs => "group_status:" ++ renderGroupStatus gs
  | .acControl c => "ac_control:" ++ renderAcControl c
  | .acStatusRequest => "ac_status_request:"
  | .acStatus as => "ac_status:" ++ renderAcStatus as
  | .acAbilityRequest r => "ac_ability_request:" ++ renderAcAbilityRequest r
  | .acAbility as => "ac_ability:" ++ renderAcAbility as
  | .acErrorRequest r => "ac_error_request:" ++ renderAcErrorRequest r
  | .acError e => "ac_error:" ++ renderAcError e
  | .groupNameRequest r => "group_name_request:" ++ renderGroupNameRequest r
  | .groupNames gs => "group_names:" ++ renderGroupNames gs
  | .consoleVersionRequest => "console_version_request:"
  | .consoleVersion v => "console_version:" ++ renderConsoleVersion v

/-! ## The document's examples -/

section Examples

/-- read a complete frame as a message -/
def readWire (bs : List Nat) : Option Message := (readFrame bs).bind readMessage

/-! ### 4.a -/

-- "Turn off the second group"
def exGroupOff : List Nat := [0x55, 0x55, 0x80, 0xb0, 0x01, 0x2a, 0x00, 0x04, 0x01, 0x02, 0x00, 0x00, 0xda, 0x59]

example : readFrame exGroupOff =
    some { addr1 := 0x80, addr2 := 0xb0, msgId := 1, msgType := 0x2a, dataLen := 4,
           data := [0x01, 0x02, 0x00, 0x00], check := [0xda, 0x59] } := by decide +kernel
example : (readFrame exGroupOff).map frameOk = some true := by decide +kernel
example : (readFrame exGroupOff).map Frame.direction = some .toAirTouch := by decide +kernel
example : readGroupControl [0x01, 0x02, 0x00, 0x00] =
    some { group := 1, setting := .keep, controlMethod := .keep, power := .off, value := 0, reserved := 0 } := by
  decide +kernel
example : (readGroupControl [0x01, 0x02, 0x00, 0x00]).map GroupControl.changedAttrs = some ["power"] := by
  decide +kernel
example : (readGroupControl [0x01, 0x02, 0x00, 0x00]).map renderGroupControl =
    some "group=1;setting=keep;control_method=keep;power=off;value=0;reserved=0" := by decide +kernel
example : (readWire exGroupOff).map renderMessage =
    some "group_control:group=1;setting=keep;control_method=keep;power=off;value=0;reserved=0" := by
  decide +kernel

-- "Set first group to percentage control"
def exGroupPercentage : List Nat :=
  [0x55, 0x55, 0x80, 0xb0, 0x01, 0x2a, 0x00, 0x04, 0x00, 0x10, 0x00, 0x00, 0x23, 0xf8]

example : (readFrame exGroupPercentage).map frameOk = some true := by decide +kernel
example : readWire exGroupPercentage = some (.groupControl
    { group := 0, setting := .keep, controlMethod := .percentage, power := .keep, value := 0, reserved := 0 }) := by
  decide +kernel
example : (readGroupControl [0x00, 0x10, 0x00, 0x00]).map GroupControl.changedAttrs =
    some ["control_method"] := by decide +kernel

/-! ### 4.b -/

-- "Request status of groups"
def exGroupStatusRequest : List Nat := [0x55, 0x55, 0x80, 0xb0, 0x01, 0x2b, 0x00, 0x00, 0xf5, 0x2f]

example : readWire exGroupStatusRequest = some .groupStatusRequest := by decide +kernel

-- "AirTouch 4 response with data for 2 groups"
def exGroupStatusData : List Nat :=
  [0x40, 0x64, 0x00, 0x00, 0xff, 0x00, 0x41, 0xe4, 0x1a, 0x80, 0x61, 0x80]
def exGroupStatus : List Nat :=
  [0x55, 0x55, 0xb0, 0x80, 0x01, 0x2b, 0x00, 0x0c] ++ exGroupStatusData ++ [0x65, 0x79]

example : (readFrame exGroupStatus).map frameOk = some true := by decide +kernel
example : (readFrame exGroupStatus).map Frame.direction = some .fromAirTouch := by decide +kernel
example : readGroupStatus exGroupStatusData = some
    [ { group := 0, power := .on, controlMethod := .percentage, openPercentage := 100, batteryLow := false,
        turboSupport := false, targetSetpoint := 0, hasSensor := false, temperature := none, spill := false },
      { group := 1, power := .on, controlMethod := .temperature, openPercentage := 100, batteryLow := false,
        turboSupport := false, targetSetpoint := 260, hasSensor := true, temperature := some 280,
        spill := false } ] := by decide +kernel
example : (readWire exGroupStatus).map renderMessage = some
    ("group_status:group=0;power=on;control_method=percentage;open_percentage=100;battery_low=false;" ++
     "turbo_support=false;target_setpoint=0;has_sensor=false;temperature=none;spill=false | " ++
     "group=1;power=on;control_method=temperature;open_percentage=100;battery_low=false;" ++
     "turbo_support=false;target_setpoint=260;has_sensor=true;temperature=280;spill=false") := by
  decide +kernel
-- a length that is not a multiple of 6 is not a group status
example : readGroupStatus [0x40, 0x64, 0x00, 0x00, 0xff] = none := by decide +kernel

/-! ### 4.c -/

-- "Turn off the second AC"
def exAcOff : List Nat := [0x55, 0x55, 0x80, 0xb0, 0x01, 0x2c, 0x00, 0x04, 0x81, 0xff, 0x3f, 0x00, 0x1a, 0x96]

example : (readFrame exAcOff).map frameOk = some true := by decide +kernel
example : readWire exAcOff = some (.acControl
    { ac := 1, power := .off, mode := .keep 15, fanSpeed := .keep 15, setpoint := .keep,
      setpointValue := 0x3f, reserved := 0 }) := by decide +kernel
example : (readAcControl [0x81, 0xff, 0x3f, 0x00]).map AcControl.changedAttrs = some ["power"] := by
  decide +kernel
example : (readAcControl [0x81, 0xff, 0x3f, 0x00]).map renderAcControl =
    some "ac=1;power=off;mode=keep;fan_speed=keep;setpoint=keep;setpoint_value=63;reserved=0" := by
  decide +kernel

-- "Set the first AC to cool mode".
-- NOTE (document inconsistency): Byte2 = 0x40 has Bit4-1 = 0000, which the table of 4.c defines as
-- "fan speed: Set to auto", not "keep".  Read by the table, the example therefore changes TWO
-- attributes (mode and fan speed).  A command that only sets cool mode would carry Byte2 = 0x4f.
def exAcCool : List Nat := [0x55, 0x55, 0x80, 0xb0, 0x01, 0x2c, 0x00, 0x04, 0x00, 0x40, 0x3f, 0x00, 0xc2, 0x8f]

example : (readFrame exAcCool).map frameOk = some true := by decide +kernel
example : readWire exAcCool = some (.acControl
    { ac := 0, power := .keep, mode := .set .cool, fanSpeed := .set .auto, setpoint := .keep,
      setpointValue := 0x3f, reserved := 0 }) := by decide +kernel
example : (readAcControl [0x00, 0x40, 0x3f, 0x00]).map AcControl.changedAttrs =
    some ["mode", "fan_speed"] := by decide +kernel
example : (readAcControl [0x00, 0x4f, 0x3f, 0x00]).map AcControl.changedAttrs = some ["mode"] := by
  decide +kernel

/-! ### 4.d -/

-- "Request status of ACs"
def exAcStatusRequest : List Nat := [0x55, 0x55, 0x80, 0xb0, 0x01, 0x2d, 0x00, 0x00, 0xf4, 0xcf]

example : readWire exAcStatusRequest = some .acStatusRequest := by decide +kernel

-- "AirTouch 4 response with data for 2 ACs"
def exAcStatusData : List Nat :=
  [0x40, 0x42, 0x1a, 0x00, 0x61, 0x80, 0x00, 0x00, 0x01, 0x00, 0x1a, 0x00, 0x61, 0x80, 0xff, 0xfe]
def exAcStatus : List Nat :=
  [0x55, 0x55, 0xb0, 0x80, 0x01, 0x2d, 0x00, 0x10] ++ exAcStatusData ++ [0xca, 0xcb]

example : (readFrame exAcStatus).map frameOk = some true := by decide +kernel
-- (the bit picture of AC 0 in the document shows Byte6 as "000 00000" although 0x80 is "100 00000";
--  the text below it and the AC 1 picture use the correct 780.)
example : readAcStatus exAcStatusData = some
    [ { ac := 0, power := .on, mode := .cool, fanSpeed := .low, spill := false, timer := false,
        targetSetpoint := 260, temperature := some 280, errorCode := 0 },
      { ac := 1, power := .off, mode := .auto, fanSpeed := .auto, spill := false, timer := false,
        targetSetpoint := 260, temperature := some 280, errorCode := 0xfffe } ] := by decide +kernel
example : (readWire exAcStatus).map renderMessage = some
    ("ac_status:ac=0;power=on;mode=cool;fan_speed=low;spill=false;timer=false;target_setpoint=260;" ++
     "temperature=280;error_code=0 | " ++
     "ac=1;power=off;mode=auto;fan_speed=auto;spill=false;timer=false;target_setpoint=260;" ++
     "temperature=280;error_code=65534") := by decide +kernel

/-! ### 4.e.i -/

-- "Request ability of AC 0"
def exAcAbilityRequest : List Nat := [0x55, 0x55, 0x90, 0xb0, 0x01, 0x1f, 0x00, 0x03, 0xff, 0x11, 0x00, 0x09, 0x83]

example : (readFrame exAcAbilityRequest).map frameOk = some true := by decide +kernel
example : (readFrame exAcAbilityRequest).map Frame.addressOk = some true := by decide +kernel
example : readWire exAcAbilityRequest = some (.acAbilityRequest { ac := some 0 }) := by decide +kernel
example : readAcAbilityRequest [0xff, 0x11] = some { ac := none } := by decide +kernel

-- "AirTouch 4 response", data exactly as printed: 28 bytes.
-- NOTE (document inconsistency): the printed frame says data length 0x00 0x1a (26) and following
-- length 0x16 (22), yet 24 bytes follow (the two group display bytes 0x07 0x00 were appended for V1.5
-- without updating either length).  The printed check bytes 0xdf 0xbc are the CRC of the bytes as
-- printed, so the frame as printed is not well-formed: 2 bytes are left over.
def exAcAbilityName : List Nat := [0x55, 0x4e, 0x49, 0x54, 0, 0, 0, 0, 0, 0, 0, 0, 0, 0, 0, 0]
def exAcAbilityDataPrinted : List Nat :=
  [0xff, 0x11, 0x00, 0x16] ++ exAcAbilityName ++ [0x00, 0x04, 0x17, 0x1d, 0x11, 0x1f, 0x07, 0x00]
def exAcAbilityPrinted : List Nat :=
  [0x55, 0x55, 0xb0, 0x90, 0x01, 0x1f, 0x00, 0x1a] ++ exAcAbilityDataPrinted ++ [0xdf, 0xbc]

example : PyAirtouch.Spec.checkBytes ([0xb0, 0x90, 0x01, 0x1f, 0x00, 0x1a] ++ exAcAbilityDataPrinted) =
    [0xdf, 0xbc] := by decide +kernel
example : readFrame exAcAbilityPrinted = none := by decide +kernel
example : readAcAbility exAcAbilityDataPrinted = none := by decide +kernel

-- the example with the lengths the tables require for the bytes shown (following length 24, data length 28)
def exAcAbilityData24 : List Nat :=
  [0xff, 0x11, 0x00, 0x18] ++ exAcAbilityName ++ [0x00, 0x04, 0x17, 0x1d, 0x11, 0x1f, 0x07, 0x00]

-- "Name of AC0 is UNIT and it has 4 groups, start with group 0.  It has cool, heat, dry, auto modes and
-- has low, mid, high, auto fan speeds.  Minimum setpoint is 17, maximum setpoint is 31.  Group 1, 2, 3
-- are visible for this AC. All other groups are invisible."
example : readAcAbility exAcAbilityData24 = some
    [ { ac := 0, followingLength := 24, name := [0x55, 0x4e, 0x49, 0x54], startGroup := 0, groupCount := 4,
        modeCool := true, modeFan := false, modeDry := true, modeHeat := true, modeAuto := true,
        fanTurbo := false, fanPowerful := false, fanHigh := true, fanMedium := true, fanLow := true,
        fanQuiet := false, fanAuto := true, minSetpoint := 170, maxSetpoint := 310,
        groupDisplay := some [true, true, true, false, false, false, false, false,
                              false, false, false, false, false, false, false, false],
        extra := [] } ] := by decide +kernel
example : (readAcAbility exAcAbilityData24).map renderAcAbility = some
    ("ac=0;following_length=24;name=554e4954;start_group=0;group_count=4;" ++
     "mode_cool=true;mode_fan=false;mode_dry=true;mode_heat=true;mode_auto=true;" ++
     "fan_turbo=false;fan_powerful=false;fan_high=true;fan_medium=true;fan_low=true;fan_quiet=false;" ++
     "fan_auto=true;min_setpoint=170;max_setpoint=310;group_display=1110000000000000;extra=") := by
  decide +kernel

-- the example as a pre-1.2.3 console sends it (consistent with the printed lengths 0x1a and 0x16)
def exAcAbilityData22 : List Nat :=
  [0xff, 0x11, 0x00, 0x16] ++ exAcAbilityName ++ [0x00, 0x04, 0x17, 0x1d, 0x11, 0x1f]

example : (readAcAbility exAcAbilityData22).map renderAcAbility = some
    ("ac=0;following_length=22;name=554e4954;start_group=0;group_count=4;" ++
     "mode_cool=true;mode_fan=false;mode_dry=true;mode_heat=true;mode_auto=true;" ++
     "fan_turbo=false;fan_powerful=false;fan_high=true;fan_medium=true;fan_low=true;fan_quiet=false;" ++
     "fan_auto=true;min_setpoint=170;max_setpoint=310;group_display=none;extra=") := by decide +kernel
example : (readFrame ([0x55, 0x55, 0xb0, 0x90, 0x01, 0x1f, 0x00, 0x1a] ++ exAcAbilityData22 ++
    PyAirtouch.Spec.checkBytes ([0xb0, 0x90, 0x01, 0x1f, 0x00, 0x1a] ++ exAcAbilityData22))).map frameOk =
    some true := by decide +kernel

-- "2 ACs will receive 54 (2+26+26) bytes data"
example : ((readAcAbility ([0xff, 0x11] ++ (exAcAbilityData24.drop 2) ++
    ([0x01] ++ exAcAbilityData24.drop 3))).map List.length, (2 + 26 + 26 : Nat)) = (some 2, 54) := by
  decide +kernel
example : ([0xff, 0x11] ++ (exAcAbilityData24.drop 2) ++ ([0x01] ++ exAcAbilityData24.drop 3)).length = 54 := by
  decide +kernel
-- a following length that runs past the data, or shorter than the 22 described bytes: not an ability message
example : readAcAbility ([0xff, 0x11, 0x00, 0x19] ++ exAcAbilityName ++
    [0x00, 0x04, 0x17, 0x1d, 0x11, 0x1f, 0x07, 0x00]) = none := by decide +kernel
example : readAcAbility [0xff, 0x11, 0x00, 0x02, 0x41, 0x00] = none := by decide +kernel

/-! ### 4.e.ii -/

-- "Request Error of AC 0"
def exAcErrorRequest : List Nat := [0x55, 0x55, 0x90, 0xb0, 0x01, 0x1f, 0x00, 0x03, 0xff, 0x10, 0x00, 0x99, 0x82]

example : (readFrame exAcErrorRequest).map frameOk = some true := by decide +kernel
example : readWire exAcErrorRequest = some (.acErrorRequest { ac := some 0 }) := by decide +kernel

-- "AirTouch 4 response".
-- NOTE (document inconsistency): the printed data length is 0x00 0x1a (26) but 12 data bytes follow
-- (it should be 0x00 0x0c); the printed check bytes 0x60 0xd3 are the CRC of the bytes as printed.
def exAcErrorData : List Nat := [0xff, 0x10, 0x00, 0x08, 0x45, 0x52, 0x3a, 0x20, 0x46, 0x46, 0x46, 0x45]

example : PyAirtouch.Spec.checkBytes ([0xb0, 0x90, 0x01, 0x1f, 0x00, 0x1a] ++ exAcErrorData) = [0x60, 0xd3] := by
  decide +kernel
example : readFrame ([0x55, 0x55, 0xb0, 0x90, 0x01, 0x1f, 0x00, 0x1a] ++ exAcErrorData ++ [0x60, 0xd3]) = none := by
  decide +kernel
example : readAcError exAcErrorData =
    some { ac := 0, errorInfo := [0x45, 0x52, 0x3a, 0x20, 0x46, 0x46, 0x46, 0x45] } := by decide +kernel
example : (readAcError exAcErrorData).map renderAcError = some "ac=0;error_info=45523a2046464645" := by
  decide +kernel
-- with the data length corrected to 12 (check bytes recomputed: 0x36 0xe4)
example : (readWire ([0x55, 0x55, 0xb0, 0x90, 0x01, 0x1f, 0x00, 0x0c] ++ exAcErrorData ++ [0x36, 0xe4])).map
    renderMessage = some "ac_error:ac=0;error_info=45523a2046464645" := by decide +kernel
-- "If no error, will be 0"
example : readAcError [0xff, 0x10, 0x01, 0x00] = some { ac := 1, errorInfo := [] } := by decide +kernel

/-! ### 4.e.iii -/

-- "Request name of group 0"
def exGroupNameRequest : List Nat := [0x55, 0x55, 0x90, 0xb0, 0x01, 0x1f, 0x00, 0x03, 0xff, 0x12, 0x00, 0xf9, 0x83]

example : readWire exGroupNameRequest = some (.groupNameRequest { group := some 0 }) := by decide +kernel

-- response: "Name of Group 0 is Group1"
def exGroupName : List Nat :=
  [0x55, 0x55, 0xb0, 0x90, 0x01, 0x1f, 0x00, 0x0b,
   0xff, 0x12, 0x00, 0x47, 0x72, 0x6f, 0x75, 0x70, 0x31, 0x00, 0x00, 0xfd, 0x18]

example : (readFrame exGroupName).map frameOk = some true := by decide +kernel
example : readWire exGroupName =
    some (.groupNames [{ group := 0, name := [0x47, 0x72, 0x6f, 0x75, 0x70, 0x31] }]) := by decide +kernel
example : (readWire exGroupName).map renderMessage = some "group_names:group=0;name=47726f757031" := by
  decide +kernel

-- "Request name of all groups"
def exGroupNamesRequest : List Nat := [0x55, 0x55, 0x90, 0xb0, 0x01, 0x1f, 0x00, 0x02, 0xff, 0x12, 0x82, 0x0c]

example : readWire exGroupNamesRequest = some (.groupNameRequest { group := none }) := by decide +kernel

-- response with three groups.
-- NOTE (document inconsistency): the printed data length is 0x00 0x0b (11) but 29 data bytes follow
-- ("3 groups will receive 29(2+9+9+9) bytes data": it should be 0x00 0x1d); the printed check bytes
-- 0x39 0x93 are the CRC of the bytes as printed.
def exGroupNamesData : List Nat :=
  [0xff, 0x12,
   0x00, 0x4c, 0x69, 0x76, 0x69, 0x6e, 0x67, 0x00, 0x00,
   0x01, 0x4b, 0x69, 0x74, 0x63, 0x68, 0x65, 0x6e, 0x00,
   0x02, 0x42, 0x65, 0x64, 0x72, 0x6f, 0x6f, 0x6d, 0x00]

example : PyAirtouch.Spec.checkBytes ([0xb0, 0x90, 0x01, 0x1f, 0x00, 0x0b] ++ exGroupNamesData) = [0x39, 0x93] := by
  decide +kernel
example : readFrame ([0x55, 0x55, 0xb0, 0x90, 0x01, 0x1f, 0x00, 0x0b] ++ exGroupNamesData ++ [0x39, 0x93]) =
    none := by decide +kernel
example : readGroupNames exGroupNamesData = some
    [ { group := 0, name := [0x4c, 0x69, 0x76, 0x69, 0x6e, 0x67] },
      { group := 1, name := [0x4b, 0x69, 0x74, 0x63, 0x68, 0x65, 0x6e] },
      { group := 2, name := [0x42, 0x65, 0x64, 0x72, 0x6f, 0x6f, 0x6d] } ] := by decide +kernel
example : (readGroupNames exGroupNamesData).map renderGroupNames = some
    "group=0;name=4c6976696e67 | group=1;name=4b69746368656e | group=2;name=426564726f6f6d" := by
  decide +kernel
-- with the data length corrected to 29 (check bytes recomputed: 0x99 0x8a)
example : (readFrame ([0x55, 0x55, 0xb0, 0x90, 0x01, 0x1f, 0x00, 0x1d] ++ exGroupNamesData ++
    [0x99, 0x8a])).map frameOk = some true := by decide +kernel
-- a name filling all 8 bytes has no terminating 0
example : readGroupNames [0xff, 0x12, 0x03, 0x41, 0x42, 0x43, 0x44, 0x45, 0x46, 0x47, 0x48] =
    some [{ group := 3, name := [0x41, 0x42, 0x43, 0x44, 0x45, 0x46, 0x47, 0x48] }] := by decide +kernel

/-! ### 4.e.iv -/

-- request (captioned "Request Error of AC 0" in the document, a copy-paste slip)
def exConsoleVersionRequest : List Nat := [0x55, 0x55, 0x90, 0xb0, 0x01, 0x1f, 0x00, 0x02, 0xff, 0x30, 0x9b, 0x8c]

example : readWire exConsoleVersionRequest = some .consoleVersionRequest := by decide +kernel

-- "AirTouch 4 response".
-- NOTE (document inconsistency): the printed data length is 0x00 0x1a (26) but 15 data bytes follow
-- (it should be 0x00 0x0f); the printed check bytes 0x2c 0x0e are the CRC of the bytes as printed.
def exConsoleVersionData : List Nat :=
  [0xff, 0x30, 0x00, 0x0b, 0x31, 0x2e, 0x33, 0x2e, 0x33, 0x7c, 0x31, 0x2e, 0x33, 0x2e, 0x33]

example : PyAirtouch.Spec.checkBytes ([0xb0, 0x90, 0x01, 0x1f, 0x00, 0x1a] ++ exConsoleVersionData) =
    [0x2c, 0x0e] := by decide +kernel
example : readFrame ([0x55, 0x55, 0xb0, 0x90, 0x01, 0x1f, 0x00, 0x1a] ++ exConsoleVersionData ++ [0x2c, 0x0e]) =
    none := by decide +kernel
example : readConsoleVersion exConsoleVersionData = some
    { updateSign := 0, versions := [[0x31, 0x2e, 0x33, 0x2e, 0x33], [0x31, 0x2e, 0x33, 0x2e, 0x33]] } := by
  decide +kernel
example : (readConsoleVersion exConsoleVersionData).map renderConsoleVersion =
    some "update_available=false;update_sign=0;versions=312e332e33,312e332e33" := by decide +kernel
-- with the data length corrected to 15 (check bytes recomputed: 0xb3 0xc0)
example : (readWire ([0x55, 0x55, 0xb0, 0x90, 0x01, 0x1f, 0x00, 0x0f] ++ exConsoleVersionData ++
    [0xb3, 0xc0])).map renderMessage =
    some "console_version:update_available=false;update_sign=0;versions=312e332e33,312e332e33" := by
  decide +kernel

/-! ### frames in general -/

-- a wrong check byte is detected
example : (readFrame [0x55, 0x55, 0x80, 0xb0, 0x01, 0x2b, 0x00, 0x00, 0xf5, 0x2e]).map frameOk = some false := by
  decide +kernel
-- a wrong header is not a frame
example : readFrame [0x55, 0x54, 0x80, 0xb0, 0x01, 0x2b, 0x00, 0x00, 0xf5, 0x2f] = none := by decide +kernel
-- two frames back to back
example : (readFramePrefix (exGroupStatusRequest ++ exAcStatusRequest)).map (·.2) = some exAcStatusRequest := by
  decide +kernel
-- "Ignore any other received type"
example : readMessageFromAirTouch 0x2e [] = none := by decide +kernel

end Examples

end PyAirtouch.Spec.At4
