import PyAirtouch.Spec.Trace
/-! Text form of observable events (one event per line of the oracle / driver protocol). -/
namespace PyAirtouch.Spec.Trace

def nat? (s : String) : Option Nat := s.toNat?
def bool? (s : String) : Option Bool := if s = "1" then some true else if s = "0" then some false else none

def parseEv (ws : List String) : Option Ev :=
  match ws with
  | ["apiOpen", t] => do pure (.apiOpen (← nat? t))
  | ["apiClose", t] => do pure (.apiClose (← nat? t))
  | ["apiCloseDone", t] => do pure (.apiCloseDone (← nat? t))
  | ["apiReset", t] => do pure (.apiReset (← nat? t))
  | ["accept", s, t, e, r, ok] => do pure (.accept (← nat? s) (← nat? t) (← nat? e) (← nat? r) (← bool? ok))
  | ["reject", s, t, "notOpen"] => do pure (.reject (← nat? s) (← nat? t) .notOpen)
  | ["reject", s, t, "overflow"] => do pure (.reject (← nat? s) (← nat? t) .overflow)
  | ["qdrop", s, t, "expired"] => do pure (.qdrop (← nat? s) (← nat? t) .expired)
  | ["qdrop", s, t, "maxRetries"] => do pure (.qdrop (← nat? s) (← nat? t) .maxRetries)
  | ["qdrop", s, t, "encErr"] => do pure (.qdrop (← nat? s) (← nat? t) .encErr)
  | ["attempt", t] => do pure (.attempt (← nat? t))
  | ["refused", t] => do pure (.refused (← nat? t))
  | ["opened", c, t] => do pure (.opened (← nat? c) (← nat? t))
  | ["clientClose", c, t] => do pure (.clientClose (← nat? c) (← nat? t))
  | ["lost", c, t] => do pure (.lost (← nat? c) (← nat? t))
  | ["wire", c, s, t] => do pure (.wire (← nat? c) (← nat? s) (← nat? t))
  | ["wireUnknown", c, t] => do pure (.wireUnknown (← nat? c) (← nat? t))
  | ["deadWrite", c, s, t] => do pure (.deadWrite (← nat? c) (← nat? s) (← nat? t))
  | ["writeFault", c, s, t] => do pure (.writeFault (← nat? c) (← nat? s) (← nat? t))
  | ["notify", b, t] => do pure (.notify (← bool? b) (← nat? t))
  | ["deliver", c, g, t] => do pure (.deliver (← nat? c) (← nat? g) (← nat? t))
  | ["fault", t] => do pure (.fault (← nat? t))
  | ["heal", t] => do pure (.heal (← nat? t))
  | ["probeDelivered", b, t] => do pure (.probeDelivered (← bool? b) (← nat? t))
  | ["census", t, a, b, c, d] => do pure (.census (← nat? t) (← nat? a) (← nat? b) (← nat? c) (← nat? d))
  | _ => none

def Ev.toLine : Ev → String
  | .apiOpen t => s!"apiOpen {t}"
  | .apiClose t => s!"apiClose {t}"
  | .apiCloseDone t => s!"apiCloseDone {t}"
  | .apiReset t => s!"apiReset {t}"
  | .accept s t e r ok => s!"accept {s} {t} {e} {r} {if ok then 1 else 0}"
  | .reject s t .notOpen => s!"reject {s} {t} notOpen"
  | .reject s t .overflow => s!"reject {s} {t} overflow"
  | .qdrop s t .expired => s!"qdrop {s} {t} expired"
  | .qdrop s t .maxRetries => s!"qdrop {s} {t} maxRetries"
  | .qdrop s t .encErr => s!"qdrop {s} {t} encErr"
  | .attempt t => s!"attempt {t}"
  | .refused t => s!"refused {t}"
  | .opened c t => s!"opened {c} {t}"
  | .clientClose c t => s!"clientClose {c} {t}"
  | .lost c t => s!"lost {c} {t}"
  | .wire c s t => s!"wire {c} {s} {t}"
  | .wireUnknown c t => s!"wireUnknown {c} {t}"
  | .deadWrite c s t => s!"deadWrite {c} {s} {t}"
  | .writeFault c s t => s!"writeFault {c} {s} {t}"
  | .notify b t => s!"notify {if b then 1 else 0} {t}"
  | .deliver c g t => s!"deliver {c} {g} {t}"
  | .fault t => s!"fault {t}"
  | .heal t => s!"heal {t}"
  | .probeDelivered b t => s!"probeDelivered {if b then 1 else 0} {t}"
  | .census t a b c d => s!"census {t} {a} {b} {c} {d}"

end PyAirtouch.Spec.Trace
