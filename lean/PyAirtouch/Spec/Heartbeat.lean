/-!
# Specification: heartbeat (property C08)

Observable events of a heartbeat run, in time order (ticks of 1/8 s): monitoring started, the link
went up/down, a heartbeat request was emitted, a heartbeat response arrived, the heartbeat reset the
connection, that reset completed, end of observation.

The monitor reads the property directly:
* while connected, a request is emitted at `start + k·interval`;
* *arm points* are the start of monitoring, every response and the completion of every reset;
  when `timeout` has elapsed since the latest arm point the connection is reset if it is up
  (if it is down the period simply starts again);
* a reset happens at no other time.
An event that falls exactly on a deadline may be ordered either way.
-/
namespace PyAirtouch.Spec.Heartbeat

inductive HEv
  | start (t : Nat) | conn (up : Bool) (t : Nat) | beat (t : Nat) | resp (t : Nat)
  | reset (t : Nat) | resetDone (t : Nat) | stop (t : Nat)
deriving DecidableEq, Repr

def HEv.time : HEv → Nat
  | .start t | .conn _ t | .beat t | .resp t | .reset t | .resetDone t | .stop t => t

structure MState where
  interval : Nat
  timeout : Nat
  deadline : Option Nat      -- none: not monitoring, or a reset is in progress
  alt : Option Nat           -- a deadline that a response arriving at that very instant has just replaced
  nextBeat : Option Nat
  up : Bool
  ok : Bool
deriving Repr

/-- deadlines and beat instants strictly before `t` that should have produced an event -/
def catchUp (fuel : Nat) (m : MState) (t : Nat) : MState :=
  match fuel with
  | 0 => m
  | fuel+1 =>
    match m.deadline with
    | some d =>
      if d < t then
        if m.up then { m with ok := false }          -- a reset was due at `d` and did not happen
        else catchUp fuel { m with deadline := some (d + m.timeout) } t
      else
        match m.nextBeat with
        | some b =>
          if b < t then
            if m.up then { m with ok := false }      -- a request was due at `b`
            else catchUp fuel { m with nextBeat := some (b + m.interval) } t
          else m
        | none => m
    | none =>
      match m.nextBeat with
      | some b =>
        if b < t then
          if m.up then { m with ok := false }
          else catchUp fuel { m with nextBeat := some (b + m.interval) } t
        else m
      | none => m

def mStep (m0 : MState) (e : HEv) : MState :=
  let m := catchUp 4096 m0 e.time
  match e with
  | .start t => { m with deadline := some (t + m.timeout), nextBeat := some t }
  | .conn up _ => { m with up := up }
  | .beat t =>
    match m.nextBeat with
    | some b => { m with nextBeat := some (b + m.interval), ok := m.ok && decide (b = t) && m.up }
    | none => { m with ok := false }
  | .resp t =>
    match m.deadline with
    | some d => { m with deadline := some (t + m.timeout), alt := if d = t then some d else none }
    | none => m
  | .reset t =>
    match m.deadline with
    | some d => { m with deadline := none, alt := none, ok := m.ok && (decide (d = t) || decide (m.alt = some t)) && m.up }
    | none => { m with ok := false }
  | .resetDone t => { m with deadline := some (t + m.timeout) }
  | .stop _ => { m with deadline := none, nextBeat := none }

/-- the recorded run satisfies C08 -/
def c08 (interval timeout : Nat) (tr : List HEv) : Bool :=
  (tr.foldl mStep { interval := interval, timeout := timeout, deadline := none, alt := none, nextBeat := none,
                    up := false, ok := true }).ok

-- a silent console from the first heartbeat: requests at 0 and 2400, reset at 2640 (330 s)
example : c08 2400 2640 [.conn true 0, .start 0, .beat 0, .beat 2400, .reset 2640, .resetDone 2641, .stop 3000] = true := by
  decide +kernel
-- ... and it is a violation if that reset never comes
example : c08 2400 2640 [.conn true 0, .start 0, .beat 0, .beat 2400, .stop 3000] = false := by decide +kernel
-- every heartbeat answered promptly: no reset may occur
example : c08 2400 2640 [.conn true 0, .start 0, .beat 0, .resp 1, .beat 2400, .resp 2401, .reset 2640, .stop 3000] = false := by
  decide +kernel

end PyAirtouch.Spec.Heartbeat

namespace PyAirtouch.Spec.Heartbeat

def HEv.toText : HEv → String
  | .start t => s!"start {t}"
  | .conn up t => s!"conn {if up then 1 else 0} {t}"
  | .beat t => s!"beat {t}"
  | .resp t => s!"resp {t}"
  | .reset t => s!"reset {t}"
  | .resetDone t => s!"resetDone {t}"
  | .stop t => s!"stop {t}"

def parseHEv (ws : List String) : Option HEv :=
  match ws with
  | ["start", t] => t.toNat?.map .start
  | ["conn", b, t] => do pure (.conn (b = "1") (← t.toNat?))
  | ["beat", t] => t.toNat?.map .beat
  | ["resp", t] => t.toNat?.map .resp
  | ["reset", t] => t.toNat?.map .reset
  | ["resetDone", t] => t.toNat?.map .resetDone
  | ["stop", t] => t.toNat?.map .stop
  | _ => none

def splitSemi (ws : List String) : List (List String) :=
  let rec go (cur : List String) (acc : List (List String)) : List String → List (List String)
    | [] => (if cur.isEmpty then acc else acc ++ [cur])
    | w :: rest => if w = ";" then go [] (if cur.isEmpty then acc else acc ++ [cur]) rest else go (cur ++ [w]) acc rest
  go [] [] ws

end PyAirtouch.Spec.Heartbeat
