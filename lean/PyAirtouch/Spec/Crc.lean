/-!
# Specification: CRC-16/MODBUS

Written from the definition of the check (reflected polynomial 0xA001, initial value 0xFFFF, data
bytes consumed least-significant bit first) and the vendor documents' statement that the two check
bytes are transmitted high byte first.  Does not import the generated table or the model.
-/
namespace PyAirtouch.Spec

/-- one shift of the reflected CRC register -/
def bitStep (crc : Nat) : Nat :=
  if crc % 2 = 1 then (crc >>> 1) ^^^ 0xA001 else crc >>> 1

/-- one data byte: xor into the low byte, eight shifts -/
def stepBitwise (crc : Nat) (b : Nat) : Nat :=
  let c := crc ^^^ b
  bitStep (bitStep (bitStep (bitStep (bitStep (bitStep (bitStep (bitStep c)))))))

/-- the 16-bit CRC-16/MODBUS register after `bs` -/
def crc16Modbus (bs : List Nat) : Nat := bs.foldl stepBitwise 0xFFFF

/-- the two check bytes as transmitted: high byte first -/
def checkBytes (bs : List Nat) : List Nat :=
  let c := crc16Modbus bs
  [c / 256, c % 256]

-- Vendor example (AirTouch 4 protocol v1.6, group status request):
-- 55 55 | 80 b0 01 2b 00 00 | check f5 2f ; the check covers 80 b0 01 2b 00 00
example : checkBytes [0x80, 0xb0, 0x01, 0x2b, 0x00, 0x00] = [0xf5, 0x2f] := by decide +kernel
-- Vendor example (same document, "turn off the second group"): 55 55 | 80 b0 01 2a 00 04 01 02 00 00 | da 59
example : checkBytes [0x80, 0xb0, 0x01, 0x2a, 0x00, 0x04, 0x01, 0x02, 0x00, 0x00] = [0xda, 0x59] := by
  decide +kernel
-- CRC-16/MODBUS catalogue check value for "123456789" is 0x4B37
example : crc16Modbus [0x31,0x32,0x33,0x34,0x35,0x36,0x37,0x38,0x39] = 0x4B37 := by decide +kernel

end PyAirtouch.Spec
