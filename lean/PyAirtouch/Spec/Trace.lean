/-!
# Specification: observable traces of the client and the monitors that judge them

An observable trace is what a test bench sitting *outside* the client can see: API calls and their
outcome, connection attempts, transports opened / closed / lost, whole frames appearing on a
transport (identified by the send that produced their bytes), notifications to subscribers, and an
end-of-run census.  Times are ticks of 1/8 s on the event-loop clock.  The monitors below are the
executable reading of properties C01, C02, C07, C15 and C16; the same functions judge recordings of
the real implementation (through `oracle`) and appear in the theorems about the model.
-/
namespace PyAirtouch.Spec.Trace

inductive Reject | notOpen | overflow
deriving DecidableEq, Repr

inductive DropWhy | expired | maxRetries | encErr
deriving DecidableEq, Repr

inductive Ev
  | apiOpen (t : Nat) | apiClose (t : Nat) | apiCloseDone (t : Nat) | apiReset (t : Nat)
  | accept (sid t expiry retries : Nat) (encOk : Bool)
  | reject (sid t : Nat) (why : Reject)
  | qdrop (sid t : Nat) (why : DropWhy)
  | attempt (t : Nat) | refused (t : Nat) | opened (cid t : Nat)
  | clientClose (cid t : Nat) | lost (cid t : Nat)
  | wire (cid sid t : Nat) | wireUnknown (cid t : Nat)
  | deadWrite (cid sid t : Nat) | writeFault (cid sid t : Nat)
  | notify (connected : Bool) (t : Nat) | deliver (cid tag t : Nat)
  | fault (t : Nat) | heal (t : Nat) | probeDelivered (ok : Bool) (t : Nat)
  | census (t tasks timers openConns leaked : Nat)
deriving DecidableEq, Repr

/-- the policy constants of the property statements, in ticks -/
def capacity : Nat := 10

/-! ## helpers -/

def acceptedAt (tr : List Ev) (sid : Nat) : Option (Nat × Nat × Nat × Bool) :=
  tr.findSome? fun
    | .accept s t e r ok => if s = sid then some (t, e, r, ok) else none
    | _ => none

/-- every attempt to put `sid` on a transport, successful or not -/
def writeAttempts (tr : List Ev) (sid : Nat) : Nat :=
  tr.countP fun
    | .wire _ s _ => s = sid
    | .deadWrite _ s _ => s = sid
    | .writeFault _ s _ => s = sid
    | _ => false

def wireCount (tr : List Ev) (sid : Nat) : Nat :=
  tr.countP fun
    | .wire _ s _ => s = sid
    | _ => false

def acceptedSids (tr : List Ev) : List Nat :=
  tr.filterMap fun
    | .accept s _ _ _ _ => some s
    | _ => none

def wiredSids (tr : List Ev) : List Nat :=
  tr.filterMap fun
    | .wire _ s _ => some s
    | _ => none

/-- a connection was lost, reset or closed (by the peer, by a fault, or by the client itself after an
    undecodable frame / on reset / on close), or a write went to a dead transport -/
def hasFault (tr : List Ev) : Bool :=
  tr.any fun
    | .fault _ | .lost _ _ | .clientClose _ _ | .deadWrite _ _ _ | .writeFault _ _ _ | .apiReset _ => true
    | _ => false

/-- `xs` is a subsequence of `ys` (order preserved) -/
def isSubseq : List Nat → List Nat → Bool
  | [], _ => true
  | _ :: _, [] => false
  | x :: xs, y :: ys => if x = y then isSubseq xs ys else isSubseq (x :: xs) ys

/-! ## C01 — what reaches the wire -/

/-- nothing is transmitted that was not submitted, and frames are never torn or mixed:
    every byte seen on a transport belongs to a whole frame of an accepted send -/
def wireOnlySubmitted (tr : List Ev) : Bool :=
  tr.all fun
    | .wireUnknown _ _ => false
    | .wire _ s _ => (acceptedAt tr s).isSome
    | .deadWrite _ s _ => (acceptedAt tr s).isSome
    | _ => true

/-- fault-free histories: at most once each, in acceptance order -/
def onceInOrderWithoutFault (tr : List Ev) : Bool :=
  hasFault tr ||
    ((acceptedSids tr).all (fun s => wireCount tr s ≤ 1) && isSubseq (wiredSids tr) (acceptedSids tr))

def firstOpened (tr : List Ev) : Option Nat :=
  tr.findSome? fun
    | .opened _ t => some t
    | _ => none

/-- fault-free histories without close() that reach a connection: every accepted encodable message whose lifetime
    overlaps the connection has been transmitted by the end of the run -/
def hasClose (tr : List Ev) : Bool :=
  tr.any fun
    | .apiClose _ => true
    | _ => false

def deliveredWhenPossible (tr : List Ev) : Bool :=
  hasFault tr || hasClose tr ||
    match firstOpened tr with
    | none => true
    | some t0 =>
      tr.all fun
        | .accept s t e _ ok => !ok || !(decide (max t0 t < e)) || wireCount tr s == 1
        | _ => true

/-! ### no accepted message disappears without cause

An accepted message leaves the client in one of three ways only: a write attempt (successful `wire`, or a failed one
`deadWrite` / `writeFault`, after which the retry policy decides), or a drop with a stated reason - and the stated reason must be
true: `expired` only at or after its expiry, `encErr` only for a message that cannot be encoded, `maxRetries` only after a
write attempt (a frame handed to a transport that is then lost before `drain()` returns counts as a failed attempt).  At the end of a run in which the network finally behaved (`heal` marker) and the client was not closed, every
message accepted before that marker whose lifetime extends beyond the end of the run has had one of these fates. -/

def failedAttempts (tr : List Ev) (sid : Nat) : Nat :=
  tr.countP fun
    | .deadWrite _ s _ => s = sid
    | .writeFault _ s _ => s = sid
    | _ => false

def dropsJustified (tr : List Ev) : Bool :=
  tr.all fun
    | .qdrop s t why =>
      match acceptedAt tr s with
      | some (_, e, _, ok) =>
        (match why with
         | .expired => decide (e ≤ t)
         | .encErr => !ok
         | .maxRetries => decide (1 ≤ writeAttempts tr s))
      | none => true
    | _ => true

def dropped (tr : List Ev) (sid : Nat) : Bool :=
  tr.any fun
    | .qdrop s _ _ => s = sid
    | _ => false

def healTime (tr : List Ev) : Option Nat :=
  tr.findSome? fun
    | .heal t => some t
    | _ => none

def endTime (tr : List Ev) : Nat :=
  tr.foldl (fun m ev => match ev with
    | .census t _ _ _ _ => max m t
    | .wire _ _ t | .deliver _ _ t => max m t
    | _ => m) 0

def noSilentLoss (tr : List Ev) : Bool :=
  dropsJustified tr &&
    (match healTime tr with
     | none => true
     | some th =>
       hasClose tr ||
         tr.all fun
           | .accept s t e _ _ =>
             !(decide (t ≤ th)) || !(decide (endTime tr < e)) || decide (1 ≤ writeAttempts tr s) || dropped tr s
           | _ => true)

def c01 (tr : List Ev) : Bool :=
  wireOnlySubmitted tr && onceInOrderWithoutFault tr && deliveredWhenPossible tr

/-! ## C02 — retry discipline -/

def attemptsBounded (tr : List Ev) : Bool :=
  tr.all fun
    | .accept s _ _ r _ => writeAttempts tr s ≤ 1 + r
    | _ => true

def neverAtOrAfterExpiry (tr : List Ev) : Bool :=
  tr.all fun
    | .wire _ s t | .deadWrite _ s t | .writeFault _ s t =>
      match acceptedAt tr s with
      | some (_, e, _, _) => t < e
      | none => true
    | _ => true

def failedWrites (tr : List Ev) : List (Nat × Nat) :=
  tr.filterMap fun
    | .writeFault _ s t | .deadWrite _ s t => some (s, t)
    | _ => none

def firstWireOn (tr : List Ev) (cid : Nat) : Option Nat :=
  tr.findSome? fun
    | .wire c s _ => if c = cid then some s else none
    | _ => none

def afterFailure : List Ev → List Ev
  | [] => []
  | ev :: rest =>
    match ev with
    | .writeFault _ _ _ | .deadWrite _ _ _ => rest
    | _ => afterFailure rest

def nextOpened (tr : List Ev) : Option (Nat × Nat) :=
  tr.findSome? fun
    | .opened c t => some (c, t)
    | _ => none

/-- histories with a single injected fault and exactly one failed write: if that message has retries left and the next
    connection comes up inside its lifetime, it is the first frame on that connection -/
def faultCount (tr : List Ev) : Nat :=
  tr.countP fun
    | .fault _ => true
    | _ => false

def resentFirst (tr : List Ev) : Bool :=
  if faultCount tr > 1 then true else
  match failedWrites tr with
  | [(s, _)] =>
    match acceptedAt tr s with
    | some (_, e, r, _) =>
      if r = 0 then wireCount tr s == 0 else
      let after := afterFailure tr
      if after.any (fun ev => match ev with | .apiClose _ | .apiReset _ => true | _ => false) then true else
      match nextOpened after with
      | some (c, t) => if t < e then firstWireOn after c == some s else true
      | none => true
    | none => false
  | _ => true

/-- "A single transient write failure does not lose an idempotent command": in a history with one injected fault (and no
    close / reset by the user) only messages without retries may be discarded for having used up their retries - the retries
    of a message are not to be spent on a connection the client already knows to be lost -/
def keptAcrossSingleFault (tr : List Ev) : Bool :=
  if faultCount tr ≠ 1 then true else
  if tr.any (fun ev => match ev with | .apiClose _ | .apiReset _ => true | _ => false) then true else
  tr.all fun
    | .qdrop s _ .maxRetries =>
      match acceptedAt tr s with
      | some (_, _, r, _) => r == 0
      | none => true
    | _ => true

def c02 (tr : List Ev) : Bool := attemptsBounded tr && neverAtOrAfterExpiry tr && resentFirst tr

/-! ## C16 — bounded buffer (histories: sends while the link is down, then a connection) -/

structure QState where
  pending : List (Nat × Nat)     -- (sid, expiry), oldest first
  isOpen : Bool
  closing : Bool
  ok : Bool

def purge (p : List (Nat × Nat)) (now : Nat) : List (Nat × Nat) := p.filter (fun x => now < x.2)

def qStep (q : QState) : Ev → QState
  | .apiOpen _ =>
    -- opening a client that is open changes nothing; a client that was closed starts its new session with an empty buffer
    -- ("a later init() works as on a fresh object": nothing of an earlier session is held or transmitted)
    if q.isOpen && !q.closing then q else { q with pending := [], isOpen := true, closing := false }
  | .apiClose _ => { q with closing := true }
  | .apiCloseDone _ => { q with isOpen := false, closing := false }
  | .accept s t e _ _ =>
    let p := purge q.pending t
    { q with pending := p ++ [(s, e)], ok := q.ok && decide (p.length < capacity) && (q.isOpen || q.closing) }
  | .reject _ t .overflow =>
    let p := purge q.pending t
    { q with pending := p, ok := q.ok && decide (capacity ≤ p.length) }
  | .reject _ _ .notOpen => { q with ok := q.ok && (!q.isOpen || q.closing) }
  | .wire _ s t =>
    -- expired entries are discarded first and never transmitted; the rest leave in order
    let p := purge q.pending t
    match p with
    | (s', _) :: rest => { q with pending := rest, ok := q.ok && decide (s' = s) }
    | [] => { q with pending := [], ok := false }
  | .qdrop s _ _ => { q with pending := q.pending.filter (fun x => x.1 ≠ s) }
  | _ => q

/-- the client's accept / overflow / not-open decisions and what it finally transmits are exactly
    those of a ten-slot FIFO that discards expired entries before every insertion -/
def c16 (tr : List Ev) : Bool :=
  (tr.foldl qStep { pending := [], isOpen := false, closing := false, ok := true }).ok

/-! ## C07 — single connection, abandoned ones closed, healing -/

def openSet (tr : List Ev) : List Nat :=
  tr.foldl (fun s ev => match ev with
    | .opened c _ => s ++ [c]
    | .clientClose c _ | .lost c _ => s.filter (· ≠ c)
    | _ => s) []

def singleConnectionPrefixes : List Ev → List Ev → Bool
  | _, [] => true
  | pre, ev :: rest =>
    let pre' := pre ++ [ev]
    decide ((openSet pre').length ≤ 1) && singleConnectionPrefixes pre' rest

def atMostOneConnection (tr : List Ev) : Bool := singleConnectionPrefixes [] tr

def noLeakAtCensus (tr : List Ev) : Bool :=
  tr.all fun
    | .census _ _ _ _ leaked => leaked == 0
    | _ => true

/-- the events up to (not including) the next `heal` -/
def untilHeal : List Ev → List Ev
  | [] => []
  | .heal _ :: _ => []
  | ev :: rest => ev :: untilHeal rest

/-- once the network behaves again the probe frame is delivered and the probe command written - after EVERY `heal` of the run, before
    the next one (a script may break the healed link again and heal it once more) -/
def healed : List Ev → Nat → Bool
  | [], _ => true
  | .heal _ :: after, probeSid =>
    ((untilHeal after).any (fun ev => match ev with | .probeDelivered true _ => true | _ => false) &&
     (untilHeal after).any (fun ev => match ev with | .wire _ s _ => s = probeSid | _ => false)) &&
    healed after probeSid
  | _ :: after, probeSid => healed after probeSid

def c07 (tr : List Ev) (probeSid : Nat) : Bool :=
  atMostOneConnection tr && noLeakAtCensus tr && healed tr probeSid

/-! ## C15 — after close has returned

No connection attempt, no transport opened, no byte written to a transport, no `connected`
notification, no message delivered, no send accepted (sends are refused with not-open), and at the
end nothing of the client is left: no task, no timer, no open transport. -/

def quietAfterClose : Bool → List Ev → Bool
  | _, [] => true
  | closed, ev :: rest =>
    match ev with
    | .apiCloseDone _ => quietAfterClose true rest
    | .apiOpen _ => quietAfterClose false rest
    | .attempt _ | .opened _ _ | .wire _ _ _ | .writeFault _ _ _ | .wireUnknown _ _
    | .notify true _ | .accept _ _ _ _ _ | .deliver _ _ _ =>
      !closed && quietAfterClose closed rest
    | .reject _ _ .overflow => !closed && quietAfterClose closed rest
    | .census _ tasks timers openConns _ =>
      (!closed || (tasks == 0 && timers == 0 && openConns == 0)) && quietAfterClose closed rest
    | _ => quietAfterClose closed rest

def c15 (tr : List Ev) : Bool := quietAfterClose false tr

end PyAirtouch.Spec.Trace
