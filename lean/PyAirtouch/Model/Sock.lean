import PyAirtouch.Gen.Policies
import PyAirtouch.Spec.Trace
/-!
# Model of `pyairtouch/comms/socket.py` (`AirTouchSocket`)

Every coroutine instance is a row of a task table whose program counter names the `await` it is
suspended at, with a continuation `Ret` describing what its callers do when the awaited
sub-procedure returns.  `exec` runs the code between two suspension points as one pure function on
the socket's own fields (`Core`).  `step` advances the whole system by one label: an environment
change, a new API call, or the resumption of one task with the environment's answer.  Theorems
quantify over every label sequence, i.e. every schedule and every environment behaviour; asyncio
produces a subset of those schedules.

The environment part of the state (`conns`) follows asyncio's stream/transport contract:
* `live paused failW` — transport open; `paused`: the protocol was told to pause writing, `drain()`
  blocks; `failW`: the next write hits a fatal socket error;
* `dying exc` — closing (client `close()`, fatal error or peer reset); `connection_lost` not yet run;
* `dead exc` — `protocol.connection_lost` has run; `exc` = the reader carries an exception, so
  `drain()` raises at once; `wait_closed()` returns at once.
-/
namespace PyAirtouch.Model.Sock
open PyAirtouch.Spec.Trace

def RETRY_DELAY : Nat := PyAirtouch.Gen.connectRetryDelay
def CAP : Nat := PyAirtouch.Gen.maxMessageQueueSize

structure Entry where
  sid : Nat
  retries : Nat
  expiry : Nat
  encOk : Bool
  requeued : Bool
deriving DecidableEq, Repr

inductive Ret
  | done | connAfterNotify | connAfterDrain | resetTail (r : Ret) | readLoop | closeTail
deriving DecidableEq, Repr

inductive ConnSt
  | live (paused failW : Bool)
  | dying (exc : Bool)
  | dead (exc : Bool)
deriving DecidableEq, Repr

def ConnSt.isLive : ConnSt → Bool
  | .live _ _ => true
  | _ => false

inductive Pc
  | connDelay (due : Nat) | connStart | connOpening
  | drainAwait (w : Nat) (e : Entry) (r : Ret)
  | discWait (w : Nat) (r : Ret)
  | notifyWait (r : Ret)
  | readStart | readWait (c : Nat)
  | closeGather
  | cancelledOpening
  | finished
deriving DecidableEq, Repr

structure Core where
  now : Nat
  isOpen : Bool
  isConnected : Bool
  connecting : Bool
  rw : Option Nat
  queue : List Entry
  conns : List ConnSt
  trace : List Ev
deriving Repr

def Core.emit (c : Core) (e : Ev) : Core := { c with trace := c.trace ++ [e] }

structure Out where
  core : Core
  pc : Pc
  spawned : List Pc

inductive Kont
  | drain (r : Ret) | ret (r : Ret) | disconnect (r : Ret) | discTail (w : Option Nat) (r : Ret)

/-! ### writing one frame -/

inductive WriteOutcome | cont | suspend | raise
deriving DecidableEq, Repr

/-- `_write`: three transport writes then `await drain()`; what happens depends on the transport -/
def doWrite (c : Core) (w : Nat) (e : Entry) : Core × WriteOutcome :=
  match c.conns[w]? with
  | some (.live p false) => (c.emit (.wire w e.sid c.now), if p then .suspend else .cont)
  | some (.live _ true) =>
    (({ c with conns := c.conns.set w (.dying true) }.emit (.writeFault w e.sid c.now)).emit (.lost w c.now), .suspend)
  | some (.dying _) => (c.emit (.deadWrite w e.sid c.now), .suspend)
  | some (.dead true) => (c.emit (.deadWrite w e.sid c.now), .raise)
  | some (.dead false) => (c.emit (.deadWrite w e.sid c.now), .suspend)
  | none => (c, .suspend)

inductive DrainStop | empty | suspended (e : Entry) | raised (e : Entry)

/-- the `while self.is_connected and self._message_queue` loop of `_drain_message_queue`, up to
    its first suspension -/
def drainLoop (c : Core) (w : Nat) : List Entry → Core × DrainStop
  | [] => ({ c with queue := [] }, .empty)
  | e :: rest =>
    -- `if self._writer is None or self._writer.is_closing(): return` at the top of every iteration: once the connection
    -- is going down the remaining entries (expired ones included) stay queued for the next connection
    if !((c.conns[w]?.map ConnSt.isLive).getD false) then ({ c with queue := e :: rest }, .empty)
    else if c.now ≥ e.expiry then drainLoop (c.emit (.qdrop e.sid c.now .expired)) w rest
    else if !e.encOk then drainLoop (c.emit (.qdrop e.sid c.now .encErr)) w rest
    else
      match doWrite c w e with
      | (c', .cont) => drainLoop c' w rest
      | (c', .suspend) => ({ c' with queue := rest }, .suspended e)
      | (c', .raise) => ({ c' with queue := rest }, .raised e)

/-- the `except OSError` arm: put the entry back with one retry fewer, or drop it -/
def requeue (c : Core) (e : Entry) : Core :=
  if e.retries = 0 then c.emit (.qdrop e.sid c.now .maxRetries)
  else { c with queue := { e with retries := e.retries - 1, requeued := true } :: c.queue }

/-- `writer.close()` -/
def closeConn (c : Core) (w : Nat) : Core :=
  match c.conns[w]? with
  | some (.live _ _) => { c with conns := c.conns.set w (.dying false) }.emit (.clientClose w c.now)
  | _ => c

/-- the code between two suspension points -/
def exec : Nat → Core → List Pc → Kont → Out
  | 0, c, sp, _ => ⟨c, .finished, sp⟩
  | fuel+1, c, sp, .drain r =>
    if !c.isConnected then exec fuel c sp (.ret r) else
    match c.rw with
    | none => exec fuel c sp (.ret r)
    | some w =>
      match drainLoop c w c.queue with
      | (c', .empty) => exec fuel c' sp (.ret r)
      | (c', .suspended e) => ⟨c', .drainAwait w e r, sp⟩
      | (c', .raised e) => exec fuel (requeue c' e) sp (.disconnect (.resetTail r))
  | fuel+1, c, sp, .disconnect r =>
    match c.rw with
    | some w =>
      -- `await asyncio.shield(writer.wait_closed())`: always a suspension point (the shielded wait runs in a task
      -- of its own); it is resumed once `connection_lost` has run (label `run t .go` at `discWait`)
      ⟨closeConn c w, .discWait w r, sp⟩
    | none => exec fuel c sp (.discTail none r)
  | fuel+1, c, sp, .discTail w r =>
    if c.rw = w then
      ⟨{ c with isConnected := false, rw := none }.emit (.notify false c.now), .notifyWait r, sp⟩
    else exec fuel c sp (.ret r)
  | _+1, c, sp, .ret .done => ⟨c, .finished, sp⟩
  | _+1, c, sp, .ret .closeTail => ⟨c.emit (.apiCloseDone c.now), .finished, sp⟩
  | fuel+1, c, sp, .ret .connAfterNotify => exec fuel c sp (.drain .connAfterDrain)
  | _+1, c, sp, .ret .connAfterDrain =>
    ⟨c, .finished, sp ++ [.readStart] ++
      (if !c.isConnected && c.isOpen then [.connDelay (c.now + RETRY_DELAY)] else [])⟩
  | fuel+1, c, sp, .ret (.resetTail r) =>
    exec fuel c (if c.isOpen then sp ++ [.connStart] else sp) (.ret r)
  | _+1, c, sp, .ret .readLoop =>
    match c.rw with
    | some k => ⟨c, .readWait k, sp⟩
    | none => ⟨c, .finished, sp⟩

def FUEL : Nat := 16

/-! ### the task table -/

structure Task where
  pc : Pc
  bg : Bool
deriving DecidableEq, Repr

structure Sys where
  core : Core
  tasks : List Task
deriving Repr

def init : Sys :=
  { core := { now := 0, isOpen := false, isConnected := false, connecting := false, rw := none,
              queue := [], conns := [], trace := [] },
    tasks := [] }

inductive Answer
  | go | openOk | openRefused | drainOk | drainErr
  | readMsg (tag : Nat) | readBad | readEof | readErr
deriving DecidableEq, Repr

inductive Label
  | advance (t : Nat)
  | envLost (cid : Nat) | envLostRan (cid : Nat)
  | envPause (cid : Nat) (b : Bool) | envFailWrites (cid : Nat) (b : Bool)
  | apiOpen | apiClose | apiReset
  | apiSend (sid retries life : Nat) (encOk : Bool)
  | run (t : Nat) (a : Answer)
deriving DecidableEq, Repr

def pcAt (s : Sys) (t : Nat) : Option Pc := (s.tasks[t]?).map (·.pc)

/-- task `t` has run a block -/
def upd (s : Sys) (t : Nat) (out : Out) : Sys :=
  { core := out.core
    tasks := s.tasks.modify t (fun k => { k with pc := out.pc }) ++ out.spawned.map (fun p => ⟨p, true⟩) }

/-- a new (non-background) task for an API call runs its first block -/
def spawnApi (s : Sys) (out : Out) : Sys :=
  { core := out.core
    tasks := s.tasks ++ [⟨out.pc, false⟩] ++ out.spawned.map (fun p => ⟨p, true⟩) }

/-- `_enqueue_message`: purge (expired entries are logged from the back of the queue), capacity test, append -/
def purgeEvents (now : Nat) (q : List Entry) : List Ev :=
  (q.reverse.filter (fun e => now ≥ e.expiry)).map (fun e => .qdrop e.sid now .expired)

def purged (now : Nat) (q : List Entry) : List Entry := q.filter (fun e => now < e.expiry)

/-- the first block of `_connect` -/
def connectBlock (c : Core) : Out :=
  if c.isConnected || c.connecting || !c.isOpen then ⟨c, .finished, []⟩
  else ⟨{ c with connecting := true }.emit (.attempt c.now), .connOpening, []⟩

/-- `close()` cancels every background task; only one blocked inside `open_connection` still has
    something to do when the cancellation is delivered (the `finally` that clears `_connecting`) -/
def cancelTask (k : Task) : Task :=
  if k.bg then
    match k.pc with
    | .connOpening => { k with pc := .cancelledOpening }
    | .cancelledOpening => k
    | _ => { k with pc := .finished }
  else k

def anyCancelPending (ts : List Task) : Bool := ts.any (fun k => k.pc = .cancelledOpening)

def step (s : Sys) : Label → Option Sys
  | .advance t => if s.core.now ≤ t then some { s with core := { s.core with now := t } } else none
  | .envLost cid =>
    match s.core.conns[cid]? with
    | some (.live _ _) =>
      some { s with core := { s.core with conns := s.core.conns.set cid (.dying true) }.emit (.lost cid s.core.now) }
    | _ => none
  | .envLostRan cid =>
    match s.core.conns[cid]? with
    | some (.dying e) => some { s with core := { s.core with conns := s.core.conns.set cid (.dead e) } }
    | _ => none
  | .envPause cid b =>
    match s.core.conns[cid]? with
    | some (.live _ f) => some { s with core := { s.core with conns := s.core.conns.set cid (.live b f) } }
    | _ => none
  | .envFailWrites cid b =>
    match s.core.conns[cid]? with
    | some (.live p _) => some { s with core := { s.core with conns := s.core.conns.set cid (.live p b) } }
    | _ => none
  | .apiOpen =>
    let c := s.core.emit (.apiOpen s.core.now)
    if c.isOpen then some (spawnApi s ⟨c, .finished, []⟩)
    -- `self._message_queue.clear()`: what an earlier session left in the queue (entries still waiting when `close()`
    -- ran, or put back by a sender's retry path after `close()` had returned) is discarded without a log record
    else some (spawnApi s ⟨{ c with isOpen := true, queue := [] }, .finished, [.connStart]⟩)
  | .apiClose =>
    let c := s.core.emit (.apiClose s.core.now)
    if !c.isOpen then some (spawnApi s ⟨c.emit (.apiCloseDone c.now), .finished, []⟩)
    else
      let c1 := { c with isOpen := false }
      let ts := s.tasks.map cancelTask
      let hadBg := s.tasks.any (fun k => k.bg && k.pc ≠ .finished)
      if hadBg then some (spawnApi { core := c1, tasks := ts } ⟨c1, .closeGather, []⟩)
      else some (spawnApi { core := c1, tasks := ts } (exec FUEL c1 [] (.disconnect .closeTail)))
  | .apiReset =>
    let c := s.core.emit (.apiReset s.core.now)
    some (spawnApi s (exec FUEL c [] (.disconnect (.resetTail .done))))
  | .apiSend sid retries life encOk =>
    let c := s.core
    if !c.isOpen then some (spawnApi s ⟨c.emit (.reject sid c.now .notOpen), .finished, []⟩)
    else
      let c1 := { c with queue := purged c.now c.queue, trace := c.trace ++ purgeEvents c.now c.queue }
      if c1.queue.length ≥ CAP then some (spawnApi s ⟨c1.emit (.reject sid c.now .overflow), .finished, []⟩)
      else
        let e : Entry := { sid := sid, retries := retries, expiry := c.now + life, encOk := encOk, requeued := false }
        let c2 := { c1 with queue := c1.queue ++ [e] }.emit (.accept sid c.now (c.now + life) retries encOk)
        some (spawnApi s (exec FUEL c2 [] (.drain .done)))
  | .run t a =>
    match pcAt s t, a with
    | some (.connDelay due), .go => if due ≤ s.core.now then some (upd s t (connectBlock s.core)) else none
    | some .connStart, .go => some (upd s t (connectBlock s.core))
    | some .connOpening, .openOk =>
      let c := s.core
      let cid := c.conns.length
      let c1 := ({ c with conns := c.conns ++ [ConnSt.live false false], rw := some cid, connecting := false,
                          isConnected := true }.emit (.opened cid c.now)).emit (.notify true c.now)
      some (upd s t ⟨c1, .notifyWait .connAfterNotify, []⟩)
    | some .connOpening, .openRefused =>
      let c := { s.core with connecting := false }.emit (.refused s.core.now)
      some (upd s t ⟨c, .finished,
        if !c.isConnected && c.isOpen then [.connDelay (c.now + RETRY_DELAY)] else []⟩)
    | some .cancelledOpening, .go => some (upd s t ⟨{ s.core with connecting := false }, .finished, []⟩)
    | some (.drainAwait _ _ r), .drainOk => some (upd s t (exec FUEL s.core [] (.drain r)))
    | some (.drainAwait w e r), .drainErr =>
      -- `drain()` only raises on a transport that is closing or lost
      if (s.core.conns[w]?.map ConnSt.isLive).getD false then none
      else some (upd s t (exec FUEL (requeue s.core e) [] (.disconnect (.resetTail r))))
    | some (.discWait w r), .go =>
      match s.core.conns[w]? with
      | some (.dead _) => some (upd s t (exec FUEL s.core [] (.discTail (some w) r)))
      | _ => none
    | some (.notifyWait r), .go => some (upd s t (exec FUEL s.core [] (.ret r)))
    | some .readStart, .go => some (upd s t (exec FUEL s.core [] (.ret .readLoop)))
    | some (.readWait _), .readMsg tag =>
      some (upd s t ⟨s.core.emit (.deliver (s.core.rw.getD 0) tag s.core.now), .notifyWait .readLoop, []⟩)
    | some (.readWait _), .readBad => some (upd s t (exec FUEL s.core [] (.disconnect (.resetTail .readLoop))))
    | some (.readWait _), .readEof =>
      match s.core.rw with
      | some w =>
        if (s.core.conns[w]?.map ConnSt.isLive).getD false
        then some (upd s t (exec FUEL s.core [] (.disconnect (.resetTail .done))))
        else some (upd s t ⟨s.core, .finished, []⟩)
      | none => some (upd s t ⟨s.core, .finished, []⟩)
    | some (.readWait _), .readErr => some (upd s t (exec FUEL s.core [] (.disconnect (.resetTail .done))))
    | some .closeGather, .go =>
      if anyCancelPending s.tasks then none
      else some (upd s t (exec FUEL s.core [] (.disconnect .closeTail)))
    | _, _ => none

/-- run a whole label sequence -/
def run (s : Sys) : List Label → Option Sys
  | [] => some s
  | l :: ls => (step s l).bind (fun s' => run s' ls)

/-- reachable states: every history, every schedule, every environment behaviour -/
def Reachable (s : Sys) : Prop := ∃ ls, run init ls = some s

end PyAirtouch.Model.Sock
