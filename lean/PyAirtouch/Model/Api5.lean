import PyAirtouch.Gen.Api5
import PyAirtouch.Gen.Policies
import PyAirtouch.Model.At5.Registry
import PyAirtouch.Model.Heartbeat
/-!
# Model of `pyairtouch/at5/api.py` (`At5Zone`, `At5AirConditioner`, `AirTouch5`, `_notify_subscribers`)

An executable state machine `apiStep : State → Op → State × List Out` for the op language of
`harness/apiharness.py` (the API object on a virtual clock over a stub socket).  `Out.text` renders an output
exactly as the harness prints it; `apiStepText` is the `List String` form.

## Objects and identity

`AirTouch5._zones` / `_air_conditioners` are dicts of *objects*; an `At5AirConditioner` holds references to the
zone objects it was built with and subscribes its bound method `_zone_updated` to each of them.  Objects can be
replaced in the dicts while the old ones stay referenced (a second `init()` without `shutdown()`, an AC-ability
message processed twice after a `KeyError`, duplicate AC numbers in one ability message).  The model therefore
keeps two append-only heaps (`zobjs`, `aobjs`; a reference is an index) and the two dicts as association lists
`number ↦ reference` in Python insertion order (`dictInsert`).  `shutdown()` clears both dicts; afterwards no
object is reachable from the public API and none can receive an update, so the heaps are emptied too.

## Numbers

Temperatures are `Int` tenths of a degree (as in the message models).  The argument of
`set_target_temperature` is a decimal text with at most two decimals: `Int` hundredths.  `roundTenths` is
Python's `round(x, ndigits=1)` on the `float` nearest to that decimal: the tie `x.x5` is decided by comparing
the exact value of that double with the tie (`tieCmp`), and by round-half-even when the double is exact
(`x.25`, `x.75`).  `min(max(lo, r), hi)` returns one of its *arguments*: the `int` limit of the AC ability or
the rounded `float`; the canonical text shows the difference (`30` vs `t300`), hence `Out.send … spInt`.

## Exceptions

`NotOpenError` of the (stub) socket when it is not open, `KeyError` for a zone number of an AC ability that is
missing from the zone names, `KeyError` for a missing table entry, `ValueError` refusals.  A handler that
raises keeps the state changes made before the raise.

`AcAbility` records whose support dicts lack a key (not producible by the decoder) make the real constructor
raise `KeyError` *after* it subscribed to its zones; the half-built object has no `_subscribers` attribute, so
its `_zone_updated` only ever raises inside `_notify_subscribers` (caught, invisible).  The model does not
record that invisible subscription.
-/
namespace PyAirtouch.Model.Api5
open PyAirtouch.Model PyAirtouch.Model.At5 PyAirtouch.Model.At5.Registry
open PyAirtouch.Model.TimerCommon (AcTimerState AcTimerStatusData)
open PyAirtouch.Gen PyAirtouch.Gen.Api5
open PyAirtouch.Spec.Heartbeat (HEv)

/-! ### retry policies -/

inductive Policy | idempotent | nonIdempotent | connected
deriving DecidableEq, Repr

/-- `(max_retries, max_lifetime in ticks)` of the `RetryPolicy` object -/
def Policy.value : Policy → Nat × Nat
  | .idempotent => Gen.retryIdempotent
  | .nonIdempotent => Gen.retryNonIdempotent
  | .connected => Gen.retryConnected

def Policy.name : Policy → String
  | .idempotent => "IDEMPOTENT"
  | .nonIdempotent => "NON_IDEMPOTENT"
  | .connected => "CONNECTED"

/-! ### subscribers -/

/-- a subscriber of the harness is identified by its `sid` (per subscriber set).  Whether its call raises is not
    part of the state: `_notify_subscribers` calls every callback and swallows (logs) an exception of any of them, so
    a raising subscriber is notified like any other and has no effect on anything else - the op `sub … raise`
    carries the flag, `apiStep` ignores it (`Props.C12`), and the differential run confirms it against the real object -/
abbrev Sub := String

/-- `set.add` -/
def subAdd (l : List Sub) (x : Sub) : List Sub := if l.contains x then l else l ++ [x]
/-- `set.discard` -/
def subDel (l : List Sub) (sid : Sub) : List Sub := l.filter (· != sid)

/-! ### outputs -/

inductive Out
  | send (p : Policy) (m : Msg) (spInt : Bool)      -- `spInt`: the AC set-point is an `int` limit
  | notifyAt (sid : String)
  | notifyAc (id : Nat) (state : Bool) (sid : String)   -- `state`: subscribed with `subscribe_ac_state`
  | notifyZone (id : Nat) (sid : String)
  | opened | closed | reset | hbStart | hbStop
  | result (txt : String)
  | view (txt : String)
  | undecodable (cls : String)
  | subscriberExc (cls : String)
deriving DecidableEq, Repr

def Out.isSend : Out → Bool
  | .send _ _ _ => true
  | _ => false

def Out.isNotify : Out → Bool
  | .notifyAt _ | .notifyAc _ _ _ | .notifyZone _ _ => true
  | _ => false

/-! ### objects -/

structure ZoneObj where
  name : Bytes
  status : C021.ZoneStatusData
  subs : List Sub
  /-- AC objects whose `_zone_updated` is in `_subscribers` -/
  fwd : List Nat
deriving DecidableEq, Repr

structure AcObj where
  status : C023.AcStatusData
  timer : AcTimerStatusData
  errInfo : Option Bytes
  ability : FF11.AcAbility
  zones : List Nat
  supportedModes : List ApiEnums.AcMode
  supportedFanSpeeds : List ApiEnums.AcFanSpeed
  subs : List Sub
  subsState : List Sub
deriving DecidableEq, Repr

def AcObj.id (a : AcObj) : Nat := a.status.ac_number
def ZoneObj.id (z : ZoneObj) : Nat := z.status.zone_number

structure State where
  airtouchId : Bytes
  serial : Bytes
  name : Bytes
  host : Bytes
  st : AirTouchState
  consoleVersion : FF30.ConsoleVersionMessage
  zobjs : List ZoneObj
  aobjs : List AcObj
  zones : List (Nat × Nat)
  acs : List (Nat × Nat)
  subs : List Sub
  /-- `_initialised_event` -/
  initialised : Bool
  /-- deadlines of the `init()` calls still waiting for the event, in call order -/
  pendingInits : List Nat
  /-- stub socket: `is_open` -/
  sockOpen : Bool
  /-- the API's two callbacks are registered with the socket (from the first `init()` on) -/
  sockSubscribed : Bool
  /-- heartbeat manager; `hb.connected` is the socket's `is_connected` -/
  hb : Heartbeat.HB
  now : Nat
deriving Repr

def State.new (airtouchId serial name host : Bytes) : State :=
  { airtouchId, serial, name, host, st := .CLOSED,
    consoleVersion := { update_available := INITIAL_update_available, versions := [] },
    zobjs := [], aobjs := [], zones := [], acs := [], subs := [], initialised := false, pendingInits := [],
    sockOpen := false, sockSubscribed := false,
    hb := Heartbeat.init Api5.heartbeatInterval Api5.heartbeatTimeout, now := 0 }

def modifyAt {α} (l : List α) (i : Nat) (f : α → α) : List α :=
  match l, i with
  | [], _ => []
  | x :: xs, 0 => f x :: xs
  | x :: xs, i+1 => x :: modifyAt xs i f

def State.setAc (s : State) (r : Nat) (a : AcObj) : State := { s with aobjs := modifyAt s.aobjs r (fun _ => a) }
def State.setZone (s : State) (r : Nat) (z : ZoneObj) : State := { s with zobjs := modifyAt s.zobjs r (fun _ => z) }

/-- `self._air_conditioners.get(n)` -/
def State.acRef (s : State) (n : Nat) : Option Nat := s.acs.lookup n
def State.ac? (s : State) (n : Nat) : Option (Nat × AcObj) := do
  let r ← s.acRef n
  let a ← s.aobjs[r]?
  pure (r, a)

/-- the zone objects of the exposed ACs, in the order the harness's `_zone(i)` scans them -/
def State.zoneList (s : State) : List Nat := s.acs.flatMap fun p => (s.aobjs[p.2]?.map (·.zones)).getD []

/-- `z.zone_id == n` for the object `r` -/
def State.zoneHasId (s : State) (n r : Nat) : Bool :=
  match s.zobjs[r]? with
  | some z => z.id == n
  | none => false

/-- the harness's `_zone(i)`: first zone with that id in the zone lists of the exposed ACs -/
def State.zoneRefOf (s : State) (n : Nat) : Option Nat := s.zoneList.find? (s.zoneHasId n)

def State.zone? (s : State) (n : Nat) : Option (Nat × ZoneObj) := do
  let r ← s.zoneRefOf n
  let z ← s.zobjs[r]?
  pure (r, z)

/-! ### constructors of the entity objects -/

def newZone (zoneNumber : Nat) (name : Bytes) : ZoneObj :=
  { name
    status := { zone_number := zoneNumber, power_state := ZONE_INIT_power_state, spill_active := ZONE_INIT_spill_active,
                control_method := ZONE_INIT_control_method, has_sensor := ZONE_INIT_has_sensor,
                battery_status := ZONE_INIT_battery_status, temperature := ZONE_INIT_temperature,
                damper_percentage := ZONE_INIT_damper_percentage, set_point := ZONE_INIT_set_point }
    subs := [], fwd := [] }

def timerOf (t : Bool × Nat × Nat) : AcTimerState := { disabled := t.1, hour := t.2.1, minute := t.2.2 }

/-- `[api for api, ctl in MAPPING.items() if support[ctl]]`; `none` = `KeyError` -/
def supported {A C : Type} [BEq C] (items : List (A × C)) (support : List (C × Bool)) : Option (List A) :=
  match items with
  | [] => some []
  | (a, c) :: rest =>
    match support.lookup c, supported rest support with
    | some b, some l => some (if b then a :: l else l)
    | _, _ => none

def newAc (ability : FF11.AcAbility) (zones : List Nat) (modes : List ApiEnums.AcMode)
    (fans : List ApiEnums.AcFanSpeed) : AcObj :=
  { status := { ac_number := ability.ac_number, power_state := AC_INIT_power_state, mode := AC_INIT_mode,
                fan_speed := AC_INIT_fan_speed, turbo_active := AC_INIT_turbo_active,
                bypass_active := AC_INIT_bypass_active, spill_active := AC_INIT_spill_active,
                timer_set := AC_INIT_timer_set, set_point := AC_INIT_set_point, temperature := AC_INIT_temperature,
                error_code := AC_INIT_error_code }
    timer := { ac_number := ability.ac_number, on_timer := timerOf AC_INIT_on_timer, off_timer := timerOf AC_INIT_off_timer }
    errInfo := none, ability, zones, supportedModes := modes, supportedFanSpeeds := fans, subs := [], subsState := [] }

/-! ### `_notify_subscribers` (every callback is called; an exception of one is logged and swallowed) -/

def acNotifyGeneral (a : AcObj) : List Out := a.subs.map fun x => .notifyAc a.id false x
/-- `self._subscribers.union(self._subscribers_ac_state)` -/
def acNotifyAll (a : AcObj) : List Out := acNotifyGeneral a ++ a.subsState.map fun x => .notifyAc a.id true x

/-- `_zone_updated` of every AC object attached to a zone: the AC's general subscribers, with the AC's id -/
def fwdNotify (aobjs : List AcObj) (fwd : List Nat) : List Out :=
  fwd.flatMap fun r => match aobjs[r]? with
    | some a => acNotifyGeneral a
    | none => []

/-- the zone's own subscribers, and through `_zone_updated` the general subscribers of every AC object attached -/
def zoneNotify (aobjs : List AcObj) (z : ZoneObj) : List Out :=
  z.subs.map (fun x => .notifyZone z.id x) ++ fwdNotify aobjs z.fwd

/-! ### handler results: state, outputs, and the exception class if the handler raised -/

structure HR where
  s : State
  out : List Out := []
  exc : Option String := none

def HR.andThen (r : HR) (f : State → HR) : HR :=
  match r.exc with
  | some _ => r
  | none => let r2 := f r.s; { s := r2.s, out := r.out ++ r2.out, exc := r2.exc }

/-- `await self._socket.send(message, policy)` on the stub socket -/
def sendMsg (s : State) (p : Policy) (m : Msg) (spInt : Bool := false) : HR :=
  if s.sockOpen then { s, out := [.send p m spInt] } else { s, exc := some "NotOpenError" }

def forEach {α} (xs : List α) (f : State → α → HR) (s : State) : HR :=
  match xs with
  | [] => { s }
  | x :: rest => (f s x).andThen (forEach rest f)

/-! ### messages the API sends -/

def msgConsoleVersionRequest : Msg := .extended (.consoleVer .request)
def msgZoneNamesRequestAll : Msg := .extended (.zoneNames (.request ⟨none⟩))
def msgAcAbilityRequestAll : Msg := .extended (.acAbility (.request none))
def msgAcStatusRequest : Msg := .controlStatus (.acStatus .request)
def msgAcTimerStatusRequest : Msg := .controlStatus (.acTimerStatus .request)
def msgZoneStatusRequest : Msg := .controlStatus (.zoneStatus .request)
def msgErrInfoRequest (ac : Nat) : Msg := .extended (.errInfo (.request ⟨ac⟩))
def msgAcControl (d : C022.AcControlData) : Msg := .controlStatus (.acCtrl ⟨[d]⟩)
def msgZoneControl (d : C020.ZoneControlData) : Msg := .controlStatus (.zoneCtrl ⟨[d]⟩)
def msgTimerControl (d : AcTimerStatusData) : Msg := .controlStatus (.acTimerCtrl ⟨[d]⟩)
def msgQuickTimer (ac : Nat) (t : Gen.At5.X1FFF49QuickTimer.TimerType) (secs : Nat) : Msg :=
  .extended (.quickTimer { ac_number := ac, timer_type := t, duration := secs })

/-! ### entity updates -/

/-- `At5AirConditioner.update_ac_status` on the object `r` -/
def updateAcStatus (s : State) (r : Nat) (new : C023.AcStatusData) : HR :=
  match s.aobjs[r]? with
  | none => { s }
  | some a =>
    if a.status = new then { s }
    else
      let a1 := { a with status := new }
      if new.error_code ≠ 0 then
        (sendMsg (s.setAc r a1) .connected (msgErrInfoRequest a1.id)).andThen fun s => { s, out := acNotifyAll a1 }
      else
        let a2 := { a1 with errInfo := none }
        { s := s.setAc r a2, out := acNotifyAll a2 }

def updateAcTimer (s : State) (r : Nat) (new : AcTimerStatusData) : HR :=
  match s.aobjs[r]? with
  | none => { s }
  | some a =>
    if a.timer = new then { s }
    else
      let a1 := { a with timer := new }
      { s := s.setAc r a1, out := acNotifyAll a1 }

def updateAcErrInfo (s : State) (r : Nat) (new : Option Bytes) : HR :=
  match s.aobjs[r]? with
  | none => { s }
  | some a =>
    if a.errInfo = new then { s }
    else
      let a1 := { a with errInfo := new }
      { s := s.setAc r a1, out := acNotifyAll a1 }

def updateZoneStatus (s : State) (r : Nat) (new : C021.ZoneStatusData) : HR :=
  match s.zobjs[r]? with
  | none => { s }
  | some z =>
    if z.status = new then { s }
    else
      let z1 := { z with status := new }
      { s := s.setZone r z1, out := zoneNotify s.aobjs z1 }

def processAcStatus (l : List C023.AcStatusData) (s : State) : HR :=
  forEach l (fun s d => match s.acRef d.ac_number with
    | some r => updateAcStatus s r d
    | none => { s }) s

def processAcTimer (l : List AcTimerStatusData) (s : State) : HR :=
  forEach l (fun s d => match s.acRef d.ac_number with
    | some r => updateAcTimer s r d
    | none => { s }) s

def processZoneStatus (l : List C021.ZoneStatusData) (s : State) : HR :=
  forEach l (fun s d => match s.zones.lookup d.zone_number with
    | some r => updateZoneStatus s r d
    | none => { s }) s

def processErrInfo (m : FF10.AcErrorInformationMessage) (s : State) : HR :=
  match s.acRef m.ac_number with
  | some r => updateAcErrInfo s r m.error_info
  | none => { s }

def processConsoleVersionUpdate (m : FF30.ConsoleVersionMessage) (s : State) : HR :=
  if s.consoleVersion = m then { s }
  else { s := { s with consoleVersion := m }, out := s.subs.map fun x => .notifyAt x }

/-- `self._zones[zone_number] = At5Zone(zone_number, zone_name, socket)`: a fresh zone object -/
def addZone (s : State) (p : Nat × Bytes) : State :=
  { s with zobjs := s.zobjs ++ [newZone p.1 p.2], zones := dictInsert s.zones p.1 s.zobjs.length }

/-- `_process_zone_names_message`: a fresh zone object per entry, in dict order -/
def processZoneNames (names : List (Nat × Bytes)) (s : State) : State := names.foldl addZone s

/-- `[self._zones[z] for z in range(start, start + count)]`; `none` = `KeyError` -/
def zoneRange (zones : List (Nat × Nat)) (start : Nat) : Nat → Option (List Nat)
  | 0 => some []
  | count+1 =>
    match zones.lookup start, zoneRange zones (start + 1) count with
    | some r, some rs => some (r :: rs)
    | _, _ => none

/-- `zone.subscribe(ac._zone_updated)` for the AC object `r` (`set.add` of a bound method) -/
def subscribeFwd (r : Nat) (z : ZoneObj) : ZoneObj :=
  { z with fwd := if z.fwd.contains r then z.fwd else z.fwd ++ [r] }

/-- `for zone in self._zones: zone.subscribe(self._zone_updated)` in `At5AirConditioner.__init__` -/
def attachAc (r : Nat) (refs : List Nat) (zobjs : List ZoneObj) : List ZoneObj :=
  refs.foldl (fun zs zr => modifyAt zs zr (subscribeFwd r)) zobjs

/-- one iteration of `_process_ac_ability_message`; `none` = `KeyError` -/
def addAc (s : State) (ab : FF11.AcAbility) : Option State :=
  match zoneRange s.zones ab.start_zone ab.zone_count,
        supported API_MODE_CONTROL_MAPPING_items ab.ac_mode_support,
        supported API_FAN_SPEED_CONTROL_MAPPING_items ab.fan_speed_support with
  | some refs, some modes, some fans =>
    some { s with aobjs := s.aobjs ++ [newAc ab refs modes fans], zobjs := attachAc s.aobjs.length refs s.zobjs,
                  acs := dictInsert s.acs ab.ac_number s.aobjs.length }
  | _, _, _ => none

def processAcAbility (l : List FF11.AcAbility) (s : State) : HR :=
  forEach l (fun s ab => match addAc s ab with
    | some s' => { s := s' }
    | none => { s, exc := some "KeyError" }) s

/-! ### heartbeat manager -/

def hbMessage : Msg := msgConsoleVersionRequest

def hbOut : HEv → Option Out
  | .beat _ => some (.send .connected hbMessage false)
  | .reset _ => some .reset
  | _ => none

/-- feed the embedded heartbeat model (the stub's `reset_connection()` returns at once) and collect what it did -/
def hbFeed (s : State) (i : Heartbeat.HIn) : State × List Out :=
  let h := Heartbeat.feed 0 { s.hb with trace := [], expiries := [] } i
  ({ s with hb := h }, h.trace.filterMap hbOut)

/-- `is_heartbeat_response` -/
def isHeartbeatResponse : Msg → Bool
  | .extended sub => sub.messageId == Gen.At5.X1FFF30ConsoleVer.MESSAGE_ID
  | _ => false

/-- `_initialised_event.set()`: every waiting `init()` returns `True` -/
def setInitialised (s : State) : State × List Out :=
  ({ s with initialised := true, pendingInits := [] }, s.pendingInits.map fun _ => .result "init True")

/-- `CONNECTED`, `await self._heartbeat_manager.start()`, `self._initialised_event.set()` -/
def finishInit (s : State) : HR :=
  let s := { s with st := .CONNECTED }
  let (s, beat) := hbFeed s (.start s.now)
  let (s, res) := setInitialised s
  { s, out := [.hbStart] ++ res ++ beat }

/-! ### `AirTouch5._message_received` -/

def handleMessage (s : State) (toAddr : Nat) (m : Msg) : HR :=
  let toClient := toAddr == Gen.At5.Hdr.ADDRESS_CLIENT
  match m with
  | .extended (.consoleVer (.message v)) =>
    if s.st = .INIT_VERSION then
      sendMsg { s with consoleVersion := v, st := .INIT_ZONE_NAMES } .connected msgZoneNamesRequestAll
    else if s.st = .CONNECTED then processConsoleVersionUpdate v s
    else { s }
  | .extended (.zoneNames (.message zn)) =>
    if s.st = .INIT_ZONE_NAMES then
      sendMsg { processZoneNames zn.zone_names s with st := .INIT_AC_ABILITY } .connected msgAcAbilityRequestAll
    else { s }
  | .extended (.zoneNames (.request _)) =>
    if toClient && s.st = .INIT_ZONE_NAMES then
      sendMsg { s with st := .INIT_AC_ABILITY } .connected msgAcAbilityRequestAll
    else { s }
  | .extended (.acAbility (.ability acs)) =>
    if s.st = .INIT_AC_ABILITY then
      (processAcAbility acs s).andThen fun s => sendMsg { s with st := .INIT_AC_STATUS } .connected msgAcStatusRequest
    else { s }
  | .controlStatus (.acStatus (.status l)) =>
    if s.st = .INIT_AC_STATUS then
      (processAcStatus l s).andThen fun s =>
        sendMsg { s with st := .INIT_AC_TIMER_STATUS } .connected msgAcTimerStatusRequest
    else if s.st = .CONNECTED then processAcStatus l s
    else { s }
  | .controlStatus (.acTimerStatus (.status l)) =>
    if s.st = .INIT_AC_TIMER_STATUS then
      (processAcTimer l s).andThen fun s => sendMsg { s with st := .INIT_ZONE_STATUS } .connected msgZoneStatusRequest
    else if s.st = .CONNECTED then processAcTimer l s
    else { s }
  -- `AcTimerControlMessage` is a subclass of `AcTimerStatusMessage`: the class pattern accepts it
  | .controlStatus (.acTimerCtrl c) =>
    if s.st = .INIT_AC_TIMER_STATUS then
      (processAcTimer c.ac_timer_status s).andThen fun s =>
        sendMsg { s with st := .INIT_ZONE_STATUS } .connected msgZoneStatusRequest
    else if s.st = .CONNECTED then processAcTimer c.ac_timer_status s
    else { s }
  | .controlStatus (.zoneStatus (.status l)) =>
    if s.st = .INIT_ZONE_STATUS then (processZoneStatus l s).andThen finishInit
    else if s.st = .CONNECTED then processZoneStatus l s
    else { s }
  | .controlStatus (.zoneStatus .request) =>
    if toClient && s.st = .INIT_ZONE_STATUS then finishInit s else { s }
  | .extended (.errInfo (.message e)) => processErrInfo e s
  | _ => { s }

/-! ### `AirTouch5._connection_changed` -/

def handleConnection (s : State) (up : Bool) : HR :=
  if up && s.st = .CONNECTING then
    sendMsg { s with st := .INIT_VERSION } .connected msgConsoleVersionRequest
  else if up then
    (sendMsg s .connected msgAcStatusRequest).andThen fun s => sendMsg s .connected msgZoneStatusRequest
  else { s }

/-- what the socket does with a subscriber's exception: log it (`SUBSCRIBER-EXC` in the harness) -/
def excOut (r : HR) : List Out :=
  r.out ++ match r.exc with
    | some c => [.subscriberExc c]
    | none => []

/-! ### numbers -/

/-- compare the double nearest to `a/100` with `a/100` itself (`a > 0`): scale so that the quotient has
    53 significant bits, round half to even, compare exactly -/
def tieCmp (a : Nat) : Ordering :=
  let n := a * 2 ^ 64 / 100
  let t := 116 - Nat.log2 n
  let num := a * 2 ^ t
  let m0 := num / 100
  let rem := num % 100
  let m := if 2 * rem > 100 then m0 + 1 else if 2 * rem < 100 then m0 else if m0 % 2 = 1 then m0 + 1 else m0
  compare (m * 100) num

/-- whether `round(a/100, 1)` goes up when `a = 10q + 5` -/
def tieUp (a : Nat) : Bool :=
  match tieCmp a with
  | .gt => true
  | .lt => false
  | .eq => a / 10 % 2 = 1

/-- `round(a/100, ndigits=1)` for `a ≥ 0`, in tenths -/
def roundTenthsNat (a : Nat) : Nat :=
  let q := a / 10
  let r := a % 10
  if r < 5 then q else if r > 5 then q + 1 else if tieUp a then q + 1 else q

/-- `round(h/100, ndigits=1)`, in tenths (rounding is symmetric in the sign) -/
def roundTenths (h : Int) : Int :=
  if h < 0 then -(roundTenthsNat h.natAbs : Int) else (roundTenthsNat h.natAbs : Int)

/-- `min(max(lo, r), hi)` for `int` limits `lo`, `hi` (degrees) and the rounded `float` `r` (tenths):
    the value in tenths and whether the returned object is one of the `int`s -/
def clip (lo hi : Nat) (r : Int) : Int × Bool :=
  let a : Int × Bool := if r > 10 * (lo : Int) then (r, false) else (10 * (lo : Int), true)
  if 10 * (hi : Int) < a.1 then (10 * (hi : Int), true) else a

/-! ### getters of `At5AirConditioner` -/

def AcObj.minTarget (a : AcObj) : Nat :=
  match a.status.mode with
  | .HEAT => a.ability.min_heat_set_point
  | .COOL => a.ability.min_cool_set_point
  | _ => min a.ability.min_heat_set_point a.ability.min_cool_set_point

def AcObj.maxTarget (a : AcObj) : Nat :=
  match a.status.mode with
  | .HEAT => a.ability.max_heat_set_point
  | .COOL => a.ability.max_cool_set_point
  | _ => max a.ability.max_heat_set_point a.ability.max_cool_set_point

def AcObj.powerState (a : AcObj) : Option ApiEnums.AcPowerState := AC_POWER_STATE_MAPPING a.status.power_state
def AcObj.selectedMode (a : AcObj) : Option ApiEnums.AcMode := AC_SELECTED_MODE_MAPPING a.status.mode
def AcObj.activeMode (a : AcObj) : Option ApiEnums.AcMode := AC_ACTIVE_MODE_MAPPING a.status.mode
def AcObj.selectedFanSpeed (a : AcObj) : Option ApiEnums.AcFanSpeed := AC_SELECTED_FAN_SPEED_MAPPING a.status.fan_speed
def AcObj.activeFanSpeed (a : AcObj) : Option ApiEnums.AcFanSpeed := AC_ACTIVE_FAN_SPEED_MAPPING a.status.fan_speed

def AcObj.spillState (a : AcObj) : ApiEnums.AcSpillState :=
  if a.status.spill_active then .SPILL else if a.status.bypass_active then .BYPASS else .NONE

def AcObj.timerState (a : AcObj) : ApiEnums.AcTimerType → AcTimerState
  | .OFF_TIMER => a.timer.off_timer
  | .ON_TIMER => a.timer.on_timer

/-- `next_quick_timer`: `datetime.time(hour, minute)` raises `ValueError` outside 0..23 / 0..59 -/
def AcObj.nextQuickTimer (a : AcObj) (tt : ApiEnums.AcTimerType) : Except String (Option (Nat × Nat)) :=
  let t := a.timerState tt
  if t.disabled then .ok none
  else if t.hour < 24 ∧ t.minute < 60 then .ok (some (t.hour, t.minute))
  else .error "ValueError"

/-- `error_info`: `(code, description)` -/
def AcObj.errorInfo (a : AcObj) : Option (Nat × Option Bytes) :=
  if a.status.error_code ≠ 0 then some (a.status.error_code, a.errInfo) else none

def supportedPowerControls : List ApiEnums.AcPowerControl := API_POWER_CONTROL_MAPPING_items.map (·.1)
def supportedZonePowerStates : List ApiEnums.ZonePowerState := API_ZONE_POWER_MAPPING_items.map (·.1)

def ZoneObj.powerState (z : ZoneObj) : Option ApiEnums.ZonePowerState := ZONE_POWER_STATE_MAPPING z.status.power_state
def ZoneObj.controlMethod (z : ZoneObj) : Option ApiEnums.ZoneControlMethod := ZONE_CONTROL_METHOD_MAPPING z.status.control_method
def ZoneObj.batteryStatus (z : ZoneObj) : Option ApiEnums.SensorBatteryStatus := SENSOR_BATTERY_STATUS_MAPPING z.status.battery_status

/-! ### public calls -/

inductive AcCall
  | setPower (p : ApiEnums.AcPowerControl)
  | setMode (m : ApiEnums.AcMode) (powerOn : Bool)
  | setFanSpeed (f : ApiEnums.AcFanSpeed)
  | setTargetTemperature (hundredths : Int)
  | setQuickTimerTime (t : ApiEnums.AcTimerType) (hour minute : Nat)
  | setQuickTimerDuration (t : ApiEnums.AcTimerType) (seconds : Nat)
  | clearQuickTimer (t : ApiEnums.AcTimerType)
deriving DecidableEq, Repr

inductive ZoneCall
  | setPower (p : ApiEnums.ZonePowerState)
  | setTargetTemperature (hundredths : Int)
  | setDamperPercentage (p : Int)
deriving DecidableEq, Repr

/-- `_send_ac_control_message` -/
def sendAcControl (s : State) (a : AcObj) (power : Gen.At5.XC022AcCtrl.AcPowerControl := .UNCHANGED)
    (mode : Gen.At5.XC022AcCtrl.AcModeControl := .UNCHANGED)
    (fan : Gen.At5.XC022AcCtrl.AcFanSpeedControl := .UNCHANGED) (sp : Option Int := none) (spInt : Bool := false) : HR :=
  sendMsg s (if power = .TOGGLE then .nonIdempotent else .idempotent)
    (msgAcControl { ac_number := a.id, power, mode, fan_speed := fan, set_point := sp }) spInt

/-- `_send_ac_timer_control_message` -/
def sendTimerControl (s : State) (a : AcObj) (tt : ApiEnums.AcTimerType) (t : AcTimerState) : HR :=
  let onT := if tt = .ON_TIMER then t else a.timer.on_timer
  let offT := if tt = .OFF_TIMER then t else a.timer.off_timer
  sendMsg s .idempotent (msgTimerControl { ac_number := a.id, on_timer := onT, off_timer := offT })

def raise (s : State) (c : String) : HR := { s, exc := some c }

def acCall (s : State) (a : AcObj) : AcCall → HR
  | .setPower p =>
    if supportedPowerControls.contains p then
      match API_POWER_CONTROL_MAPPING p with
      | some c => sendAcControl s a (power := c)
      | none => raise s "KeyError"
    else raise s "ValueError"
  | .setMode m powerOn =>
    if a.supportedModes.contains m then
      match API_MODE_CONTROL_MAPPING m with
      | some c => sendAcControl s a (power := if powerOn then .TURN_ON else .UNCHANGED) (mode := c)
      | none => raise s "KeyError"
    else raise s "ValueError"
  | .setFanSpeed f =>
    if a.supportedFanSpeeds.contains f then
      match API_FAN_SPEED_CONTROL_MAPPING f with
      | some c => sendAcControl s a (fan := c)
      | none => raise s "KeyError"
    else raise s "ValueError"
  | .setTargetTemperature h =>
    let c := clip a.minTarget a.maxTarget (roundTenths h)
    sendAcControl s a (sp := some c.1) (spInt := c.2)
  | .setQuickTimerTime tt hour minute =>
    if hour < 24 ∧ minute < 60 then      -- the domain of `datetime.time`
      sendTimerControl s a tt { disabled := false, hour, minute }
    else raise s "ValueError"
  | .setQuickTimerDuration tt secs =>
    match API_TIMER_TYPE_MAPPING tt with
    | some t => sendMsg s .idempotent (msgQuickTimer a.id t secs)
    | none => raise s "KeyError"
  | .clearQuickTimer tt => sendTimerControl s a tt { disabled := true, hour := 0, minute := 0 }

/-- `_send_zone_control_message` -/
def sendZoneControl (s : State) (z : ZoneObj) (power : Gen.At5.XC020ZoneCtrl.ZonePowerControl := .UNCHANGED)
    (setting : Option C020.ZoneSetting := none) : HR :=
  let acc := (match setting with
    | some (.incDec _) => true
    | _ => false) || power = .TOGGLE
  sendMsg s (if acc then .nonIdempotent else .idempotent)
    (msgZoneControl { zone_number := z.id, zone_power := power, zone_setting := setting })

def zoneCall (s : State) (z : ZoneObj) : ZoneCall → HR
  | .setPower p =>
    if supportedZonePowerStates.contains p then
      match API_ZONE_POWER_MAPPING p with
      | some c => sendZoneControl s z (power := c)
      | none => raise s "KeyError"
    else raise s "ValueError"
  | .setTargetTemperature h =>
    if z.status.has_sensor then sendZoneControl s z (setting := some (.setPoint (roundTenths h)))
    else raise s "ValueError"
  | .setDamperPercentage p =>
    if p < 0 ∨ p > 100 then raise s "ValueError"
    else sendZoneControl s z (setting := some (.damper p.toNat))

/-- the harness's `call` op: outputs, then `RESULT OK` or `RESULT <exception class>` -/
def callOut (r : HR) : List Out :=
  r.out ++ [.result (r.exc.getD "OK")]

/-! ### the canonical view (`view_at` / `view_ac` / `view_zone` of the harness) -/

def cTenthsOpt : Option Int → String
  | none => "None"
  | some t => cTenths t

def names {α} (f : α → String) (l : List α) : String := "[" ++ ",".intercalate (l.map f) ++ "]"

/-- `none` = `KeyError` (a getter's table has no entry) -/
def viewZone (z : ZoneObj) : Option String := do
  let ps ← z.powerState
  let cm ← z.controlMethod
  let bat ← z.batteryStatus
  pure ("Zone(" ++ ",".intercalate [
    "zone_id=" ++ toString z.id, "name=" ++ cStr z.name,
    "supported_power_states=" ++ names ApiEnums.ZonePowerState.name supportedZonePowerStates,
    "power_state=" ++ ps.name, "control_method=" ++ cm.name,
    "has_temp_sensor=" ++ cBool z.status.has_sensor, "sensor_battery_status=" ++ bat.name,
    "current_temperature=" ++ cTenthsOpt z.status.temperature, "target_temperature=" ++ cTenthsOpt z.status.set_point,
    "target_temperature_resolution=" ++ cTenths TARGET_TEMPERATURE_RESOLUTION_tenths,
    "current_damper_percentage=" ++ toString z.status.damper_percentage,
    "spill_active=" ++ cBool z.status.spill_active] ++ ")")

def viewTimer (a : AcObj) (tt : ApiEnums.AcTimerType) : Except String String :=
  match a.nextQuickTimer tt with
  | .ok none => .ok "None"
  | .ok (some (h, m)) => .ok ("tm" ++ toString h ++ ":" ++ toString m)
  | .error e => .error e

def optKey {α} : Option α → Except String α
  | some a => .ok a
  | none => .error "KeyError"

def viewAc (zobjs : List ZoneObj) (a : AcObj) : Except String String := do
  let ps ← optKey a.powerState
  let sm ← optKey a.selectedMode
  let am ← optKey a.activeMode
  let sf ← optKey a.selectedFanSpeed
  let af ← optKey a.activeFanSpeed
  let offT ← viewTimer a .OFF_TIMER
  let onT ← viewTimer a .ON_TIMER
  let zs ← a.zones.mapM fun r => match zobjs[r]? with
    | some z => optKey (viewZone z)
    | none => .error "KeyError"
  pure ("AC(" ++ ",".intercalate [
    "ac_id=" ++ toString a.id, "name=" ++ cStr a.ability.ac_name,
    "supported_power_controls=" ++ names ApiEnums.AcPowerControl.name supportedPowerControls,
    "supported_modes=" ++ names ApiEnums.AcMode.name a.supportedModes,
    "supported_fan_speeds=" ++ names ApiEnums.AcFanSpeed.name a.supportedFanSpeeds,
    "power_state=" ++ ps.name, "selected_mode=" ++ sm.name, "active_mode=" ++ am.name,
    "selected_fan_speed=" ++ sf.name, "active_fan_speed=" ++ af.name,
    "current_temperature=" ++ cTenths a.status.temperature, "target_temperature=" ++ cTenths a.status.set_point,
    "target_temperature_resolution=" ++ cTenths TARGET_TEMPERATURE_RESOLUTION_tenths,
    "min_target_temperature=" ++ cTenths (10 * (a.minTarget : Int)),
    "max_target_temperature=" ++ cTenths (10 * (a.maxTarget : Int)),
    "spill_state=" ++ a.spillState.name,
    "off_timer=" ++ offT, "on_timer=" ++ onT,
    "error_info=" ++ (match a.errorInfo with
      | none => "None"
      | some (code, d) => "Err(code=" ++ toString code ++ ",description=" ++ cOpt cStr d ++ ")"),
    "zones=[" ++ ",".intercalate zs ++ "]"] ++ ")")

/-- `at.air_conditioners`: the AC objects in dict order -/
def State.airConditioners (s : State) : List AcObj := s.acs.filterMap fun p => s.aobjs[p.2]?

def viewAt (s : State) : Except String String := do
  let acs ← s.airConditioners.mapM (viewAc s.zobjs)
  pure ("AirTouch(" ++ ",".intercalate [
    "initialised=" ++ cBool s.initialised, "airtouch_id=" ++ cStr s.airtouchId, "serial=" ++ cStr s.serial,
    "name=" ++ cStr s.name, "host=" ++ cStr s.host, "model=" ++ MODEL.name,
    "update_available=" ++ cBool s.consoleVersion.update_available,
    "console_versions=" ++ cList cStr s.consoleVersion.versions,
    "air_conditioners=[" ++ ",".intercalate acs ++ "]"] ++ ")")

/-! ### ops -/

inductive Target
  | at
  | ac (id : Nat) (state : Bool)
  | zone (id : Nat)
deriving DecidableEq, Repr

inductive Op
  | init
  | shutdown
  | conn (up : Bool)
  /-- a frame whose payload decoded to `m` arrives; `toAddr` is the header's `to_address` -/
  | msg (toAddr : Nat) (m : Msg)
  /-- a frame whose payload the registry's decoder rejects with this exception class -/
  | undecodable (cls : String)
  | callAt                                     -- `check_for_updates`
  | callAc (id : Nat) (c : AcCall)
  | callZone (id : Nat) (c : ZoneCall)
  | sub (t : Target) (sid : String) (raises : Bool)
  | unsub (t : Target) (sid : String)
  | adv (ticks : Nat)
  | view
deriving Repr

/-- `AirTouch5.init()` up to the wait for the event -/
def doInit (s : State) : State × List Out :=
  let s := { s with st := .CONNECTING, sockSubscribed := true, sockOpen := true }
  if s.initialised then (s, [.opened, .result "init True"])
  else ({ s with pendingInits := s.pendingInits ++ [s.now + initTimeout] }, [.opened])

/-- `AirTouch5.shutdown()` -/
def doShutdown (s : State) : State × List Out :=
  let (s, _) := hbFeed s (.stop s.now)
  let (s, _) := hbFeed s (.conn false s.now)      -- the stub's `close()` clears `is_connected`
  ({ s with st := .CLOSED, initialised := false, sockOpen := false, zobjs := [], aobjs := [], zones := [], acs := [] },
   [.hbStop, .closed, .result "shutdown OK"])

def doConn (s : State) (up : Bool) : State × List Out :=
  let (s, _) := hbFeed s (.conn up s.now)
  if s.sockSubscribed then
    let r := handleConnection s up
    (r.s, excOut r)
  else (s, [])

def doMsg (s : State) (toAddr : Nat) (m : Msg) : State × List Out :=
  if s.sockSubscribed then
    let r := handleMessage s toAddr m
    -- the heartbeat manager's own subscriber (registered while it runs) sees the message after the API
    let (s', hbo) := if isHeartbeatResponse m then hbFeed r.s (.resp r.s.now) else (r.s, [])
    (s', excOut r ++ hbo)
  else (s, [])

def subTarget (s : State) (t : Target) (f : List Sub → List Sub) : State × List Out :=
  match t with
  | .at => ({ s with subs := f s.subs }, [])
  | .ac id state =>
    match s.ac? id with
    | some (r, a) =>
      (s.setAc r (if state then { a with subsState := f a.subsState } else { a with subs := f a.subs }), [])
    | none => (s, [.result "KeyError"])
  | .zone id =>
    match s.zone? id with
    | some (r, z) => (s.setZone r { z with subs := f z.subs }, [])
    | none => (s, [.result "KeyError"])

/-- `adv`: timers in time order - the deadlines of waiting `init()` calls and the heartbeat manager's timers -/
def doAdv (s : State) (n : Nat) : State × List Out :=
  let target := s.now + n
  let due := s.pendingInits.filter (· ≤ target)
  let (s1, out1) := due.foldl (fun (acc : State × List Out) d =>
    let (s', o) := hbFeed acc.1 (.finish d)
    (s', acc.2 ++ o ++ [.result "init False"])) (s, [])
  let (s2, out2) := hbFeed s1 (.finish target)
  ({ s2 with now := target, pendingInits := s.pendingInits.filter (target < ·) }, out1 ++ out2)

def apiStep (s : State) : Op → State × List Out
  | .init => doInit s
  | .shutdown => doShutdown s
  | .conn up => doConn s up
  | .msg toAddr m => doMsg s toAddr m
  | .undecodable cls => (s, [.undecodable cls])
  | .callAt =>
    let r := sendMsg s .idempotent msgConsoleVersionRequest
    (r.s, callOut r)
  | .callAc id c =>
    match s.ac? id with
    | some (_, a) => let r := acCall s a c; (r.s, callOut r)
    | none => (s, [.result "KeyError"])
  | .callZone id c =>
    match s.zone? id with
    | some (_, z) => let r := zoneCall s z c; (r.s, callOut r)
    | none => (s, [.result "KeyError"])
  | .sub t sid _raises => subTarget s t (fun l => subAdd l sid)
  | .unsub t sid => subTarget s t (fun l => subDel l sid)
  | .adv n => doAdv s n
  | .view =>
    match viewAt s with
    | .ok v => (s, [.view v])
    | .error e => (s, [.result e])

def run (s : State) : List Op → State × List (List Out)
  | [] => (s, [])
  | o :: os =>
    let (s1, out) := apiStep s o
    let (s2, outs) := run s1 os
    (s2, out :: outs)

/-! ### rendering -/

/-- the canonical text of a sent message; an `int` set-point (a limit of the AC ability, whole degrees) prints as
    an integer -/
def sendText (m : Msg) (spInt : Bool) : String :=
  match spInt, m with
  | true, .controlStatus (.acCtrl ⟨[d]⟩) =>
    cObj "ControlStatusMessage" [("sub_message", cObj "AcControlMessage" [("ac_control", cList (fun (c : C022.AcControlData) =>
      cObj "AcControlData" [
        ("ac_number", cNat c.ac_number), ("power", c.power.name), ("mode", c.mode.name),
        ("fan_speed", c.fan_speed.name), ("set_point", cOpt (fun t => cInt (t / 10)) c.set_point)]) [d])])]
  | _, _ => canonMsg m

def Out.text (airtouchId : Bytes) : Out → String
  | .send p m spInt => "SEND " ++ p.name ++ " " ++ sendText m spInt
  | .notifyAt sid => "NOTIFY at " ++ cStr airtouchId ++ " " ++ sid
  | .notifyAc id state sid => "NOTIFY ac " ++ toString id ++ " " ++ (if state then "state:" else "general:") ++ sid
  | .notifyZone id sid => "NOTIFY zone " ++ toString id ++ " " ++ sid
  | .opened => "OPEN"
  | .closed => "CLOSE"
  | .reset => "RESET"
  | .hbStart => "HBSTART"
  | .hbStop => "HBSTOP"
  | .result t => "RESULT " ++ t
  | .view t => "VIEW " ++ t
  | .undecodable c => "UNDECODABLE " ++ c
  | .subscriberExc c => "SUBSCRIBER-EXC " ++ c

def apiStepText (s : State) (o : Op) : State × List String :=
  let (s', out) := apiStep s o
  (s', out.map (Out.text s.airtouchId))

end PyAirtouch.Model.Api5
