import PyAirtouch.Model.Bytes
/-!
# The `Codec` record of the dispatch table (split out of `Codecs.lean` so that the per-agent
`CodecsPart<N>.lean` files can build table entries without importing `Codecs.lean`, which imports them)
-/
namespace PyAirtouch.Model.Codecs
open PyAirtouch.Model

/-- header parameters: `[message_length]`, or `[non_repeat_length, repeat_length, repeat_count]`
    for the sub-messages of the AirTouch 5 control/status wrapper -/
abbrev HP := List Nat

structure Codec where
  dec : Bytes → HP → Except DecErr (String × Nat)
  reenc : Bytes → HP → Except DecErr (Except EncErr (String × Bytes))

/-- a codec whose decoder only looks at `header.message_length` -/
def mk {M} (decode : Bytes → Nat → Except DecErr (M × Bytes)) (canon : M → String)
    (size : M → Nat) (encode : M → Except EncErr Bytes) : Codec :=
  { dec := fun b hp => (decode b (hp.getD 0 0)).map (fun p => (canon p.1, p.2.length))
    reenc := fun b hp => (decode b (hp.getD 0 0)).map (fun p => (encode p.1).map (fun e => (toString (size p.1), e))) }

end PyAirtouch.Model.Codecs
