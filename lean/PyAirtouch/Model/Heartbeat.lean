import PyAirtouch.Gen.Policies
import PyAirtouch.Spec.Heartbeat
/-!
# Model of `pyairtouch/comms/heartbeat.py` (`HeartbeatManager`)

Two tasks and one `asyncio.Event`:
* the heartbeat loop: `gather(sleep(interval), send-if-connected)` for ever — `hl`;
* the timeout loop: inside `asyncio.timeout(timeout)` wait for the response event, re-arm the
  deadline to `now + timeout` and clear the event; on expiry reset the connection if it is up, then
  start over — `tl`.
`advance` embodies the only assumption about the runtime: a timer fires when it is due (time does
not pass a pending deadline, wake-up or a set event).
-/
namespace PyAirtouch.Model.Heartbeat
open PyAirtouch.Spec.Heartbeat

inductive TL | idle | waiting (deadline : Nat) | resetting
deriving DecidableEq, Repr

inductive HL | idle | sleeping (wake : Nat)
deriving DecidableEq, Repr

structure HB where
  now : Nat
  interval : Nat
  timeout : Nat
  flag : Bool
  tl : TL
  hl : HL
  connected : Bool
  lastArm : Nat            -- ghost: when the current deadline was armed
  resetAt : Nat            -- ghost: when the reset in progress began
  expiries : List Nat      -- ghost: every deadline that was ever armed, and every expiry instant
  trace : List HEv
deriving Repr

def HB.emit (h : HB) (e : HEv) : HB := { h with trace := h.trace ++ [e] }

def init (interval timeout : Nat) : HB :=
  { now := 0, interval := interval, timeout := timeout, flag := false, tl := .idle, hl := .idle,
    connected := false, lastArm := 0, resetAt := 0, expiries := [], trace := [] }

inductive Label
  | advance (t : Nat)
  | conn (up : Bool)
  | start | stop
  | response          -- a message accepted by `response_match` is delivered to the subscriber
  | tlWake            -- the timeout loop consumes the event: reschedule, clear
  | tlFire            -- the timeout expires
  | tlResetDone       -- `reset_connection()` returned
  | hlBeat            -- the heartbeat loop's sleep is over: next iteration
deriving DecidableEq, Repr

/-- (re-)entering `async with asyncio.timeout(timeout)`; an event that is already set is consumed at once -/
def enterTimeout (h : HB) : HB :=
  { h with tl := .waiting (h.now + h.timeout), flag := false, lastArm := h.now,
           expiries := h.expiries ++ [h.now + h.timeout] }

def step (h : HB) : Label → Option HB
  | .advance t =>
    let okTl := match h.tl with
      | .waiting d => decide (t ≤ d) && !h.flag
      | _ => true
    let okHl := match h.hl with
      | .sleeping u => decide (t ≤ u)
      | .idle => true
    if h.now ≤ t && okTl && okHl then some { h with now := t } else none
  | .conn up => some ({ h with connected := up }.emit (.conn up h.now))
  | .start =>
    match h.tl, h.hl with
    | .idle, .idle =>
      some ({ (enterTimeout h) with hl := .sleeping h.now }.emit (.start h.now))
    | _, _ => some h
  | .stop =>
    match h.tl, h.hl with
    | .idle, .idle => some h
    | _, _ => some ({ h with tl := .idle, hl := .idle }.emit (.stop h.now))
  | .response =>
    match h.tl with
    | .idle => none                    -- not subscribed
    | _ => some ({ h with flag := true }.emit (.resp h.now))
  | .tlWake =>
    match h.tl with
    | .waiting _ =>
      if h.flag then
        some { h with tl := .waiting (h.now + h.timeout), flag := false, lastArm := h.now
                      expiries := h.expiries ++ [h.now + h.timeout] }
      else none
    | _ => none
  | .tlFire =>
    match h.tl with
    | .waiting d =>
      if d ≤ h.now then
        let h := { h with expiries := h.expiries ++ [h.now] }
        if h.connected then some ({ h with tl := .resetting, resetAt := h.now }.emit (.reset h.now))
        else some (enterTimeout h)
      else none
    | _ => none
  | .tlResetDone =>
    match h.tl with
    | .resetting => some ((enterTimeout h).emit (.resetDone h.now))
    | _ => none
  | .hlBeat =>
    match h.hl with
    | .sleeping u =>
      if u ≤ h.now then
        let h' := if h.connected then h.emit (.beat h.now) else h
        some { h' with hl := .sleeping (h.now + h.interval) }
      else none
    | .idle => none

def run (h : HB) : List Label → Option HB
  | [] => some h
  | l :: ls => (step h l).bind (fun h' => run h' ls)

def Reachable (interval timeout : Nat) (h : HB) : Prop := ∃ ls, run (init interval timeout) ls = some h

/-! ### deterministic scheduler used by the correspondence check

External inputs arrive in time order; before each one every internal action that is due is
performed (earliest first; at equal times the timeout before the beat). -/

inductive HIn
  | conn (up : Bool) (t : Nat) | start (t : Nat) | stop (t : Nat) | resp (t : Nat)
  | resetDone (t : Nat) | finish (t : Nat)
deriving Repr

def HIn.time : HIn → Nat
  | .conn _ t | .start t | .stop t | .resp t | .resetDone t | .finish t => t

def apply! (h : HB) (l : Label) : HB := (step h l).getD h

/-- perform internal actions due strictly before (or, for `incl`, at) time `t` -/
def settle (rt : Nat) (fuel : Nat) (h : HB) (t : Nat) (incl : Bool) : HB :=
  match fuel with
  | 0 => h
  | fuel+1 =>
    let h := if h.flag then apply! h .tlWake else h
    let dueTl : Option Nat := match h.tl with | .waiting d => some d | .resetting => some (h.resetAt + rt) | .idle => none
    let fireOrDone (h : HB) : HB := match h.tl with | .resetting => apply! h .tlResetDone | _ => apply! h .tlFire
    let dueHl : Option Nat := match h.hl with | .sleeping u => some u | .idle => none
    let lim (d : Nat) : Bool := if incl then decide (d ≤ t) else decide (d < t)
    match dueTl, dueHl with
    | some d, some u =>
      if d ≤ u then
        if lim d then settle rt fuel (fireOrDone (apply! h (.advance d))) t incl else h
      else
        if lim u then settle rt fuel (apply! (apply! h (.advance u)) .hlBeat) t incl else h
    | some d, none => if lim d then settle rt fuel (fireOrDone (apply! h (.advance d))) t incl else h
    | none, some u => if lim u then settle rt fuel (apply! (apply! h (.advance u)) .hlBeat) t incl else h
    | none, none => h

def feed (rt : Nat) (h : HB) (i : HIn) : HB :=
  let h := settle rt 100000 h i.time false
  let h := apply! h (.advance i.time)
  match i with
  | .conn up _ => apply! h (.conn up)
  | .start _ => settle rt 8 (apply! h .start) i.time true      -- both tasks take their first step at once
  | .stop _ => apply! h .stop
  | .resp _ => apply! (apply! h .response) .tlWake
  | .resetDone _ => apply! h .tlResetDone
  | .finish _ => settle rt 100000 h i.time true

/-- `rt` = how long the environment's `reset_connection()` takes -/
def simulateFull (interval timeout rt : Nat) (ins : List HIn) : HB :=
  ins.foldl (feed rt) (init interval timeout)

def simulate (interval timeout rt : Nat) (ins : List HIn) : List HEv :=
  (simulateFull interval timeout rt ins).trace

end PyAirtouch.Model.Heartbeat
