import PyAirtouch.Model.Bytes
/-!
# Definitions shared by the timer message models of both generations

* `AcTimerState`, `AcTimerStatusData` and the two-byte timer-state field (`_TIMER_STATE_STRUCT = "!BB"`)
  are textually identical in `at4/comms/x37_ac_timer_status.py` and `at5/comms/xC033_ac_timer_status.py`
  (and re-used by `x36_ac_timer_ctrl.py` / `xC032_ac_timer_ctrl.py`).
* The quick-timer messages `at4/comms/x1FFF20_quick_timer.py` and `at5/comms/x1FFF49_quick_timer.py`
  are identical apart from the message id; each has its own (generated) `TimerType` enum, so the
  shared model is parameterised by the enum's operations (`QuickTimer.Ops`).

`datetime.timedelta` is modelled by its whole number of seconds (a `Nat`): decoding only ever produces
`timedelta(hours=h, minutes=m)` with `h, m < 256`.
-/
namespace PyAirtouch.Model.TimerCommon
open PyAirtouch.Model

/-! ### AC timer state (2 bytes) -/

structure AcTimerState where
  disabled : Bool
  hour : Nat
  minute : Nat
deriving DecidableEq, Repr

structure AcTimerStatusData where
  ac_number : Nat
  on_timer : AcTimerState
  off_timer : AcTimerState
deriving DecidableEq, Repr

/-- the two values packed by `_pack_timer_state` / `_encode_timer_state`:
    `b1 = bool_to_bit(disabled, 7) + (hour & 0x1F)`, `minute & 0x3F` -/
def encTimerState (t : AcTimerState) : Bytes :=
  [boolToBit t.disabled 7 + t.hour % 32, t.minute % 64]

/-- the `AcTimerState` built from the two unpacked bytes -/
def timerStateOf (b1 m : Nat) : AcTimerState :=
  { disabled := bitToBool b1 7, hour := b1 % 32, minute := m % 64 }

/-- `_TIMER_STATE_STRUCT.unpack_from(buffer)` on the given (already sliced / offset) buffer followed by
    the construction of the `AcTimerState`; `struct.error` when fewer than two bytes are available -/
def decTimerState (bs : Bytes) : Except DecErr AcTimerState :=
  match bs with
  | b1 :: m :: _ => .ok (timerStateOf b1 m)
  | _ => .error .structError

def canonState (t : AcTimerState) : String :=
  cObj "AcTimerState" [("disabled", cBool t.disabled), ("hour", cNat t.hour), ("minute", cNat t.minute)]

def canonData (d : AcTimerStatusData) : String :=
  cObj "AcTimerStatusData" [("ac_number", cNat d.ac_number), ("on_timer", canonState d.on_timer),
    ("off_timer", canonState d.off_timer)]

/-- hour in 5 bits, minute in 6 bits -/
def WFState (t : AcTimerState) : Prop := t.hour < 32 ∧ t.minute < 64

/-- run-time test of `WFState` -/
def wfStateBool (t : AcTimerState) : Bool := decide (t.hour < 32) && decide (t.minute < 64)

/-! ### Quick timer (AT4 0x1FFF20 / AT5 0x1FFF49) -/
namespace QuickTimer

/-- the operations of the module's `TimerType` enum -/
structure Ops (T : Type) where
  toNat : T → Nat
  ofNat? : Nat → Option T
  name : T → String

structure QuickTimerMessage (T : Type) where
  ac_number : Nat
  timer_type : T
  /-- `datetime.timedelta`, in seconds -/
  duration : Nat
deriving DecidableEq, Repr

/-- `_STRUCT.size` (`"!BBBB"`) -/
def structSize : Nat := 4

def size {T} (_ : QuickTimerMessage T) : Nat := structSize

/-- `_encode_duration`: `hours, seconds = divmod(total_seconds, 3600); hours %= 24; minutes = seconds // 60`
    then `int(..) & 0xFF` -/
def encodeDuration (d : Nat) : Nat × Nat := ((d / 3600 % 24) % 256, (d % 3600 / 60) % 256)

/-- the four packed values (when `struct.pack` accepts them) -/
def encodeBytes {T} (ops : Ops T) (m : QuickTimerMessage T) : Bytes :=
  [m.ac_number, ops.toNat m.timer_type % 256, (encodeDuration m.duration).1, (encodeDuration m.duration).2]

/-- `QuickTimerEncoder.encode`: `struct.pack("!BBBB", ac_number, ..)` raises `struct.error` when
    `ac_number` does not fit a byte (the other three values are masked with `& 0xFF`) -/
def encode {T} (ops : Ops T) (m : QuickTimerMessage T) : Except EncErr Bytes :=
  if m.ac_number < 256 then .ok (encodeBytes ops m) else .error .structError

/-- `QuickTimerDecoder.decode(buffer, header)`: the header is not consulted -/
def decode {T} (ops : Ops T) (buffer : Bytes) (_msgLen : Nat) : Except DecErr (QuickTimerMessage T × Bytes) :=
  match buffer with
  | ac :: ty :: h :: mi :: rest =>
    match ops.ofNat? ty with
    | some t => .ok ({ ac_number := ac, timer_type := t, duration := h * 3600 + mi * 60 }, rest)
    | none => .error .valueError
  | _ => .error .structError

def canon {T} (ops : Ops T) (m : QuickTimerMessage T) : String :=
  cObj "QuickTimerMessage" [("ac_number", cNat m.ac_number), ("timer_type", ops.name m.timer_type),
    ("duration", "d" ++ toString m.duration)]

/-- AC number fits a byte; the duration is a whole number of minutes below 24 hours (the encoder
    reduces hours modulo 24 and drops seconds) -/
def WF {T} (m : QuickTimerMessage T) : Prop :=
  m.ac_number < 256 ∧ m.duration % 60 = 0 ∧ m.duration < 86400

/-- run-time test of `WF` -/
def wfBool {T} (m : QuickTimerMessage T) : Bool :=
  decide (m.ac_number < 256) && decide (m.duration % 60 = 0) && decide (m.duration < 86400)

end QuickTimer

end PyAirtouch.Model.TimerCommon
