import PyAirtouch.Model.CodecBase
import PyAirtouch.Model.At4.FF10
import PyAirtouch.Model.At4.FF12
import PyAirtouch.Model.At4.FF30
import PyAirtouch.Model.At5.FF10
import PyAirtouch.Model.At5.FF13
import PyAirtouch.Model.At5.FF30
/-! Dispatch entries for the text-carrying extended messages (part 3). -/
namespace PyAirtouch.Model.CodecsPart3
open PyAirtouch.Model PyAirtouch.Model.Codecs

def table : List ((Nat × String) × Codec) := [
  ((4, "FF10"), mk At4.FF10.decode At4.FF10.canon At4.FF10.size At4.FF10.encodeE),
  ((4, "FF12"), mk At4.FF12.decode At4.FF12.canon At4.FF12.size At4.FF12.encodeE),
  ((4, "FF30"), mk At4.FF30.decode At4.FF30.canon At4.FF30.size At4.FF30.encodeE),
  ((5, "FF10"), mk At5.FF10.decode At5.FF10.canon At5.FF10.size At5.FF10.encodeE),
  ((5, "FF13"), mk At5.FF13.decode At5.FF13.canon At5.FF13.size At5.FF13.encodeE),
  ((5, "FF30"), mk At5.FF30.decode At5.FF30.canon At5.FF30.size At5.FF30.encodeE)
]

end PyAirtouch.Model.CodecsPart3
