import PyAirtouch.Util.Hex
import PyAirtouch.Model.At4.Registry
import PyAirtouch.Model.At5.Registry
/-!
# Driver commands over the whole-frame models (`parse`, `reframe`, `wfframe`)

`parse <gen> <hex stream>`   → outcome of `Frame.parseOne proto` on the byte stream:
                               `D <header>|<message>|<remaining byte count>`, `R <exception class>` / `R CRC`, `N`
`reframe <gen> <hex frame>`  → parse; when delivered with header `h` and message `m`: the bytes the model's
                               send path writes for `m` under a header with the same fields but the length
                               recomputed by `sizeMsg` (`send_with_header(header_from_size, m)`), or
                               `ENCERR:<exception class>`; `-` when nothing is delivered
`send <gen> <pid> <hex frame>` → parse; when delivered with message `m`: the bytes of `frameOf pid m` (the
                               whole `socket.send(m)` path with the header factory's counter at `pid`), or
                               `ENCERR:<exception class>`; `-` when nothing is delivered
`wfframe <gen> <hex frame>`  → `1` / `0`: `wfMsgBool` of the delivered message; `-` when nothing is delivered
-/
namespace PyAirtouch.Model.RegistryCmd
open PyAirtouch.Model PyAirtouch.Util

def outcomeText {H M : Type} (ch : H → String) (cm : M → String) : Frame.Outcome H M → String
  | .needMore => "N"
  | .reject none => "R CRC"
  | .reject (some e) => "R " ++ e.name
  | .deliver h m rest => "D " ++ ch h ++ "|" ++ cm m ++ "|" ++ toString rest.length

def encText : Except EncErr Bytes → String
  | .ok bs => toHex bs
  | .error e => "ENCERR:" ++ e.name

def parseCmd (g : Nat) (bs : Bytes) : String :=
  if g = 4 then outcomeText At4.Hdr.canon At4.Registry.canonMsg (Frame.parseOne At4.Registry.proto bs)
  else if g = 5 then outcomeText At5.Hdr.canon At5.Registry.canonMsg (Frame.parseOne At5.Registry.proto bs)
  else "bad-op"

def reframe4 (bs : Bytes) : String :=
  match Frame.parseOne At4.Registry.proto bs with
  | .deliver h m _ =>
    encText (do
      let n ← At4.Registry.sizeMsg m
      At4.Registry.writeFrame { h with message_length := n } m)
  | _ => "-"

def reframe5 (bs : Bytes) : String :=
  match Frame.parseOne At5.Registry.proto bs with
  | .deliver h m _ =>
    encText (do
      let n ← At5.Registry.sizeMsg m
      At5.Registry.writeFrame { h with message_length := n } m)
  | _ => "-"

def reframeCmd (g : Nat) (bs : Bytes) : String :=
  if g = 4 then reframe4 bs else if g = 5 then reframe5 bs else "bad-op"

def sendCmd (g pid : Nat) (bs : Bytes) : String :=
  if g = 4 then
    match Frame.parseOne At4.Registry.proto bs with
    | .deliver _ m _ => encText (At4.Registry.frameOf pid m)
    | _ => "-"
  else if g = 5 then
    match Frame.parseOne At5.Registry.proto bs with
    | .deliver _ m _ => encText (At5.Registry.frameOf pid m)
    | _ => "-"
  else "bad-op"

def wfframeCmd (g : Nat) (bs : Bytes) : String :=
  if g = 4 then
    match Frame.parseOne At4.Registry.proto bs with
    | .deliver _ m _ => if At4.Registry.wfMsgBool m then "1" else "0"
    | _ => "-"
  else if g = 5 then
    match Frame.parseOne At5.Registry.proto bs with
    | .deliver _ m _ => if At5.Registry.wfMsgBool m then "1" else "0"
    | _ => "-"
  else "bad-op"

end PyAirtouch.Model.RegistryCmd
