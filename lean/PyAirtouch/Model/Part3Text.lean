import PyAirtouch.Model.Bytes
/-!
# Text helpers shared by the text-carrying message models (part 3)

Python `str` values are represented by their UTF-8 bytes.  The version separators (`"|"`, `","`) are
ASCII, and an ASCII byte never occurs inside a multi-byte UTF-8 sequence, so `str.split(sep)` /
`sep.join(parts)` on the text are `splitOn` / `joinSep` on the bytes (confirmed by the differential).
-/
namespace PyAirtouch.Model

/-- `text.split(sep)` for a one-byte separator: `n` separators give `n + 1` parts; `"".split(sep) == [""]` -/
def splitOn (sep : Nat) : Bytes → List Bytes
  | [] => [[]]
  | b :: bs =>
    if b = sep then [] :: splitOn sep bs
    else match splitOn sep bs with
      | [] => [[b]]            -- unreachable: `splitOn` never returns `[]`
      | p :: ps => (b :: p) :: ps

/-- `sep.join(parts)` for a one-byte separator -/
def joinSep (sep : Nat) : List Bytes → Bytes
  | [] => []
  | [v] => v
  | v :: w :: ws => v ++ sep :: joinSep sep (w :: ws)

/-- keys of an association list representing a Python `dict` -/
def dictKeys {β} (d : List (Nat × β)) : List Nat := d.map (·.1)

/-- run-time test for "no duplicate keys" -/
def nodupBool : List Nat → Bool
  | [] => true
  | k :: ks => !ks.contains k && nodupBool ks

end PyAirtouch.Model
