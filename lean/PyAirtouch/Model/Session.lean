/-!
# Handshake handlers that are suspended across `shutdown()` and a later `init()`

`AirTouch4._message_received` / `AirTouch5._message_received` process the three status answers of the handshake
(AC status, AC timer status, group / zone status) by *awaiting* the application's subscribers before they move on
to the next handshake step.  While such a handler is suspended the application may call `shutdown()` and `init()`;
the handler is a task of its own (a child of `asyncio.as_completed`) and is not cancelled with the socket's read
loop.  When it wakes it has to find out whether it still belongs to the session it was started in.

* the code up to /repo 95fa6d2 compared only the state with the handshake step it started in (`guardOld`);
* /repo ced1c59 also compares a session counter that `shutdown()` increments (`guardNew`).

The model keeps exactly what that decision depends on: the handshake phase, the session counter, and the FIFO of
suspended handlers, each with the (phase, session) pair it captured when it started.

phases: 0 CLOSED, 1 CONNECTING, 2 INIT_VERSION, 3 INIT_(GROUP|ZONE)_NAMES, 4 INIT_AC_ABILITY, 5 INIT_AC_STATUS,
6 INIT_AC_TIMER_STATUS, 7 INIT_(GROUP|ZONE)_STATUS, 8 CONNECTED  (= `_AirTouchState.value - 1` in both generations).

ops (the correspondence harness `harness/sessharness.py` drives the real objects over a stub socket with the same ops):
* `init`      `init()` followed by the socket's connected notification: CONNECTING, then INIT_VERSION + 1 request
* `shutdown`  `shutdown()`: CLOSED, session + 1
* `frame i`   handshake answer i (0 version, 1 names, 2 ability, 3 AC status, 4 timer status, 5 group / zone status)
              arrives and is processed to the end (nobody holds its subscribers up)
* `hold i`    the same answer (i = 3, 4, 5) arrives while an application callback for it is slow: the handler is
              suspended after processing the status and before the step is moved on
* `release`   the oldest suspended handler's callback returns
-/
namespace PyAirtouch.Model.Session

structure Handler where
  step : Nat
  session : Nat
deriving DecidableEq, Repr

structure St where
  phase : Nat := 0
  session : Nat := 0
  held : List Handler := []
deriving DecidableEq, Repr

inductive Op
  | init
  | shutdown
  | frame (i : Nat)
  | hold (i : Nat)
  | release
deriving DecidableEq, Repr

/-- what an op makes visible: the phase afterwards, the number of handshake requests it sent, whether it started
    the heartbeat (= the object became initialised), whether a handler was left suspended -/
structure Out where
  phase : Nat
  sends : Nat := 0
  hbstart : Bool := false
  suspended : Bool := false
deriving DecidableEq, Repr

/-- moving on from handshake step `p` (2 ≤ p ≤ 7): the next step's request, or - after the last one - CONNECTED and
    the heartbeat -/
def advance (p : Nat) : Nat × Nat × Bool :=
  if p = 7 then (8, 0, true) else (p + 1, 1, false)

/-- /repo ced1c59: same session and still the step the handler started in -/
def guardNew (s : St) (h : Handler) : Bool := s.session == h.session && s.phase == h.step
/-- /repo up to 95fa6d2: still (or again) the step the handler started in -/
def guardOld (s : St) (h : Handler) : Bool := s.phase == h.step

def quiet (s : St) : St × Out := (s, { phase := s.phase })

def step (guard : St → Handler → Bool) (s : St) : Op → St × Out
  | .init => ({ s with phase := 2 }, { phase := 2, sends := 1 })
  | .shutdown => ({ s with phase := 0, session := s.session + 1 }, { phase := 0 })
  | .frame i =>
    if i < 6 ∧ s.phase = i + 2 then
      let a := advance s.phase
      ({ s with phase := a.1 }, { phase := a.1, sends := a.2.1, hbstart := a.2.2 })
    else quiet s
  | .hold i =>
    if 3 ≤ i ∧ i < 6 ∧ (s.phase = i + 2 ∨ s.phase = 8) then
      -- (in CONNECTED the frame is an ordinary status report: its handler is suspended too, and has nothing to move on)
      ({ s with held := s.held ++ [{ step := s.phase, session := s.session }] }, { phase := s.phase, suspended := true })
    else quiet s
  | .release =>
    match s.held with
    | [] => quiet s
    | h :: rest =>
      if h.step < 8 ∧ guard s h = true then
        let a := advance s.phase
        ({ s with phase := a.1, held := rest }, { phase := a.1, sends := a.2.1, hbstart := a.2.2 })
      else ({ s with held := rest }, { phase := s.phase })

def run (guard : St → Handler → Bool) : St → List Op → St × List Out
  | s, [] => (s, [])
  | s, op :: ops =>
    let r := step guard s op
    let rr := run guard r.1 ops
    (rr.1, r.2 :: rr.2)

/-- line protocol of the driver: `sess <new|old> <op> <op> ...` with ops `init`, `shutdown`, `f<i>`, `h<i>`, `r` -/
def parseOp (w : String) : Option Op :=
  match w with
  | "init" => some .init
  | "shutdown" => some .shutdown
  | "r" => some .release
  | "f0" => some (.frame 0) | "f1" => some (.frame 1) | "f2" => some (.frame 2)
  | "f3" => some (.frame 3) | "f4" => some (.frame 4) | "f5" => some (.frame 5)
  | "h3" => some (.hold 3) | "h4" => some (.hold 4) | "h5" => some (.hold 5)
  | _ => none

def Out.toText (o : Out) : String :=
  s!"{o.phase},{o.sends},{if o.hbstart then 1 else 0},{if o.suspended then 1 else 0}"

def answer (which : String) (ws : List String) : String :=
  match ws.mapM parseOp with
  | some ops =>
    let g := if which = "old" then guardOld else guardNew
    " ".intercalate ((run g {} ops).2.map Out.toText)
  | none => "bad-op"

end PyAirtouch.Model.Session
