import PyAirtouch.Util.Hex
import PyAirtouch.Model.Api5
/-!
# Driver commands `api-new 5` / `api <op line>` over the AirTouch 5 API model

`api <op line>` parses one line of the op language of `harness/apiharness.py`, runs `Api5.apiStep` on the
per-process state and answers the rendered outputs joined by ` ;; ` (`-` when there are none).

`msg <message id hex> <payload hex|-> [<to_address hex>]`: the payload is decoded with the registry model
(`At5.Registry.decodeMsg`) under the header the harness builds (`to_address` 0xB0 unless given - the optional third
word is an extension of the op language for the AirTouch 5 echo rule -, `from_address` 0x80 / 0x90 for 0x1F,
packet id 1, the message id, the payload length); a decoder error or left-over bytes give `Op.undecodable`.
-/
namespace PyAirtouch.Model.ApiCmd5
open PyAirtouch.Model PyAirtouch.Model.Api5 PyAirtouch.Util
open PyAirtouch.Gen

/-- `type(e).__name__` of the Python exception -/
def excName : DecErr → String
  | .decodeError => "DecodeError"
  | .structError => "error"
  | .valueError => "ValueError"
  | .unicodeError => "UnicodeDecodeError"
  | .indexError => "IndexError"
  | .keyError => "KeyError"
  | .other => "Exception"

def utf8 (s : String) : Bytes := s.toUTF8.toList.map (·.toNat)

/-- the identification the harness gives its AirTouch 5 object -/
def fresh : State := State.new (utf8 "at-id-1") (utf8 "serial-1") (utf8 "Home") (utf8 "console.local")

def byName {α} (all : List α) (name : α → String) (w : String) : Option α := all.find? (name · == w)

def digits? (cs : List Char) : Option Nat :=
  if cs.isEmpty then none else
  cs.foldl (fun acc c => acc.bind fun n => if '0' ≤ c ∧ c ≤ '9' then some (n * 10 + (c.toNat - '0'.toNat)) else none) (some 0)

/-- a decimal text with at most two decimals, as hundredths -/
def parseDecimal (w : String) : Option Int :=
  let cs := w.toList
  let (neg, body) := match cs with
    | '-' :: r => (true, r)
    | _ => (false, cs)
  let ip := body.takeWhile (· ≠ '.')
  let fp := (body.dropWhile (· ≠ '.')).drop 1
  let hasDot := body.contains '.'
  let v : Option Nat := do
    let i ← digits? ip
    if !hasDot then pure (i * 100)
    else match fp with
      | [a] => do let d ← digits? [a]; pure (i * 100 + d * 10)
      | [a, b] => do let d ← digits? [a, b]; pure (i * 100 + d)
      | _ => none
  v.map fun n => if neg then -(n : Int) else (n : Int)

def parseInt (w : String) : Option Int :=
  match w.toList with
  | '-' :: r => (digits? r).map fun n => -(n : Int)
  | cs => (digits? cs).map fun n => (n : Int)

def parseHexByte (w : String) : Option Nat :=
  match parseHex w with
  | some [n] => some n
  | _ => none

def parseTarget : List String → Option (Target × List String)
  | "at" :: rest => some (.at, rest)
  | "ac" :: id :: kind :: rest =>
    match id.toNat?, kind with
    | some i, "general" => some (.ac i false, rest)
    | some i, "state" => some (.ac i true, rest)
    | _, _ => none
  | "zone" :: id :: rest => id.toNat?.map fun i => (.zone i, rest)
  | _ => none

def parseAcCall : List String → Option AcCall
  | ["set_power", p] => (byName ApiEnums.AcPowerControl.all ApiEnums.AcPowerControl.name p).map .setPower
  | ["set_mode", m, po] => (byName ApiEnums.AcMode.all ApiEnums.AcMode.name m).map fun m => .setMode m (po == "1")
  | ["set_fan_speed", f] => (byName ApiEnums.AcFanSpeed.all ApiEnums.AcFanSpeed.name f).map .setFanSpeed
  | ["set_target_temperature", t] => (parseDecimal t).map .setTargetTemperature
  | ["set_quick_timer", tt, "time", h, m] => do
    let tt ← byName ApiEnums.AcTimerType.all ApiEnums.AcTimerType.name tt
    pure (.setQuickTimerTime tt (← h.toNat?) (← m.toNat?))
  | ["set_quick_timer", tt, "duration", secs] => do
    let tt ← byName ApiEnums.AcTimerType.all ApiEnums.AcTimerType.name tt
    pure (.setQuickTimerDuration tt (← secs.toNat?))
  | ["clear_quick_timer", tt] => (byName ApiEnums.AcTimerType.all ApiEnums.AcTimerType.name tt).map .clearQuickTimer
  | _ => none

def parseZoneCall : List String → Option ZoneCall
  | ["set_power", p] => (byName ApiEnums.ZonePowerState.all ApiEnums.ZonePowerState.name p).map .setPower
  | ["set_target_temperature", t] => (parseDecimal t).map .setTargetTemperature
  | ["set_damper_percentage", p] => (parseInt p).map .setDamperPercentage
  | _ => none

def parseMsg (mid : Nat) (payload : Bytes) (toAddr : Nat) : Op :=
  let h : At5.Registry.Hdr :=
    { to_address := toAddr, from_address := if mid ≠ 0x1F then 0x80 else 0x90, packet_id := 1,
      message_id := mid, message_length := payload.length }
  match At5.Registry.decodeMsg h payload with
  | .error e => .undecodable (excName e)
  | .ok (m, rest) => if rest ≠ [] then .undecodable "DecodeError" else .msg toAddr m

def parseOp : List String → Option Op
  | ["init"] => some .init
  | ["shutdown"] => some .shutdown
  | ["conn", b] => some (.conn (b == "1"))
  | ["msg", mid, pl] => do pure (parseMsg (← parseHexByte mid) (← parseHex pl) 0xB0)
  | ["msg", mid, pl, to] => do pure (parseMsg (← parseHexByte mid) (← parseHex pl) (← parseHexByte to))
  | ["call", "at", "check_for_updates"] => some .callAt
  | "call" :: "ac" :: id :: rest => do pure (.callAc (← id.toNat?) (← parseAcCall rest))
  | "call" :: "zone" :: id :: rest => do pure (.callZone (← id.toNat?) (← parseZoneCall rest))
  | "sub" :: rest =>
    match parseTarget rest with
    | some (t, [sid]) => some (.sub t sid false)
    | some (t, [sid, "raise"]) => some (.sub t sid true)
    | _ => none
  | "unsub" :: rest =>
    match parseTarget rest with
    | some (t, [sid]) => some (.unsub t sid)
    | some (t, [sid, "raise"]) => some (.unsub t sid)
    | _ => none
  | ["adv", n] => n.toNat?.map .adv
  | ["view"] => some .view
  | _ => none

def apiLine (s : State) (ws : List String) : State × String :=
  match parseOp ws with
  | none => (s, "bad-op")
  | some op =>
    let (s', out) := apiStepText s op
    (s', if out.isEmpty then "-" else " ;; ".intercalate out)

end PyAirtouch.Model.ApiCmd5
