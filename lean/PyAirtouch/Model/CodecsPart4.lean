import PyAirtouch.Model.CodecBase
import PyAirtouch.Model.At4.FF11
import PyAirtouch.Model.At5.FF11
/-! Dispatch entries for the AC Ability codecs (AirTouch 4 and AirTouch 5, extended message 0xFF11). -/
namespace PyAirtouch.Model.CodecsPart4
open PyAirtouch.Model PyAirtouch.Model.Codecs

def table : List ((Nat × String) × Codec) := [
  ((4, "FF11"), mk At4.FF11.decode At4.FF11.canon At4.FF11.size At4.FF11.encodeE),
  ((5, "FF11"), mk At5.FF11.decode At5.FF11.canon At5.FF11.size At5.FF11.encodeE)
]

end PyAirtouch.Model.CodecsPart4
