/-!
# Byte-level helpers shared by the codec models

`bytes` objects are `List Nat` (elements < 256 where it matters).  Python exceptions raised by
decoders are values of `DecErr`; decoders return `Except DecErr (message × remaining bytes)`.
-/
namespace PyAirtouch.Model

abbrev Bytes := List Nat

/-- exception classes a decoder (or the receive path) can raise -/
inductive DecErr
  | decodeError        -- pyairtouch.comms.DecodeError
  | structError        -- struct.error (buffer too short)
  | valueError         -- ValueError (e.g. enum constructor on an undefined value)
  | unicodeError       -- UnicodeDecodeError
  | indexError | keyError | other
deriving DecidableEq, Repr

def DecErr.name : DecErr → String
  | .decodeError => "DecodeError"
  | .structError => "struct.error"
  | .valueError => "ValueError"
  | .unicodeError => "UnicodeDecodeError"
  | .indexError => "IndexError"
  | .keyError => "KeyError"
  | .other => "Exception"

/-- exception classes an encoder can raise -/
inductive EncErr
  | structError | valueError | notImplemented | attributeError | keyError | other
deriving DecidableEq, Repr

def EncErr.name : EncErr → String
  | .structError => "struct.error"
  | .valueError => "ValueError"
  | .notImplemented => "NotImplementedError"
  | .attributeError => "AttributeError"
  | .keyError => "KeyError"
  | .other => "Exception"

def AllBytes (bs : Bytes) : Prop := ∀ b ∈ bs, b < 256

/-- `struct.unpack_from` needs `n` bytes: the first `n` and the rest, or `struct.error` -/
def takeExact (n : Nat) (bs : Bytes) : Except DecErr (Bytes × Bytes) :=
  if bs.length < n then .error .structError else .ok (bs.take n, bs.drop n)

/-- big-endian 16-bit field -/
def be16 (hi lo : Nat) : Nat := hi * 256 + lo

def be16Bytes (v : Nat) : Bytes := [v / 256 % 256, v % 256]

/-- little-endian 16-bit field -/
def le16Bytes (v : Nat) : Bytes := [v % 256, v / 256 % 256]

/-- `value.split(b"\0", 1)[0]` -/
def cStringPrefix (bs : Bytes) : Bytes := bs.takeWhile (· ≠ 0)

def toByteArray (bs : Bytes) : ByteArray := ⟨(bs.map (fun b => b.toUInt8)).toArray⟩

/-- `bytes.decode("utf-8")` succeeds (CPython strict decoding: no overlongs, no surrogates, ≤ U+10FFFF) -/
def utf8Valid (bs : Bytes) : Bool := (String.fromUTF8? (toByteArray bs)).isSome

/-- `encoding.decode_c_string`: the text is represented by its UTF-8 bytes -/
def decodeCString (bs : Bytes) : Except DecErr Bytes :=
  let p := cStringPrefix bs
  if utf8Valid p then .ok p else .error .unicodeError

/-- `encoding.encode_c_string(value, length)` for a text given by its UTF-8 bytes -/
def encodeCString (s : Bytes) (length : Nat) : Bytes :=
  (s ++ List.replicate (length - s.length) 0).take length

/-- `encoding.bool_to_bit` -/
def boolToBit (b : Bool) (offset : Nat) : Nat := if b then 2 ^ offset else 0

/-- `encoding.bit_to_bool` -/
def bitToBool (value offset : Nat) : Bool := (value / 2 ^ offset) % 2 = 1

/-! ### canonical text (must agree character for character with `harness/canon.py`) -/

def hexNib (n : Nat) : Char :=
  if n < 10 then Char.ofNat ('0'.toNat + n) else Char.ofNat ('a'.toNat + (n - 10))

def hexOf (bs : Bytes) : String :=
  String.ofList (bs.flatMap fun b => [hexNib ((b / 16) % 16), hexNib (b % 16)])

def cBool (b : Bool) : String := if b then "True" else "False"
def cNat (n : Nat) : String := toString n
def cInt (n : Int) : String := toString n
/-- a float known to be an exact number of tenths -/
def cTenths (t : Int) : String := "t" ++ toString t
def cStr (utf8 : Bytes) : String := "s" ++ hexOf utf8
def cBytes (bs : Bytes) : String := "b" ++ hexOf bs
def cOpt {α} (f : α → String) : Option α → String
  | none => "None"
  | some a => f a
def cList {α} (f : α → String) (xs : List α) : String := "[" ++ ",".intercalate (xs.map f) ++ "]"
def cDict {α β} (fk : α → String) (fv : β → String) (xs : List (α × β)) : String :=
  "{" ++ ",".intercalate (xs.map fun p => fk p.1 ++ ":" ++ fv p.2) ++ "}"
def cObj (name : String) (fields : List (String × String)) : String :=
  name ++ "(" ++ ",".intercalate (fields.map fun p => p.1 ++ "=" ++ p.2) ++ ")"

/-- Python dict built by successive assignment: a later duplicate key overwrites the value and keeps
    the first position -/
def dictInsert {β} (d : List (Nat × β)) (k : Nat) (v : β) : List (Nat × β) :=
  if d.any (·.1 = k) then d.map (fun p => if p.1 = k then (k, v) else p) else d ++ [(k, v)]

end PyAirtouch.Model
