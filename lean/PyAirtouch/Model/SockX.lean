import PyAirtouch.Model.Sock
/-!
# Extension layer of the socket model: the caller of an API coroutine is cancelled

`Model/Sock.lean` has no label for "the task that called `send()` / `reset_connection()` / `close()` is
cancelled while it is suspended inside the socket" (`asyncio.wait_for(ac.set_power(..), 2)` expiring, a
`TaskGroup` being torn down, ...).  This file adds that label *on top of* the base model, without touching
`Label` or `step`.

What the code does (`pyairtouch/comms/socket.py`): an API caller can be suspended inside the socket at three
places only,

* `await self._writer.drain()` in `_write` (called from `_drain_message_queue`)        — pc `.drainAwait w e r`,
* `await asyncio.shield(writer.wait_closed())` in `_disconnect`                        — pc `.discWait w r`,
* `await coro` inside `_notify_subscribers` (`_notify_connection_changed`)             — pc `.notifyWait r`.

A `CancelledError` raised at such an `await` is a `BaseException`: it passes the `except OSError` / `except Exception`
arms of `_drain_message_queue`, the `contextlib.suppress(OSError)` of `_disconnect` and the `except Exception` of
`_notify_subscribers`; none of `send`, `send_with_header`, `_drain_message_queue`, `_write`, `_disconnect`,
`reset_connection` has a `finally`.  So nothing more of that coroutine runs: the entry it had popped (and already handed
to the transport) is not put back, the rest of the drain loop is not run by this task, a `_disconnect` in progress is
not completed by this task, and no field of the socket is touched.  The shielded `wait_closed()` itself is not cancelled.

`cancel t` is therefore: task `t` exists, is an API caller (`bg = false`), is suspended at one of the three places,
and becomes `.finished`; `core` is unchanged.  (Background tasks are only ever cancelled by `close()`; that is
`cancelTask` in the base model.)
-/
namespace PyAirtouch.Model.Sock

inductive LabelX
  | base (l : Label)
  | cancel (t : Nat)
deriving DecidableEq, Repr

/-- the three suspension points of an API caller inside the socket -/
def cancellable : Pc → Bool
  | .drainAwait _ _ _ => true
  | .discWait _ _ => true
  | .notifyWait _ => true
  | _ => false

def stepX (s : Sys) : LabelX → Option Sys
  | .base l => step s l
  | .cancel t =>
    match s.tasks[t]? with
    | some k =>
      if !k.bg && cancellable k.pc then
        some { s with tasks := s.tasks.modify t (fun k => { k with pc := .finished }) }
      else none
    | none => none

/-- run a whole extended label sequence -/
def runX (s : Sys) : List LabelX → Option Sys
  | [] => some s
  | l :: ls => (stepX s l).bind (fun s' => runX s' ls)

/-- reachable states of the extended system: every history, every schedule, every environment behaviour, any number of
    cancellations of suspended API callers -/
def ReachableX (s : Sys) : Prop := ∃ ls, runX init ls = some s

def sendSidsX (ls : List LabelX) : List Nat :=
  ls.filterMap fun
    | .base (.apiSend sid _ _ _) => some sid
    | _ => none

/-- reachable by an extended label sequence whose sends carry pairwise distinct identities (the side condition of
    `ReachableWF`, see `Lemmas/SockBasic.lean`) -/
def ReachableWFX (s : Sys) : Prop := ∃ ls, (sendSidsX ls).Nodup ∧ runX init ls = some s

end PyAirtouch.Model.Sock
