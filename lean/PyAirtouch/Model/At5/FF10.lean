import PyAirtouch.Gen.At5
import PyAirtouch.Model.Bytes
/-!
# Model of `pyairtouch/at5/comms/x1FFF10_err_info.py` (AC Error Information message / request, id 0xFF10)

The error text (a Python `str`) is represented by its UTF-8 bytes.
-/
namespace PyAirtouch.Model.At5.FF10
open PyAirtouch.Model PyAirtouch.Gen.At5.X1FFF10ErrInfo

structure AcErrorInformationMessage where
  ac_number : Nat
  /-- `None`, or the UTF-8 bytes of the text -/
  error_info : Option Bytes
deriving DecidableEq, Repr

structure AcErrorInformationRequest where
  ac_number : Nat
deriving DecidableEq, Repr

inductive Msg
  | message (m : AcErrorInformationMessage)
  | request (r : AcErrorInformationRequest)
deriving DecidableEq, Repr

/-- the text that `if message.error_info:` lets through: `None` and `""` are both falsy -/
def errText (e : Option Bytes) : Bytes := e.getD []

def size : Msg → Nat
  | .request _ => 1
  | .message m => 2 + (errText m.error_info).length

/-- bytes produced when no `bytearray.append` range error occurs -/
def encode : Msg → Bytes
  | .request r => [r.ac_number % 256]
  | .message m => [m.ac_number % 256, (errText m.error_info).length] ++ errText m.error_info

/-- `AcErrorInformationEncoder.encode` including the `ValueError` of `buffer.append(len(error_string))`
    for a text longer than 255 bytes -/
def encodeE (m : Msg) : Except EncErr Bytes :=
  match m with
  | .request _ => .ok (encode m)
  | .message mm => if (errText mm.error_info).length < 256 then .ok (encode m) else .error .valueError

/-- `AcErrorInformationDecoder.decode(buffer, header)`; `msgLen` is `header.message_length` -/
def decode (buffer : Bytes) (msgLen : Nat) : Except DecErr (Msg × Bytes) :=
  match buffer with
  | [] => .error .indexError                                   -- `buffer[0]`
  | ac :: tl =>
    if msgLen = 1 then .ok (.request ⟨ac⟩, tl)
    else match tl with
      | [] => .error .indexError                               -- `buffer[1]`
      | n :: body =>
        if n > 0 then
          let e := body.take n                                 -- the slice may be short, even empty
          if utf8Valid e then .ok (.message ⟨ac, some e⟩, body.drop n) else .error .unicodeError
        else .ok (.message ⟨ac, none⟩, body)

def canon : Msg → String
  | .request r => cObj "AcErrorInformationRequest" [("ac_number", cNat r.ac_number)]
  | .message m => cObj "AcErrorInformationMessage"
      [("ac_number", cNat m.ac_number), ("error_info", cOpt cStr m.error_info)]

/-- field values in their protocol domains: one-byte AC number; the error text is `None` or a
    non-empty valid UTF-8 text of at most 255 bytes (`""` is sent like `None` and comes back as `None`) -/
def WF : Msg → Prop
  | .request r => r.ac_number < 256
  | .message m => m.ac_number < 256 ∧
      ∀ s, m.error_info = some s → s ≠ [] ∧ s.length ≤ 255 ∧ utf8Valid s = true

/-- run-time test of `WF` (see `wfBool_iff`) -/
def wfBool : Msg → Bool
  | .request r => decide (r.ac_number < 256)
  | .message m => decide (m.ac_number < 256) && match m.error_info with
    | none => true
    | some s => !s.isEmpty && decide (s.length ≤ 255) && utf8Valid s

/-- a well-formed message whose text contains 2-, 3- and 4-byte characters ("é€😀!") -/
example : WF (.message ⟨1, some [0xC3, 0xA9, 0xE2, 0x82, 0xAC, 0xF0, 0x9F, 0x98, 0x80, 0x21]⟩) := by
  refine ⟨by decide, ?_⟩
  intro s hs
  cases hs
  exact ⟨by decide, by decide, by decide⟩

end PyAirtouch.Model.At5.FF10
