import PyAirtouch.Gen.At5
import PyAirtouch.Model.Part3Text
/-!
# Model of `pyairtouch/at5/comms/x1FFF13_zone_names.py` (Zone Names message / request, id 0xFF13)

`zone_names : Mapping[int, str]` is an association list in insertion order with Python dict semantics
(`dictInsert`); names are represented by their UTF-8 bytes.  `zone_number : int | Literal["ALL"]` is
`Option Nat` with `none` for `"ALL"`.

`ZoneNamesEncoder.size` counts two bytes per zone (zone number and name length) plus the name bytes, as
`encode` writes them (the earlier one-byte-per-zone defect has been repaired in the source).
-/
namespace PyAirtouch.Model.At5.FF13
open PyAirtouch.Model PyAirtouch.Gen.At5.X1FFF13ZoneNames

structure ZoneNamesMessage where
  zone_names : List (Nat × Bytes)
deriving DecidableEq, Repr

structure ZoneNamesRequest where
  /-- `none` is the literal `"ALL"` -/
  zone_number : Option Nat
deriving DecidableEq, Repr

inductive Msg
  | message (m : ZoneNamesMessage)
  | request (r : ZoneNamesRequest)
deriving DecidableEq, Repr

/-- `reduce(lambda total, name: total + len(name.encode()), values, start)` -/
def sumNameLengths (start : Nat) (ns : List (Nat × Bytes)) : Nat :=
  ns.foldl (fun total p => total + p.2.length) start

/-- `ZoneNamesEncoder.size`: `2 * len(zone_names)` bytes of zone numbers and length fields plus the name bytes -/
def size : Msg → Nat
  | .request r => if r.zone_number.isNone then 0 else 1
  | .message m => sumNameLengths (2 * m.zone_names.length) m.zone_names

/-- one zone: number, name length, name bytes -/
def encEntry (p : Nat × Bytes) : Bytes := p.1 :: p.2.length :: p.2

/-- bytes produced when no `bytearray.append` / `bytes([...])` range error occurs -/
def encode : Msg → Bytes
  | .request r => match r.zone_number with
    | none => []
    | some n => [n]
  | .message m => m.zone_names.flatMap encEntry

/-- `ZoneNamesEncoder.encode` including the `ValueError` for a zone number or a name length above 255 -/
def encodeE (m : Msg) : Except EncErr Bytes :=
  match m with
  | .request r => match r.zone_number with
    | none => .ok []
    | some n => if n < 256 then .ok [n] else .error .valueError
  | .message mm =>
    if mm.zone_names.all (fun p => p.1 < 256 && p.2.length < 256) then .ok (encode m) else .error .valueError

/-- the `while offset < header.message_length` loop: `buf` is `buffer[offset:]`, `remaining` is
    `message_length - offset` (the loop keeps `offset ≤ message_length`), `acc` the dict built so far -/
def decNames (buf : Bytes) (remaining : Nat) (acc : List (Nat × Bytes)) :
    Except DecErr (List (Nat × Bytes) × Bytes) :=
  if remaining = 0 then .ok (acc, buf)       -- loop exit; `offset != message_length` cannot hold here
  else match buf with
    | [] => .error .indexError                                  -- `buffer[offset]`
    | [_] => .error .indexError                                 -- `buffer[offset + 1]`
    | zone :: n :: tl =>
      if 2 + n > remaining then .error .decodeError             -- "Zone name exceeds message length"
      else
        let name := tl.take n                                   -- the slice may be short
        if utf8Valid name then decNames (tl.drop n) (remaining - (2 + n)) (dictInsert acc zone name)
        else .error .unicodeError
termination_by remaining
decreasing_by omega

/-- `ZoneNamesDecoder.decode(buffer, header)`; `msgLen` is `header.message_length` -/
def decode (buffer : Bytes) (msgLen : Nat) : Except DecErr (Msg × Bytes) :=
  if msgLen = 0 then .ok (.request ⟨none⟩, buffer)
  else if msgLen = 1 then
    match buffer with
    | [] => .error .indexError
    | z :: tl => .ok (.request ⟨some z⟩, tl)
  else
    match decNames buffer msgLen [] with
    | .error e => .error e
    | .ok (d, rest) => .ok (.message ⟨d⟩, rest)

/-- `"ALL"` as a Python `str` -/
def allText : Bytes := [0x41, 0x4C, 0x4C]

def canon : Msg → String
  | .request r => cObj "ZoneNamesRequest" [("zone_number", match r.zone_number with
      | none => cStr allText
      | some n => cNat n)]
  | .message m => cObj "ZoneNamesMessage" [("zone_names", cDict cNat cStr m.zone_names)]

/-- requests: one-byte zone number; messages: at least one zone (an empty mapping is sent as the "ALL"
    request), distinct one-byte zone numbers, names of at most 255 bytes of valid UTF-8 -/
def WF : Msg → Prop
  | .request r => ∀ n, r.zone_number = some n → n < 256
  | .message m => m.zone_names ≠ [] ∧ (dictKeys m.zone_names).Nodup ∧
      ∀ p ∈ m.zone_names, p.1 < 256 ∧ p.2.length ≤ 255 ∧ utf8Valid p.2 = true

/-- run-time test of `WF` (see `wfBool_iff`) -/
def wfBool : Msg → Bool
  | .request r => match r.zone_number with
    | none => true
    | some n => decide (n < 256)
  | .message m => !m.zone_names.isEmpty && nodupBool (dictKeys m.zone_names) &&
      m.zone_names.all (fun p => decide (p.1 < 256) && decide (p.2.length ≤ 255) && utf8Valid p.2)

/-- three zones: "Living", "Café" (2-byte é), "😀€" (4-byte and 3-byte characters), and an empty name -/
example : WF (.message ⟨[(0, [0x4C, 0x69, 0x76, 0x69, 0x6E, 0x67]), (1, [0x43, 0x61, 0x66, 0xC3, 0xA9]),
    (15, [0xF0, 0x9F, 0x98, 0x80, 0xE2, 0x82, 0xAC]), (2, [])]⟩) := by
  refine ⟨by decide, by decide, ?_⟩
  intro p hp
  simp only [List.mem_cons, List.not_mem_nil, or_false] at hp
  rcases hp with rfl | rfl | rfl | rfl <;> exact ⟨by decide, by decide, by decide⟩

end PyAirtouch.Model.At5.FF13
