import PyAirtouch.Gen.At5
import PyAirtouch.Model.Bytes
import PyAirtouch.Model.At5.Part5Utils
/-!
# Model of `pyairtouch/at5/comms/xC020_zone_ctrl.py` (Zone Control, sub-message 0x20 of 0xC0)

One 4-byte record (`!BBBx`) per zone.  The decoder ignores `non_repeat_length` and `repeat_length`
completely: it reads `repeat_count` records of 4 bytes from the start of the buffer.

The encoder can raise `struct.error` (`zone_number`, `open_percentage` or the encoded set-point outside
0..255; the set-point code `int(sp * 10 - 100)` is negative below 10.0 °C), hence `Except EncErr Bytes`.
-/
namespace PyAirtouch.Model.At5.C020
open PyAirtouch.Model PyAirtouch.Model.At5.Utils PyAirtouch.Gen.At5.XC020ZoneCtrl

/-- `ZoneIncreaseDecrease | ZoneDamperControl | ZoneSetPointControl` (the `None` case is `Option`) -/
inductive ZoneSetting
  | incDec (v : ZoneIncreaseDecrease)
  | damper (open_percentage : Nat)          -- `ZoneDamperControl`
  | setPoint (set_point : Int)              -- `ZoneSetPointControl`, tenths
deriving DecidableEq, Repr

structure ZoneControlData where
  zone_number : Nat
  zone_power : ZonePowerControl
  zone_setting : Option ZoneSetting
deriving DecidableEq, Repr

/-- `ZoneControlMessage` -/
structure Msg where
  zone_control : List ZoneControlData
deriving DecidableEq, Repr

def recSize : Nat := STRUCT_size

def nonRepeatSize (_ : Msg) : Nat := 0
def repeatSize (_ : Msg) : Nat := recSize
def repeatCount (m : Msg) : Nat := m.zone_control.length

/-- `_encode_zone_setting` before the shift: (setting code, setting value) -/
def encSetting : Option ZoneSetting → Nat × Int
  | none => (UNCHANGED, SETTING_VALUE_UNCHANGED)
  | some (.incDec v) => (v.toNat, SETTING_VALUE_UNCHANGED)
  | some (.damper p) => (SET_PERCENTAGE, p)
  | some (.setPoint sp) => (SET_SETPOINT, encodeSetPoint sp)

def encRec (z : ZoneControlData) : Except EncErr Bytes := do
  let s := encSetting z.zone_setting
  let b1 ← packB z.zone_number
  let b2 ← packB ((s.1 * 32 + z.zone_power.toNat : Nat) : Int)
  let b3 ← packB s.2
  pure [b1, b2, b3, 0]

def encRecs : List ZoneControlData → Except EncErr Bytes
  | [] => .ok []
  | z :: zs => do
    let b ← encRec z
    let bs ← encRecs zs
    pure (b ++ bs)

def encode (m : Msg) : Except EncErr Bytes := encRecs m.zone_control

/-- `_decode_zone_setting` -/
def decSetting (b2 settingRaw : Nat) : Option ZoneSetting :=
  let controlType := b2 / 32 % 8          -- `(byte2 & 0xE0) >> 5`
  match ZoneIncreaseDecrease.ofNat? controlType with
  | some v => some (.incDec v)
  | none =>
    if controlType = SET_SETPOINT then some (.setPoint (decodeSetPoint settingRaw))
    else if controlType = SET_PERCENTAGE then some (.damper settingRaw)
    else none

def decRec (bs : Bytes) : Except DecErr (ZoneControlData × Bytes) :=
  match bs with
  | b1 :: b2 :: b3 :: _ :: rest =>
    match ZonePowerControl.ofNat? (b2 % 8) with
    | some p => .ok ({ zone_number := b1, zone_power := p, zone_setting := decSetting b2 b3 }, rest)
    | none => .error .valueError
  | _ => .error .structError

def decRecs : Nat → Bytes → Except DecErr (List ZoneControlData × Bytes)
  | 0, bs => .ok ([], bs)
  | n+1, bs => do
    let (z, rest) ← decRec bs
    let (zs, rest') ← decRecs n rest
    pure (z :: zs, rest')

/-- `ZoneControlDecoder.decode(buffer, header)`; only `header.repeat_count` is looked at -/
def decode (buffer : Bytes) (_nonRepeat _repeatLen repeatCount : Nat) : Except DecErr (Msg × Bytes) := do
  let (zs, rest) ← decRecs repeatCount buffer
  pure ({ zone_control := zs }, rest)

/-! ### canonical text -/

def canonSetting : ZoneSetting → String
  | .incDec v => v.name
  | .damper p => cObj "ZoneDamperControl" [("open_percentage", cNat p)]
  | .setPoint sp => cObj "ZoneSetPointControl" [("set_point", cTenths sp)]

def canonRec (z : ZoneControlData) : String :=
  cObj "ZoneControlData" [
    ("zone_number", cNat z.zone_number), ("zone_power", z.zone_power.name),
    ("zone_setting", cOpt canonSetting z.zone_setting)]

def canon (m : Msg) : String :=
  cObj "ZoneControlMessage" [("zone_control", cList canonRec m.zone_control)]

/-! ### well-formedness: field values in their protocol domains -/

def WFSetting : Option ZoneSetting → Prop
  | some (.damper p) => p < 256
  | some (.setPoint sp) => 100 ≤ sp ∧ sp ≤ 355      -- 10.0 … 35.5 °C: the codes 0 … 255
  | _ => True

def WFRec (z : ZoneControlData) : Prop := z.zone_number < 256 ∧ WFSetting z.zone_setting

def WF (m : Msg) : Prop := ∀ z ∈ m.zone_control, WFRec z

/-- run-time test of `WFSetting` -/
def wfSettingBool : Option ZoneSetting → Bool
  | some (.damper p) => decide (p < 256)
  | some (.setPoint sp) => decide (100 ≤ sp) && decide (sp ≤ 355)
  | _ => true

/-- run-time test of `WFRec` -/
def wfRecBool (z : ZoneControlData) : Bool := decide (z.zone_number < 256) && wfSettingBool z.zone_setting

/-- run-time test of `WF` -/
def wfBool (m : Msg) : Bool := m.zone_control.all wfRecBool

end PyAirtouch.Model.At5.C020
