import PyAirtouch.Gen.At5
import PyAirtouch.Model.Bytes
/-! # Model of `pyairtouch/at5/comms/hdr.py` (20-byte double header, struct `!4s2xHH4sBBBBH`) -/
namespace PyAirtouch.Model.At5.Hdr
open PyAirtouch.Model PyAirtouch.Gen.At5.Hdr

structure At5Header where
  to_address : Nat
  from_address : Nat
  packet_id : Nat
  message_id : Nat
  message_length : Nat
deriving DecidableEq, Repr

def headerLength : Nat := STRUCT_size

/-- `_INTERNAL_HEADER_LENGTH + message_length + CRC_LENGTH` -/
def dataLength (msgLen : Nat) : Nat := INTERNAL_HEADER_LENGTH + msgLen + CRC_LENGTH

def WF (h : At5Header) : Prop :=
  h.to_address < 256 ∧ h.from_address < 256 ∧ h.packet_id < 256 ∧ h.message_id < 256 ∧
  h.message_length < 65536 ∧ dataLength h.message_length < 65536

instance (h : At5Header) : Decidable (WF h) := by unfold WF; infer_instance

def encode (h : At5Header) : Except EncErr (Bytes × Bytes) :=
  if WF h then
    let dl := dataLength h.message_length
    let body := [h.to_address, h.from_address, h.packet_id, h.message_id] ++ be16Bytes h.message_length
    .ok (OUTER_HEADER_PREFIX ++ [0, 0] ++ be16Bytes dl ++ be16Bytes dl ++ INNER_HEADER_PREFIX ++ body, body)
  else .error .structError

def decode (buffer : Bytes) : Except DecErr (At5Header × Bytes × Bytes) :=
  match buffer with
  | o1 :: o2 :: o3 :: o4 :: _ :: _ :: d1 :: d2 :: e1 :: e2 :: i1 :: i2 :: i3 :: i4 ::
      t :: f :: pid :: mid :: l1 :: l2 :: rest =>
    let dl1 := be16 d1 d2
    let dl2 := be16 e1 e2
    let len := be16 l1 l2
    if [o1, o2, o3, o4] ≠ OUTER_HEADER_PREFIX then .error .decodeError
    else if dl1 ≠ dl2 then .error .decodeError
    else if [i1, i2, i3, i4] ≠ INNER_HEADER_PREFIX then .error .decodeError
    else if dl1 ≠ dataLength len then .error .decodeError
    else .ok ({ to_address := t, from_address := f, packet_id := pid, message_id := mid, message_length := len },
              rest, [t, f, pid, mid, l1, l2])
  | _ => .error .structError

def canon (h : At5Header) : String :=
  cObj "At5Header" [("to_address", cNat h.to_address), ("from_address", cNat h.from_address),
    ("packet_id", cNat h.packet_id), ("message_id", cNat h.message_id), ("message_length", cNat h.message_length)]

end PyAirtouch.Model.At5.Hdr
