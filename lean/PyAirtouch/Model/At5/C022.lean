import PyAirtouch.Gen.At5
import PyAirtouch.Model.Bytes
import PyAirtouch.Model.At5.Part5Utils
/-!
# Model of `pyairtouch/at5/comms/xC022_ac_ctrl.py` (AC Control, sub-message 0x22 of 0xC0)

One 4-byte record (`!BBBB`) per AC.  The decoder ignores `non_repeat_length` and `repeat_length`:
it reads `repeat_count` records of 4 bytes from the start of the buffer.  The three control enums have
`_missing_` fall-backs (undefined codes decode as `UNCHANGED`), the set-point control byte must be
0x00 (no change) or 0x40 (set value), anything else is a `DecodeError`.

The encoder tests `if set_point:` (false for `None` and 0.0) and can raise `struct.error` for a
set-point outside 10.0 … 35.5 °C.
-/
namespace PyAirtouch.Model.At5.C022
open PyAirtouch.Model PyAirtouch.Model.At5.Utils PyAirtouch.Gen.At5.XC022AcCtrl

structure AcControlData where
  ac_number : Nat
  power : AcPowerControl
  mode : AcModeControl
  fan_speed : AcFanSpeedControl
  set_point : Option Int           -- tenths
deriving DecidableEq, Repr

/-- `AcControlMessage` -/
structure Msg where
  ac_control : List AcControlData
deriving DecidableEq, Repr

def recSize : Nat := STRUCT_size

def nonRepeatSize (_ : Msg) : Nat := 0
def repeatSize (_ : Msg) : Nat := recSize
def repeatCount (m : Msg) : Nat := m.ac_control.length

/-- `_encode_set_point`: (control byte, value); `if set_point:` is false for `None` and for 0.0 -/
def encSetPoint : Option Int → Nat × Int
  | none => (SET_POINT_UNCHANGED, 255)
  | some sp => if sp = 0 then (SET_POINT_UNCHANGED, 255) else (SET_POINT_CHANGE, encodeSetPoint sp)

def encRec (c : AcControlData) : Except EncErr Bytes := do
  let b1 := c.ac_number % 16 + c.power.toNat % 16 * 16      -- `(power.value << 4) & 0xF0`
  let b2 := c.mode.toNat % 16 * 16 + c.fan_speed.toNat % 16
  let s := encSetPoint c.set_point
  let b4 ← packB s.2
  pure [b1, b2, s.1, b4]

def encRecs : List AcControlData → Except EncErr Bytes
  | [] => .ok []
  | c :: cs => do
    let b ← encRec c
    let bs ← encRecs cs
    pure (b ++ bs)

def encode (m : Msg) : Except EncErr Bytes := encRecs m.ac_control

def decRec (bs : Bytes) : Except DecErr (AcControlData × Bytes) :=
  match bs with
  | b1 :: b2 :: b3 :: b4 :: rest =>
    match AcPowerControl.ofNat? (b1 / 16 % 16), AcModeControl.ofNat? (b2 / 16 % 16),
          AcFanSpeedControl.ofNat? (b2 % 16) with
    | some p, some m, some f =>
      if b3 = SET_POINT_UNCHANGED then
        .ok ({ ac_number := b1 % 16, power := p, mode := m, fan_speed := f, set_point := none }, rest)
      else if b3 = SET_POINT_CHANGE then
        .ok ({ ac_number := b1 % 16, power := p, mode := m, fan_speed := f,
               set_point := some (decodeSetPoint b4) }, rest)
      else .error .decodeError
    | _, _, _ => .error .valueError
  | _ => .error .structError

def decRecs : Nat → Bytes → Except DecErr (List AcControlData × Bytes)
  | 0, bs => .ok ([], bs)
  | n+1, bs => do
    let (c, rest) ← decRec bs
    let (cs, rest') ← decRecs n rest
    pure (c :: cs, rest')

/-- `AcControlDecoder.decode(buffer, header)`; only `header.repeat_count` is looked at -/
def decode (buffer : Bytes) (_nonRepeat _repeatLen repeatCount : Nat) : Except DecErr (Msg × Bytes) := do
  let (cs, rest) ← decRecs repeatCount buffer
  pure ({ ac_control := cs }, rest)

/-! ### canonical text -/

def canonRec (c : AcControlData) : String :=
  cObj "AcControlData" [
    ("ac_number", cNat c.ac_number), ("power", c.power.name), ("mode", c.mode.name),
    ("fan_speed", c.fan_speed.name), ("set_point", cOpt cTenths c.set_point)]

def canon (m : Msg) : String :=
  cObj "AcControlMessage" [("ac_control", cList canonRec m.ac_control)]

/-! ### well-formedness: field values in their protocol domains -/

def WFRec (c : AcControlData) : Prop :=
  c.ac_number < 16 ∧ (∀ sp, c.set_point = some sp → 100 ≤ sp ∧ sp ≤ 355)

def WF (m : Msg) : Prop := ∀ c ∈ m.ac_control, WFRec c

/-- run-time test of `WFRec` -/
def wfRecBool (c : AcControlData) : Bool :=
  decide (c.ac_number < 16) &&
  (match c.set_point with
   | none => true
   | some sp => decide (100 ≤ sp) && decide (sp ≤ 355))

/-- run-time test of `WF` -/
def wfBool (m : Msg) : Bool := m.ac_control.all wfRecBool

end PyAirtouch.Model.At5.C022
