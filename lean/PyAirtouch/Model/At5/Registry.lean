import PyAirtouch.Model.Frame
import PyAirtouch.Model.At5.Hdr
import PyAirtouch.Model.At5.C020
import PyAirtouch.Model.At5.C021
import PyAirtouch.Model.At5.C022
import PyAirtouch.Model.At5.C023
import PyAirtouch.Model.At5.C032
import PyAirtouch.Model.At5.C033
import PyAirtouch.Model.At5.FF10
import PyAirtouch.Model.At5.FF11
import PyAirtouch.Model.At5.FF13
import PyAirtouch.Model.At5.FF30
import PyAirtouch.Model.At5.FF49
/-!
# Model of the AirTouch 5 message registry and of the 0x1F / 0xC0 wrappers

Sources: `pyairtouch/comms/__init__.py` (`MessageRegistry`, `UnsupportedMessage`,
`UnsupportedMessageDecoder`), `pyairtouch/at5/comms/x1F_ext.py`, `pyairtouch/at5/comms/xC0_ctrl_status.py`
(wrappers), `pyairtouch/at5/comms/registry.py` (which ids are registered, `HeaderFactory`),
`pyairtouch/comms/socket.py` (`send`, `_write`; the receive path `_read_one_message` is
`Frame.parseOne proto`).

## Preconditions / modelling decisions

* `decodeMsg h buffer` models `registry.get_decoder(h.message_id).decode(buffer, h)` **as the socket calls
  it**: `buffer` is the result of `readexactly(h.message_length)`, i.e. `buffer.length = h.message_length`.
  The only place where this matters is the sub-header length of the 0x1F wrapper,
  `header.message_length - 2` on Python ints: `struct.unpack_from` raises `struct.error` first when fewer
  than 2 bytes are present, so under the precondition the subtraction is never negative and the truncated
  `Nat` subtraction used here is exact.  (Outside the precondition Python would hand a negative length to
  the sub-decoder; that case is not modelled.)  The 0xC0 wrapper never looks at `header.message_length`.
  The function is total all the same.
* `Msg.unsupported id raw` (likewise `ExtSub.unsupported`, `CsSub.unsupported`) stands for
  `comms.UnsupportedMessage(unsupported_id=id, raw_data=raw)` with an `id` that is **not** registered (what
  the decoders produce).  For such a message `get_encoder` / `_sub_message_encoder` raise
  `NotImplementedError`.  An `UnsupportedMessage` built by hand with a registered id would be handed to that
  id's encoder (duck typing: `AttributeError`); the model answers `.attributeError` there; `WFMsg`
  excludes every `UnsupportedMessage`.
-/
namespace PyAirtouch.Model.At5.Registry
open PyAirtouch.Model
open PyAirtouch.Gen.At5

abbrev Hdr := PyAirtouch.Model.At5.Hdr.At5Header

/-- the sub-message of an `ExtendedMessage` -/
inductive ExtSub
  | errInfo (m : FF10.Msg)
  | acAbility (m : FF11.Msg)
  | zoneNames (m : FF13.Msg)
  | consoleVer (m : FF30.Msg)
  | quickTimer (m : FF49.Msg)
  | unsupported (id : Nat) (raw : Bytes)
deriving DecidableEq, Repr

/-- the sub-message of a `ControlStatusMessage` -/
inductive CsSub
  | zoneCtrl (m : C020.Msg)
  | zoneStatus (m : C021.Msg)
  | acCtrl (m : C022.Msg)
  | acStatus (m : C023.Msg)
  | acTimerCtrl (m : C032.Msg)
  | acTimerStatus (m : C033.Msg)
  | unsupported (id : Nat) (raw : Bytes)
deriving DecidableEq, Repr

/-- every message object the AirTouch 5 registry can decode or is asked to encode -/
inductive Msg
  | extended (s : ExtSub)
  | controlStatus (s : CsSub)
  | unsupported (id : Nat) (raw : Bytes)
deriving DecidableEq, Repr

/-- `sub_message.message_id` -/
def ExtSub.messageId : ExtSub → Nat
  | .errInfo _ => X1FFF10ErrInfo.MESSAGE_ID
  | .acAbility _ => X1FFF11AcAbility.MESSAGE_ID
  | .zoneNames _ => X1FFF13ZoneNames.MESSAGE_ID
  | .consoleVer _ => X1FFF30ConsoleVer.MESSAGE_ID
  | .quickTimer _ => X1FFF49QuickTimer.MESSAGE_ID
  | .unsupported id _ => id

/-- `sub_message.message_id` -/
def CsSub.messageId : CsSub → Nat
  | .zoneCtrl _ => XC020ZoneCtrl.MESSAGE_ID
  | .zoneStatus _ => XC021ZoneStatus.MESSAGE_ID
  | .acCtrl _ => XC022AcCtrl.MESSAGE_ID
  | .acStatus _ => XC023AcStatus.MESSAGE_ID
  | .acTimerCtrl _ => XC032AcTimerCtrl.MESSAGE_ID
  | .acTimerStatus _ => XC033AcTimerStatus.MESSAGE_ID
  | .unsupported id _ => id

/-- `message.message_id` -/
def Msg.messageId : Msg → Nat
  | .extended _ => X1FExt.MESSAGE_ID
  | .controlStatus _ => XC0CtrlStatus.MESSAGE_ID
  | .unsupported id _ => id

def Msg.isExtended : Msg → Bool
  | .extended _ => true
  | _ => false

/-- width of the 0x1F sub-header (`_SUB_HEADER_STRUCT = "!H"`) -/
def subHeaderSize : Nat := X1FExt.SUB_HEADER_STRUCT_size
/-- width of the 0xC0 sub-header (`_SUB_HEADER_STRUCT = "!BxHHH"`) -/
def csHeaderSize : Nat := XC0CtrlStatus.SUB_HEADER_STRUCT_size

/-! ### encoders -/

/-- what `_sub_message_encoder` / `get_encoder` answers for an `UnsupportedMessage`: no entry in the
    map → `NotImplementedError` -/
def unsupportedEncErr (ids : List Nat) (id : Nat) : EncErr :=
  if id ∈ ids then .attributeError else .notImplemented

/-- `sub_message_encoder.size(sub_message)` behind `_sub_message_encoder` -/
def ExtSub.size : ExtSub → Except EncErr Nat
  | .errInfo m => .ok (FF10.size m)
  | .acAbility m => .ok (FF11.size m)
  | .zoneNames m => .ok (FF13.size m)
  | .consoleVer m => .ok (FF30.size m)
  | .quickTimer m => .ok (FF49.size m)
  | .unsupported id _ => .error (unsupportedEncErr Registry.extEncoderIds id)

/-- `sub_message_encoder.encode(sub_header, sub_message)` -/
def ExtSub.encode : ExtSub → Except EncErr Bytes
  | .errInfo m => FF10.encodeE m
  | .acAbility m => FF11.encodeE m
  | .zoneNames m => FF13.encodeE m
  | .consoleVer m => FF30.encodeE m
  | .quickTimer m => FF49.encode m
  | .unsupported id _ => .error (unsupportedEncErr Registry.extEncoderIds id)

/-- `(non_repeat_size, repeat_size, repeat_count)` of the sub-encoder behind `_sub_message_encoder` -/
def CsSub.dims : CsSub → Except EncErr (Nat × Nat × Nat)
  | .zoneCtrl m => .ok (C020.nonRepeatSize m, C020.repeatSize m, C020.repeatCount m)
  | .zoneStatus m => .ok (C021.nonRepeatSize m, C021.repeatSize m, C021.repeatCount m)
  | .acCtrl m => .ok (C022.nonRepeatSize m, C022.repeatSize m, C022.repeatCount m)
  | .acStatus m => .ok (C023.nonRepeatSize m, C023.repeatSize m, C023.repeatCount m)
  | .acTimerCtrl m => .ok (C032.nonRepeatSize m, C032.repeatSize m, C032.repeatCount m)
  | .acTimerStatus m => .ok (C033.nonRepeatSize m, C033.repeatSize m, C033.repeatCount m)
  | .unsupported id _ => .error (unsupportedEncErr Registry.csEncoderIds id)

/-- `sub_message_encoder.encode(sub_header, sub_message)` -/
def CsSub.encode : CsSub → Except EncErr Bytes
  | .zoneCtrl m => C020.encode m
  | .zoneStatus m => C021.encode m
  | .acCtrl m => C022.encode m
  | .acStatus m => C023.encode m
  | .acTimerCtrl m => C032.encode m
  | .acTimerStatus m => C033.encode m
  | .unsupported id _ => .error (unsupportedEncErr Registry.csEncoderIds id)

/-- `registry.get_encoder(message.message_id).size(message)` -/
def sizeMsg : Msg → Except EncErr Nat
  | .extended s => (ExtSub.size s).map (subHeaderSize + ·)       -- `_SUB_HEADER_STRUCT.size + sub.size`
  | .controlStatus s =>                                           -- `8 + non_repeat + count * repeat_size`
    (CsSub.dims s).map (fun d => csHeaderSize + d.1 + d.2.2 * d.2.1)
  | .unsupported id _ => .error (unsupportedEncErr Registry.encoderIds id)

/-- `ExtendedMessageEncoder.encode`: look the sub-encoder up, compute the sub-message size (for the
    sub-header object, which no sub-encoder reads), then `pack("!H", sub_id) + sub_encoder.encode(..)` -/
def encodeExt (s : ExtSub) : Except EncErr Bytes := do
  let _ ← ExtSub.size s
  let body ← ExtSub.encode s
  pure (be16Bytes s.messageId ++ body)

/-- the eight bytes of `_SUB_HEADER_STRUCT.pack(sub_id, non_repeat_length, repeat_length, repeat_count)` -/
def csSubHeaderBytes (subId nr rl rc : Nat) : Bytes :=
  [subId, 0] ++ be16Bytes nr ++ be16Bytes rl ++ be16Bytes rc

/-- `ControlStatusEncoder.encode`: look the sub-encoder up, ask it for the three lengths,
    `pack("!BxHHH", ..)` (`struct.error` when a value does not fit its field) `+ sub_encoder.encode(..)`;
    the left operand of `+` is evaluated first -/
def encodeCs (s : CsSub) : Except EncErr Bytes := do
  let (nr, rl, rc) ← CsSub.dims s
  if s.messageId < 256 ∧ nr < 65536 ∧ rl < 65536 ∧ rc < 65536 then
    let body ← CsSub.encode s
    pure (csSubHeaderBytes s.messageId nr rl rc ++ body)
  else .error .structError

/-- `registry.get_encoder(message.message_id).encode(header, message)` (no encoder reads the header) -/
def encodeMsg : Msg → Except EncErr Bytes
  | .extended s => encodeExt s
  | .controlStatus s => encodeCs s
  | .unsupported id _ => .error (unsupportedEncErr Registry.encoderIds id)

/-! ### decoders -/

/-- wrap the result of a leaf decoder -/
def mapMsg {M N : Type} (f : M → N) : Except DecErr (M × Bytes) → Except DecErr (N × Bytes)
  | .ok (m, r) => .ok (f m, r)
  | .error e => .error e

/-- `ExtendedMessageDecoder._sub_message_decoder(sub_id).decode(body, sub_header)` with
    `sub_header.message_length = subLen`; an id without entry goes to `UnsupportedExtendedDecoder` -/
def decodeSub (subId subLen : Nat) (body : Bytes) : Except DecErr (ExtSub × Bytes) :=
  if subId = X1FFF10ErrInfo.MESSAGE_ID then mapMsg .errInfo (FF10.decode body subLen)
  else if subId = X1FFF11AcAbility.MESSAGE_ID then mapMsg .acAbility (FF11.decode body subLen)
  else if subId = X1FFF13ZoneNames.MESSAGE_ID then mapMsg .zoneNames (FF13.decode body subLen)
  else if subId = X1FFF30ConsoleVer.MESSAGE_ID then mapMsg .consoleVer (FF30.decode body subLen)
  else if subId = X1FFF49QuickTimer.MESSAGE_ID then mapMsg .quickTimer (FF49.decode body subLen)
  else .ok (.unsupported subId (body.take subLen), body.drop subLen)

/-- `ExtendedMessageDecoder.decode(buffer, header)`: `unpack_from("!H")` (`struct.error` below two bytes),
    sub-header length `header.message_length - 2`, sub-decoder on `buffer[2:]` -/
def decodeExt (h : Hdr) (buffer : Bytes) : Except DecErr (Msg × Bytes) :=
  match buffer with
  | hi :: lo :: body => mapMsg .extended (decodeSub (be16 hi lo) (h.message_length - subHeaderSize) body)
  | _ => .error .structError

/-- `ControlStatusDecoder._sub_message_decoder(sub_id).decode(body, sub_header)`; an id without entry
    goes to `UnsupportedControlStatusDecoder` (`data_length = non_repeat + repeat_count * repeat_length`) -/
def decodeCsSub (subId nr rl rc : Nat) (body : Bytes) : Except DecErr (CsSub × Bytes) :=
  if subId = XC020ZoneCtrl.MESSAGE_ID then mapMsg .zoneCtrl (C020.decode body nr rl rc)
  else if subId = XC021ZoneStatus.MESSAGE_ID then mapMsg .zoneStatus (C021.decode body nr rl rc)
  else if subId = XC022AcCtrl.MESSAGE_ID then mapMsg .acCtrl (C022.decode body nr rl rc)
  else if subId = XC023AcStatus.MESSAGE_ID then mapMsg .acStatus (C023.decode body nr rl rc)
  else if subId = XC032AcTimerCtrl.MESSAGE_ID then mapMsg .acTimerCtrl (C032.decode body nr rl rc)
  else if subId = XC033AcTimerStatus.MESSAGE_ID then mapMsg .acTimerStatus (C033.decode body nr rl rc)
  else .ok (.unsupported subId (body.take (nr + rc * rl)), body.drop (nr + rc * rl))

/-- `ControlStatusDecoder.decode(buffer, header)`: `unpack_from("!BxHHH")` (`struct.error` below eight
    bytes), sub-decoder on `buffer[8:]`; `header.message_length` is not looked at -/
def decodeCs (buffer : Bytes) : Except DecErr (Msg × Bytes) :=
  match buffer with
  | sid :: _pad :: n1 :: n2 :: l1 :: l2 :: c1 :: c2 :: body =>
    mapMsg .controlStatus (decodeCsSub sid (be16 n1 n2) (be16 l1 l2) (be16 c1 c2) body)
  | _ => .error .structError

/-- `registry.get_decoder(header.message_id).decode(buffer, header)`; an id without entry goes to
    `UnsupportedMessageDecoder` -/
def decodeMsg (h : Hdr) (buffer : Bytes) : Except DecErr (Msg × Bytes) :=
  if h.message_id = X1FExt.MESSAGE_ID then decodeExt h buffer
  else if h.message_id = XC0CtrlStatus.MESSAGE_ID then decodeCs buffer
  else .ok (.unsupported h.message_id (buffer.take h.message_length), buffer.drop h.message_length)

/-! ### canonical text -/

def canonUnsupported (id : Nat) (raw : Bytes) : String :=
  cObj "UnsupportedMessage" [("unsupported_id", cNat id), ("raw_data", cBytes raw)]

def ExtSub.canon : ExtSub → String
  | .errInfo m => FF10.canon m
  | .acAbility m => FF11.canon m
  | .zoneNames m => FF13.canon m
  | .consoleVer m => FF30.canon m
  | .quickTimer m => FF49.canon m
  | .unsupported id raw => canonUnsupported id raw

def CsSub.canon : CsSub → String
  | .zoneCtrl m => C020.canon m
  | .zoneStatus m => C021.canon m
  | .acCtrl m => C022.canon m
  | .acStatus m => C023.canon m
  | .acTimerCtrl m => C032.canon m
  | .acTimerStatus m => C033.canon m
  | .unsupported id raw => canonUnsupported id raw

def canonMsg : Msg → String
  | .extended s => cObj "ExtendedMessage" [("sub_message", s.canon)]
  | .controlStatus s => cObj "ControlStatusMessage" [("sub_message", s.canon)]
  | .unsupported id raw => canonUnsupported id raw

/-! ### well-formedness

`WFMsg` is the domain of the whole-frame round trip: an `UnsupportedMessage` (which cannot be sent) is never
well formed; otherwise each leaf's `WF` ("field values in their protocol domains"), plus the representation invariant of texts:
a Python `str` is modelled by its UTF-8 bytes, so every element of a text field is a byte.  (The leaf
`WF`s of the text-carrying modules only say `utf8Valid`, which looks at the elements modulo 256; the
AC-ability `WF` already contains `AllBytes` of the name.)  For control/status sub-messages the record
count has to fit the 16-bit `repeat_count` field of the sub-header. -/

/-- the text fields (`str` values) of the text-carrying sub-messages, as UTF-8 byte strings -/
def ExtSub.texts : ExtSub → List Bytes
  | .errInfo (.message m) => m.error_info.toList
  | .zoneNames (.message m) => m.zone_names.map (·.2)
  | .consoleVer (.message m) => m.versions
  | _ => []

def ExtSub.WF : ExtSub → Prop
  | .errInfo m => FF10.WF m
  | .acAbility m => FF11.WF m
  | .zoneNames m => FF13.WF m
  | .consoleVer m => FF30.WF m
  | .quickTimer m => FF49.WF m
  | .unsupported _ _ => False

def WFSub (s : ExtSub) : Prop := s.WF ∧ ∀ t ∈ s.texts, AllBytes t

def CsSub.WF : CsSub → Prop
  | .zoneCtrl m => C020.WF m
  | .zoneStatus m => C021.WF m
  | .acCtrl m => C022.WF m
  | .acStatus m => C023.WF m
  | .acTimerCtrl m => C032.WF m
  | .acTimerStatus m => C033.WF m
  | .unsupported _ _ => False

/-- `repeat_count` of the sub-message (0 for an `UnsupportedMessage`) -/
def CsSub.count : CsSub → Nat
  | .zoneCtrl m => C020.repeatCount m
  | .zoneStatus m => C021.repeatCount m
  | .acCtrl m => C022.repeatCount m
  | .acStatus m => C023.repeatCount m
  | .acTimerCtrl m => C032.repeatCount m
  | .acTimerStatus m => C033.repeatCount m
  | .unsupported _ _ => 0

def WFCs (s : CsSub) : Prop := s.WF ∧ s.count < 65536

def WFMsg : Msg → Prop
  | .extended s => WFSub s
  | .controlStatus s => WFCs s
  | .unsupported _ _ => False

def allBytesBool (bs : Bytes) : Bool := bs.all (fun b => decide (b < 256))

/-- run-time test of `FF11.WFName` -/
def ff11NameBool (s : Bytes) : Bool :=
  decide (s.length ≤ FF11.nameLen) && s.all (fun b => decide (b ≠ 0)) && utf8Valid s && allBytesBool s

/-- run-time test of `FF11.WFRec` (the AC-ability leaf has no `wfBool` of its own) -/
def ff11RecBool (ac : FF11.AcAbility) : Bool :=
  decide (ac.ac_number < 256) && decide (ac.start_zone < 256) && decide (ac.zone_count < 256) &&
  decide (ac.min_cool_set_point < 256) && decide (ac.max_cool_set_point < 256) &&
  decide (ac.min_heat_set_point < 256) && decide (ac.max_heat_set_point < 256) &&
  ff11NameBool ac.ac_name &&
  (decide (ac.ac_mode_support.map (·.1) = FF11.modeKeys) &&
    decide (ac.ac_mode_support.lookup .UNCHANGED = some true)) &&
  (decide (ac.fan_speed_support.map (·.1) = FF11.fanKeys) &&
    decide (ac.fan_speed_support.lookup .UNCHANGED = some true))

/-- run-time test of `FF11.WF` -/
def ff11WfBool : FF11.Msg → Bool
  | .request none => true
  | .request (some n) => decide (n < 256)
  | .ability acs => !acs.isEmpty && acs.all ff11RecBool

def ExtSub.wfBool : ExtSub → Bool
  | .errInfo m => FF10.wfBool m
  | .acAbility m => ff11WfBool m
  | .zoneNames m => FF13.wfBool m
  | .consoleVer m => FF30.wfBool m
  | .quickTimer m => FF49.wfBool m
  | .unsupported _ _ => false

def wfSubBool (s : ExtSub) : Bool := s.wfBool && s.texts.all allBytesBool

def CsSub.wfBool : CsSub → Bool
  | .zoneCtrl m => C020.wfBool m
  | .zoneStatus m => C021.wfBool m
  | .acCtrl m => C022.wfBool m
  | .acStatus m => C023.wfBool m
  | .acTimerCtrl m => C032.wfBool m
  | .acTimerStatus m => C033.wfBool m
  | .unsupported _ _ => false

def wfCsBool (s : CsSub) : Bool := s.wfBool && decide (s.count < 65536)

/-- run-time test of `WFMsg` (see `Lemmas.Registry5.wfMsgBool_iff`) -/
def wfMsgBool : Msg → Bool
  | .extended s => wfSubBool s
  | .controlStatus s => wfCsBool s
  | .unsupported _ _ => false

/-! ### header factory, protocol bundle, send path -/

/-- `HeaderFactory.create_from_message(message, message_length)` with `_packet_id()` returning `pid` -/
def mkHeader (pid : Nat) (m : Msg) (len : Nat) : Hdr :=
  { to_address := if m.messageId = X1FExt.MESSAGE_ID then Gen.At5.Hdr.ADDRESS_AIRTOUCH_EXTENDED
                  else Gen.At5.Hdr.ADDRESS_AIRTOUCH,
    from_address := Gen.At5.Hdr.ADDRESS_CLIENT,
    packet_id := pid,
    message_id := m.messageId,
    message_length := len }

/-- `_packet_id`: the counter after handing out `pid` -/
def nextPacketId (pid : Nat) : Nat := (pid + 1) % 256

/-- the receive path of the AirTouch 5 socket: `Frame.parseOne proto` is `_read_one_message` -/
def proto : Frame.Proto Hdr Msg :=
  { headerLength := At5.Hdr.headerLength
    decodeHdr := At5.Hdr.decode
    msgLen := fun h => h.message_length
    decodeMsg := decodeMsg }

/-- `_write(header, message)`: header bytes, message bytes, CRC over checksum data + message bytes.
    (`int.to_bytes` overflow of the CRC is `OverflowError`, proved unreachable.) -/
def writeFrame (h : Hdr) (m : Msg) : Except EncErr Bytes := do
  let (hb, ck) ← At5.Hdr.encode h
  let payload ← encodeMsg m
  match Frame.frame hb ck payload with
  | some fr => pure fr
  | none => .error .other

/-- `send(message)` followed by `_write`: `get_encoder`, `size`, header factory (packet id `pid`), then
    the bytes `_write` hands to the stream writer -/
def frameOf (pid : Nat) (m : Msg) : Except EncErr Bytes := do
  let n ← sizeMsg m
  writeFrame (mkHeader pid m n) m

end PyAirtouch.Model.At5.Registry
