import PyAirtouch.Model.At5.C033
/-!
# Model of `pyairtouch/at5/comms/xC032_ac_timer_ctrl.py` (AC Timer Control message, sub-id 0x32)

`AcTimerControlMessage` extends `AcTimerStatusMessage`; the encoder *is* `AcTimerStatusEncoder`, the
decoder runs `AcTimerStatusDecoder` and rejects the (empty) request form with `DecodeError`.
-/
namespace PyAirtouch.Model.At5.C032
open PyAirtouch.Model PyAirtouch.Model.TimerCommon

export PyAirtouch.Model.TimerCommon (AcTimerState AcTimerStatusData)

/-- `AcTimerControlMessage` -/
structure Msg where
  ac_timer_status : List AcTimerStatusData
deriving DecidableEq, Repr

/-- the message seen as an `AcTimerStatusMessage` (its base class) -/
def Msg.toStatus (m : Msg) : C033.Msg := .status m.ac_timer_status

def nonRepeatSize (m : Msg) : Nat := C033.nonRepeatSize m.toStatus
def repeatSize (m : Msg) : Nat := C033.repeatSize m.toStatus
def repeatCount (m : Msg) : Nat := C033.repeatCount m.toStatus

def encode (m : Msg) : Except EncErr Bytes := C033.encode m.toStatus

def encodeBytes (m : Msg) : Bytes := C033.encodeBytes m.toStatus

/-- `AcTimerControlDecoder.decode(buffer, header)` -/
def decode (buffer : Bytes) (nonRepeat repeatLen repeatCount : Nat) : Except DecErr (Msg × Bytes) :=
  match C033.decode buffer nonRepeat repeatLen repeatCount with
  | .error e => .error e
  | .ok (.request, _) => .error .decodeError
  | .ok (.status l, rest) => .ok ({ ac_timer_status := l }, rest)

def canon (m : Msg) : String :=
  cObj "AcTimerControlMessage" [("ac_timer_status", cList canonData m.ac_timer_status)]

def WF (m : Msg) : Prop := C033.WF m.toStatus

/-- run-time test of `WF` -/
def wfBool (m : Msg) : Bool := C033.wfBool m.toStatus

end PyAirtouch.Model.At5.C032
