import PyAirtouch.Gen.At5
import PyAirtouch.Model.Bytes
import PyAirtouch.Model.At5.Part5Utils
/-!
# Model of `pyairtouch/at5/comms/xC021_zone_status.py` (Zone Status message / request, sub-message 0x21)

One 8-byte record (`!BBBBHBx`) per zone.  The decoder

* returns the request when `repeat_length = 0` and `repeat_count = 0` (nothing consumed),
* raises `DecodeError` when `repeat_length < 8` (also with `repeat_count = 0`),
* otherwise reads `repeat_count` records: each from the first 8 bytes of the buffer (`struct.error` when
  fewer are left), then advances by `repeat_length` (a slice: advancing past the end leaves `b""`),
* never looks at `non_repeat_length`: non-repeat bytes, if announced, are read as record data.

The encoder tests `if set_point:` - `None` **and 0.0** give the "invalid" set-point code 0xFF - and
`if temperature is not None:` (only `None` gives the "invalid" temperature code 0x07FF).  A set-point outside
10.0 … 35.5 °C makes `struct.pack` raise `struct.error`.
-/
namespace PyAirtouch.Model.At5.C021
open PyAirtouch.Model PyAirtouch.Model.At5.Utils PyAirtouch.Gen.At5.XC021ZoneStatus

structure ZoneStatusData where
  zone_number : Nat
  power_state : ZonePowerState
  spill_active : Bool
  control_method : ZoneControlMethod
  has_sensor : Bool
  battery_status : SensorBatteryStatus
  temperature : Option Int          -- tenths
  damper_percentage : Nat
  set_point : Option Int            -- tenths
deriving DecidableEq, Repr

inductive Msg
  | request                                   -- `ZoneStatusRequest`
  | status (zones : List ZoneStatusData)      -- `ZoneStatusMessage`
deriving DecidableEq, Repr

def recSize : Nat := STRUCT_size

def nonRepeatSize (_ : Msg) : Nat := 0

def repeatSize : Msg → Nat
  | .request => 0
  | .status _ => recSize

def repeatCount : Msg → Nat
  | .request => 0
  | .status zs => zs.length

/-- `_encode_set_point`: `if set_point:` is false for `None` and for 0.0 -/
def encSetPoint : Option Int → Int
  | none => INVALID_SET_POINT
  | some sp => if sp = 0 then INVALID_SET_POINT else encodeSetPoint sp

/-- `_encode_temperature`: `if temperature is not None:` - only `None` gives the "invalid" code
    (0.0 °C is an ordinary temperature, code 0x01F4) -/
def encTemp : Option Int → Nat
  | none => INVALID_TEMPERATURE
  | some t => mask11 (encodeTemperature t)

def encRec (z : ZoneStatusData) : Except EncErr Bytes := do
  let b1 := z.zone_number % 64 + z.power_state.toNat * 64
  let b2 := z.control_method.toNat * 128 + z.damper_percentage % 128
  let b3 ← packB (encSetPoint z.set_point)
  let b4 := boolToBit z.has_sensor 7
  let b7 := boolToBit z.spill_active 1 + z.battery_status.toNat
  pure ([b1, b2, b3, b4] ++ be16Bytes (encTemp z.temperature) ++ [b7, 0])

def encRecs : List ZoneStatusData → Except EncErr Bytes
  | [] => .ok []
  | z :: zs => do
    let b ← encRec z
    let bs ← encRecs zs
    pure (b ++ bs)

def encode : Msg → Except EncErr Bytes
  | .request => .ok []
  | .status zs => encRecs zs

/-- `_decode_temperature` -/
def decTemp (hasSensor : Bool) (tempRaw : Nat) : Option Int :=
  let t := decodeTemperature (tempRaw % 2048)
  if !hasSensor || t > MAXIMUM_TEMPERATURE_tenths then none else some t

/-- `_decode_set_point` -/
def decSetPoint (raw : Nat) : Option Int :=
  if raw = INVALID_SET_POINT then none else some (decodeSetPoint raw)

/-- one record from the first 8 bytes of `bs` (the caller advances the buffer) -/
def decRec (bs : Bytes) : Except DecErr ZoneStatusData :=
  match bs with
  | b1 :: b2 :: b3 :: b4 :: b5 :: b6 :: b7 :: _ :: _ =>
    let hasSensor := bitToBool b4 7
    match ZonePowerState.ofNat? (b1 / 64 % 4), ZoneControlMethod.ofNat? (b2 / 128 % 2),
          SensorBatteryStatus.ofNat? (b7 % 2) with
    | some ps, some cm, some bat =>
      .ok { zone_number := b1 % 64, power_state := ps, spill_active := bitToBool b7 1,
            control_method := cm, has_sensor := hasSensor, battery_status := bat,
            temperature := decTemp hasSensor (be16 b5 b6), damper_percentage := b2 % 128,
            set_point := decSetPoint b3 }
    | _, _, _ => .error .valueError
  | _ => .error .structError

def decRecs (stride : Nat) : Nat → Bytes → Except DecErr (List ZoneStatusData × Bytes)
  | 0, bs => .ok ([], bs)
  | n+1, bs => do
    let z ← decRec bs
    let (zs, rest) ← decRecs stride n (bs.drop stride)
    pure (z :: zs, rest)

/-- `ZoneStatusDecoder.decode(buffer, header)` -/
def decode (buffer : Bytes) (nonRepeat repeatLen repeatCount : Nat) : Except DecErr (Msg × Bytes) :=
  if repeatLen = 0 ∧ repeatCount = 0 then .ok (.request, buffer)
  else if repeatLen < recSize then .error .decodeError
  else do
    -- `buffer = buffer[header.non_repeat_length:]`: the announced non-repeating data is skipped
    let (zs, rest) ← decRecs repeatLen repeatCount (buffer.drop nonRepeat)
    pure (.status zs, rest)

/-! ### canonical text -/

def canonRec (z : ZoneStatusData) : String :=
  cObj "ZoneStatusData" [
    ("zone_number", cNat z.zone_number), ("power_state", z.power_state.name),
    ("spill_active", cBool z.spill_active), ("control_method", z.control_method.name),
    ("has_sensor", cBool z.has_sensor), ("battery_status", z.battery_status.name),
    ("temperature", cOpt cTenths z.temperature), ("damper_percentage", cNat z.damper_percentage),
    ("set_point", cOpt cTenths z.set_point)]

def canon : Msg → String
  | .request => cObj "ZoneStatusRequest" []
  | .status zs => cObj "ZoneStatusMessage" [("zones", cList canonRec zs)]

/-! ### well-formedness: field values in their protocol domains

A temperature is only reported with a sensor and lies in -50.0 … 150.0 °C (codes 0 … 2000; larger codes decode
to `None`).  The set-point range is 10.0 … 35.4 °C (codes 0 … 254; 35.5 °C would be the code 0xFF that means
"no set-point"). -/

def WFRec (z : ZoneStatusData) : Prop :=
  z.zone_number < 64 ∧ z.damper_percentage < 128 ∧
  (∀ sp, z.set_point = some sp → 100 ≤ sp ∧ sp ≤ 354) ∧
  (∀ t, z.temperature = some t → z.has_sensor = true ∧ -500 ≤ t ∧ t ≤ 1500)

def WF : Msg → Prop
  | .request => True
  | .status zs => ∀ z ∈ zs, WFRec z

/-- run-time test of `WFRec` -/
def wfRecBool (z : ZoneStatusData) : Bool :=
  decide (z.zone_number < 64) && decide (z.damper_percentage < 128) &&
  (match z.set_point with
   | none => true
   | some sp => decide (100 ≤ sp) && decide (sp ≤ 354)) &&
  (match z.temperature with
   | none => true
   | some t => z.has_sensor && decide (-500 ≤ t) && decide (t ≤ 1500))

/-- run-time test of `WF` -/
def wfBool : Msg → Bool
  | .request => true
  | .status zs => zs.all wfRecBool

end PyAirtouch.Model.At5.C021
