import PyAirtouch.Gen.At5
import PyAirtouch.Model.TimerCommon
/-!
# Model of `pyairtouch/at5/comms/xC033_ac_timer_status.py` (AC Timer Status message / request, sub-id 0x33)

Sub-message of the control/status wrapper: the decoder sees `non_repeat_length` (ignored),
`repeat_length` (the stride between records, may exceed the 9 known bytes) and `repeat_count`.
-/
namespace PyAirtouch.Model.At5.C033
open PyAirtouch.Model PyAirtouch.Model.TimerCommon PyAirtouch.Gen.At5.XC033AcTimerStatus

export PyAirtouch.Model.TimerCommon (AcTimerState AcTimerStatusData)

inductive Msg
  | request
  | status (ac_timer_status : List AcTimerStatusData)
deriving DecidableEq, Repr

/-- `_TIMER_STATUS_REPEAT_SIZE` = AC number (1) + on timer (2) + off timer (2) + padding (4) -/
def recSize : Nat := TIMER_STATUS_REPEAT_SIZE

def nonRepeatSize (_ : Msg) : Nat := 0

def repeatCount : Msg → Nat
  | .request => 0
  | .status l => l.length

def repeatSize : Msg → Nat
  | .request => 0
  | .status _ => recSize

/-! ### encoder -/

/-- the nine bytes appended for one AC -/
def encRec (d : AcTimerStatusData) : Bytes :=
  d.ac_number :: (encTimerState d.on_timer ++ encTimerState d.off_timer ++ PADDING_BYTES)

/-- the encoder loop; `bytearray.append(ac_number)` raises `ValueError` outside `range(256)` -/
def encLoop : List AcTimerStatusData → Except EncErr Bytes
  | [] => .ok []
  | d :: ds =>
    if d.ac_number < 256 then (encLoop ds).map (encRec d ++ ·) else .error .valueError

/-- `AcTimerStatusEncoder.encode` -/
def encode : Msg → Except EncErr Bytes
  | .request => .ok []
  | .status l => encLoop l

/-- the bytes produced when every AC number fits a byte (total version of `encode`) -/
def encodeBytes : Msg → Bytes
  | .request => []
  | .status l => l.flatMap encRec

/-! ### decoder -/

/-- one loop iteration on the current buffer: `buffer[0]` (IndexError when empty), then
    `unpack_from(buffer[1:])`, then `unpack_from(buffer[3:])` (struct.error when short) -/
def decRec (bs : Bytes) : Except DecErr AcTimerStatusData :=
  match bs with
  | [] => .error .indexError
  | ac :: t => do
    let on ← decTimerState t
    let off ← decTimerState (t.drop TIMER_STATE_STRUCT_size)
    pure { ac_number := ac, on_timer := on, off_timer := off }

/-- `repeat_count` iterations, each followed by `buffer = buffer[repeat_length:]` -/
def decRecs : Nat → Nat → Bytes → Except DecErr (List AcTimerStatusData × Bytes)
  | 0, _, bs => .ok ([], bs)
  | n+1, repeatLen, bs => do
    let d ← decRec bs
    let (ds, rest) ← decRecs n repeatLen (bs.drop repeatLen)
    pure (d :: ds, rest)

/-- `AcTimerStatusDecoder.decode(buffer, header)` -/
def decode (buffer : Bytes) (_nonRepeat repeatLen repeatCount : Nat) : Except DecErr (Msg × Bytes) :=
  if repeatCount = 0 ∧ repeatLen = 0 then .ok (.request, buffer)
  else if repeatLen < recSize then .error .decodeError
  else do
    let (ds, rest) ← decRecs repeatCount repeatLen buffer
    pure (.status ds, rest)

/-! ### canonical text -/

def canon : Msg → String
  | .request => cObj "AcTimerStatusRequest" []
  | .status l => cObj "AcTimerStatusMessage" [("ac_timer_status", cList canonData l)]

/-! ### well-formedness -/

def WFRec (d : AcTimerStatusData) : Prop :=
  d.ac_number < 256 ∧ WFState d.on_timer ∧ WFState d.off_timer

def WF : Msg → Prop
  | .request => True
  | .status l => ∀ d ∈ l, WFRec d

/-- run-time test of `WFRec` -/
def wfRecBool (d : AcTimerStatusData) : Bool :=
  decide (d.ac_number < 256) && wfStateBool d.on_timer && wfStateBool d.off_timer

/-- run-time test of `WF` -/
def wfBool : Msg → Bool
  | .request => true
  | .status l => l.all wfRecBool

end PyAirtouch.Model.At5.C033
