import PyAirtouch.Gen.At5
import PyAirtouch.Model.Bytes
import PyAirtouch.Model.At5.Part5Utils
/-!
# Model of `pyairtouch/at5/comms/xC023_ac_status.py` (AC Status message / request, sub-message 0x23)

The known record is 8 bytes (`!BBBBHH`); the encoder appends 2 padding bytes and announces a stride
of 10.  The decoder

* returns the request when `repeat_count = 0` and `repeat_length = 0` (nothing consumed),
* raises `DecodeError` when `repeat_length < 8` (also with `repeat_count = 0`),
* otherwise reads `repeat_count` records: each from the first 8 bytes of the buffer (`struct.error` when
  fewer are left), then advances by `repeat_length` (a slice),
* never looks at `non_repeat_length`.

The encoder can raise `struct.error` (set-point outside 10.0 … 35.5 °C, `error_code` above 0xFFFF).
-/
namespace PyAirtouch.Model.At5.C023
open PyAirtouch.Model PyAirtouch.Model.At5.Utils PyAirtouch.Gen.At5.XC023AcStatus

structure AcStatusData where
  ac_number : Nat
  power_state : AcPowerState
  mode : AcMode
  fan_speed : AcFanSpeed
  turbo_active : Bool
  bypass_active : Bool
  spill_active : Bool
  timer_set : Bool
  set_point : Int                  -- tenths
  temperature : Int                -- tenths
  error_code : Nat
deriving DecidableEq, Repr

inductive Msg
  | request                                  -- `AcStatusRequest`
  | status (ac_status : List AcStatusData)   -- `AcStatusMessage`
deriving DecidableEq, Repr

/-- the part of a record the decoder knows -/
def recSize : Nat := STRUCT_size
/-- what the encoder writes per record -/
def encRecSize : Nat := STRUCT_size + PADDING_BYTES_SIZE

def nonRepeatSize (_ : Msg) : Nat := 0

def repeatSize : Msg → Nat
  | .request => 0
  | .status _ => encRecSize

def repeatCount : Msg → Nat
  | .request => 0
  | .status acs => acs.length

def encRec (a : AcStatusData) : Except EncErr Bytes := do
  let b1 := a.ac_number % 16 + a.power_state.toNat % 16 * 16
  let b2 := a.mode.toNat % 16 * 16 + a.fan_speed.toNat % 16
  let b3 ← packB (encodeSetPoint a.set_point)
  let b4 := BYTE4_UNUSED_BITS + boolToBit a.turbo_active 3 + boolToBit a.bypass_active 2
            + boolToBit a.spill_active 1 + boolToBit a.timer_set 0
  let err ← packH a.error_code
  pure ([b1, b2, b3, b4] ++ be16Bytes (mask11 (encodeTemperature a.temperature)) ++ err ++ PADDING_BYTES)

def encRecs : List AcStatusData → Except EncErr Bytes
  | [] => .ok []
  | a :: rs => do
    let b ← encRec a
    let bs ← encRecs rs
    pure (b ++ bs)

def encode : Msg → Except EncErr Bytes
  | .request => .ok []
  | .status acs => encRecs acs

/-- one record from the first 8 bytes of `bs` (the caller advances the buffer) -/
def decRec (bs : Bytes) : Except DecErr AcStatusData :=
  match bs with
  | b1 :: b2 :: b3 :: b4 :: b5 :: b6 :: b7 :: b8 :: _ =>
    match AcPowerState.ofNat? (b1 / 16 % 16), AcMode.ofNat? (b2 / 16 % 16), AcFanSpeed.ofNat? (b2 % 16) with
    | some ps, some m, some f =>
      .ok { ac_number := b1 % 16, power_state := ps, mode := m, fan_speed := f,
            turbo_active := bitToBool b4 3, bypass_active := bitToBool b4 2,
            spill_active := bitToBool b4 1, timer_set := bitToBool b4 0,
            set_point := decodeSetPoint b3,
            temperature := decodeTemperature (be16 b5 b6 % 2048),
            error_code := be16 b7 b8 }
    | _, _, _ => .error .valueError
  | _ => .error .structError

def decRecs (stride : Nat) : Nat → Bytes → Except DecErr (List AcStatusData × Bytes)
  | 0, bs => .ok ([], bs)
  | n+1, bs => do
    let a ← decRec bs
    let (rs, rest) ← decRecs stride n (bs.drop stride)
    pure (a :: rs, rest)

/-- `AcStatusDecoder.decode(buffer, header)` -/
def decode (buffer : Bytes) (nonRepeat repeatLen repeatCount : Nat) : Except DecErr (Msg × Bytes) :=
  if repeatCount = 0 ∧ repeatLen = 0 then .ok (.request, buffer)
  else if repeatLen < recSize then .error .decodeError
  else do
    -- `buffer = buffer[header.non_repeat_length:]`: the announced non-repeating data is skipped
    let (acs, rest) ← decRecs repeatLen repeatCount (buffer.drop nonRepeat)
    pure (.status acs, rest)

/-! ### canonical text -/

def canonRec (a : AcStatusData) : String :=
  cObj "AcStatusData" [
    ("ac_number", cNat a.ac_number), ("power_state", a.power_state.name), ("mode", a.mode.name),
    ("fan_speed", a.fan_speed.name), ("turbo_active", cBool a.turbo_active),
    ("bypass_active", cBool a.bypass_active), ("spill_active", cBool a.spill_active),
    ("timer_set", cBool a.timer_set), ("set_point", cTenths a.set_point),
    ("temperature", cTenths a.temperature), ("error_code", cNat a.error_code)]

def canon : Msg → String
  | .request => cObj "AcStatusRequest" []
  | .status acs => cObj "AcStatusMessage" [("ac_status", cList canonRec acs)]

/-! ### well-formedness: field values in their protocol domains -/

def WFRec (a : AcStatusData) : Prop :=
  a.ac_number < 16 ∧ 100 ≤ a.set_point ∧ a.set_point ≤ 355 ∧
  -500 ≤ a.temperature ∧ a.temperature ≤ 1547 ∧ a.error_code < 65536

def WF : Msg → Prop
  | .request => True
  | .status acs => ∀ a ∈ acs, WFRec a

/-- run-time test of `WFRec` -/
def wfRecBool (a : AcStatusData) : Bool :=
  decide (a.ac_number < 16) && decide (100 ≤ a.set_point) && decide (a.set_point ≤ 355) &&
  decide (-500 ≤ a.temperature) && decide (a.temperature ≤ 1547) && decide (a.error_code < 65536)

/-- run-time test of `WF` -/
def wfBool : Msg → Bool
  | .request => true
  | .status acs => acs.all wfRecBool

end PyAirtouch.Model.At5.C023
