import PyAirtouch.Gen.At5
import PyAirtouch.Model.Bytes
/-!
# Model of `pyairtouch/at5/comms/x1FFF11_ac_ability.py` (AC Ability message / request, id 0x1FFF11)

* `ac_name : str` is represented by its UTF-8 bytes.
* `Mapping[enum, bool]` fields are Python dicts: association lists in insertion order.
* The decoder is the `while remaining_length > 0:` loop of the source (`remaining_length` starts at
  `header.message_length`): each iteration unpacks the fixed struct (26 bytes) from the front of the
  buffer, rejects (`DecodeError`) a record whose length `2 + L` (`L` = the "following length" byte) is
  below 26 or above the remaining announced length, and slices `2 + L` bytes off the buffer (bytes of the
  record after the known ones are skipped).  Defined by well-founded recursion on the remaining length.
-/
namespace PyAirtouch.Model.At5.FF11
open PyAirtouch.Model PyAirtouch.Gen.At5.X1FFF11AcAbility
open PyAirtouch.Gen.At5.XC022AcCtrl (AcModeControl AcFanSpeedControl)

structure AcAbility where
  ac_number : Nat
  ac_name : Bytes
  start_zone : Nat
  zone_count : Nat
  ac_mode_support : List (AcModeControl × Bool)
  fan_speed_support : List (AcFanSpeedControl × Bool)
  min_cool_set_point : Nat
  max_cool_set_point : Nat
  min_heat_set_point : Nat
  max_heat_set_point : Nat
deriving DecidableEq, Repr

inductive Msg
  /-- `AcAbilityRequest(ac_number)`; `none` is the literal `"ALL"` -/
  | request (ac_number : Option Nat)
  /-- `AcAbilityMessage(ac_abilities)` -/
  | ability (ac_abilities : List AcAbility)
deriving DecidableEq, Repr

/-- width of the `16s` field of `_STRUCT` -/
def nameLen : Nat := 16
example : STRUCT_fields.getD 2 0 = nameLen := rfl
example : STRUCT_fields.sum = STRUCT_size := rfl

def recSize : Nat := STRUCT_size

/-- `following_length = 24  # As per communication protocol` -/
def followingLength : Nat := 24

def size : Msg → Nat
  | .request none => 0
  | .request (some _) => 1
  | .ability acs => recSize * acs.length

/-! ### encoder -/

/-- `mapping[key]` for a key that is present (the checked encoder `encodeE` reports `KeyError` otherwise) -/
def get {α} [BEq α] (d : List (α × Bool)) (k : α) : Bool := (d.lookup k).getD false

/-- `_encode_mode_support` -/
def encModeSupport (d : List (AcModeControl × Bool)) : Nat :=
  boolToBit (get d .AUTO) 0 + boolToBit (get d .HEAT) 1 + boolToBit (get d .DRY) 2 +
  boolToBit (get d .FAN) 3 + boolToBit (get d .COOL) 4

/-- `_encode_fan_speed_support` -/
def encFanSpeedSupport (d : List (AcFanSpeedControl × Bool)) : Nat :=
  boolToBit (get d .AUTO) 0 + boolToBit (get d .QUIET) 1 + boolToBit (get d .LOW) 2 +
  boolToBit (get d .MEDIUM) 3 + boolToBit (get d .HIGH) 4 + boolToBit (get d .POWERFUL) 5 +
  boolToBit (get d .TURBO) 6 + boolToBit (get d .INTELLIGENT_AUTO) 7

/-- one record; `struct.pack("16s", name)` truncates / NUL-pads like `encodeCString` -/
def encRec (ac : AcAbility) : Bytes :=
  [ac.ac_number, followingLength] ++ (encodeCString ac.ac_name nameLen ++
    [ac.start_zone, ac.zone_count, encModeSupport ac.ac_mode_support,
     encFanSpeedSupport ac.fan_speed_support, ac.min_cool_set_point, ac.max_cool_set_point,
     ac.min_heat_set_point, ac.max_heat_set_point])

/-- the bytes `AcAbilityEncoder.encode` produces when it does not raise -/
def encode : Msg → Bytes
  | .request none => []
  | .request (some n) => [n]
  | .ability acs => acs.flatMap encRec

/-- the first exception raised while encoding one record, in Python evaluation order: `KeyError`
    from the mapping look-ups (mode first, then fan speed), then `struct.error` from `_STRUCT.pack`
    (a `B` field outside 0..255) -/
def encRecErr (ac : AcAbility) : Option EncErr :=
  if ([AcModeControl.AUTO, .HEAT, .DRY, .FAN, .COOL].any fun k => (ac.ac_mode_support.lookup k).isNone) then
    some .keyError
  else if ([AcFanSpeedControl.AUTO, .QUIET, .LOW, .MEDIUM, .HIGH, .POWERFUL, .TURBO, .INTELLIGENT_AUTO].any
      fun k => (ac.fan_speed_support.lookup k).isNone) then
    some .keyError
  else if 256 ≤ ac.ac_number ∨ 256 ≤ ac.start_zone ∨ 256 ≤ ac.zone_count ∨
      256 ≤ ac.min_cool_set_point ∨ 256 ≤ ac.max_cool_set_point ∨
      256 ≤ ac.min_heat_set_point ∨ 256 ≤ ac.max_heat_set_point then
    some .structError
  else none

/-- `AcAbilityEncoder.encode` including the exceptions it can raise -/
def encodeE : Msg → Except EncErr Bytes
  | .request none => .ok []
  | .request (some n) => if 256 ≤ n then .error .valueError else .ok [n]   -- `bytes([n])`
  | .ability acs =>
    match acs.findSome? encRecErr with
    | some e => .error e
    | none => .ok (acs.flatMap encRec)

/-! ### decoder -/

/-- `_decode_ac_mode_support`: dict literal, in this insertion order -/
def decModeSupport (b : Nat) : List (AcModeControl × Bool) :=
  [(.AUTO, bitToBool b 0), (.HEAT, bitToBool b 1), (.DRY, bitToBool b 2), (.FAN, bitToBool b 3),
   (.COOL, bitToBool b 4), (.UNCHANGED, true)]

/-- `_decode_fan_speed_support` -/
def decFanSpeedSupport (b : Nat) : List (AcFanSpeedControl × Bool) :=
  [(.AUTO, bitToBool b 0), (.QUIET, bitToBool b 1), (.LOW, bitToBool b 2), (.MEDIUM, bitToBool b 3),
   (.HIGH, bitToBool b 4), (.POWERFUL, bitToBool b 5), (.TURBO, bitToBool b 6),
   (.INTELLIGENT_AUTO, bitToBool b 7), (.UNCHANGED, true)]

/-- one iteration of the loop on the current `buffer`, with `remaining = remaining_length`:
    `_STRUCT.unpack_from(buffer)`, the test of `record_length = 2 + following_length`, then (after the
    slice, which cannot raise) the `AcAbility(...)` constructor call (whose only argument that can raise is
    `decode_c_string`).  Returns the record and its following length; the caller slices `2 + following`. -/
def decRec (bs : Bytes) (remaining : Nat) : Except DecErr (AcAbility × Nat) :=
  match bs with
  | acNumber :: following :: r =>
    match r.drop nameLen with
    | startZone :: zoneCount :: b23 :: b24 :: minCool :: maxCool :: minHeat :: maxHeat :: _ =>
      if 2 + following < STRUCT_size ∨ remaining < 2 + following then .error .decodeError
      else
      match decodeCString (r.take nameLen) with
      | .error e => .error e
      | .ok name =>
        .ok ({ ac_number := acNumber, ac_name := name, start_zone := startZone, zone_count := zoneCount,
               ac_mode_support := decModeSupport b23, fan_speed_support := decFanSpeedSupport b24,
               min_cool_set_point := minCool, max_cool_set_point := maxCool,
               min_heat_set_point := minHeat, max_heat_set_point := maxHeat }, following)
    | _ => .error .structError
  | _ => .error .structError

/-- `while remaining_length > 0: ...`; returns the abilities and the final (sliced) buffer.
    Terminates because `remaining` decreases by `2 + following`. -/
def decLoop (bs : Bytes) (remaining : Nat) : Except DecErr (List AcAbility × Bytes) :=
  if _h : 0 < remaining then
    match decRec bs remaining with
    | .error e => .error e
    | .ok (ac, following) =>
      match decLoop (bs.drop (2 + following)) (remaining - (2 + following)) with
      | .error e => .error e
      | .ok (acs, rest) => .ok (ac :: acs, rest)
  else .ok ([], bs)
termination_by remaining
decreasing_by omega

/-- `AcAbilityDecoder.decode(buffer, header)`; `msgLen` is `header.message_length` -/
def decode (buffer : Bytes) (msgLen : Nat) : Except DecErr (Msg × Bytes) :=
  if msgLen = 0 then .ok (.request none, buffer)
  else if msgLen = 1 then
    match buffer with
    | [] => .error .indexError                     -- `buffer[0]`
    | b :: rest => .ok (.request (some b), rest)
  else
    match decLoop buffer msgLen with
    | .error e => .error e
    | .ok (acs, rest) => .ok (.ability acs, rest)

/-! ### canonical text -/

def canonRec (ac : AcAbility) : String :=
  cObj "AcAbility" [
    ("ac_number", cNat ac.ac_number), ("ac_name", cStr ac.ac_name),
    ("start_zone", cNat ac.start_zone), ("zone_count", cNat ac.zone_count),
    ("ac_mode_support", cDict AcModeControl.name cBool ac.ac_mode_support),
    ("fan_speed_support", cDict AcFanSpeedControl.name cBool ac.fan_speed_support),
    ("min_cool_set_point", cNat ac.min_cool_set_point), ("max_cool_set_point", cNat ac.max_cool_set_point),
    ("min_heat_set_point", cNat ac.min_heat_set_point), ("max_heat_set_point", cNat ac.max_heat_set_point)]

def canon : Msg → String
  | .request none => cObj "AcAbilityRequest" [("ac_number", cStr [65, 76, 76])]   -- the str "ALL"
  | .request (some n) => cObj "AcAbilityRequest" [("ac_number", cNat n)]
  | .ability acs => cObj "AcAbilityMessage" [("ac_abilities", cList canonRec acs)]

/-! ### well-formedness: what the round trip needs -/

/-- a name that survives `struct.pack("16s", name.encode())` / `decode_c_string`: fits the field, has
    no NUL character, is the UTF-8 encoding of a text -/
def WFName (s : Bytes) : Prop :=
  s.length ≤ nameLen ∧ (∀ b ∈ s, b ≠ 0) ∧ utf8Valid s = true ∧ AllBytes s

/-- key order of the dicts the decoder builds -/
def modeKeys : List AcModeControl := [.AUTO, .HEAT, .DRY, .FAN, .COOL, .UNCHANGED]
def fanKeys : List AcFanSpeedControl :=
  [.AUTO, .QUIET, .LOW, .MEDIUM, .HIGH, .POWERFUL, .TURBO, .INTELLIGENT_AUTO, .UNCHANGED]

def WFRec (ac : AcAbility) : Prop :=
  ac.ac_number < 256 ∧ ac.start_zone < 256 ∧ ac.zone_count < 256 ∧
  ac.min_cool_set_point < 256 ∧ ac.max_cool_set_point < 256 ∧
  ac.min_heat_set_point < 256 ∧ ac.max_heat_set_point < 256 ∧
  WFName ac.ac_name ∧
  (ac.ac_mode_support.map (·.1) = modeKeys ∧ ac.ac_mode_support.lookup .UNCHANGED = some true) ∧
  (ac.fan_speed_support.map (·.1) = fanKeys ∧ ac.fan_speed_support.lookup .UNCHANGED = some true)

def WF : Msg → Prop
  | .request none => True
  | .request (some n) => n < 256
  | .ability acs => acs ≠ [] ∧ ∀ ac ∈ acs, WFRec ac

end PyAirtouch.Model.At5.FF11
