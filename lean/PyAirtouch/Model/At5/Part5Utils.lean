import PyAirtouch.Model.Bytes
/-!
# Model of `pyairtouch/at5/comms/utils.py` and of `struct.pack` range checks
(shared by the models of the 0xC020 … 0xC023 control/status sub-messages)

Set-points and temperatures are Python floats with one decimal; here they are `Int` tenths of a degree.
The float steps (`(raw + 100) / 10.0`, `int(sp * 10.0 - 100)`, `(raw - 500) / 10.0`, `int(t * 10.0 + 500)`)
agree with the integer arithmetic below on every value a decoder can produce (raw 0..255 resp. 0..2047);
this is bridged by the exhaustive differential check over all raw values.
-/
namespace PyAirtouch.Model.At5.Utils
open PyAirtouch.Model

/-- `utils.decode_set_point(raw) = (raw + 100) / 10.0`, in tenths -/
def decodeSetPoint (raw : Nat) : Int := (raw : Int) + 100

/-- `utils.encode_set_point(sp) = int(sp * 10.0 - 100)`; NEGATIVE for set-points below 10.0 °C -/
def encodeSetPoint (sp : Int) : Int := sp - 100

/-- `utils.decode_temperature(raw) = (raw - 500) / 10.0`, in tenths -/
def decodeTemperature (raw : Nat) : Int := (raw : Int) - 500

/-- `utils.encode_temperature(t) = int(t * 10.0 + 500)` -/
def encodeTemperature (t : Int) : Int := t + 500

/-- `x & 0x07FF` on a Python int (two's complement for negative values) -/
def mask11 (x : Int) : Nat := (x % 2048).toNat

/-- a `B` field of `struct.pack`: `struct.error` unless `0 ≤ v ≤ 255` -/
def packB (v : Int) : Except EncErr Nat :=
  if 0 ≤ v ∧ v ≤ 255 then .ok v.toNat else .error .structError

/-- an `H` field of `struct.pack` (big endian): `struct.error` unless `0 ≤ v ≤ 65535` -/
def packH (v : Int) : Except EncErr Bytes :=
  if 0 ≤ v ∧ v ≤ 65535 then .ok (be16Bytes v.toNat) else .error .structError

theorem packB_ok {v : Int} (h0 : 0 ≤ v) (h1 : v ≤ 255) : packB v = .ok v.toNat := by
  simp [packB, h0, h1]

theorem packB_nat {n : Nat} (h : n < 256) : packB (n : Int) = .ok n := by
  have : (n : Int) ≤ 255 := by omega
  simp [packB, this]

theorem packH_nat {n : Nat} (h : n < 65536) : packH (n : Int) = .ok (be16Bytes n) := by
  have : (n : Int) ≤ 65535 := by omega
  simp [packH, this]

theorem packB_length {v : Int} {n : Nat} (h : packB v = .ok n) : n < 256 := by
  unfold packB at h
  split at h
  · cases h; omega
  · cases h

theorem packH_length {v : Int} {bs : Bytes} (h : packH v = .ok bs) : bs.length = 2 := by
  unfold packH at h
  split at h
  · cases h; simp [be16Bytes]
  · cases h

end PyAirtouch.Model.At5.Utils
