import PyAirtouch.Gen.At4
import PyAirtouch.Model.TimerCommon
/-!
# Model of `pyairtouch/at4/comms/x1FFF20_quick_timer.py` (Quick Timer, extended message 0xFF20)

Instance of the shared quick-timer model (`TimerCommon.QuickTimer`) for this module's `TimerType`.
-/
namespace PyAirtouch.Model.At4.FF20
open PyAirtouch.Model PyAirtouch.Model.TimerCommon PyAirtouch.Gen.At4.X1FFF20QuickTimer

def ops : QuickTimer.Ops TimerType :=
  { toNat := TimerType.toNat, ofNat? := TimerType.ofNat?, name := TimerType.name }

/-- `QuickTimerMessage` (`duration` in seconds) -/
abbrev Msg := QuickTimer.QuickTimerMessage TimerType

def size (m : Msg) : Nat := QuickTimer.size m
def encode (m : Msg) : Except EncErr Bytes := QuickTimer.encode ops m
def encodeBytes (m : Msg) : Bytes := QuickTimer.encodeBytes ops m
def decode (buffer : Bytes) (msgLen : Nat) : Except DecErr (Msg × Bytes) := QuickTimer.decode ops buffer msgLen
def canon (m : Msg) : String := QuickTimer.canon ops m
def WF (m : Msg) : Prop := QuickTimer.WF m
/-- run-time test of `WF` -/
def wfBool (m : Msg) : Bool := QuickTimer.wfBool m

end PyAirtouch.Model.At4.FF20
