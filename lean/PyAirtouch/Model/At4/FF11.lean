import PyAirtouch.Gen.At4
import PyAirtouch.Model.Bytes
/-!
# Model of `pyairtouch/at4/comms/x1FFF11_ac_ability.py` (AC Ability message / request, id 0x1FFF11)

* `ac_name : str` is represented by its UTF-8 bytes.
* `Mapping[enum, bool]` fields are Python dicts: association lists in insertion order.
* `groups : Optional[set[int]]` is represented by the strictly increasing list of its elements
  (Python set equality does not depend on order; the canonical text sorts the elements *as text*).
* The decoder is the `while offset < header.message_length:` loop of the source; it is defined by
  well-founded recursion on `msgLen - offset`: every iteration advances the offset by `2 + L`, where `L`
  is the record's "following length" byte (a record with `L < 22`, or one that does not lie completely
  inside `header.message_length`, is a `DecodeError`; the group bitmap is read iff `L ≥ 24`; bytes of the
  record after the known ones are skipped).
-/
namespace PyAirtouch.Model.At4.FF11
open PyAirtouch.Model PyAirtouch.Gen.At4.X1FFF11AcAbility
open PyAirtouch.Gen.At4.X2CAcCtrl (AcModeControl AcFanSpeedControl)

structure AcAbility where
  ac_number : Nat
  ac_name : Bytes
  ac_mode_support : List (AcModeControl × Bool)
  fan_speed_support : List (AcFanSpeedControl × Bool)
  min_set_point : Nat
  max_set_point : Nat
  groups : Option (List Nat)
  start_group : Nat
  group_count : Nat
deriving DecidableEq, Repr

inductive Msg
  /-- `AcAbilityRequest(ac_number)`; `none` is the literal `"ALL"` -/
  | request (ac_number : Option Nat)
  /-- `AcAbilityMessage(ac_abilities)` -/
  | ability (ac_abilities : List AcAbility)
deriving DecidableEq, Repr

/-- width of the `16s` field of `_STRUCT` -/
def nameLen : Nat := 16
example : STRUCT_fields.getD 2 0 = nameLen := rfl
example : STRUCT_fields.sum = STRUCT_size := rfl

/-- the following-length value that announces the group bitmap (24) -/
def followingWithGroups : Nat := FOLLOWING_LENGTH_BASE + GROUP_DISPLAY_STRUCT_size

/-- number of bytes of one record: `_STRUCT.size`, plus `_GROUP_DISPLAY_STRUCT.size` if `groups is not None` -/
def recSize (ac : AcAbility) : Nat :=
  STRUCT_size + (if ac.groups.isSome then GROUP_DISPLAY_STRUCT_size else 0)

def size : Msg → Nat
  | .request none => 0
  | .request (some _) => 1
  | .ability acs => (acs.map recSize).sum

/-! ### encoder -/

/-- `mapping[key]` for a key that is present (the checked encoder `encodeE` reports `KeyError` otherwise) -/
def get {α} [BEq α] (d : List (α × Bool)) (k : α) : Bool := (d.lookup k).getD false

/-- `_encode_mode_support` -/
def encModeSupport (d : List (AcModeControl × Bool)) : Nat :=
  boolToBit (get d .AUTO) 0 + boolToBit (get d .HEAT) 1 + boolToBit (get d .DRY) 2 +
  boolToBit (get d .FAN) 3 + boolToBit (get d .COOL) 4

/-- `_encode_fan_speed_support` -/
def encFanSpeedSupport (d : List (AcFanSpeedControl × Bool)) : Nat :=
  boolToBit (get d .AUTO) 0 + boolToBit (get d .QUIET) 1 + boolToBit (get d .LOW) 2 +
  boolToBit (get d .MEDIUM) 3 + boolToBit (get d .HIGH) 4 + boolToBit (get d .POWERFUL) 5 +
  boolToBit (get d .TURBO) 6

/-- `_encode_group_display`: `encoded_groups += bool_to_bit(True, group)` for every element -/
def encGroupDisplay (gs : List Nat) : Nat := (gs.map (fun g => boolToBit true g)).sum

def followingLength (ac : AcAbility) : Nat :=
  FOLLOWING_LENGTH_BASE + (if ac.groups.isSome then GROUP_DISPLAY_STRUCT_size else 0)

def encGroups : Option (List Nat) → Bytes
  | none => []
  | some gs => le16Bytes (encGroupDisplay gs)

/-- one record; `struct.pack("16s", name)` truncates / NUL-pads like `encodeCString` -/
def encRec (ac : AcAbility) : Bytes :=
  [ac.ac_number, followingLength ac] ++ (encodeCString ac.ac_name nameLen ++
    ([ac.start_group, ac.group_count, encModeSupport ac.ac_mode_support,
      encFanSpeedSupport ac.fan_speed_support, ac.min_set_point, ac.max_set_point] ++ encGroups ac.groups))

/-- the bytes `AcAbilityEncoder.encode` produces when it does not raise -/
def encode : Msg → Bytes
  | .request none => []
  | .request (some n) => [n]
  | .ability acs => acs.flatMap encRec

/-- the first exception raised while encoding one record, in Python evaluation order:
    `KeyError` from the mapping look-ups (mode first, then fan speed), `struct.error` from
    `_STRUCT.pack` (a `B` field outside 0..255), `struct.error` from `_GROUP_DISPLAY_STRUCT.pack`
    (bitmap outside 0..65535, i.e. a group number above 15) -/
def encRecErr (ac : AcAbility) : Option EncErr :=
  if ([AcModeControl.AUTO, .HEAT, .DRY, .FAN, .COOL].any fun k => (ac.ac_mode_support.lookup k).isNone) then
    some .keyError
  else if ([AcFanSpeedControl.AUTO, .QUIET, .LOW, .MEDIUM, .HIGH, .POWERFUL, .TURBO].any
      fun k => (ac.fan_speed_support.lookup k).isNone) then
    some .keyError
  else if 256 ≤ ac.ac_number ∨ 256 ≤ ac.start_group ∨ 256 ≤ ac.group_count ∨
      256 ≤ ac.min_set_point ∨ 256 ≤ ac.max_set_point then
    some .structError
  else
    match ac.groups with
    | some gs => if 65536 ≤ encGroupDisplay gs then some .structError else none
    | none => none

/-- `AcAbilityEncoder.encode` including the exceptions it can raise -/
def encodeE : Msg → Except EncErr Bytes
  | .request none => .ok []
  | .request (some n) => if 256 ≤ n then .error .valueError else .ok [n]   -- `bytes([n])`
  | .ability acs =>
    match acs.findSome? encRecErr with
    | some e => .error e
    | none => .ok (acs.flatMap encRec)

/-! ### decoder -/

/-- `_decode_ac_mode_support`: dict literal, in this insertion order -/
def decModeSupport (b : Nat) : List (AcModeControl × Bool) :=
  [(.AUTO, bitToBool b 0), (.HEAT, bitToBool b 1), (.DRY, bitToBool b 2), (.FAN, bitToBool b 3),
   (.COOL, bitToBool b 4), (.UNCHANGED, true)]

/-- `_decode_fan_speed_support` -/
def decFanSpeedSupport (b : Nat) : List (AcFanSpeedControl × Bool) :=
  [(.AUTO, bitToBool b 0), (.QUIET, bitToBool b 1), (.LOW, bitToBool b 2), (.MEDIUM, bitToBool b 3),
   (.HIGH, bitToBool b 4), (.POWERFUL, bitToBool b 5), (.TURBO, bitToBool b 6), (.UNCHANGED, true)]

/-- `_decode_group_display`: `{g for g in range(MAX_GROUP_NUMBER + 1) if bit g set}` -/
def decGroupDisplay (enc : Nat) : List Nat :=
  (List.range (MAX_GROUP_NUMBER + 1)).filter (fun g => bitToBool enc g)

/-- the optional little-endian group bitmap that follows the fixed part (bytes 25-26 of the record): read
    iff the following length is at least 24; `after = buffer[offset + _STRUCT.size:]` -/
def decGroups (following : Nat) (after : Bytes) : Except DecErr (Option (List Nat)) :=
  if followingWithGroups ≤ following then
    match after with
    | lo :: hi :: _ => .ok (some (decGroupDisplay (lo + 256 * hi)))
    | _ => .error .structError          -- `_GROUP_DISPLAY_STRUCT.unpack_from(buffer, offset + _STRUCT.size)`
  else .ok none

/-- one loop iteration on `bs = buffer[offset:]`, with `avail = header.message_length - offset`:
    `_STRUCT.unpack_from`, the test of the following length (`record_end > header.message_length` is
    `avail < 2 + following`), the optional bitmap, then the `AcAbility(...)` constructor call (whose first
    argument that can raise is `decode_c_string`).  Returns the record and its following length; the
    offset advances by `2 + following`. -/
def decRec (bs : Bytes) (avail : Nat) : Except DecErr (AcAbility × Nat) :=
  match bs with
  | acNumber :: following :: r =>
    match r.drop nameLen with
    | startGroup :: groupCount :: b23 :: b24 :: minSp :: maxSp :: after =>
      if following < FOLLOWING_LENGTH_BASE ∨ avail < 2 + following then .error .decodeError
      else
      match decGroups following after with
      | .error e => .error e
      | .ok groups =>
        match decodeCString (r.take nameLen) with
        | .error e => .error e
        | .ok name =>
          .ok ({ ac_number := acNumber, ac_name := name, ac_mode_support := decModeSupport b23,
                 fan_speed_support := decFanSpeedSupport b24, min_set_point := minSp,
                 max_set_point := maxSp, groups := groups, start_group := startGroup,
                 group_count := groupCount }, following)
    | _ => .error .structError
  | _ => .error .structError

theorem recSize_pos (ac : AcAbility) : STRUCT_size ≤ recSize ac := by
  simp only [recSize]; omega

/-- `while offset < header.message_length: ...`; returns the abilities and the final offset.
    Terminates because `msgLen - offset` decreases: the offset grows by `2 + following`. -/
def decLoop (buffer : Bytes) (msgLen offset : Nat) : Except DecErr (List AcAbility × Nat) :=
  if _h : offset < msgLen then
    match decRec (buffer.drop offset) (msgLen - offset) with
    | .error e => .error e
    | .ok (ac, following) =>
      match decLoop buffer msgLen (offset + (2 + following)) with
      | .error e => .error e
      | .ok (acs, off) => .ok (ac :: acs, off)
  else .ok ([], offset)
termination_by msgLen - offset
decreasing_by omega

/-- `AcAbilityDecoder.decode(buffer, header)`; `msgLen` is `header.message_length` -/
def decode (buffer : Bytes) (msgLen : Nat) : Except DecErr (Msg × Bytes) :=
  if msgLen = 0 then .ok (.request none, buffer)
  else if msgLen = 1 then
    match buffer with
    | [] => .error .indexError                     -- `buffer[0]`
    | b :: rest => .ok (.request (some b), rest)
  else
    match decLoop buffer msgLen 0 with
    | .error e => .error e
    | .ok (acs, offset) =>
      if offset ≠ msgLen then .error .decodeError
      else .ok (.ability acs, buffer.drop offset)

/-! ### canonical text -/

/-- a Python `set[int]`: elements sorted by their canonical *text* (so `{0,10,15,2}`) -/
def cSet (xs : List Nat) : String :=
  "{" ++ ",".intercalate ((xs.map cNat).mergeSort (fun a b => decide (a ≤ b))) ++ "}"

def canonRec (ac : AcAbility) : String :=
  cObj "AcAbility" [
    ("ac_number", cNat ac.ac_number), ("ac_name", cStr ac.ac_name),
    ("ac_mode_support", cDict AcModeControl.name cBool ac.ac_mode_support),
    ("fan_speed_support", cDict AcFanSpeedControl.name cBool ac.fan_speed_support),
    ("min_set_point", cNat ac.min_set_point), ("max_set_point", cNat ac.max_set_point),
    ("groups", cOpt cSet ac.groups), ("start_group", cNat ac.start_group),
    ("group_count", cNat ac.group_count)]

def canon : Msg → String
  | .request none => cObj "AcAbilityRequest" [("ac_number", cStr [65, 76, 76])]   -- the str "ALL"
  | .request (some n) => cObj "AcAbilityRequest" [("ac_number", cNat n)]
  | .ability acs => cObj "AcAbilityMessage" [("ac_abilities", cList canonRec acs)]

/-! ### well-formedness: what the round trip needs -/

/-- a name that survives `struct.pack("16s", name.encode())` / `decode_c_string`: fits the field, has
    no NUL character, is the UTF-8 encoding of a text -/
def WFName (s : Bytes) : Prop :=
  s.length ≤ nameLen ∧ (∀ b ∈ s, b ≠ 0) ∧ utf8Valid s = true ∧ AllBytes s

/-- key order of the dicts the decoder builds -/
def modeKeys : List AcModeControl := [.AUTO, .HEAT, .DRY, .FAN, .COOL, .UNCHANGED]
def fanKeys : List AcFanSpeedControl := [.AUTO, .QUIET, .LOW, .MEDIUM, .HIGH, .POWERFUL, .TURBO, .UNCHANGED]

def WFRec (ac : AcAbility) : Prop :=
  ac.ac_number < 256 ∧ ac.start_group < 256 ∧ ac.group_count < 256 ∧
  ac.min_set_point < 256 ∧ ac.max_set_point < 256 ∧
  WFName ac.ac_name ∧
  (ac.ac_mode_support.map (·.1) = modeKeys ∧ ac.ac_mode_support.lookup .UNCHANGED = some true) ∧
  (ac.fan_speed_support.map (·.1) = fanKeys ∧ ac.fan_speed_support.lookup .UNCHANGED = some true) ∧
  (∀ gs, ac.groups = some gs → gs.Pairwise (· < ·) ∧ ∀ g ∈ gs, g ≤ MAX_GROUP_NUMBER)

def WF : Msg → Prop
  | .request none => True
  | .request (some n) => n < 256
  | .ability acs => acs ≠ [] ∧ ∀ ac ∈ acs, WFRec ac

end PyAirtouch.Model.At4.FF11
