import PyAirtouch.Gen.At4
import PyAirtouch.Model.Bytes
/-!
# Model of `pyairtouch/at4/comms/x2A_group_ctrl.py` (Group Control message, id 0x2A)

One fixed record `!BBBx`: group number, a bit-field byte (setting type, control method, power) and the
setting value; the fourth byte is padding (written as 0, ignored by the decoder).  The decoder never
looks at `header.message_length`.

The encoder hands `group_number` and the setting value straight to `struct.pack("B")`, so values
above 255 raise `struct.error`: `encode` returns `Except EncErr Bytes`.
-/
namespace PyAirtouch.Model.At4.X2A
open PyAirtouch.Model PyAirtouch.Gen.At4.X2AGroupCtrl

/-- `GroupSetting = GroupIncreaseDecrease | GroupDamperControl | GroupSetPointControl | None` -/
inductive GroupSetting
  | incDec (v : GroupIncreaseDecrease)
  | damper (open_percentage : Nat)        -- `GroupDamperControl`
  | setPoint (set_point : Nat)            -- `GroupSetPointControl`
  | none
deriving DecidableEq, Repr

/-- `GroupControlMessage` -/
structure Msg where
  group_number : Nat
  power : GroupPowerControl
  control_method : GroupControlMethod
  setting : GroupSetting
deriving DecidableEq, Repr

def size (_ : Msg) : Nat := STRUCT_size

/-- `_encode_setting`: (`encoded_setting << 5`, `setting_value`) -/
def encSetting : GroupSetting → Nat × Nat
  | .incDec v => (v.toNat * 32, VALUE_INVALID)
  | .damper p => (SET_PERCENTAGE * 32, p)
  | .setPoint sp => (SET_SETPOINT * 32, sp)
  | .none => (KEEP_SETTING * 32, VALUE_INVALID)

/-- `_encode_control_method`: `(value << 3) & 0x18` -/
def encMethod (cm : GroupControlMethod) : Nat := cm.toNat * 8 % 32

/-- the bit-field byte `b2` -/
def encB2 (m : Msg) : Nat := (encSetting m.setting).1 + encMethod m.control_method + m.power.toNat

/-- what `_STRUCT.pack` writes when all three arguments fit a byte -/
def encodeBytes (m : Msg) : Bytes := [m.group_number, encB2 m, (encSetting m.setting).2, 0]

/-- `GroupControlEncoder.encode`: `struct.pack("!BBBx", ...)` raises `struct.error` when an argument is
    not in `0..255` -/
def encode (m : Msg) : Except EncErr Bytes :=
  if m.group_number < 256 ∧ encB2 m < 256 ∧ (encSetting m.setting).2 < 256 then .ok (encodeBytes m)
  else .error .structError

/-- `_decode_setting` -/
def decSetting (b2 settingValue : Nat) : GroupSetting :=
  let settingType := b2 / 32 % 8          -- `(byte2 & 0xE0) >> 5`
  match GroupIncreaseDecrease.ofNat? settingType with
  | some v => .incDec v
  | none =>
    if settingType = SET_SETPOINT then .setPoint settingValue
    else if settingType = SET_PERCENTAGE then .damper settingValue
    else .none

/-- `GroupControlDecoder.decode(buffer, header)`; `header.message_length` is not used -/
def decode (buffer : Bytes) (_msgLen : Nat) : Except DecErr (Msg × Bytes) :=
  match buffer with
  | gn :: b2 :: sv :: _pad :: rest =>
    -- constructor arguments are evaluated in order: power, control method, setting
    match GroupPowerControl.ofNat? (b2 % 8) with
    | none => .error .valueError
    | some pw =>
      match GroupControlMethod.ofNat? (b2 / 8 % 4) with
      | none => .error .valueError
      | some cm =>
        .ok ({ group_number := gn, power := pw, control_method := cm, setting := decSetting b2 sv }, rest)
  | _ => .error .structError

/-! ### canonical text -/

def canonSetting : GroupSetting → String
  | .incDec v => v.name
  | .damper p => cObj "GroupDamperControl" [("open_percentage", cNat p)]
  | .setPoint sp => cObj "GroupSetPointControl" [("set_point", cNat sp)]
  | .none => "None"

def canon (m : Msg) : String :=
  cObj "GroupControlMessage" [
    ("group_number", cNat m.group_number), ("power", m.power.name),
    ("control_method", m.control_method.name), ("setting", canonSetting m.setting)]

/-! ### well-formedness: exactly the messages the encoder accepts -/

def WFSetting : GroupSetting → Prop
  | .damper p => p < 256
  | .setPoint sp => sp < 256
  | _ => True

def WF (m : Msg) : Prop := m.group_number < 256 ∧ WFSetting m.setting

/-- run-time test of `WF` (see `Lemmas.At4X2A.wfBool_iff`) -/
def wfSettingBool : GroupSetting → Bool
  | .damper p => decide (p < 256)
  | .setPoint sp => decide (sp < 256)
  | _ => true

def wfBool (m : Msg) : Bool := decide (m.group_number < 256) && wfSettingBool m.setting

end PyAirtouch.Model.At4.X2A
