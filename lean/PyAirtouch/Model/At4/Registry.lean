import PyAirtouch.Model.Frame
import PyAirtouch.Model.At4.Hdr
import PyAirtouch.Model.At4.X2A
import PyAirtouch.Model.At4.X2B
import PyAirtouch.Model.At4.X2C
import PyAirtouch.Model.At4.X2D
import PyAirtouch.Model.At4.X36
import PyAirtouch.Model.At4.X37
import PyAirtouch.Model.At4.FF10
import PyAirtouch.Model.At4.FF11
import PyAirtouch.Model.At4.FF12
import PyAirtouch.Model.At4.FF20
import PyAirtouch.Model.At4.FF30
/-!
# Model of the AirTouch 4 message registry and of the 0x1F extended-message wrapper

Sources: `pyairtouch/comms/__init__.py` (`MessageRegistry`, `UnsupportedMessage`,
`UnsupportedMessageDecoder`), `pyairtouch/at4/comms/x1F_ext.py` (wrapper), `pyairtouch/at4/comms/registry.py`
(which ids are registered, `HeaderFactory`), `pyairtouch/comms/socket.py` (`send`, `_write`; the receive
path `_read_one_message` is `Frame.parseOne proto`).

## Preconditions / modelling decisions

* `decodeMsg h buffer` models `registry.get_decoder(h.message_id).decode(buffer, h)` **as the socket calls
  it**: `buffer` is the result of `readexactly(h.message_length)`, i.e. `buffer.length = h.message_length`.
  The only place where this matters is the sub-header length of the 0x1F wrapper,
  `header.message_length - 2` on Python ints: `struct.unpack_from` raises `struct.error` first when fewer
  than 2 bytes are present, so under the precondition the subtraction is never negative and the truncated
  `Nat` subtraction used here is exact.  (Outside the precondition - a header announcing 0 or 1 with a
  longer buffer - Python would hand a negative length to the sub-decoder; that case is not modelled.)
  The function is total all the same.
* `Msg.unsupported id raw` stands for `comms.UnsupportedMessage(unsupported_id=id, raw_data=raw)` with an
  `id` that is **not** registered (what the decoders produce, see `Lemmas.Registry4.decodeMsg_unsupported_inv`).
  For such a message `get_encoder` raises `NotImplementedError`.  An `UnsupportedMessage` built by hand with a
  registered id would be handed to that id's encoder (duck typing: `AttributeError`, possibly only in `_write`);
  the model answers `.attributeError` there; `WFMsg` excludes every `UnsupportedMessage`.
-/
namespace PyAirtouch.Model.At4.Registry
open PyAirtouch.Model
open PyAirtouch.Gen.At4

abbrev Hdr := PyAirtouch.Model.At4.Hdr.At4Header

/-- the sub-message of an `ExtendedMessage` -/
inductive ExtSub
  | errInfo (m : FF10.Msg)
  | acAbility (m : FF11.Msg)
  | groupNames (m : FF12.Msg)
  | quickTimer (m : FF20.Msg)
  | consoleVer (m : FF30.Msg)
  | unsupported (id : Nat) (raw : Bytes)
deriving DecidableEq, Repr

/-- every message object the AirTouch 4 registry can decode or is asked to encode -/
inductive Msg
  | extended (s : ExtSub)
  | groupCtrl (m : X2A.Msg)
  | groupStatus (m : X2B.Msg)
  | acCtrl (m : X2C.Msg)
  | acStatus (m : X2D.Msg)
  | acTimerCtrl (m : X36.Msg)
  | acTimerStatus (m : X37.Msg)
  | unsupported (id : Nat) (raw : Bytes)
deriving DecidableEq, Repr

/-- `sub_message.message_id` -/
def ExtSub.messageId : ExtSub → Nat
  | .errInfo _ => X1FFF10ErrInfo.MESSAGE_ID
  | .acAbility _ => X1FFF11AcAbility.MESSAGE_ID
  | .groupNames _ => X1FFF12GroupNames.MESSAGE_ID
  | .quickTimer _ => X1FFF20QuickTimer.MESSAGE_ID
  | .consoleVer _ => X1FFF30ConsoleVer.MESSAGE_ID
  | .unsupported id _ => id

/-- `message.message_id` -/
def Msg.messageId : Msg → Nat
  | .extended _ => X1FExt.MESSAGE_ID
  | .groupCtrl _ => X2AGroupCtrl.MESSAGE_ID
  | .groupStatus _ => X2BGroupStatus.MESSAGE_ID
  | .acCtrl _ => X2CAcCtrl.MESSAGE_ID
  | .acStatus _ => X2DAcStatus.MESSAGE_ID
  | .acTimerCtrl _ => X36AcTimerCtrl.MESSAGE_ID
  | .acTimerStatus _ => X37AcTimerStatus.MESSAGE_ID
  | .unsupported id _ => id

def Msg.isExtended : Msg → Bool
  | .extended _ => true
  | _ => false

/-- width of the 0x1F sub-header (`_SUB_HEADER_STRUCT = "!H"`) -/
def subHeaderSize : Nat := X1FExt.SUB_HEADER_STRUCT_size

/-! ### encoders -/

/-- what `_sub_message_encoder` / `get_encoder` answers for an `UnsupportedMessage`: no entry in the
    map → `NotImplementedError` -/
def unsupportedEncErr (ids : List Nat) (id : Nat) : EncErr :=
  if id ∈ ids then .attributeError else .notImplemented

/-- `sub_message_encoder.size(sub_message)` behind `_sub_message_encoder` -/
def ExtSub.size : ExtSub → Except EncErr Nat
  | .errInfo m => .ok (FF10.size m)
  | .acAbility m => .ok (FF11.size m)
  | .groupNames m => .ok (FF12.size m)
  | .quickTimer m => .ok (FF20.size m)
  | .consoleVer m => .ok (FF30.size m)
  | .unsupported id _ => .error (unsupportedEncErr Registry.extEncoderIds id)

/-- `sub_message_encoder.encode(sub_header, sub_message)` -/
def ExtSub.encode : ExtSub → Except EncErr Bytes
  | .errInfo m => FF10.encodeE m
  | .acAbility m => FF11.encodeE m
  | .groupNames m => FF12.encodeE m
  | .quickTimer m => FF20.encode m
  | .consoleVer m => FF30.encodeE m
  | .unsupported id _ => .error (unsupportedEncErr Registry.extEncoderIds id)

/-- `registry.get_encoder(message.message_id).size(message)` -/
def sizeMsg : Msg → Except EncErr Nat
  | .extended s => (ExtSub.size s).map (subHeaderSize + ·)       -- `_SUB_HEADER_STRUCT.size + sub.size`
  | .groupCtrl m => .ok (X2A.size m)
  | .groupStatus m => .ok (X2B.size m)
  | .acCtrl m => .ok (X2C.size m)
  | .acStatus m => .ok (X2D.size m)
  | .acTimerCtrl m => .ok (X36.size m)
  | .acTimerStatus m => .ok (X37.size m)
  | .unsupported id _ => .error (unsupportedEncErr Registry.encoderIds id)

/-- `ExtendedMessageEncoder.encode`: look the sub-encoder up, compute the sub-message size (for the
    sub-header object, which no sub-encoder reads), then `pack("!H", sub_id) + sub_encoder.encode(..)` -/
def encodeExt (s : ExtSub) : Except EncErr Bytes := do
  let _ ← ExtSub.size s
  let body ← ExtSub.encode s
  pure (be16Bytes s.messageId ++ body)

/-- `registry.get_encoder(message.message_id).encode(header, message)` (no encoder reads the header) -/
def encodeMsg : Msg → Except EncErr Bytes
  | .extended s => encodeExt s
  | .groupCtrl m => X2A.encode m
  | .groupStatus m => .ok (X2B.encode m)
  | .acCtrl m => X2C.encode m
  | .acStatus m => X2D.encode m
  | .acTimerCtrl m => X36.encode m
  | .acTimerStatus m => X37.encode m
  | .unsupported id _ => .error (unsupportedEncErr Registry.encoderIds id)

/-! ### decoders -/

/-- wrap the result of a leaf decoder -/
def mapMsg {M N : Type} (f : M → N) : Except DecErr (M × Bytes) → Except DecErr (N × Bytes)
  | .ok (m, r) => .ok (f m, r)
  | .error e => .error e

/-- `ExtendedMessageDecoder._sub_message_decoder(sub_id).decode(body, sub_header)` with
    `sub_header.message_length = subLen`; an id without entry goes to `UnsupportedExtendedDecoder` -/
def decodeSub (subId subLen : Nat) (body : Bytes) : Except DecErr (ExtSub × Bytes) :=
  if subId = X1FFF10ErrInfo.MESSAGE_ID then mapMsg .errInfo (FF10.decode body subLen)
  else if subId = X1FFF11AcAbility.MESSAGE_ID then mapMsg .acAbility (FF11.decode body subLen)
  else if subId = X1FFF12GroupNames.MESSAGE_ID then mapMsg .groupNames (FF12.decode body subLen)
  else if subId = X1FFF20QuickTimer.MESSAGE_ID then mapMsg .quickTimer (FF20.decode body subLen)
  else if subId = X1FFF30ConsoleVer.MESSAGE_ID then mapMsg .consoleVer (FF30.decode body subLen)
  else .ok (.unsupported subId (body.take subLen), body.drop subLen)

/-- `ExtendedMessageDecoder.decode(buffer, header)`: `unpack_from("!H")` (`struct.error` below two bytes),
    sub-header length `header.message_length - 2`, sub-decoder on `buffer[2:]` -/
def decodeExt (h : Hdr) (buffer : Bytes) : Except DecErr (Msg × Bytes) :=
  match buffer with
  | hi :: lo :: body => mapMsg .extended (decodeSub (be16 hi lo) (h.message_length - subHeaderSize) body)
  | _ => .error .structError

/-- `registry.get_decoder(header.message_id).decode(buffer, header)`; an id without entry goes to
    `UnsupportedMessageDecoder` -/
def decodeMsg (h : Hdr) (buffer : Bytes) : Except DecErr (Msg × Bytes) :=
  if h.message_id = X1FExt.MESSAGE_ID then decodeExt h buffer
  else if h.message_id = X2AGroupCtrl.MESSAGE_ID then mapMsg .groupCtrl (X2A.decode buffer h.message_length)
  else if h.message_id = X2BGroupStatus.MESSAGE_ID then mapMsg .groupStatus (X2B.decode buffer h.message_length)
  else if h.message_id = X2CAcCtrl.MESSAGE_ID then mapMsg .acCtrl (X2C.decode buffer h.message_length)
  else if h.message_id = X2DAcStatus.MESSAGE_ID then mapMsg .acStatus (X2D.decode buffer h.message_length)
  else if h.message_id = X36AcTimerCtrl.MESSAGE_ID then mapMsg .acTimerCtrl (X36.decode buffer h.message_length)
  else if h.message_id = X37AcTimerStatus.MESSAGE_ID then mapMsg .acTimerStatus (X37.decode buffer h.message_length)
  else .ok (.unsupported h.message_id (buffer.take h.message_length), buffer.drop h.message_length)

/-! ### canonical text -/

def canonUnsupported (id : Nat) (raw : Bytes) : String :=
  cObj "UnsupportedMessage" [("unsupported_id", cNat id), ("raw_data", cBytes raw)]

def ExtSub.canon : ExtSub → String
  | .errInfo m => FF10.canon m
  | .acAbility m => FF11.canon m
  | .groupNames m => FF12.canon m
  | .quickTimer m => FF20.canon m
  | .consoleVer m => FF30.canon m
  | .unsupported id raw => canonUnsupported id raw

def canonMsg : Msg → String
  | .extended s => cObj "ExtendedMessage" [("sub_message", s.canon)]
  | .groupCtrl m => X2A.canon m
  | .groupStatus m => X2B.canon m
  | .acCtrl m => X2C.canon m
  | .acStatus m => X2D.canon m
  | .acTimerCtrl m => X36.canon m
  | .acTimerStatus m => X37.canon m
  | .unsupported id raw => canonUnsupported id raw

/-! ### well-formedness

`WFMsg` is the domain of the whole-frame round trip: an `UnsupportedMessage` (which cannot be sent) is never
well formed; otherwise each leaf's `WF` ("field values in their protocol domains"), plus the representation invariant of texts:
a Python `str` is modelled by its UTF-8 bytes, so every element of a text field is a byte.  (The leaf
`WF`s of the text-carrying modules only say `utf8Valid`, which looks at the elements modulo 256; the
AC-ability `WF` already contains `AllBytes` of the name.) -/

/-- the text fields (`str` values) of the text-carrying sub-messages, as UTF-8 byte strings -/
def ExtSub.texts : ExtSub → List Bytes
  | .errInfo (.message m) => m.error_info.toList
  | .groupNames (.message m) => m.group_names.map (·.2)
  | .consoleVer (.message m) => m.versions
  | _ => []

def ExtSub.WF : ExtSub → Prop
  | .errInfo m => FF10.WF m
  | .acAbility m => FF11.WF m
  | .groupNames m => FF12.WF m
  | .quickTimer m => FF20.WF m
  | .consoleVer m => FF30.WF m
  | .unsupported _ _ => False

def WFSub (s : ExtSub) : Prop := s.WF ∧ ∀ t ∈ s.texts, AllBytes t

def WFMsg : Msg → Prop
  | .extended s => WFSub s
  | .groupCtrl m => X2A.WF m
  | .groupStatus m => X2B.WF m
  | .acCtrl m => X2C.WF m
  | .acStatus m => X2D.WF m
  | .acTimerCtrl m => X36.WF m
  | .acTimerStatus m => X37.WF m
  | .unsupported _ _ => False

def allBytesBool (bs : Bytes) : Bool := bs.all (fun b => decide (b < 256))

/-- run-time test of `FF11.WFName` -/
def ff11NameBool (s : Bytes) : Bool :=
  decide (s.length ≤ FF11.nameLen) && s.all (fun b => decide (b ≠ 0)) && utf8Valid s && allBytesBool s

/-- run-time test of the `groups` clause of `FF11.WFRec`: strictly increasing group numbers up to 15 -/
def ff11GroupsBool : Option (List Nat) → Bool
  | none => true
  | some gs => decide (gs.Pairwise (· < ·)) && gs.all (fun g => decide (g ≤ X1FFF11AcAbility.MAX_GROUP_NUMBER))

/-- run-time test of `FF11.WFRec` (the AC-ability leaf has no `wfBool` of its own) -/
def ff11RecBool (ac : FF11.AcAbility) : Bool :=
  decide (ac.ac_number < 256) && decide (ac.start_group < 256) && decide (ac.group_count < 256) &&
  decide (ac.min_set_point < 256) && decide (ac.max_set_point < 256) &&
  ff11NameBool ac.ac_name &&
  (decide (ac.ac_mode_support.map (·.1) = FF11.modeKeys) &&
    decide (ac.ac_mode_support.lookup .UNCHANGED = some true)) &&
  (decide (ac.fan_speed_support.map (·.1) = FF11.fanKeys) &&
    decide (ac.fan_speed_support.lookup .UNCHANGED = some true)) &&
  ff11GroupsBool ac.groups

/-- run-time test of `FF11.WF` -/
def ff11WfBool : FF11.Msg → Bool
  | .request none => true
  | .request (some n) => decide (n < 256)
  | .ability acs => !acs.isEmpty && acs.all ff11RecBool

def ExtSub.wfBool : ExtSub → Bool
  | .errInfo m => FF10.wfBool m
  | .acAbility m => ff11WfBool m
  | .groupNames m => FF12.wfBool m
  | .quickTimer m => FF20.wfBool m
  | .consoleVer m => FF30.wfBool m
  | .unsupported _ _ => false

def wfSubBool (s : ExtSub) : Bool := s.wfBool && s.texts.all allBytesBool

/-- run-time test of `WFMsg` (see `Lemmas.Registry4.wfMsgBool_iff`) -/
def wfMsgBool : Msg → Bool
  | .extended s => wfSubBool s
  | .groupCtrl m => X2A.wfBool m
  | .groupStatus m => X2B.wfBool m
  | .acCtrl m => X2C.wfBool m
  | .acStatus m => X2D.wfBool m
  | .acTimerCtrl m => X36.wfBool m
  | .acTimerStatus m => X37.wfBool m
  | .unsupported _ _ => false

/-! ### header factory, protocol bundle, send path -/

/-- `HeaderFactory.create_from_message(message, message_length)` with `_packet_id()` returning `pid` -/
def mkHeader (pid : Nat) (m : Msg) (len : Nat) : Hdr :=
  { to_address := if m.messageId = X1FExt.MESSAGE_ID then Gen.At4.Hdr.ADDRESS_AIRTOUCH_EXTENDED
                  else Gen.At4.Hdr.ADDRESS_AIRTOUCH,
    from_address := Gen.At4.Hdr.ADDRESS_CLIENT,
    packet_id := pid,
    message_id := m.messageId,
    message_length := len }

/-- `_packet_id`: the counter after handing out `pid` -/
def nextPacketId (pid : Nat) : Nat := (pid + 1) % 256

/-- the receive path of the AirTouch 4 socket: `Frame.parseOne proto` is `_read_one_message` -/
def proto : Frame.Proto Hdr Msg :=
  { headerLength := At4.Hdr.headerLength
    decodeHdr := At4.Hdr.decode
    msgLen := fun h => h.message_length
    decodeMsg := decodeMsg }

/-- `_write(header, message)`: header bytes, message bytes, CRC over checksum data + message bytes.
    (`int.to_bytes` overflow of the CRC is `OverflowError`, proved unreachable.) -/
def writeFrame (h : Hdr) (m : Msg) : Except EncErr Bytes := do
  let (hb, ck) ← At4.Hdr.encode h
  let payload ← encodeMsg m
  match Frame.frame hb ck payload with
  | some fr => pure fr
  | none => .error .other

/-- `send(message)` followed by `_write`: `get_encoder`, `size`, header factory (packet id `pid`), then
    the bytes `_write` hands to the stream writer -/
def frameOf (pid : Nat) (m : Msg) : Except EncErr Bytes := do
  let n ← sizeMsg m
  writeFrame (mkHeader pid m n) m

end PyAirtouch.Model.At4.Registry
