import PyAirtouch.Gen.At4
import PyAirtouch.Model.Part3Text
/-!
# Model of `pyairtouch/at4/comms/x1FFF12_group_names.py` (Group Names message / request, id 0xFF12)

`group_names : Mapping[int, str]` is an association list in insertion order with Python dict semantics
(`dictInsert`); names are represented by their UTF-8 bytes.  `group_number : int | Literal["ALL"]` is
`Option Nat` with `none` for `"ALL"`.
-/
namespace PyAirtouch.Model.At4.FF12
open PyAirtouch.Model PyAirtouch.Gen.At4.X1FFF12GroupNames

structure GroupNamesMessage where
  group_names : List (Nat × Bytes)
deriving DecidableEq, Repr

structure GroupNamesRequest where
  /-- `none` is the literal `"ALL"` -/
  group_number : Option Nat
deriving DecidableEq, Repr

inductive Msg
  | message (m : GroupNamesMessage)
  | request (r : GroupNamesRequest)
deriving DecidableEq, Repr

def size : Msg → Nat
  | .request r => if r.group_number.isNone then 0 else 1
  | .message m => PER_GROUP_SIZE * m.group_names.length

/-- one group: number, then the name as a fixed-length (8 bytes) NUL padded / truncated C string -/
def encEntry (p : Nat × Bytes) : Bytes := p.1 :: encodeCString p.2 GROUP_NAME_LENGTH

/-- bytes produced when no `bytearray.append` / `bytes(...)` range error occurs -/
def encode : Msg → Bytes
  | .request r => match r.group_number with
    | none => []
    | some n => [n]
  | .message m => m.group_names.flatMap encEntry

/-- `GroupNamesEncoder.encode` including the `ValueError` for a group number above 255 -/
def encodeE (m : Msg) : Except EncErr Bytes :=
  match m with
  | .request r => match r.group_number with
    | none => .ok []
    | some n => if n < 256 then .ok [n] else .error .valueError
  | .message mm => if mm.group_names.all (fun p => p.1 < 256) then .ok (encode m) else .error .valueError

/-- the `for _ in range(message_length // 9)` loop; `acc` is the dict built so far -/
def decGroups : Nat → Bytes → List (Nat × Bytes) → Except DecErr (List (Nat × Bytes) × Bytes)
  | 0, buf, acc => .ok (acc, buf)
  | n+1, buf, acc =>
    match buf with
    | [] => .error .indexError                                  -- `buffer[0]`
    | g :: tl =>
      match decodeCString (tl.take GROUP_NAME_LENGTH) with      -- `buffer[1:9]`, may be short
      | .error e => .error e
      | .ok name => decGroups n (tl.drop GROUP_NAME_LENGTH) (dictInsert acc g name)

/-- `GroupNamesDecoder.decode(buffer, header)`; `msgLen` is `header.message_length` -/
def decode (buffer : Bytes) (msgLen : Nat) : Except DecErr (Msg × Bytes) :=
  if msgLen = 0 then .ok (.request ⟨none⟩, buffer)
  else if msgLen = 1 then
    match buffer with
    | [] => .error .indexError
    | g :: tl => .ok (.request ⟨some g⟩, tl)
  else if msgLen % (1 + GROUP_NAME_LENGTH) ≠ 0 then .error .decodeError
  else
    match decGroups (msgLen / PER_GROUP_SIZE) buffer [] with
    | .error e => .error e
    | .ok (d, rest) => .ok (.message ⟨d⟩, rest)

/-- `"ALL"` as a Python `str` -/
def allText : Bytes := [0x41, 0x4C, 0x4C]

def canon : Msg → String
  | .request r => cObj "GroupNamesRequest" [("group_number", match r.group_number with
      | none => cStr allText
      | some n => cNat n)]
  | .message m => cObj "GroupNamesMessage" [("group_names", cDict cNat cStr m.group_names)]

/-- a name survives the 8-byte C string field: at most 8 bytes, no NUL inside, valid UTF-8 -/
def WFName (s : Bytes) : Prop := s.length ≤ GROUP_NAME_LENGTH ∧ 0 ∉ s ∧ utf8Valid s = true

def wfNameBool (s : Bytes) : Bool := decide (s.length ≤ GROUP_NAME_LENGTH) && !s.contains 0 && utf8Valid s

/-- requests: one-byte group number; messages: at least one group (an empty mapping is sent as the
    "ALL" request), distinct one-byte group numbers, names that fit the field -/
def WF : Msg → Prop
  | .request r => ∀ n, r.group_number = some n → n < 256
  | .message m => m.group_names ≠ [] ∧ (dictKeys m.group_names).Nodup ∧
      ∀ p ∈ m.group_names, p.1 < 256 ∧ WFName p.2

/-- run-time test of `WF` (see `wfBool_iff`) -/
def wfBool : Msg → Bool
  | .request r => match r.group_number with
    | none => true
    | some n => decide (n < 256)
  | .message m => !m.group_names.isEmpty && nodupBool (dictKeys m.group_names) &&
      m.group_names.all (fun p => decide (p.1 < 256) && wfNameBool p.2)

/-- three groups: "Living", "Café" (2-byte é), "😀€" (4-byte + 3-byte characters, 7 bytes) -/
example : WF (.message ⟨[(0, [0x4C, 0x69, 0x76, 0x69, 0x6E, 0x67]), (1, [0x43, 0x61, 0x66, 0xC3, 0xA9]),
    (15, [0xF0, 0x9F, 0x98, 0x80, 0xE2, 0x82, 0xAC])]⟩) := by
  refine ⟨by decide, by decide, ?_⟩
  intro p hp
  simp only [List.mem_cons, List.not_mem_nil, or_false] at hp
  rcases hp with rfl | rfl | rfl <;> exact ⟨by decide, by decide, by decide, by decide⟩

end PyAirtouch.Model.At4.FF12
