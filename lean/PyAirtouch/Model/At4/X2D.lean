import PyAirtouch.Gen.At4
import PyAirtouch.Model.Bytes
/-!
# Model of `pyairtouch/at4/comms/x2D_ac_status.py` (AC Status message / request, id 0x2D)

A status message is an array of `!BBBxHH` records (8 bytes): power state/AC number, mode/fan speed,
spill/timer/set-point, one padding byte (written 0, ignored), temperature word, error code word.
An empty payload (`header.message_length == 0`) is the request.

`temperature` is a Python float with one decimal, `(((raw & 0xFFE0) >> 5) - 500) / 10.0`; here it is
an `Int` number of tenths.  The float step (`/ 10.0` in the decoder, `int(t * 10.0 + 500)` in the
encoder) is bridged by the differential check over all 2048 raw values.

The encoder hands `error_code` straight to `struct.pack("H")`: values above 65535 raise
`struct.error`, so `encode` returns `Except EncErr Bytes`.  All other packed values are masked.
-/
namespace PyAirtouch.Model.At4.X2D
open PyAirtouch.Model PyAirtouch.Gen.At4.X2DAcStatus

/-- `AcStatusData` -/
structure AcStatusData where
  ac_number : Nat
  power_state : AcPowerState
  mode : AcMode
  fan_speed : AcFanSpeed
  spill_active : Bool
  timer_set : Bool
  set_point : Nat
  temperature : Int             -- tenths of a degree
  error_code : Nat
deriving DecidableEq, Repr

inductive Msg
  | request                                   -- `AcStatusRequest`
  | status (ac_status : List AcStatusData)    -- `AcStatusMessage`
deriving DecidableEq, Repr

def recSize : Nat := STRUCT_size

def size : Msg → Nat
  | .request => 0
  | .status acs => recSize * acs.length

/-- `utils.encode_temperature`: `(int(t * 10.0 + 500) << 5) & 0xFFE0` (Python `&` on a negative int is
    two's complement, i.e. the non-negative remainder) -/
def encodeTemperature (t : Int) : Nat := (((t + 500) * 32) % 65536).toNat

/-- `utils.decode_temperature`: `(((raw & 0xFFE0) >> 5) - 500) / 10.0`, in tenths -/
def decodeTemperature (raw : Nat) : Int := ((raw / 32 % 2048 : Nat) : Int) - 500

def encB1 (a : AcStatusData) : Nat := a.power_state.toNat * 64 % 256 + a.ac_number % 64
def encB2 (a : AcStatusData) : Nat := a.mode.toNat * 16 % 256 + a.fan_speed.toNat % 16
def encB3 (a : AcStatusData) : Nat := boolToBit a.spill_active 7 + boolToBit a.timer_set 6 + a.set_point % 64

/-- what `_STRUCT.pack` writes for one AC when every argument fits its field -/
def encRec (a : AcStatusData) : Bytes :=
  [encB1 a, encB2 a, encB3 a, 0] ++ be16Bytes (encodeTemperature a.temperature) ++ be16Bytes a.error_code

/-- `struct.pack("!BBBxHH", ...)` accepts its arguments -/
def recFits (a : AcStatusData) : Bool :=
  decide (encB1 a < 256) && decide (encB2 a < 256) && decide (encB3 a < 256) &&
  decide (encodeTemperature a.temperature < 65536) && decide (a.error_code < 65536)

/-- `AcStatusEncoder.encode`: the records are packed one after the other; the first one that does not
    fit raises `struct.error` -/
def encode : Msg → Except EncErr Bytes
  | .request => .ok []
  | .status acs => if acs.all recFits then .ok (acs.flatMap encRec) else .error .structError

def decRec (bs : Bytes) : Except DecErr (AcStatusData × Bytes) :=
  match bs with
  | b1 :: b2 :: b3 :: _pad :: t1 :: t2 :: e1 :: e2 :: rest =>
    -- constructor arguments are evaluated in order: power state, mode, fan speed
    match AcPowerState.ofNat? (b1 / 64 % 4) with
    | none => .error .valueError
    | some ps =>
      match AcMode.ofNat? (b2 / 16 % 16) with
      | none => .error .valueError
      | some md =>
        match AcFanSpeed.ofNat? (b2 % 16) with
        | none => .error .valueError
        | some fs =>
          .ok ({ ac_number := b1 % 64, power_state := ps, mode := md, fan_speed := fs,
                 spill_active := bitToBool b3 7, timer_set := bitToBool b3 6, set_point := b3 % 64,
                 temperature := decodeTemperature (be16 t1 t2), error_code := be16 e1 e2 }, rest)
  | _ => .error .structError

def decRecs : Nat → Bytes → Except DecErr (List AcStatusData × Bytes)
  | 0, bs => .ok ([], bs)
  | n+1, bs => do
    let (a, rest) ← decRec bs
    let (as, rest') ← decRecs n rest
    pure (a :: as, rest')

/-- `AcStatusDecoder.decode(buffer, header)`; `msgLen` is `header.message_length` -/
def decode (buffer : Bytes) (msgLen : Nat) : Except DecErr (Msg × Bytes) :=
  if msgLen = 0 then .ok (.request, buffer)
  else if msgLen % recSize ≠ 0 then .error .decodeError
  else do
    let (acs, rest) ← decRecs (msgLen / recSize) buffer
    pure (.status acs, rest)

/-! ### canonical text -/

def canonRec (a : AcStatusData) : String :=
  cObj "AcStatusData" [
    ("ac_number", cNat a.ac_number), ("power_state", a.power_state.name), ("mode", a.mode.name),
    ("fan_speed", a.fan_speed.name), ("spill_active", cBool a.spill_active),
    ("timer_set", cBool a.timer_set), ("set_point", cNat a.set_point),
    ("temperature", cTenths a.temperature), ("error_code", cNat a.error_code)]

def canon : Msg → String
  | .request => cObj "AcStatusRequest" []
  | .status acs => cObj "AcStatusMessage" [("ac_status", cList canonRec acs)]

/-! ### well-formedness: field values in their protocol domains -/

def WFRec (a : AcStatusData) : Prop :=
  a.ac_number < 64 ∧ a.set_point < 64 ∧ a.error_code < 65536 ∧
  -500 ≤ a.temperature ∧ a.temperature ≤ 1547

/-- a status message with no AC has size 0 and is read back as the request -/
def WF : Msg → Prop
  | .request => True
  | .status acs => acs ≠ [] ∧ ∀ a ∈ acs, WFRec a

/-- run-time test of `WFRec` / `WF` (see `Lemmas.At4X2D.wfBool_iff`) -/
def wfRecBool (a : AcStatusData) : Bool :=
  decide (a.ac_number < 64) && decide (a.set_point < 64) && decide (a.error_code < 65536) &&
  decide (-500 ≤ a.temperature) && decide (a.temperature ≤ 1547)

def wfBool : Msg → Bool
  | .request => true
  | .status acs => !acs.isEmpty && acs.all wfRecBool

end PyAirtouch.Model.At4.X2D
