import PyAirtouch.Gen.At4
import PyAirtouch.Model.Bytes
/-! # Model of `pyairtouch/at4/comms/hdr.py` (8-byte AirTouch 4 header, struct `!2sBBBBH`) -/
namespace PyAirtouch.Model.At4.Hdr
open PyAirtouch.Model PyAirtouch.Gen.At4.Hdr

structure At4Header where
  to_address : Nat
  from_address : Nat
  packet_id : Nat
  message_id : Nat
  message_length : Nat
deriving DecidableEq, Repr

def headerLength : Nat := STRUCT_size

def WF (h : At4Header) : Prop :=
  h.to_address < 256 ∧ h.from_address < 256 ∧ h.packet_id < 256 ∧ h.message_id < 256 ∧ h.message_length < 65536

instance (h : At4Header) : Decidable (WF h) := by unfold WF; infer_instance

/-- `HeaderEncoder.encode`: `(header_bytes, checksum_data)`; `struct.pack` raises for out-of-range fields -/
def encode (h : At4Header) : Except EncErr (Bytes × Bytes) :=
  if WF h then
    let body := [h.to_address, h.from_address, h.packet_id, h.message_id] ++ be16Bytes h.message_length
    .ok (PREFIX ++ body, body)
  else .error .structError

/-- `HeaderDecoder.decode`: header, remaining bytes, checksum data -/
def decode (buffer : Bytes) : Except DecErr (At4Header × Bytes × Bytes) :=
  match buffer with
  | p1 :: p2 :: t :: f :: pid :: mid :: l1 :: l2 :: rest =>
    if [p1, p2] ≠ PREFIX then .error .decodeError
    else .ok ({ to_address := t, from_address := f, packet_id := pid, message_id := mid,
                message_length := be16 l1 l2 }, rest, [t, f, pid, mid, l1, l2])
  | _ => .error .structError

def canon (h : At4Header) : String :=
  cObj "At4Header" [("to_address", cNat h.to_address), ("from_address", cNat h.from_address),
    ("packet_id", cNat h.packet_id), ("message_id", cNat h.message_id), ("message_length", cNat h.message_length)]

end PyAirtouch.Model.At4.Hdr
