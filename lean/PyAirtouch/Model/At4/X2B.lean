import PyAirtouch.Gen.At4
import PyAirtouch.Model.Bytes
/-!
# Model of `pyairtouch/at4/comms/x2B_group_status.py` (Group Status message / request, id 0x2B)

Temperatures are `Int` tenths of a degree (`(raw - 500) / 10.0` in the source; the float step is
bridged by the exhaustive differential check over all raw values).
-/
namespace PyAirtouch.Model.At4.X2B
open PyAirtouch.Model PyAirtouch.Gen.At4.X2BGroupStatus

structure GroupStatusData where
  group_number : Nat
  power_state : GroupPowerState
  control_method : GroupControlMethod
  spill_active : Bool
  supports_turbo : Bool
  has_sensor : Bool
  battery_status : SensorBatteryStatus
  temperature : Option Int
  damper_percentage : Nat
  set_point : Option Nat
deriving DecidableEq, Repr

inductive Msg
  | request
  | status (groups : List GroupStatusData)
deriving DecidableEq, Repr

def recSize : Nat := STRUCT_size

def size : Msg → Nat
  | .request => 0
  | .status gs => recSize * gs.length

/-- `utils.encode_temperature`: `(int(t*10+500) << 5) & 0xFFE0` -/
def encodeTemperature (t : Int) : Nat := ((t + 500).toNat * 32) % 65536 / 32 * 32

def encTemp : Option Int → Nat
  | some t => encodeTemperature t
  | none => TEMP_UNAVAILABLE

def encSetPoint : Option Nat → Nat
  | some sp => sp % 64
  | none => INVALID_SETPOINT

def encRec (g : GroupStatusData) : Bytes :=
  let b1 := g.power_state.toNat * 64 + g.group_number % 64
  let b2 := g.control_method.toNat * 128 + g.damper_percentage % 128
  let b3 := g.battery_status.toNat * 128 + boolToBit g.supports_turbo 6 + encSetPoint g.set_point
  let b4 := boolToBit g.has_sensor 7
  let b56 := encTemp g.temperature + boolToBit g.spill_active 4
  [b1, b2, b3, b4] ++ be16Bytes b56

def encode : Msg → Bytes
  | .request => []
  | .status gs => gs.flatMap encRec

def decTemp (hasSensor : Bool) (b56 : Nat) : Option Int :=
  let enc := b56 / 32 * 32        -- `byte56 & 0xFFE0`
  -- `(byte56 & 0xFF00) == _TEMP_UNAVAILABLE`: not available whenever Byte5 is 0xff
  if !hasSensor || b56 / 256 * 256 = TEMP_UNAVAILABLE then none
  else some ((enc / 32 : Nat) - 500)

def decRec (bs : Bytes) : Except DecErr (GroupStatusData × Bytes) :=
  match bs with
  | b1 :: b2 :: b3 :: b4 :: b5 :: b6 :: rest =>
    let b56 := be16 b5 b6
    let hasSensor := bitToBool b4 7
    match GroupPowerState.ofNat? (b1 / 64 % 4), GroupControlMethod.ofNat? (b2 / 128 % 2),
          SensorBatteryStatus.ofNat? (b3 / 128 % 2) with
    | some ps, some cm, some bat =>
      .ok ({ group_number := b1 % 64, power_state := ps, control_method := cm,
             spill_active := bitToBool b56 4, supports_turbo := bitToBool b3 6,
             has_sensor := hasSensor, battery_status := bat,
             temperature := decTemp hasSensor b56, damper_percentage := b2 % 128,
             set_point := if hasSensor then some (b3 % 64) else none }, rest)
    | _, _, _ => .error .valueError
  | _ => .error .structError

def decRecs : Nat → Bytes → Except DecErr (List GroupStatusData × Bytes)
  | 0, bs => .ok ([], bs)
  | n+1, bs => do
    let (g, rest) ← decRec bs
    let (gs, rest') ← decRecs n rest
    pure (g :: gs, rest')

/-- `GroupStatusDecoder.decode(buffer, header)`; `msgLen` is `header.message_length` -/
def decode (buffer : Bytes) (msgLen : Nat) : Except DecErr (Msg × Bytes) :=
  if msgLen = 0 then .ok (.request, buffer)
  else if msgLen % recSize ≠ 0 then .error .decodeError
  else do
    let (gs, rest) ← decRecs (msgLen / recSize) buffer
    pure (.status gs, rest)

/-! ### canonical text -/

def canonRec (g : GroupStatusData) : String :=
  cObj "GroupStatusData" [
    ("group_number", cNat g.group_number), ("power_state", g.power_state.name),
    ("control_method", g.control_method.name), ("spill_active", cBool g.spill_active),
    ("supports_turbo", cBool g.supports_turbo), ("has_sensor", cBool g.has_sensor),
    ("battery_status", g.battery_status.name), ("temperature", cOpt cTenths g.temperature),
    ("damper_percentage", cNat g.damper_percentage), ("set_point", cOpt cNat g.set_point)]

def canon : Msg → String
  | .request => cObj "GroupStatusRequest" []
  | .status gs => cObj "GroupStatusMessage" [("groups", cList canonRec gs)]

/-! ### well-formedness: field values in their protocol domains -/

def WFRec (g : GroupStatusData) : Prop :=
  g.group_number < 64 ∧ g.damper_percentage < 128 ∧
  (g.has_sensor = true → ∃ sp, g.set_point = some sp ∧ sp < 64) ∧
  (g.has_sensor = false → g.set_point = none ∧ g.temperature = none) ∧
  (∀ t, g.temperature = some t → -500 ≤ t ∧ t ≤ 1539)

def WF : Msg → Prop
  | .request => True
  | .status gs => gs ≠ [] ∧ ∀ g ∈ gs, WFRec g

/-- run-time test of `WFRec` / `WF` (see `Lemmas.At4X2B.wfBool_iff`) -/
def wfRecBool (g : GroupStatusData) : Bool :=
  decide (g.group_number < 64) && decide (g.damper_percentage < 128) &&
  (match g.has_sensor, g.set_point, g.temperature with
   | true, some sp, _ => decide (sp < 64)
   | true, none, _ => false
   | false, none, none => true
   | false, _, _ => false) &&
  (match g.temperature with
   | some t => decide (-500 ≤ t) && decide (t ≤ 1539)
   | none => true)

def wfBool : Msg → Bool
  | .request => true
  | .status gs => !gs.isEmpty && gs.all wfRecBool

end PyAirtouch.Model.At4.X2B
