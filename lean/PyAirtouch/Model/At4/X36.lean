import PyAirtouch.Model.At4.X37
/-!
# Model of `pyairtouch/at4/comms/x36_ac_timer_ctrl.py` (AC Timer Control message, id 0x36)

`AcTimerControlMessage` extends `AcTimerStatusMessage`; the encoder *is* `AcTimerStatusEncoder`, the
decoder runs `AcTimerStatusDecoder` and rejects the (empty) request form with `DecodeError`.
-/
namespace PyAirtouch.Model.At4.X36
open PyAirtouch.Model PyAirtouch.Model.TimerCommon

export PyAirtouch.Model.TimerCommon (AcTimerState AcTimerStatusData)

/-- `AcTimerControlMessage` -/
structure Msg where
  ac_timer_status : List AcTimerStatusData
deriving DecidableEq, Repr

/-- the message seen as an `AcTimerStatusMessage` (its base class) -/
def Msg.toStatus (m : Msg) : X37.Msg := .status m.ac_timer_status

def size (m : Msg) : Nat := X37.size m.toStatus

def encode (m : Msg) : Except EncErr Bytes := X37.encode m.toStatus

def encodeBytes (m : Msg) : Bytes := X37.encodeBytes m.toStatus

/-- `AcTimerControlDecoder.decode(buffer, header)` -/
def decode (buffer : Bytes) (msgLen : Nat) : Except DecErr (Msg × Bytes) :=
  match X37.decode buffer msgLen with
  | .error e => .error e
  | .ok (.request, _) => .error .decodeError
  | .ok (.status l, rest) => .ok ({ ac_timer_status := l }, rest)

def canon (m : Msg) : String :=
  cObj "AcTimerControlMessage" [("ac_timer_status", cList canonData m.ac_timer_status)]

def WF (m : Msg) : Prop := X37.WF m.toStatus

/-- run-time test of `WF` -/
def wfBool (m : Msg) : Bool := X37.wfBool m.toStatus

end PyAirtouch.Model.At4.X36
