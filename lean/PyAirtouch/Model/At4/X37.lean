import PyAirtouch.Gen.At4
import PyAirtouch.Model.TimerCommon
/-!
# Model of `pyairtouch/at4/comms/x37_ac_timer_status.py` (AC Timer Status message / request, id 0x37)

The message is *positional*: the encoder always produces `4 * 8` bytes and writes each entry at
`ac_number * 8`; the decoder numbers the records `0 .. message_length/8 - 1` by position.
-/
namespace PyAirtouch.Model.At4.X37
open PyAirtouch.Model PyAirtouch.Model.TimerCommon PyAirtouch.Gen.At4.X37AcTimerStatus

export PyAirtouch.Model.TimerCommon (AcTimerState AcTimerStatusData)

inductive Msg
  | request
  | status (ac_timer_status : List AcTimerStatusData)
deriving DecidableEq, Repr

/-- `_TIMER_STATUS_REPEAT_SIZE` = on timer (2) + off timer (2) + padding (4) -/
def recSize : Nat := TIMER_STATUS_REPEAT_SIZE

/-- `AcTimerStatusEncoder.size`: fixed at four ACs -/
def size : Msg → Nat
  | .request => 0
  | .status _ => 4 * recSize

/-! ### encoder -/

/-- the effect of `_TIMER_STATE_STRUCT.pack_into(buffer, offset, b1, minute)` on the buffer -/
def putState (buf : Bytes) (offset : Nat) (t : AcTimerState) : Bytes :=
  (buf.set offset (boolToBit t.disabled 7 + t.hour % 32)).set (offset + 1) (t.minute % 64)

/-- `_pack_timer_state`: `pack_into` raises `struct.error` unless two bytes fit at `offset` -/
def packTimerState (buf : Bytes) (offset : Nat) (t : AcTimerState) : Except EncErr Bytes :=
  if offset + TIMER_STATE_STRUCT_size ≤ buf.length then .ok (putState buf offset t) else .error .structError

/-- one iteration of the encoder loop -/
def encStep (buf : Bytes) (d : AcTimerStatusData) : Except EncErr Bytes := do
  let onOffset := d.ac_number * recSize
  let buf1 ← packTimerState buf onOffset d.on_timer
  packTimerState buf1 (onOffset + TIMER_STATE_STRUCT_size) d.off_timer

def encLoop : List AcTimerStatusData → Bytes → Except EncErr Bytes
  | [], buf => .ok buf
  | d :: ds, buf => do
    let buf1 ← encStep buf d
    encLoop ds buf1

/-- `AcTimerStatusEncoder.encode`; `struct.error` as soon as an entry has `ac_number ≥ 4` -/
def encode : Msg → Except EncErr Bytes
  | .request => .ok []
  | .status l => encLoop l (List.replicate (4 * recSize) 0)

/-- the bytes produced when no entry is out of range (total version of `encode`) -/
def encodeBytes : Msg → Bytes
  | .request => []
  | .status l =>
    l.foldl (fun buf d => putState (putState buf (d.ac_number * recSize) d.on_timer)
      (d.ac_number * recSize + TIMER_STATE_STRUCT_size) d.off_timer) (List.replicate (4 * recSize) 0)

/-! ### decoder -/

/-- `_decode_timer_state(buffer, offset)`: `unpack_from(buffer, offset)` needs two bytes at `offset` -/
def decodeTimerState (buffer : Bytes) (offset : Nat) : Except DecErr AcTimerState :=
  decTimerState (buffer.drop offset)

/-- the decoder loop: `n` further records, the next one being AC number `ac` -/
def decRecs (buffer : Bytes) : Nat → Nat → Except DecErr (List AcTimerStatusData)
  | 0, _ => .ok []
  | n+1, ac => do
    let onOffset := ac * recSize
    let on ← decodeTimerState buffer onOffset
    let off ← decodeTimerState buffer (onOffset + TIMER_STATE_STRUCT_size)
    let rs ← decRecs buffer n (ac + 1)
    pure ({ ac_number := ac, on_timer := on, off_timer := off } :: rs)

/-- `AcTimerStatusDecoder.decode(buffer, header)`; `msgLen` is `header.message_length`.
    Note that the last record may be cut after its fourth byte (padding is never read) and the
    remaining bytes are the slice `buffer[message_length:]`. -/
def decode (buffer : Bytes) (msgLen : Nat) : Except DecErr (Msg × Bytes) :=
  if msgLen = 0 then .ok (.request, buffer)
  else if msgLen % recSize ≠ 0 then .error .decodeError
  else do
    let rs ← decRecs buffer (msgLen / recSize) 0
    pure (.status rs, buffer.drop msgLen)

/-! ### canonical text -/

def canon : Msg → String
  | .request => cObj "AcTimerStatusRequest" []
  | .status l => cObj "AcTimerStatusMessage" [("ac_timer_status", cList canonData l)]

/-! ### well-formedness -/

/-- exactly the four ACs `0, 1, 2, 3` in this order (the decoder derives the AC number from the
    position, the encoder always emits four slots), hours in 5 bits, minutes in 6 bits -/
def WFList (l : List AcTimerStatusData) : Prop :=
  l.map (·.ac_number) = [0, 1, 2, 3] ∧ ∀ d ∈ l, WFState d.on_timer ∧ WFState d.off_timer

def WF : Msg → Prop
  | .request => True
  | .status l => WFList l

/-- run-time test of `WFList` -/
def wfListBool (l : List AcTimerStatusData) : Bool :=
  (l.map (·.ac_number) == [0, 1, 2, 3]) &&
    l.all (fun d => wfStateBool d.on_timer && wfStateBool d.off_timer)

/-- run-time test of `WF` -/
def wfBool : Msg → Bool
  | .request => true
  | .status l => wfListBool l

end PyAirtouch.Model.At4.X37
