import PyAirtouch.Gen.At4
import PyAirtouch.Model.Part3Text
/-!
# Model of `pyairtouch/at4/comms/x1FFF30_console_ver.py` (Console Version message / request, id 0xFF30)

Version texts are represented by their UTF-8 bytes; `VERSION_SEP.join` / `.split(VERSION_SEP)` act on the
bytes (`joinSep` / `splitOn` with the separator byte).
-/
namespace PyAirtouch.Model.At4.FF30
open PyAirtouch.Model PyAirtouch.Gen.At4.X1FFF30ConsoleVer

/-- the UTF-8 encoding of `VERSION_SEP` ("|") is this single byte -/
def sepByte : Nat := 0x7C

theorem sepByte_eq : VERSION_SEP.toUTF8.data.toList.map (·.toNat) = [sepByte] := by decide

structure ConsoleVersionMessage where
  update_available : Bool
  versions : List Bytes
deriving DecidableEq, Repr

inductive Msg
  | message (m : ConsoleVersionMessage)
  | request
deriving DecidableEq, Repr

/-- `VERSION_SEP.join(message.versions).encode("utf-8")` -/
def joined (m : ConsoleVersionMessage) : Bytes := joinSep sepByte m.versions

def size : Msg → Nat
  | .request => 0
  | .message m => 2 + (joined m).length

/-- bytes produced when no `bytearray.append` range error occurs -/
def encode : Msg → Bytes
  | .request => []
  | .message m => [if m.update_available then 1 else 0, (joined m).length] ++ joined m

/-- `ConsoleVersionEncoder.encode` including the `ValueError` of `buffer.append(len(encoded_versions))`
    when the joined text is longer than 255 bytes -/
def encodeE (m : Msg) : Except EncErr Bytes :=
  match m with
  | .request => .ok (encode m)
  | .message mm => if (joined mm).length < 256 then .ok (encode m) else .error .valueError

/-- `ConsoleVersionDecoder.decode(buffer, header)`; `msgLen` is `header.message_length` -/
def decode (buffer : Bytes) (msgLen : Nat) : Except DecErr (Msg × Bytes) :=
  if msgLen = 0 then .ok (.request, buffer)
  else match buffer with
    | [] => .error .indexError                                 -- `buffer[0]`
    | [_] => .error .indexError                                -- `buffer[1]`
    | u :: n :: body =>
      let v := body.take n                                     -- the slice may be short
      if utf8Valid v then
        .ok (.message ⟨decide (u ≠ 0), splitOn sepByte v⟩, body.drop n)
      else .error .unicodeError

def canon : Msg → String
  | .request => cObj "ConsoleVersionRequest" []
  | .message m => cObj "ConsoleVersionMessage"
      [("update_available", cBool m.update_available), ("versions", cList cStr m.versions)]

/-- at least one version (an empty list is sent as `""` and comes back as `[""]`), no version contains
    the separator, every version is valid UTF-8, the joined text fits the one-byte length field -/
def WF : Msg → Prop
  | .request => True
  | .message m => m.versions ≠ [] ∧ (∀ v ∈ m.versions, sepByte ∉ v ∧ utf8Valid v = true) ∧
      (joined m).length ≤ 255

/-- run-time test of `WF` (see `wfBool_iff`) -/
def wfBool : Msg → Bool
  | .request => true
  | .message m => !m.versions.isEmpty && m.versions.all (fun v => !v.contains sepByte && utf8Valid v) &&
      decide ((joined m).length ≤ 255)

/-- two consoles, the second version text with 2-, 3- and 4-byte characters ("1.é€😀") -/
example : WF (.message ⟨true, [[0x31, 0x2E, 0x32], [0x31, 0x2E, 0xC3, 0xA9, 0xE2, 0x82, 0xAC, 0xF0, 0x9F, 0x98, 0x80]]⟩) := by
  refine ⟨by decide, ?_, by decide⟩
  intro v hv
  simp only [List.mem_cons, List.not_mem_nil, or_false] at hv
  rcases hv with rfl | rfl <;> exact ⟨by decide, by decide⟩

end PyAirtouch.Model.At4.FF30
