import PyAirtouch.Gen.At4
import PyAirtouch.Model.Bytes
/-!
# Model of `pyairtouch/at4/comms/x2C_ac_ctrl.py` (AC Control message, id 0x2C)

One fixed record `!BBBx`: power/AC number, mode/fan speed, set-point control; the fourth byte is
padding (written as 0, ignored by the decoder).  The decoder never looks at `header.message_length`.

Every encoded field is masked (`& 0x3F`, `& 0xC0`, ...) before `struct.pack`, so each packed byte is
below 256 for every field value and the encoder cannot raise `struct.error`; `encode` is still given
the `Except` type (with the pack range test) so that this is a theorem (`encode_ok`), not an assumption.
-/
namespace PyAirtouch.Model.At4.X2C
open PyAirtouch.Model PyAirtouch.Gen.At4.X2CAcCtrl

/-- `AcSetPointControl = AcIncreaseDecrease | AcSetPointValue | None` -/
inductive AcSetPointControl
  | incDec (v : AcIncreaseDecrease)
  | value (set_point : Nat)               -- `AcSetPointValue`
  | none
deriving DecidableEq, Repr

/-- `AcControlMessage` -/
structure Msg where
  ac_number : Nat
  power : AcPowerControl
  mode : AcModeControl
  fan_speed : AcFanSpeedControl
  set_point_control : AcSetPointControl
deriving DecidableEq, Repr

def size (_ : Msg) : Nat := STRUCT_size

/-- `_encode_ac_number`: `& 0x3F` -/
def encAcNumber (n : Nat) : Nat := n % 64
/-- `_encode_power`: `(value << 6) & 0xC0` -/
def encPower (p : AcPowerControl) : Nat := p.toNat * 64 % 256
/-- `_encode_mode`: `(value << 4) & 0xF0` (UNCHANGED = 0xFF gives 0xF0) -/
def encMode (m : AcModeControl) : Nat := m.toNat * 16 % 256
/-- `_encode_fan_speed`: `value & 0x0F` (UNCHANGED = 0xFF gives 0x0F) -/
def encFanSpeed (f : AcFanSpeedControl) : Nat := f.toNat % 16

/-- `_encode_set_point_control` -/
def encSetPointControl (c : AcSetPointControl) : Nat :=
  let (controlType, value) : Nat × Nat :=
    match c with
    | .incDec v => (v.toNat, SET_POINT_INVALID)
    | .value sp => (SET_POINT_CONTROL_VALUE, sp)
    | .none => (SET_POINT_CONTROL_UNCHANGED, SET_POINT_INVALID)
  controlType * 64 % 256 + value % 64

def encB1 (m : Msg) : Nat := encPower m.power + encAcNumber m.ac_number
def encB2 (m : Msg) : Nat := encMode m.mode + encFanSpeed m.fan_speed

/-- what `_STRUCT.pack` writes when all three arguments fit a byte -/
def encodeBytes (m : Msg) : Bytes := [encB1 m, encB2 m, encSetPointControl m.set_point_control, 0]

/-- `AcControlEncoder.encode`: `struct.pack("!BBBx", ...)` would raise `struct.error` for an argument
    outside `0..255` (never happens, see `Lemmas.At4X2C.encode_ok`) -/
def encode (m : Msg) : Except EncErr Bytes :=
  if encB1 m < 256 ∧ encB2 m < 256 ∧ encSetPointControl m.set_point_control < 256 then .ok (encodeBytes m)
  else .error .structError

/-- `_decode_set_point_control` -/
def decSetPointControl (b3 : Nat) : AcSetPointControl :=
  let controlType := b3 / 64 % 4          -- `(x & 0xC0) >> 6`
  let value := b3 % 64                    -- `x & 0x3F`
  match AcIncreaseDecrease.ofNat? controlType with
  | some v => .incDec v
  | none => if controlType = SET_POINT_CONTROL_VALUE then .value value else .none

/-- `AcControlDecoder.decode(buffer, header)`; `header.message_length` is not used -/
def decode (buffer : Bytes) (_msgLen : Nat) : Except DecErr (Msg × Bytes) :=
  match buffer with
  | b1 :: b2 :: b3 :: _pad :: rest =>
    match AcPowerControl.ofNat? (b1 / 64 % 4) with
    | none => .error .valueError
    | some pw =>
      match AcModeControl.ofNat? (b2 / 16 % 16) with
      | none => .error .valueError
      | some md =>
        match AcFanSpeedControl.ofNat? (b2 % 16) with
        | none => .error .valueError
        | some fs =>
          .ok ({ ac_number := b1 % 64, power := pw, mode := md, fan_speed := fs,
                 set_point_control := decSetPointControl b3 }, rest)
  | _ => .error .structError

/-! ### canonical text -/

def canonSetPointControl : AcSetPointControl → String
  | .incDec v => v.name
  | .value sp => cObj "AcSetPointValue" [("set_point", cNat sp)]
  | .none => "None"

def canon (m : Msg) : String :=
  cObj "AcControlMessage" [
    ("ac_number", cNat m.ac_number), ("power", m.power.name), ("mode", m.mode.name),
    ("fan_speed", m.fan_speed.name), ("set_point_control", canonSetPointControl m.set_point_control)]

/-! ### well-formedness: field values in their protocol domains (the encoder masks larger ones) -/

def WFSetPointControl : AcSetPointControl → Prop
  | .value sp => sp < 64
  | _ => True

def WF (m : Msg) : Prop := m.ac_number < 64 ∧ WFSetPointControl m.set_point_control

/-- run-time test of `WF` (see `Lemmas.At4X2C.wfBool_iff`) -/
def wfSetPointControlBool : AcSetPointControl → Bool
  | .value sp => decide (sp < 64)
  | _ => true

def wfBool (m : Msg) : Bool := decide (m.ac_number < 64) && wfSetPointControlBool m.set_point_control

end PyAirtouch.Model.At4.X2C
