import PyAirtouch.Model.Heartbeat
/-!
# Extension layer of the heartbeat model: the socket refuses the heartbeat (send buffer full)

`Model/Heartbeat.lean` has no label for "`socket.send()` raises `QueueOverflowError` when the heartbeat loop
wants to send its request" (the send buffer holds ten messages: the application's commands piled up during an
outage and the connection has only just come back).  This file adds that label *on top of* the base model,
without touching `Label` or `step`.

What the code does (`pyairtouch/comms/heartbeat.py`, `_heartbeat_loop` / `_send_heartbeat_message`): one
iteration of the heartbeat loop is `await asyncio.gather(asyncio.sleep(interval), self._send_heartbeat_message())`;
`_send_heartbeat_message` calls `socket.send()` only while `socket.is_connected`.

* repaired code (`/repo` 481ce10): `QueueOverflowError` is caught inside `_send_heartbeat_message`; the request is
  skipped, the `gather` completes when the sleep is over, the loop goes on.  That is `stepX … .beatRefused`:
  enabled exactly when `hlBeat` is enabled and the link is up, no `beat` event, the next iteration `interval` later,
  nothing else changes.
* code before the repair: the exception passes through `gather` (which re-raises the first exception of its
  children at once) and out of `while True`: the task of `_heartbeat_loop` is done, for ever; `start()` does not
  create a new one while `_heartbeat_tasks` is non-empty, only `stop()` followed by `start()` does.  That is
  `stepOld … .beatRefused`: `hl := .idle` while the timeout loop stays as it is.  `stepOld` is here for the record
  of the defect only (`Props/C08Overflow.lean`, `C08X_pre_fix_behaviour_refuted`).
-/
namespace PyAirtouch.Model.Heartbeat
open PyAirtouch.Spec.Heartbeat

inductive LabelX
  | base (l : Label)
  | beatRefused       -- the heartbeat loop's sleep is over, the link is up, `send()` raises `QueueOverflowError`
deriving DecidableEq, Repr

/-- the refused iteration: same guard as `hlBeat` plus "connected" (`send()` is only called then); the heartbeat
    loop continues as `next`; no event, no other field changes -/
def refuse (h : HB) (next : HL) : Option HB :=
  match h.hl with
  | .sleeping u => if u ≤ h.now && h.connected then some { h with hl := next } else none
  | .idle => none

/-- the repaired code -/
def stepX (h : HB) : LabelX → Option HB
  | .base l => step h l
  | .beatRefused => refuse h (.sleeping (h.now + h.interval))

def runX (h : HB) : List LabelX → Option HB
  | [] => some h
  | l :: ls => (stepX h l).bind (fun h' => runX h' ls)

/-- reachable states of the extended system: every interleaving of the two tasks, the environment and the clock,
    and any number of refused heartbeats -/
def ReachableX (interval timeout : Nat) (h : HB) : Prop := ∃ ls, runX (init interval timeout) ls = some h

/-- the code before the repair: a refused heartbeat ends the heartbeat loop's task -/
def stepOld (h : HB) : LabelX → Option HB
  | .base l => step h l
  | .beatRefused => refuse h .idle

def runOld (h : HB) : List LabelX → Option HB
  | [] => some h
  | l :: ls => (stepOld h l).bind (fun h' => runOld h' ls)

def ReachableOld (interval timeout : Nat) (h : HB) : Prop := ∃ ls, runOld (init interval timeout) ls = some h

/-! ### deterministic scheduler used by the correspondence check (X variant of `settle` / `feed`)

`refuse` = the instants at which the stub socket refuses a `send()`; `drop` ⊆ `refuse` = the instants at which the
link is reported down right after that refusal (same instant, the refusal first).  The output interleaves the
model's events with `refused t` marks in the order in which they happen. -/

inductive XEv
  | ev (e : HEv)
  | refused (t : Nat)
deriving DecidableEq, Repr

def XEv.toText : XEv → String
  | .ev e => e.toText
  | .refused t => s!"refused {t}"

structure SimX where
  h : HB
  refuse : List Nat
  drop : List Nat
  out : List XEv
deriving Repr

def SimX.applyX! (s : SimX) (l : LabelX) : SimX :=
  match stepX s.h l with
  | some h' =>
    { s with h := h',
             out := s.out ++ (h'.trace.drop s.h.trace.length).map XEv.ev ++
               (match l with | .beatRefused => [XEv.refused s.h.now] | .base _ => []) }
  | none => s

def SimX.app (s : SimX) (l : Label) : SimX := s.applyX! (.base l)

/-- the heartbeat loop's iteration at the current instant: refused iff the link is up and the instant is marked -/
def SimX.beat (s : SimX) : SimX :=
  if s.h.connected && s.refuse.contains s.h.now then
    let s' := s.applyX! .beatRefused
    if s.drop.contains s.h.now then s'.app (.conn false) else s'
  else s.app .hlBeat

/-- `settle` with `hlBeat` replaced by `SimX.beat` -/
def settleX (rt : Nat) (fuel : Nat) (s : SimX) (t : Nat) (incl : Bool) : SimX :=
  match fuel with
  | 0 => s
  | fuel+1 =>
    let s := if s.h.flag then s.app .tlWake else s
    let dueTl : Option Nat := match s.h.tl with | .waiting d => some d | .resetting => some (s.h.resetAt + rt) | .idle => none
    let fireOrDone (s : SimX) : SimX := match s.h.tl with | .resetting => s.app .tlResetDone | _ => s.app .tlFire
    let dueHl : Option Nat := match s.h.hl with | .sleeping u => some u | .idle => none
    let lim (d : Nat) : Bool := if incl then decide (d ≤ t) else decide (d < t)
    match dueTl, dueHl with
    | some d, some u =>
      if d ≤ u then
        if lim d then settleX rt fuel (fireOrDone (s.app (.advance d))) t incl else s
      else
        if lim u then settleX rt fuel (s.app (.advance u)).beat t incl else s
    | some d, none => if lim d then settleX rt fuel (fireOrDone (s.app (.advance d))) t incl else s
    | none, some u => if lim u then settleX rt fuel (s.app (.advance u)).beat t incl else s
    | none, none => s

def feedX (rt : Nat) (s : SimX) (i : HIn) : SimX :=
  let s := settleX rt 100000 s i.time false
  let s := s.app (.advance i.time)
  match i with
  | .conn up _ => s.app (.conn up)
  | .start _ => settleX rt 8 (s.app .start) i.time true
  | .stop _ => s.app .stop
  | .resp _ => (s.app .response).app .tlWake
  | .resetDone _ => s.app .tlResetDone
  | .finish _ => settleX rt 100000 s i.time true

def simulateX (interval timeout rt : Nat) (refuse drop : List Nat) (ins : List HIn) : SimX :=
  ins.foldl (feedX rt) { h := init interval timeout, refuse := refuse, drop := drop, out := [] }

end PyAirtouch.Model.Heartbeat
