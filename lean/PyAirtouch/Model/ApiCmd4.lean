import PyAirtouch.Util.Hex
import PyAirtouch.Model.Api4
/-!
# Driver commands `api-new 4` / `api <op line>` over the AirTouch 4 API model

`parseOp` turns one op line of `harness/apiharness.py` into an `Api4.Op`; `stepLine` runs `Api4.apiStepText` and
joins the output lines with ` ;; ` (`-` when there are none).
-/
namespace PyAirtouch.Model.ApiCmd4
open PyAirtouch PyAirtouch.Util PyAirtouch.Model PyAirtouch.Model.Api4 PyAirtouch.Gen

def parseHexNat (s : String) : Option Nat :=
  if s.isEmpty then none
  else s.toList.foldlM (fun acc c => (hexDigit? c).map (acc * 16 + ·)) 0

/-- a decimal with at most two fractional digits, as hundredths -/
def parseHundredths (s : String) : Option Int :=
  let (neg, body) := if s.startsWith "-" then (true, (s.drop 1).toString) else (false, s)
  let mag : Option Nat :=
    match body.splitOn "." with
    | [i] => i.toNat?.map (· * 100)
    | [i, f] =>
      if f.length = 1 then do pure ((← i.toNat?) * 100 + (← f.toNat?) * 10)
      else if f.length = 2 then do pure ((← i.toNat?) * 100 + (← f.toNat?))
      else if f.length = 0 then i.toNat?.map (· * 100)
      else none
    | _ => none
  mag.map fun m => if neg then -(m : Int) else (m : Int)

def parseInt (s : String) : Option Int :=
  if s.startsWith "-" then ((s.drop 1).toString.toNat?).map fun n => -(n : Int) else s.toNat?.map fun n => (n : Int)

def byName {α} (all : List α) (name : α → String) (w : String) : Option α := all.find? fun x => name x == w

def parseCall (w : List String) : Option Op :=
  match w with
  | "at" :: "check_for_updates" :: _ => some (.call .atCheckForUpdates)
  | ["ac", i, "set_power", p] => do
    let i ← i.toNat?
    match byName ApiEnums.AcPowerControl.all ApiEnums.AcPowerControl.name p with
    | some p => pure (.call (.acSetPower i p))
    | none => pure (.callBad "KeyError")
  | ["ac", i, "set_mode", m, po] => do
    let i ← i.toNat?
    match byName ApiEnums.AcMode.all ApiEnums.AcMode.name m with
    | some m => pure (.call (.acSetMode i m (po == "1")))
    | none => pure (.callBad "KeyError")
  | ["ac", i, "set_fan_speed", f] => do
    let i ← i.toNat?
    match byName ApiEnums.AcFanSpeed.all ApiEnums.AcFanSpeed.name f with
    | some f => pure (.call (.acSetFanSpeed i f))
    | none => pure (.callBad "KeyError")
  | ["ac", i, "set_target_temperature", t] => do pure (.call (.acSetTemp (← i.toNat?) (← parseHundredths t)))
  | ["ac", i, "set_quick_timer", tt, "time", h, m] => do
    let i ← i.toNat?
    match byName ApiEnums.AcTimerType.all ApiEnums.AcTimerType.name tt with
    | some tt => pure (.call (.acSetTimerTime i tt (← h.toNat?) (← m.toNat?)))
    | none => pure (.callBad "KeyError")
  | ["ac", i, "set_quick_timer", tt, "duration", secs] => do
    let i ← i.toNat?
    match byName ApiEnums.AcTimerType.all ApiEnums.AcTimerType.name tt with
    | some tt => pure (.call (.acSetTimerDuration i tt (← secs.toNat?)))
    | none => pure (.callBad "KeyError")
  | ["ac", i, "clear_quick_timer", tt] => do
    let i ← i.toNat?
    match byName ApiEnums.AcTimerType.all ApiEnums.AcTimerType.name tt with
    | some tt => pure (.call (.acClearTimer i tt))
    | none => pure (.callBad "KeyError")
  | ["zone", i, "set_power", p] => do
    let i ← i.toNat?
    match byName ApiEnums.ZonePowerState.all ApiEnums.ZonePowerState.name p with
    | some p => pure (.call (.zoneSetPower i p))
    | none => pure (.callBad "KeyError")
  | ["zone", i, "set_target_temperature", t] => do pure (.call (.zoneSetTemp (← i.toNat?) (← parseHundredths t)))
  | ["zone", i, "set_damper_percentage", p] => do pure (.call (.zoneSetDamper (← i.toNat?) (← parseInt p)))
  | _ => none

def parseTarget (w : List String) : Option (Target × String) :=
  match w with
  | ["at", sid] => some (.airtouch, sid)
  | ["ac", i, "general", sid] => i.toNat?.map fun i => (.ac i true, sid)
  | ["ac", i, "state", sid] => i.toNat?.map fun i => (.ac i false, sid)
  | ["zone", i, sid] => i.toNat?.map fun i => (.zone i, sid)
  | _ => none

def parseOp (w : List String) : Option Op :=
  match w with
  | ["init"] => some .init
  | ["shutdown"] => some .shutdown
  | ["conn", b] => some (.conn (b == "1"))
  | "msg" :: mid :: payload :: _ => do pure (.msg (← parseHexNat mid) (← parseHex payload))   -- an optional 4th word (header to_address) is irrelevant to the AirTouch 4 API
  | "call" :: rest => parseCall rest
  | "sub" :: rest =>
    let raises := rest.getLast? == some "raise"
    let rest := if raises then rest.dropLast else rest
    (parseTarget rest).map fun p => .sub p.1 p.2 raises
  | "unsub" :: rest =>
    let raises := rest.getLast? == some "raise"
    let rest := if raises then rest.dropLast else rest
    (parseTarget rest).map fun p => .unsub p.1 p.2
  | ["adv", n] => n.toNat?.map .adv
  | ["view"] => some .view
  | _ => none

def sep : String := " ;; "

/-- the driver's per-process API state: the model state and a diagnostic counter of *scheduling ties*
    (ticks in which two of {heartbeat-timeout `RESET`, group-poll request, `init()` timeout result} produce
    output: CPython orders them by the position of their timers in the loop's heap, which the model does not
    represent; `harness/api_try4.py` sets such scripts aside) -/
structure Session where
  st : State := State.initial
  ties : Nat := 0

def tieClasses (evs : List Ev) : Nat :=
  (if evs.contains Ev.reset then 1 else 0) +
  (if evs.contains (Ev.send .connected groupStatusRequest) then 1 else 0) +
  (if evs.any (fun e => match e with | .result _ => true | _ => false) then 1 else 0)

/-- number of ticks of `adv n` with a scheduling tie -/
def countTies : Nat → State → Nat
  | 0, _ => 0
  | n+1, s =>
    let r := tick s
    (if tieClasses r.2 ≥ 2 then 1 else 0) + countTies n r.1

/-- one `api <op line>` command: new session and the answer line -/
def stepLine (ss : Session) (w : List String) : Session × String :=
  match w, parseOp w with
  | ["ties"], _ => (ss, toString ss.ties)
  | _, none => (ss, "bad-op")
  | _, some op =>
    let ties := match op with | .adv n => countTies n ss.st | _ => 0
    let r := apiStepText ss.st op
    ({ st := r.1, ties := ss.ties + ties }, if r.2.isEmpty then "-" else sep.intercalate r.2)

end PyAirtouch.Model.ApiCmd4
