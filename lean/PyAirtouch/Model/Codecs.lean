import PyAirtouch.Model.CodecBase
import PyAirtouch.Model.At4.X2B
import PyAirtouch.Model.CodecsPart1
import PyAirtouch.Model.CodecsPart2
import PyAirtouch.Model.CodecsPart5
import PyAirtouch.Model.CodecsPart3
import PyAirtouch.Model.CodecsPart4
/-!
# Dispatch table used by the driver: one entry per message module

`dec g key len bytes`   → canonical text of `decode(bytes, header with message_length = len)` and the
                          number of remaining bytes, or `ERR:<exception class>`
`reenc g key len bytes` → `size:hex` of `encode(decode(bytes))` (model encoder on the decoded message)
-/
namespace PyAirtouch.Model.Codecs
open PyAirtouch.Model

def table : List ((Nat × String) × Codec) := [
  ((4, "2B"), mk At4.X2B.decode At4.X2B.canon At4.X2B.size (fun m => .ok (At4.X2B.encode m)))
] ++ CodecsPart1.table ++ CodecsPart2.table ++ CodecsPart5.table ++ CodecsPart3.table ++ CodecsPart4.table

def find (g : Nat) (key : String) : Option Codec := (table.find? (fun p => p.1 = (g, key))).map (·.2)

def decCmd (g : Nat) (key : String) (len : HP) (bs : Bytes) : String :=
  match find g key with
  | none => "no-codec"
  | some c =>
    match c.dec bs len with
    | .ok (txt, rem) => txt ++ " rem=" ++ toString rem
    | .error e => "ERR:" ++ e.name

def reencCmd (g : Nat) (key : String) (len : HP) (bs : Bytes) : String :=
  match find g key with
  | none => "no-codec"
  | some c =>
    match c.reenc bs len with
    | .ok (.ok (sz, e)) => sz ++ ":" ++ (if e.isEmpty then "-" else hexOf e)
    | .ok (.error e) => "ENCERR:" ++ e.name
    | .error e => "ERR:" ++ e.name

end PyAirtouch.Model.Codecs
