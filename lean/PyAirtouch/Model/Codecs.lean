import PyAirtouch.Model.At4.X2B
/-!
# Dispatch table used by the driver: one entry per message module

`dec g key len bytes`   → canonical text of `decode(bytes, header with message_length = len)` and the
                          number of remaining bytes, or `ERR:<exception class>`
`reenc g key len bytes` → `size:hex` of `encode(decode(bytes))` (model encoder on the decoded message)
-/
namespace PyAirtouch.Model.Codecs
open PyAirtouch.Model

/-- header parameters: `[message_length]`, or `[non_repeat_length, repeat_length, repeat_count]`
    for the sub-messages of the AirTouch 5 control/status wrapper -/
abbrev HP := List Nat

structure Codec where
  dec : Bytes → HP → Except DecErr (String × Nat)
  reenc : Bytes → HP → Except DecErr (Except EncErr (String × Bytes))

/-- a codec whose decoder only looks at `header.message_length` -/
def mk {M} (decode : Bytes → Nat → Except DecErr (M × Bytes)) (canon : M → String)
    (size : M → Nat) (encode : M → Except EncErr Bytes) : Codec :=
  { dec := fun b hp => (decode b (hp.getD 0 0)).map (fun p => (canon p.1, p.2.length))
    reenc := fun b hp => (decode b (hp.getD 0 0)).map (fun p => (encode p.1).map (fun e => (toString (size p.1), e))) }

def table : List ((Nat × String) × Codec) := [
  ((4, "2B"), mk At4.X2B.decode At4.X2B.canon At4.X2B.size (fun m => .ok (At4.X2B.encode m)))
]

def find (g : Nat) (key : String) : Option Codec := (table.find? (fun p => p.1 = (g, key))).map (·.2)

def decCmd (g : Nat) (key : String) (len : HP) (bs : Bytes) : String :=
  match find g key with
  | none => "no-codec"
  | some c =>
    match c.dec bs len with
    | .ok (txt, rem) => txt ++ " rem=" ++ toString rem
    | .error e => "ERR:" ++ e.name

def reencCmd (g : Nat) (key : String) (len : HP) (bs : Bytes) : String :=
  match find g key with
  | none => "no-codec"
  | some c =>
    match c.reenc bs len with
    | .ok (.ok (sz, e)) => sz ++ ":" ++ (if e.isEmpty then "-" else hexOf e)
    | .ok (.error e) => "ENCERR:" ++ e.name
    | .error e => "ERR:" ++ e.name

end PyAirtouch.Model.Codecs
