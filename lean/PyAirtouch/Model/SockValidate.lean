import PyAirtouch.Model.Sock
import PyAirtouch.Spec.TraceParse
/-!
# Trace validation: does the model explain a recording of the real socket?

The harness records every asyncio task step of a run (one step = one atomic block), with the
observable events it produced and a snapshot of the socket's private fields at the suspension.
The validator replays the recording against `Sock.step`.  The schedule and the environment's
answers are inputs: for each recorded block it looks for a label (`run t answer`, or a new API
task) whose model block produces *exactly* the recorded events, snapshot and termination status.
Because some answers are indistinguishable at first (e.g. which exception ended a read), it
tracks the set of all model states consistent with the recording so far.
-/
namespace PyAirtouch.Model.SockValidate
open PyAirtouch.Model.Sock PyAirtouch.Spec.Trace

structure Snap where
  isOpen : Bool
  isConnected : Bool
  connecting : Bool
  rw : Option Nat
  queue : List (Nat × Nat × Nat)
deriving DecidableEq, Repr

def snapOf (c : Core) : Snap :=
  { isOpen := c.isOpen, isConnected := c.isConnected, connecting := c.connecting, rw := c.rw,
    queue := c.queue.map (fun e => (e.sid, e.retries, e.expiry)) }

inductive Cls
  | apiOpen | apiClose | apiReset | apiSend (sid retries life : Nat) (encOk : Bool)
  | connect | delay | read
deriving DecidableEq, Repr

structure HStep where
  hid : Nat
  cls : Cls
  done : Bool
  snap : Snap
  events : List Ev

structure Cand where
  sys : Sys
  map : List (Nat × Nat)     -- harness task id ↦ model task index

def lookup (m : List (Nat × Nat)) (h : Nat) : Option Nat := (m.find? (·.1 = h)).map (·.2)
def mapped (m : List (Nat × Nat)) (idx : Nat) : Bool := m.any (·.2 = idx)

def tagsOf (evs : List Ev) : List Nat :=
  evs.filterMap fun
    | .deliver _ tag _ => some tag
    | _ => none

def answersFor (evs : List Ev) : List Answer :=
  [.go, .openOk, .openRefused, .drainOk, .drainErr, .readBad, .readEof, .readErr] ++
    (tagsOf evs).map Answer.readMsg

/-- does the block `s → s'` of model task `idx` match the recorded step? -/
def blockMatches (s s' : Sys) (idx : Nat) (h : HStep) : Bool :=
  decide (s'.core.trace.drop s.core.trace.length = h.events) &&
  decide (snapOf s'.core = h.snap) &&
  ((pcAt s' idx == some .finished) == h.done)

def classOk (cls : Cls) (pc : Pc) : Bool :=
  match cls, pc with
  | .connect, .connStart => true
  | .delay, .connDelay _ => true
  | .read, .readStart => true
  | _, _ => false

/-- all ways task `idx` can account for the recorded block: one answer, or a silent `go` block first -/
def tryTask (c : Cand) (idx : Nat) (h : HStep) (newMap : List (Nat × Nat)) : List Cand :=
  let direct := (answersFor h.events).filterMap fun a =>
    match step c.sys (.run idx a) with
    | some s' => if blockMatches c.sys s' idx h then some { sys := s', map := newMap } else none
    | none => none
  let viaGo :=
    match step c.sys (.run idx .go) with
    | some s1 =>
      if s1.core.trace.length = c.sys.core.trace.length && decide (snapOf s1.core = snapOf c.sys.core) then
        (answersFor h.events).filterMap fun a =>
          match step s1 (.run idx a) with
          | some s' => if blockMatches c.sys s' idx h then some { sys := s', map := newMap } else none
          | none => none
      else []
    | none => []
  direct ++ viaGo

def stepCands (c : Cand) (h : HStep) : List Cand :=
  match lookup c.map h.hid with
  | some idx => tryTask c idx h c.map
  | none =>
    let apiLabel : Option Label :=
      match h.cls with
      | .apiOpen => some .apiOpen
      | .apiClose => some .apiClose
      | .apiReset => some .apiReset
      | .apiSend sid r l ok => some (.apiSend sid r l ok)
      | _ => none
    match apiLabel with
    | some l =>
      let idx := c.sys.tasks.length
      match step c.sys l with
      | some s' => if blockMatches c.sys s' idx h then [{ sys := s', map := (h.hid, idx) :: c.map }] else []
      | none => []
    | none =>
      (List.range c.sys.tasks.length).flatMap fun idx =>
        match c.sys.tasks[idx]? with
        | some k =>
          if k.bg && !mapped c.map idx && classOk h.cls k.pc then tryTask c idx h ((h.hid, idx) :: c.map) else []
        | none => []

def capN : Nat := 48

structure VS where
  cands : List Cand
  failed : Option String
  steps : Nat
  maxCands : Nat

def VS.start : VS := { cands := [{ sys := init, map := [] }], failed := none, steps := 0, maxCands := 1 }

def showSnap (s : Snap) : String :=
  s!"open={s.isOpen} conn={s.isConnected} connecting={s.connecting} w={s.rw} q={s.queue}"

def describe (c : Cand) (h : HStep) : String :=
  let idx := lookup c.map h.hid
  let pc := match idx with
    | some i => reprStr (pcAt c.sys i)
    | none => "unmapped; tasks=" ++ reprStr (c.sys.tasks.map (fun (k : Task) => k.pc))
  s!"model task pc={pc}; model snapshot before: {showSnap (snapOf c.sys.core)}"

def vStep (v : VS) (h : HStep) : VS × String :=
  match v.failed with
  | some _ => (v, "skip")
  | none =>
    let next0 := (v.cands.flatMap (fun c => stepCands c h)).take capN
    -- a task that ends without any effect (cancelled, or nothing left to do) and that the model has
    -- already retired needs no block of its own
    let quiet := v.cands.filter (fun c => decide (snapOf c.sys.core = h.snap))
    let next :=
      if h.events.isEmpty && h.done then (if next0.isEmpty then quiet else next0)
      else if h.events.isEmpty && !quiet.isEmpty then
        -- no visible effect and not finished: either a silent model block or a stutter (an
        -- asyncio-internal suspension inside one model block); keep both explanations
        (next0 ++ quiet).take capN
      else next0
    match next, v.cands with
    | [], c :: _ =>
      let msg := s!"MISMATCH step {v.steps}: no model block of task h{h.hid} produces events " ++
        s!"{h.events.map Ev.toLine} snapshot [{showSnap h.snap}] done={h.done}; {describe c h}"
      ({ v with failed := some msg }, msg)
    | [], [] => ({ v with failed := some "no candidates" }, "MISMATCH no candidates")
    | _, _ => ({ v with cands := next, steps := v.steps + 1, maxCands := max v.maxCands next.length }, "ok")

def vLabel (v : VS) (l : Label) : VS × String :=
  match v.failed with
  | some _ => (v, "skip")
  | none =>
    let next := v.cands.filterMap fun c => (step c.sys l).map fun s' => { c with sys := s' }
    match next with
    | [] =>
      let msg := s!"MISMATCH step {v.steps}: environment label {reprStr l} is not enabled in the model"
      ({ v with failed := some msg }, msg)
    | _ => ({ v with cands := next }, "ok")

/-! ### parsing -/

def parseQueue (s : String) : Option (List (Nat × Nat × Nat)) :=
  if s = "-" then some [] else
  (s.splitOn ",").mapM fun item =>
    match item.splitOn ":" with
    | [a, b, c] => do pure ((← a.toNat?), (← b.toNat?), (← c.toNat?))
    | _ => none

def parseCls (s : String) : Option Cls :=
  match s.splitOn ":" with
  | ["apiOpen"] => some .apiOpen
  | ["apiClose"] => some .apiClose
  | ["apiReset"] => some .apiReset
  | ["apiSend", a, b, c, d] => do pure (.apiSend (← a.toNat?) (← b.toNat?) (← c.toNat?) (← bool? d))
  | ["connect"] => some .connect
  | ["delay"] => some .delay
  | ["read"] => some .read
  | _ => none

def splitEvents (ws : List String) : List (List String) :=
  let rec go (cur : List String) (acc : List (List String)) : List String → List (List String)
    | [] => (if cur.isEmpty then acc else acc ++ [cur])
    | w :: rest => if w = ";" then go [] (if cur.isEmpty then acc else acc ++ [cur]) rest else go (cur ++ [w]) acc rest
  go [] [] ws

/-- `vs <hid> <cls> <done> <open> <conn> <connecting> <w|-> <queue> | ev ; ev ...` -/
def parseStep (ws : List String) : Option HStep :=
  match ws with
  | hid :: cls :: done :: o :: cn :: cg :: w :: q :: "|" :: evs => do
    let events ← (splitEvents evs).mapM parseEv
    pure { hid := ← hid.toNat?, cls := ← parseCls cls, done := ← bool? done,
           snap := { isOpen := ← bool? o, isConnected := ← bool? cn, connecting := ← bool? cg,
                     rw := if w = "-" then none else w.toNat?, queue := ← parseQueue q },
           events := events }
  | _ => none

def parseLabel (ws : List String) : Option Label :=
  match ws with
  | ["advance", t] => do pure (.advance (← t.toNat?))
  | ["envLost", c] => do pure (.envLost (← c.toNat?))
  | ["envLostRan", c] => do pure (.envLostRan (← c.toNat?))
  | ["envPause", c, b] => do pure (.envPause (← c.toNat?) (← bool? b))
  | ["envFailWrites", c, b] => do pure (.envFailWrites (← c.toNat?) (← bool? b))
  | _ => none

def vLine (v : VS) (ws : List String) : VS × String :=
  match ws with
  | ["vt-begin"] => (VS.start, "ok")
  | "vl" :: rest =>
    match parseLabel rest with
    | some l => vLabel v l
    | none => (v, "bad-label")
  | "vs" :: rest =>
    match parseStep rest with
    | some h => vStep v h
    | none => (v, "bad-step")
  | ["vt-end"] =>
    match v.failed with
    | some m => (v, m)
    | none => (v, s!"validated steps={v.steps} maxCands={v.maxCands}")
  | _ => (v, "bad-op")

end PyAirtouch.Model.SockValidate
