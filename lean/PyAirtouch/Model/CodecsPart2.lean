import PyAirtouch.Model.CodecBase
import PyAirtouch.Model.At4.X36
import PyAirtouch.Model.At4.X37
import PyAirtouch.Model.At4.FF20
import PyAirtouch.Model.At5.FF49
import PyAirtouch.Model.At5.C032
import PyAirtouch.Model.At5.C033
/-!
# Dispatch table entries, part 2: timer messages of both generations
(AT4 0x36, 0x37, 0x1FFF20; AT5 0x1FFF49, 0xC032, 0xC033)
-/
namespace PyAirtouch.Model.CodecsPart2
open PyAirtouch.Model PyAirtouch.Model.Codecs

/-- a codec for a sub-message of the AirTouch 5 control/status wrapper: the decoder sees
    `hp = [non_repeat_length, repeat_length, repeat_count]`, the size text is
    `<nonRepeatSize>:<repeatSize>:<repeatCount>` -/
def mkCS {M} (decode : Bytes → Nat → Nat → Nat → Except DecErr (M × Bytes)) (canon : M → String)
    (nonRepeatSize repeatSize repeatCount : M → Nat) (encode : M → Except EncErr Bytes) : Codec :=
  let d := fun (b : Bytes) (hp : HP) => decode b (hp.getD 0 0) (hp.getD 1 0) (hp.getD 2 0)
  { dec := fun b hp => (d b hp).map (fun p => (canon p.1, p.2.length))
    reenc := fun b hp => (d b hp).map (fun p => (encode p.1).map (fun e =>
      (toString (nonRepeatSize p.1) ++ ":" ++ toString (repeatSize p.1) ++ ":" ++ toString (repeatCount p.1), e))) }

def table : List ((Nat × String) × Codec) := [
  ((4, "36"), mk At4.X36.decode At4.X36.canon At4.X36.size At4.X36.encode),
  ((4, "37"), mk At4.X37.decode At4.X37.canon At4.X37.size At4.X37.encode),
  ((4, "FF20"), mk At4.FF20.decode At4.FF20.canon At4.FF20.size At4.FF20.encode),
  ((5, "FF49"), mk At5.FF49.decode At5.FF49.canon At5.FF49.size At5.FF49.encode),
  ((5, "C032"), mkCS At5.C032.decode At5.C032.canon At5.C032.nonRepeatSize At5.C032.repeatSize
    At5.C032.repeatCount At5.C032.encode),
  ((5, "C033"), mkCS At5.C033.decode At5.C033.canon At5.C033.nonRepeatSize At5.C033.repeatSize
    At5.C033.repeatCount At5.C033.encode)
]

end PyAirtouch.Model.CodecsPart2
