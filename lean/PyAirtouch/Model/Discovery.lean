import PyAirtouch.Gen.Discovery
import PyAirtouch.Model.Bytes
/-!
# Model of discovery: `atN/comms/discovery.py` decoders, `comms/discovery.py` (`_DiscoveryDecodeProtocol`,
`AirTouchDiscoverer.search`) and `factory.discover`

Datagrams are byte lists; text fields are kept as their UTF-8 bytes.
-/
namespace PyAirtouch.Model.Discovery
open PyAirtouch.Model PyAirtouch.Gen.Discovery

/-- `bytes.split(b",", maxsplit)` -/
def splitMax : Nat → Bytes → List Bytes
  | 0, bs => [bs]
  | n+1, bs =>
    match bs.span (· ≠ 44) with
    | (pre, []) => [pre]
    | (pre, _ :: rest) => pre :: splitMax n rest

/-- `needle in haystack` for bytes -/
def contains (needle : Bytes) : Bytes → Bool
  | [] => needle.isEmpty
  | b :: bs => (needle.isPrefixOf (b :: bs)) || contains needle bs

structure Response where
  gen : Nat
  airtouch_id : Bytes
  name : Option Bytes
  serial : Bytes
  host : Bytes
deriving DecidableEq, Repr

inductive Decoded | request | response (r : Response)
deriving DecidableEq, Repr

structure Cfg where
  gen : Nat
  requestData : Bytes
  responseId : Bytes
  responseIdStripped : Bytes
  numParts : Nat

def cfg4 : Cfg := ⟨4, At4.requestData, At4.responseId, At4.responseIdStripped, At4.numParts⟩
def cfg5 : Cfg := ⟨5, At5.requestData, At5.responseId, At5.responseIdStripped, At5.numParts⟩

/-- `DiscoveryDecoder.match` -/
def «match» (c : Cfg) (buffer : Bytes) : Bool := buffer == c.requestData || contains c.responseId buffer

def utf8 (bs : Bytes) : Except DecErr Bytes := if utf8Valid bs then .ok bs else .error .unicodeError

/-- `DiscoveryDecoder.decode` (fields are decoded in the order the Python constructor call evaluates them) -/
def decode (c : Cfg) (buffer : Bytes) : Except DecErr Decoded :=
  if buffer == c.requestData then .ok .request else
  let parts := splitMax (c.numParts - 1) buffer
  if parts.length ≠ c.numParts then .error .decodeError
  else if parts.getD 2 [] ≠ c.responseIdStripped then .error .decodeError
  else if c.gen = 4 then do
    let aid ← utf8 (parts.getD 3 [])
    let serial ← utf8 (parts.getD 1 [])
    let host ← utf8 (parts.getD 0 [])
    pure (.response { gen := 4, airtouch_id := aid, name := none, serial := serial, host := host })
  else do
    let aid ← utf8 (parts.getD 3 [])
    let name ← utf8 (parts.getD 4 [])
    let serial ← utf8 (parts.getD 1 [])
    let host ← utf8 (parts.getD 0 [])
    pure (.response { gen := 5, airtouch_id := aid, name := some name, serial := serial, host := host })

inductive Received | ignored | added (r : Response) | decodeErrorLogged | raised (e : DecErr)
deriving DecidableEq, Repr

/-- `_DiscoveryDecodeProtocol.datagram_received`: what one datagram does -/
def received (c : Cfg) (d : Bytes) : Received :=
  if !«match» c d then .ignored else
  match decode c d with
  | .ok .request => .ignored
  | .ok (.response r) => .added r
  | .error .decodeError => .decodeErrorLogged
  | .error e => .raised e            -- escapes `datagram_received`; the event loop logs it, the search goes on

def insertNew (rs : List Response) (r : Response) : List Response := if r ∈ rs then rs else rs ++ [r]

/-- `AirTouchDiscoverer.search`: arrivals `(tick, datagram)` relative to the start, in time order.
    Loop: `while not responses and count < max: count += 1; sendto; sleep(interval)`.
    Returns (instants at which the request was sent, return instant, collected responses). -/
def searchLoop (c : Cfg) (arrivals : List (Nat × Bytes)) : Nat → Nat → List Nat → List Response → List Nat × Nat × List Response
  | 0, now, sent, rs => (sent, now, rs)
  | fuel+1, now, sent, rs =>
    if !rs.isEmpty then (sent, now, rs) else
    let upto := now + requestInterval
    let got := (arrivals.filter (fun a => now ≤ a.1 ∧ a.1 < upto)).foldl
      (fun acc a => match received c a.2 with | .added r => insertNew acc r | _ => acc) rs
    searchLoop c arrivals fuel upto (sent ++ [now]) got

def search (c : Cfg) (arrivals : List (Nat × Bytes)) : List Nat × Nat × List Response :=
  searchLoop c arrivals maxRequests 0 [] []

/-- `factory.discover`: model, host, port, id, name, serial of the client built for a response -/
structure Client where
  gen : Nat
  host : Bytes
  port : Nat
  airtouch_id : Bytes
  name : Bytes
  serial : Bytes
deriving DecidableEq, Repr

def at4Name : Bytes := "AirTouch 4".toUTF8.toList.map (·.toNat)

def clientOf (r : Response) : Client :=
  if r.gen = 4 then ⟨4, r.host, At4.defaultTcpPort, r.airtouch_id, at4Name, r.serial⟩
  else ⟨5, r.host, At5.defaultTcpPort, r.airtouch_id, r.name.getD [], r.serial⟩

end PyAirtouch.Model.Discovery
