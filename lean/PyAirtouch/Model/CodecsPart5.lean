import PyAirtouch.Model.CodecBase
import PyAirtouch.Model.At5.C020
import PyAirtouch.Model.At5.C021
import PyAirtouch.Model.At5.C022
import PyAirtouch.Model.At5.C023
/-!
# Dispatch entries for the AirTouch 5 control/status sub-messages 0xC020 … 0xC023

`hp = [non_repeat_length, repeat_length, repeat_count]`; the size text of a re-encoded message is
`"<nonRepeatSize>:<repeatSize>:<repeatCount>"`.
-/
namespace PyAirtouch.Model.CodecsPart5
open PyAirtouch.Model PyAirtouch.Model.Codecs

/-- a codec of a control/status sub-message -/
def mkCs {M} (decode : Bytes → Nat → Nat → Nat → Except DecErr (M × Bytes)) (canon : M → String)
    (nonRepeatSize repeatSize repeatCount : M → Nat) (encode : M → Except EncErr Bytes) : Codec :=
  let run := fun (b : Bytes) (hp : HP) => decode b (hp.getD 0 0) (hp.getD 1 0) (hp.getD 2 0)
  { dec := fun b hp => (run b hp).map (fun p => (canon p.1, p.2.length))
    reenc := fun b hp => (run b hp).map (fun p => (encode p.1).map (fun e =>
      (toString (nonRepeatSize p.1) ++ ":" ++ toString (repeatSize p.1) ++ ":" ++ toString (repeatCount p.1), e))) }

def table : List ((Nat × String) × Codec) := [
  ((5, "C020"), mkCs At5.C020.decode At5.C020.canon At5.C020.nonRepeatSize At5.C020.repeatSize
                  At5.C020.repeatCount At5.C020.encode),
  ((5, "C021"), mkCs At5.C021.decode At5.C021.canon At5.C021.nonRepeatSize At5.C021.repeatSize
                  At5.C021.repeatCount At5.C021.encode),
  ((5, "C022"), mkCs At5.C022.decode At5.C022.canon At5.C022.nonRepeatSize At5.C022.repeatSize
                  At5.C022.repeatCount At5.C022.encode),
  ((5, "C023"), mkCs At5.C023.decode At5.C023.canon At5.C023.nonRepeatSize At5.C023.repeatSize
                  At5.C023.repeatCount At5.C023.encode)
]

end PyAirtouch.Model.CodecsPart5
