import PyAirtouch.Model.Codecs
/-!
# Run-time well-formedness of decoded messages (`wf g key hp bytes`)

The harness judges the round trip of the *implementation* only for messages whose field values lie
in their protocol domains (`WF`); each module proves `wfBool m = true ↔ WF m`.  For the two AC-ability
modules every message a decoder produces is well formed (`Lemmas.At4FF11.decode_WF`,
`Lemmas.At5FF11.decode_WF`), so the test is constantly true there.
-/
namespace PyAirtouch.Model.Codecs
open PyAirtouch.Model

def wf1 {M} (decode : Bytes → Nat → Except DecErr (M × Bytes)) (wf : M → Bool) : Bytes → HP → Option Bool :=
  fun b hp => match decode b (hp.getD 0 0) with
    | .ok (m, _) => some (wf m)
    | .error _ => none

def wf3 {M} (decode : Bytes → Nat → Nat → Nat → Except DecErr (M × Bytes)) (wf : M → Bool) : Bytes → HP → Option Bool :=
  fun b hp => match decode b (hp.getD 0 0) (hp.getD 1 0) (hp.getD 2 0) with
    | .ok (m, _) => some (wf m)
    | .error _ => none

def wfTable : List ((Nat × String) × (Bytes → HP → Option Bool)) := [
  ((4, "2A"), wf1 At4.X2A.decode At4.X2A.wfBool),
  ((4, "2B"), wf1 At4.X2B.decode At4.X2B.wfBool),
  ((4, "2C"), wf1 At4.X2C.decode At4.X2C.wfBool),
  ((4, "2D"), wf1 At4.X2D.decode At4.X2D.wfBool),
  ((4, "36"), wf1 At4.X36.decode At4.X36.wfBool),
  ((4, "37"), wf1 At4.X37.decode At4.X37.wfBool),
  ((4, "FF10"), wf1 At4.FF10.decode At4.FF10.wfBool),
  ((4, "FF11"), wf1 At4.FF11.decode (fun _ => true)),
  ((4, "FF12"), wf1 At4.FF12.decode At4.FF12.wfBool),
  ((4, "FF20"), wf1 At4.FF20.decode At4.FF20.wfBool),
  ((4, "FF30"), wf1 At4.FF30.decode At4.FF30.wfBool),
  ((5, "C020"), wf3 At5.C020.decode At5.C020.wfBool),
  ((5, "C021"), wf3 At5.C021.decode At5.C021.wfBool),
  ((5, "C022"), wf3 At5.C022.decode At5.C022.wfBool),
  ((5, "C023"), wf3 At5.C023.decode At5.C023.wfBool),
  ((5, "C032"), wf3 At5.C032.decode At5.C032.wfBool),
  ((5, "C033"), wf3 At5.C033.decode At5.C033.wfBool),
  ((5, "FF10"), wf1 At5.FF10.decode At5.FF10.wfBool),
  ((5, "FF11"), wf1 At5.FF11.decode (fun _ => true)),
  ((5, "FF13"), wf1 At5.FF13.decode At5.FF13.wfBool),
  ((5, "FF49"), wf1 At5.FF49.decode At5.FF49.wfBool),
  ((5, "FF30"), wf1 At5.FF30.decode At5.FF30.wfBool)
]

def wfCmd (g : Nat) (key : String) (hp : HP) (bs : Bytes) : String :=
  match (wfTable.find? (fun p => p.1 = (g, key))).map (·.2) with
  | none => "no-codec"
  | some f => match f bs hp with
    | some true => "1"
    | some false => "0"
    | none => "-"

end PyAirtouch.Model.Codecs
