import PyAirtouch.Model.SockX
import PyAirtouch.Model.SockValidate
/-!
# Trace validation with cancelled callers

Extends the replay of `Model/SockValidate.lean` by one line, `vl cancel <hid>`: the harness has cancelled the API task
that the recording knows as `hid` (the same task identity the `vs` lines carry; the validator maps it to the model's
task index when the task's first block is replayed).  Every candidate model state takes the label `cancel idx` of
`Sock.stepX`; a candidate in which that task is not a suspended API caller (not mapped, a background task, already
finished, or at a suspension point that is not one of `.drainAwait` / `.discWait` / `.notifyWait`) cannot follow the
recording and is discarded.  The task's last recorded block (the `CancelledError` propagating out of the coroutine: no
event, same snapshot, done) is then accepted by `vStep` as the block of a task the model has already retired.
-/
namespace PyAirtouch.Model.SockValidate
open PyAirtouch.Model.Sock PyAirtouch.Spec.Trace

def vCancel (v : VS) (hid : Nat) : VS × String :=
  match v.failed with
  | some _ => (v, "skip")
  | none =>
    let next := v.cands.filterMap fun c =>
      match lookup c.map hid with
      | some idx => (stepX c.sys (.cancel idx)).map fun s' => { c with sys := s' }
      | none => none
    match next, v.cands with
    | [], c :: _ =>
      let pc := match lookup c.map hid with
        | some i => reprStr (c.sys.tasks[i]?)
        | none => "unmapped"
      let msg := s!"MISMATCH step {v.steps}: cancellation of task h{hid} is not enabled in the model (label cancel): " ++
        s!"model task {pc}; model snapshot: {showSnap (snapOf c.sys.core)}"
      ({ v with failed := some msg }, msg)
    | [], [] => ({ v with failed := some "no candidates" }, "MISMATCH no candidates")
    | _, _ => ({ v with cands := next }, "ok")

/-- `vLine` plus `vl cancel <hid>` -/
def vLineX (v : VS) (ws : List String) : VS × String :=
  match ws with
  | ["vl", "cancel", h] =>
    match h.toNat? with
    | some hid => vCancel v hid
    | none => (v, "bad-label")
  | _ => vLine v ws

end PyAirtouch.Model.SockValidate
