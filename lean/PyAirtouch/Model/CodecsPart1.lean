import PyAirtouch.Model.CodecBase
import PyAirtouch.Model.At4.X2A
import PyAirtouch.Model.At4.X2C
import PyAirtouch.Model.At4.X2D
/-! Dispatch table entries for the AirTouch 4 group control (0x2A), AC control (0x2C) and AC status (0x2D) codecs. -/
namespace PyAirtouch.Model.CodecsPart1
open PyAirtouch.Model PyAirtouch.Model.Codecs

def table : List ((Nat × String) × Codec) := [
  ((4, "2A"), mk At4.X2A.decode At4.X2A.canon At4.X2A.size At4.X2A.encode),
  ((4, "2C"), mk At4.X2C.decode At4.X2C.canon At4.X2C.size At4.X2C.encode),
  ((4, "2D"), mk At4.X2D.decode At4.X2D.canon At4.X2D.size At4.X2D.encode)
]

end PyAirtouch.Model.CodecsPart1
