import PyAirtouch.Gen.CrcTable
/-!
# Model of `pyairtouch/comms/crc16.py`

`Crc16Modbus.calculate` and `.validate`, over Python-int-like `Nat`s and byte lists.  The table and
the checksum length come from `Gen` (regenerated from the source on every run).
-/
namespace PyAirtouch.Model
open PyAirtouch.Gen

/-- loop body of `calculate`: `index = (val ^ crc) & 0x00FF; crc >>= 8; crc ^= _CRC_TABLE[index]` -/
def crcStepTable (crc : Nat) (val : Nat) : Nat :=
  let index := (val ^^^ crc) &&& 0x00FF
  (crc >>> 8) ^^^ crcTable.getD index 0

/-- register value at the end of the loop in `calculate` -/
def crcRegister (buffer : List Nat) : Nat := buffer.foldl crcStepTable 0xFFFF

/-- `int.to_bytes(length=n, byteorder="big")`; `none` is Python's `OverflowError` -/
def toBytesBig : Nat → Nat → Option (List Nat)
  | 0, v => if v = 0 then some [] else none
  | n+1, v => (toBytesBig n (v / 256)).map (· ++ [v % 256])

/-- `Crc16Modbus.calculate`; `none` = `OverflowError` from `to_bytes` (proved unreachable) -/
def crcCalculate (buffer : List Nat) : Option (List Nat) :=
  toBytesBig crcChecksumLength (crcRegister buffer)

inductive CrcValidate | valueError | overflow | result (b : Bool)
deriving DecidableEq, Repr

/-- `Crc16Modbus.validate` -/
def crcValidate (buffer checksum : List Nat) : CrcValidate :=
  if checksum.length ≠ crcChecksumLength then .valueError
  else match crcCalculate buffer with
    | none => .overflow
    | some c => .result (c == checksum)

end PyAirtouch.Model
