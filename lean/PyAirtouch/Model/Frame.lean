import PyAirtouch.Model.Bytes
import PyAirtouch.Model.Crc
/-!
# Framing: the socket's `_write` (send path) and `_read_one_message` / `_read` (receive path)

Generic in the protocol generation: `Proto` bundles the header codec and the registry's message
decoder.  `parseOne` is `_read_one_message` on the bytes received so far; `feed` is the read loop
driven by `readexactly`: it only ever looks at the declared prefix of the stream, which is what makes
reception independent of TCP segmentation (C13).
-/
namespace PyAirtouch.Model.Frame
open PyAirtouch.Model

structure Proto (H M : Type) where
  headerLength : Nat
  decodeHdr : Bytes → Except DecErr (H × Bytes × Bytes)      -- header, remaining, checksum data
  msgLen : H → Nat
  decodeMsg : H → Bytes → Except DecErr (M × Bytes)           -- registry.get_decoder(id).decode(buffer, header)

inductive Outcome (H M : Type)
  | needMore                               -- `readexactly` still waiting
  | reject (e : Option DecErr)             -- CRC failure (`none`) or an exception: the connection is reset
  | deliver (h : H) (m : M) (rest : Bytes)

/-- `_read_one_message` on the buffered stream `bs` -/
def parseOne {H M} (p : Proto H M) (bs : Bytes) : Outcome H M :=
  if bs.length < p.headerLength then .needMore else
  let hb := bs.take p.headerLength
  let r1 := bs.drop p.headerLength
  match p.decodeHdr hb with
  | .error e => .reject (some e)
  | .ok (h, hrem, ck) =>
    if hrem ≠ [] then .reject (some .decodeError) else
    let n := p.msgLen h
    if r1.length < n + 2 then .needMore else
    let mb := r1.take n
    let crc := (r1.drop n).take 2
    let rest := r1.drop (n + 2)
    match crcValidate (ck ++ mb) crc with
    | .result true =>
      match p.decodeMsg h mb with
      | .error e => .reject (some e)
      | .ok (m, mrem) => if mrem ≠ [] then .reject (some .decodeError) else .deliver h m rest
    | .result false => .reject none
    | _ => .reject (some .valueError)

structure RState where
  buf : Bytes
  dead : Bool          -- a frame was rejected: the connection is being reset, the rest of its stream is discarded
deriving DecidableEq, Repr

/-- parse as many frames as the buffer holds -/
def parseAll {H M} (p : Proto H M) : Nat → Bytes → List (H × M) × RState
  | 0, bs => ([], ⟨bs, false⟩)
  | fuel+1, bs =>
    match parseOne p bs with
    | .needMore => ([], ⟨bs, false⟩)
    | .reject _ => ([], ⟨[], true⟩)
    | .deliver h m rest =>
      let (ds, st) := parseAll p fuel rest
      ((h, m) :: ds, st)

/-- one TCP segment arrives -/
def feed {H M} (p : Proto H M) (s : RState) (seg : Bytes) : List (H × M) × RState :=
  if s.dead then ([], s) else
  let b := s.buf ++ seg
  parseAll p (b.length + 1) b

def feedAll {H M} (p : Proto H M) (s : RState) : List Bytes → List (H × M) × RState
  | [] => ([], s)
  | seg :: segs =>
    let (d1, s1) := feed p s seg
    let (d2, s2) := feedAll p s1 segs
    (d1 ++ d2, s2)

/-- the send path: `encoded_header.header_bytes + message_bytes + crc(checksum_data + message_bytes)` -/
def frame (hdrBytes ck payload : Bytes) : Option Bytes :=
  (crcCalculate (ck ++ payload)).map (fun c => hdrBytes ++ payload ++ c)

end PyAirtouch.Model.Frame
