import PyAirtouch.Gen.Api4
import PyAirtouch.Gen.Policies
import PyAirtouch.Model.Heartbeat
import PyAirtouch.Model.At4.Registry
/-!
# Model of `pyairtouch/at4/api.py` (`At4Zone`, `At4AirConditioner`, `AirTouch4`, `_notify_subscribers`)

The real objects are run by `harness/apiharness.py` on a virtual clock over a stub socket; this file is the
executable state machine that must agree with it op for op (`harness/api_try4.py`).

## Shape

* `State`: the `_AirTouchState`, the console version, an **object heap** (`zoneObjs`, `acObjs`: every
  `At4Zone` / `At4AirConditioner` created since the last `shutdown()`, an object is named by its index) and
  the two dictionaries `_zones` / `_air_conditioners` as association lists *number → object index* in Python
  insertion order.  The heap is needed because `At4AirConditioner` objects keep references to zone
  *objects*: when the handshake is (partly) repeated - an ability message that raised `KeyError` half way, or
  `init()` called again without `shutdown()` - the dictionaries get new objects while older
  air-conditioner objects stay subscribed to the zone objects they were built with.
* subscriber sets are duplicate-free lists of `Sub` (identity = `sid`); whether a subscriber raises has no
  influence on anything the model computes (`_notify_subscribers` catches and logs) - the flag is kept only
  so that this is a statement (`Props.C12`).
* the stub socket: `sockOpen`, `sockConnected`; `subscribed` = the API object has registered its two
  callbacks with the socket (first `init()`; never undone).
* tasks: `initWaits` (deadline of every `init()` still inside `wait_for`), `pollCur` (deadline of
  `self._group_status_request_task` while it is alive) and `pollOrphans` (older poll tasks that were never
  cancelled because `CONNECTED` was reached again without a `shutdown()`), the embedded heartbeat `hb`.
* time is in ticks of 1/8 s; `adv n` performs `n` single `tick`s.  Inside one tick the order is: heartbeat
  timeout, group polls, `init()` timeouts, heartbeat beat.  (Determined experimentally on CPython 3.12: the
  first three wake their task in the loop iteration after the timer, in timer order, and with the pinned
  constants 2640 > 2400 > 40 the timer armed first wins a tie; the beat needs four more iterations.)

## Modelling decisions / limits

* `update_*` raise `ValueError` when the record's number differs from the object's: unreachable because the
  object stored under key `k` always carries number `k` (the heap invariant `Lemmas.Api4.Inv`, proved to hold
  initially and to be preserved by every step in `Lemmas/Api4Inv.lean`); not modelled.
* sends made by the message handler and by the timers are not checked against `sockOpen` (the stub raises
  `NotOpenError` when closed): in reachable states a state `≠ CLOSED`, a running heartbeat, a live current poll
  task and a non-empty air-conditioner dictionary all imply an open socket (`init()` opens it, only `shutdown()`
  closes it, and `shutdown()` resets all four).  This is not proved; the differential exercises `conn` / `msg` /
  `adv` after `shutdown()` and before `init()`.  The connection handler, the public calls and *orphaned* poll
  tasks do check `sockOpen`, because there the closed case is reachable (`conn 1` after `shutdown()`,
  `check_for_updates()` before `init()`, …).
* `groups : Optional[set[int]]`: the order in which `_process_ac_ability_message` walks the set is CPython's
  hash-table order (`pySetOrder`): ascending when the set has five or more elements (table of 32 slots),
  slot order `g mod 8` with the `5i+1` probe sequence otherwise.  Exact for what the decoder builds
  (elements inserted in ascending order, all below 16).
* `next_quick_timer` builds `datetime.time(hour, minute)`: `ValueError` for hour ≥ 24 / minute ≥ 60, values the
  timer-status decoder does produce (5 / 6 bit fields).  The harness would crash on `view` there; the model
  answers `RESULT ValueError`.
-/
namespace PyAirtouch.Model.Api4
open PyAirtouch PyAirtouch.Model PyAirtouch.Gen
open PyAirtouch.Model.At4
open PyAirtouch.Model.TimerCommon (AcTimerState AcTimerStatusData)

abbrev RMsg := At4.Registry.Msg
abbrev AState := Gen.Api4.AirTouchState

/-! ## outputs -/

inductive Policy | idempotent | nonIdempotent | connected
deriving DecidableEq, Repr

/-- the `RetryPolicy` object as (max_retries, max_lifetime in ticks) -/
def Policy.pair : Policy → Nat × Nat
  | .idempotent => Gen.retryIdempotent
  | .nonIdempotent => Gen.retryNonIdempotent
  | .connected => Gen.retryConnected

def Policy.name : Policy → String
  | .idempotent => "IDEMPOTENT"
  | .nonIdempotent => "NON_IDEMPOTENT"
  | .connected => "CONNECTED"

/-- what is handed to `socket.send` -/
inductive OutMsg
  | reg (m : RMsg)
  /-- `GroupControlMessage(group, UNCHANGED, TEMPERATURE, GroupSetPointControl(v))` with `v < 0`
      (`At4Zone.set_target_temperature` does not clamp; `X2A.Msg` only has natural set-points) -/
  | zoneSetPointNeg (group : Nat) (v : Int)
deriving DecidableEq, Repr

def OutMsg.canon : OutMsg → String
  | .reg m => At4.Registry.canonMsg m
  | .zoneSetPointNeg g v =>
    cObj "GroupControlMessage" [("group_number", cNat g),
      ("power", Gen.At4.X2AGroupCtrl.GroupPowerControl.UNCHANGED.name),
      ("control_method", Gen.At4.X2AGroupCtrl.GroupControlMethod.TEMPERATURE.name),
      ("setting", cObj "GroupSetPointControl" [("set_point", cInt v)])]

inductive Exc | keyError | valueError | notOpen
deriving DecidableEq, Repr

def Exc.name : Exc → String
  | .keyError => "KeyError"
  | .valueError => "ValueError"
  | .notOpen => "NotOpenError"

inductive Ev
  | send (p : Policy) (m : OutMsg)
  | notifyAt (sid : String)
  /-- `general = true`: a subscriber of `subscribe`; `false`: of `subscribe_ac_state` -/
  | notifyAc (acId : Nat) (general : Bool) (sid : String)
  | notifyZone (zoneId : Nat) (sid : String)
  | opened | closed | reset | hbStart | hbStop
  | result (text : String)
  | view (text : String)
  | undecodable (cls : String)
  | subscriberExc (cls : String)
deriving DecidableEq, Repr

def Ev.isNotify : Ev → Bool
  | .notifyAt _ | .notifyAc _ _ _ | .notifyZone _ _ => true
  | _ => false

def Ev.isSend : Ev → Bool
  | .send _ _ => true
  | _ => false

/-! ## objects -/

structure Sub where
  sid : String
  raises : Bool
deriving DecidableEq, Repr

/-- `set.add` (an equal element already present is kept) -/
def subAdd (l : List Sub) (s : Sub) : List Sub := if l.any (fun x => x.sid == s.sid) then l else l ++ [s]

/-- `set.discard` -/
def subRemove (l : List Sub) (sid : String) : List Sub := l.filter (fun x => !(x.sid == sid))

structure ZoneObj where
  name : Bytes
  status : X2B.GroupStatusData
  subs : List Sub
deriving DecidableEq, Repr

structure AcObj where
  status : X2D.AcStatusData
  timer : AcTimerStatusData
  errInfo : Option Bytes
  /-- `self._zones`: zone object indices -/
  zones : List Nat
  ability : FF11.AcAbility
  supportedModes : List ApiEnums.AcMode
  supportedFanSpeeds : List ApiEnums.AcFanSpeed
  subs : List Sub
  stateSubs : List Sub
deriving DecidableEq, Repr

structure State where
  st : AState
  version : FF30.ConsoleVersionMessage
  zoneObjs : List ZoneObj
  acObjs : List AcObj
  zoneDict : List (Nat × Nat)
  acDict : List (Nat × Nat)
  subs : List Sub
  initialised : Bool
  initWaits : List Nat
  pollCur : Option Nat
  pollOrphans : List Nat
  hb : Heartbeat.HB
  sockOpen : Bool
  sockConnected : Bool
  subscribed : Bool
  now : Nat
  /-- constructor arguments (UTF-8 bytes) -/
  airtouchId : Bytes
  serial : Bytes
  name : Bytes
  host : Bytes

/-- `AirTouch4(loop, "at-id-1", "serial-1", "AirTouch 4", socket)` with `socket.host = "console.local"`,
    as the harness builds it -/
def State.initial : State :=
  { st := .CLOSED
    version := { update_available := false, versions := [] }
    zoneObjs := [], acObjs := [], zoneDict := [], acDict := [], subs := []
    initialised := false, initWaits := [], pollCur := none, pollOrphans := []
    hb := Heartbeat.init Gen.heartbeatDefaultIntervalField Gen.heartbeatDefaultTimeoutField
    sockOpen := false, sockConnected := false, subscribed := false, now := 0
    airtouchId := "at-id-1".toUTF8.toList.map (·.toNat)
    serial := "serial-1".toUTF8.toList.map (·.toNat)
    name := "AirTouch 4".toUTF8.toList.map (·.toNat)
    host := "console.local".toUTF8.toList.map (·.toNat) }

/-- `At4Zone.__init__` -/
def mkZone (group : Nat) (name : Bytes) : ZoneObj :=
  { name := name
    status := { group_number := group, power_state := .OFF, control_method := .DAMPER, spill_active := false,
                supports_turbo := false, has_sensor := false, battery_status := .NORMAL,
                temperature := some 0, damper_percentage := 0, set_point := none }
    subs := [] }

def lookupE {α β} [BEq α] (tbl : List (α × β)) (k : α) : Except Exc β :=
  match tbl.lookup k with
  | some v => .ok v
  | none => .error .keyError

/-- `[api for api, ctl in mapping.items() if support[ctl]]`; `none` = `KeyError` -/
def supportedOf {α β} [BEq β] (mapping : List (α × β)) (support : List (β × Bool)) : Option (List α) :=
  (mapping.mapM fun p => (support.lookup p.2).map fun b => (p.1, b)).map
    fun l => (l.filter (·.2)).map (·.1)

/-- `At4AirConditioner.__init__`; `none` = `KeyError` from an ability mapping without the key -/
def mkAc (ab : FF11.AcAbility) (zones : List Nat) : Option AcObj := do
  let modes ← supportedOf Api4.API_MODE_CONTROL_MAPPING ab.ac_mode_support
  let fans ← supportedOf Api4.API_FAN_SPEED_CONTROL_MAPPING ab.fan_speed_support
  pure { status := { ac_number := ab.ac_number, power_state := .OFF, mode := .AUTO, fan_speed := .AUTO,
                     spill_active := false, timer_set := false, set_point := 0, temperature := 0,
                     error_code := 0 }
         timer := { ac_number := ab.ac_number, on_timer := { disabled := true, hour := 0, minute := 0 },
                    off_timer := { disabled := true, hour := 0, minute := 0 } }
         errInfo := none, zones := zones, ability := ab
         supportedModes := modes, supportedFanSpeeds := fans, subs := [], stateSubs := [] }

/-! ## getters (`Except`: a mapping table without the key is `KeyError`) -/

def ZoneObj.zoneId (z : ZoneObj) : Nat := z.status.group_number

/-- `supported_power_states` -/
def ZoneObj.supportedPowerStates (z : ZoneObj) : List ApiEnums.ZonePowerState :=
  [.OFF, .ON] ++ (if z.status.supports_turbo then [.TURBO] else [])

def ZoneObj.powerState (z : ZoneObj) : Except Exc ApiEnums.ZonePowerState :=
  lookupE Api4.ZONE_POWER_STATE_MAPPING z.status.power_state

def ZoneObj.controlMethod (z : ZoneObj) : Except Exc ApiEnums.ZoneControlMethod :=
  lookupE Api4.ZONE_CONTROL_METHOD_MAPPING z.status.control_method

def ZoneObj.batteryStatus (z : ZoneObj) : Except Exc ApiEnums.SensorBatteryStatus :=
  lookupE Api4.SENSOR_BATTERY_STATUS_MAPPING z.status.battery_status

def AcObj.acId (a : AcObj) : Nat := a.status.ac_number

/-- `supported_power_controls = list(_API_POWER_CONTROL_MAPPING.keys())` -/
def supportedPowerControls : List ApiEnums.AcPowerControl := Api4.API_POWER_CONTROL_MAPPING.map (·.1)

def AcObj.powerState (a : AcObj) : Except Exc ApiEnums.AcPowerState :=
  lookupE Api4.AC_POWER_STATE_MAPPING a.status.power_state

def AcObj.selectedMode (a : AcObj) : Except Exc ApiEnums.AcMode :=
  lookupE Api4.AC_SELECTED_MODE_MAPPING a.status.mode

def AcObj.activeMode (a : AcObj) : Except Exc ApiEnums.AcMode :=
  lookupE Api4.AC_ACTIVE_MODE_MAPPING a.status.mode

/-- `selected_fan_speed` and `active_fan_speed` are the same expression -/
def AcObj.fanSpeed (a : AcObj) : Except Exc ApiEnums.AcFanSpeed :=
  lookupE Api4.AC_FAN_SPEED_MAPPING a.status.fan_speed

def AcObj.spillState (a : AcObj) : ApiEnums.AcSpillState := if a.status.spill_active then .SPILL else .NONE

def AcObj.timerState (a : AcObj) : ApiEnums.AcTimerType → AcTimerState
  | .OFF_TIMER => a.timer.off_timer
  | .ON_TIMER => a.timer.on_timer

/-- `next_quick_timer`: `None` when disabled, else `datetime.time(hour, minute)` (`ValueError` out of range) -/
def AcObj.nextQuickTimer (a : AcObj) (tt : ApiEnums.AcTimerType) : Except Exc (Option (Nat × Nat)) :=
  let t := a.timerState tt
  if t.disabled then .ok none
  else if t.hour < 24 ∧ t.minute < 60 then .ok (some (t.hour, t.minute))
  else .error .valueError

/-- `error_info`: `(code, description)` iff the status has an error code -/
def AcObj.errorInfo (a : AcObj) : Option (Nat × Option Bytes) :=
  if a.status.error_code ≠ 0 then some (a.status.error_code, a.errInfo) else none

/-! ## canonical VIEW text (`view_zone` / `view_ac` / `view_at` of the harness) -/

def viewZone (z : ZoneObj) : Except Exc String := do
  let ps ← z.powerState
  let cm ← z.controlMethod
  let bat ← z.batteryStatus
  pure ("Zone(" ++ ",".intercalate [
    "zone_id=" ++ cNat z.zoneId, "name=" ++ cStr z.name,
    "supported_power_states=" ++ cList ApiEnums.ZonePowerState.name z.supportedPowerStates,
    "power_state=" ++ ps.name, "control_method=" ++ cm.name,
    "has_temp_sensor=" ++ cBool z.status.has_sensor, "sensor_battery_status=" ++ bat.name,
    "current_temperature=" ++ cOpt cTenths z.status.temperature,
    "target_temperature=" ++ cOpt (fun (n : Nat) => cTenths (10 * (n : Int))) z.status.set_point,
    "target_temperature_resolution=" ++ cTenths Api4.TARGET_TEMPERATURE_RESOLUTION_tenths,
    "current_damper_percentage=" ++ cNat z.status.damper_percentage,
    "spill_active=" ++ cBool z.status.spill_active] ++ ")")

def viewTimer : Option (Nat × Nat) → String
  | none => "None"
  | some (h, m) => "tm" ++ toString h ++ ":" ++ toString m

def viewErr : Option (Nat × Option Bytes) → String
  | none => "None"
  | some (c, d) => "Err(code=" ++ cNat c ++ ",description=" ++ cOpt cStr d ++ ")"

def viewAc (zoneObjs : List ZoneObj) (a : AcObj) : Except Exc String := do
  let ps ← a.powerState
  let sm ← a.selectedMode
  let am ← a.activeMode
  let fs ← a.fanSpeed
  let offT ← a.nextQuickTimer .OFF_TIMER
  let onT ← a.nextQuickTimer .ON_TIMER
  let zs ← (a.zones.filterMap (zoneObjs[·]?)).mapM viewZone
  pure ("AC(" ++ ",".intercalate [
    "ac_id=" ++ cNat a.acId, "name=" ++ cStr a.ability.ac_name,
    "supported_power_controls=" ++ cList ApiEnums.AcPowerControl.name supportedPowerControls,
    "supported_modes=" ++ cList ApiEnums.AcMode.name a.supportedModes,
    "supported_fan_speeds=" ++ cList ApiEnums.AcFanSpeed.name a.supportedFanSpeeds,
    "power_state=" ++ ps.name, "selected_mode=" ++ sm.name, "active_mode=" ++ am.name,
    "selected_fan_speed=" ++ fs.name, "active_fan_speed=" ++ fs.name,
    "current_temperature=" ++ cTenths a.status.temperature,
    "target_temperature=" ++ cTenths (10 * (a.status.set_point : Int)),
    "target_temperature_resolution=" ++ cTenths Api4.TARGET_TEMPERATURE_RESOLUTION_tenths,
    "min_target_temperature=" ++ cTenths (10 * (a.ability.min_set_point : Int)),
    "max_target_temperature=" ++ cTenths (10 * (a.ability.max_set_point : Int)),
    "spill_state=" ++ a.spillState.name,
    "off_timer=" ++ viewTimer offT, "on_timer=" ++ viewTimer onT,
    "error_info=" ++ viewErr a.errorInfo,
    "zones=[" ++ ",".intercalate zs ++ "]"] ++ ")")

/-- `air_conditioners`: the objects of `_air_conditioners.values()` -/
def State.airConditioners (s : State) : List AcObj := s.acDict.filterMap fun p => s.acObjs[p.2]?

def viewAt (s : State) : Except Exc String := do
  let acs ← s.airConditioners.mapM (viewAc s.zoneObjs)
  pure ("AirTouch(" ++ ",".intercalate [
    "initialised=" ++ cBool s.initialised, "airtouch_id=" ++ cStr s.airtouchId, "serial=" ++ cStr s.serial,
    "name=" ++ cStr s.name, "host=" ++ cStr s.host, "model=" ++ ApiEnums.AirTouchModel.AIRTOUCH_4.name,
    "update_available=" ++ cBool s.version.update_available,
    "console_versions=" ++ cList cStr s.version.versions,
    "air_conditioners=[" ++ ",".intercalate acs ++ "]"] ++ ")")

/-! ## requests -/

def versionRequest : OutMsg := .reg (.extended (.consoleVer .request))
def namesRequest : OutMsg := .reg (.extended (.groupNames (.request { group_number := none })))
def abilityRequest : OutMsg := .reg (.extended (.acAbility (.request none)))
def acStatusRequest : OutMsg := .reg (.acStatus .request)
def timerStatusRequest : OutMsg := .reg (.acTimerStatus .request)
def groupStatusRequest : OutMsg := .reg (.groupStatus .request)
def errInfoRequest (ac : Nat) : OutMsg := .reg (.extended (.errInfo (.request { ac_number := ac })))

/-! ## notifications -/

/-- `self._subscribers.union(self._subscribers_ac_state)`, each called with `self.ac_id` -/
def notifyAcAll (a : AcObj) : List Ev :=
  (a.subs.map fun sb => Ev.notifyAc a.acId true sb.sid) ++ (a.stateSubs.map fun sb => Ev.notifyAc a.acId false sb.sid)

/-- `_zone_updated`: the general subscribers only -/
def notifyAcGeneral (a : AcObj) : List Ev := a.subs.map fun sb => Ev.notifyAc a.acId true sb.sid

/-- the air-conditioner objects whose `_zone_updated` is subscribed to zone object `zi` -/
def acsOfZone (s : State) (zi : Nat) : List AcObj := s.acObjs.filter fun a => a.zones.contains zi

/-! ## record updates -/

/-- the object `_air_conditioners.get(k)` -/
def State.findAc (s : State) (k : Nat) : Option AcObj := (s.acDict.lookup k).bind (s.acObjs[·]?)

/-- the object `_zones.get(k)` -/
def State.zoneOf (s : State) (k : Nat) : Option ZoneObj := (s.zoneDict.lookup k).bind (s.zoneObjs[·]?)

/-- the object `_air_conditioners[k]` becomes `a'` (mutation of the object in place) -/
def State.setAc (s : State) (k : Nat) (a' : AcObj) : State :=
  match s.acDict.lookup k with
  | some i => { s with acObjs := s.acObjs.set i a' }
  | none => s

/-- the object `_zones[k]` becomes `z'` -/
def State.setZone (s : State) (k : Nat) (z' : ZoneObj) : State :=
  match s.zoneDict.lookup k with
  | some i => { s with zoneObjs := s.zoneObjs.set i z' }
  | none => s

/-- `At4AirConditioner.update_ac_status` on the object `_air_conditioners.get(r.ac_number)` -/
def updateAcStatus (s : State) (r : X2D.AcStatusData) : State × List Ev :=
  match s.findAc r.ac_number with
  | none => (s, [])
  | some a =>
    if a.status = r then (s, [])
    else
      let a' := { a with status := r, errInfo := if r.error_code ≠ 0 then a.errInfo else none }
      (s.setAc r.ac_number a',
       (if r.error_code ≠ 0 then [Ev.send .connected (errInfoRequest r.ac_number)] else []) ++ notifyAcAll a')

/-- `update_ac_timer_status` -/
def updateAcTimer (s : State) (r : AcTimerStatusData) : State × List Ev :=
  match s.findAc r.ac_number with
  | none => (s, [])
  | some a =>
    if a.timer = r then (s, [])
    else
      let a' := { a with timer := r }
      (s.setAc r.ac_number a', notifyAcAll a')

/-- `_process_ac_error_info_message` / `update_ac_error_info` -/
def updateErrInfo (s : State) (m : FF10.AcErrorInformationMessage) : State × List Ev :=
  match s.findAc m.ac_number with
  | none => (s, [])
  | some a =>
    if a.errInfo = m.error_info then (s, [])
    else
      let a' := { a with errInfo := m.error_info }
      (s.setAc m.ac_number a', notifyAcAll a')

/-- the air-conditioner objects whose `_zone_updated` is subscribed to the zone object `_zones[k]` -/
def acsOfZoneKey (s : State) (k : Nat) : List AcObj :=
  match s.zoneDict.lookup k with
  | some zi => acsOfZone s zi
  | none => []

/-- `At4Zone.update_group_status` on `_zones.get(g.group_number)`; the zone's subscriber set holds the external
    subscribers and the `_zone_updated` of every air-conditioner object built with this zone object -/
def updateGroupStatus (s : State) (g : X2B.GroupStatusData) : State × List Ev :=
  match s.zoneOf g.group_number with
  | none => (s, [])
  | some z =>
    if z.status = g then (s, [])
    else
      (s.setZone g.group_number { z with status := g },
       (z.subs.map fun sb => Ev.notifyZone g.group_number sb.sid) ++
         (acsOfZoneKey s g.group_number).flatMap notifyAcGeneral)

/-- `_process_console_version_update` -/
def updateVersion (s : State) (v : FF30.ConsoleVersionMessage) : State × List Ev :=
  if s.version = v then (s, [])
  else ({ s with version := v }, s.subs.map fun sb => Ev.notifyAt sb.sid)

/-- a `for record in records: await update(record)` loop -/
def foldEv {α} (f : State → α → State × List Ev) (s : State) : List α → State × List Ev
  | [] => (s, [])
  | x :: xs =>
    let r := f s x
    let r' := foldEv f r.1 xs
    (r'.1, r.2 ++ r'.2)

/-! ## handshake: names and abilities -/

/-- one iteration of `_process_group_names_message`: a new zone object under the group number -/
def addZone (s : State) (p : Nat × Bytes) : State :=
  { s with zoneObjs := s.zoneObjs ++ [mkZone p.1 p.2], zoneDict := dictInsert s.zoneDict p.1 s.zoneObjs.length }

def processGroupNames (s : State) (names : List (Nat × Bytes)) : State := names.foldl addZone s

def probeNext (i : Nat) : Nat := (i * 5 + 1) % 8

/-- CPython `set_add_entry` for a small int in a table of 8 slots (no linear probing at this size) -/
def setInsert8 : Nat → List (Option Nat) → Nat → Nat → List (Option Nat)
  | 0, tbl, _, _ => tbl
  | fuel+1, tbl, i, v =>
    match tbl.getD i none with
    | none => tbl.set i (some v)
    | some w => if w = v then tbl else setInsert8 fuel tbl (probeNext i) v

/-- iteration order of the `set[int]` the ability decoder builds from the ascending list `gs` -/
def pySetOrder (gs : List Nat) : List Nat :=
  if gs.length ≤ 4 then
    (gs.foldl (fun t v => setInsert8 8 t (v % 8) v) (List.replicate 8 none)).filterMap id
  else gs

/-- the zone objects of one ability record; `none` = `KeyError` (`self._zones[zone_id]`) -/
def zonesForAbility (s : State) (single : Bool) (ab : FF11.AcAbility) : Option (List Nat) :=
  match ab.groups with
  | some gs => (pySetOrder gs).mapM fun g => s.zoneDict.lookup g
  | none =>
    if single then some (s.zoneDict.map (·.2))
    else (List.range' ab.start_group ab.group_count).mapM fun g => s.zoneDict.lookup g

/-- one iteration of `_process_ac_ability_message` -/
def addAc (s : State) (single : Bool) (ab : FF11.AcAbility) : Option State := do
  let zs ← zonesForAbility s single ab
  let a ← mkAc ab zs
  pure { s with acObjs := s.acObjs ++ [a], acDict := dictInsert s.acDict ab.ac_number s.acObjs.length }

/-- the loop; `false` = a `KeyError` propagated (the objects created before it stay) -/
def processAbility (s : State) (single : Bool) : List FF11.AcAbility → State × Bool
  | [] => (s, true)
  | ab :: rest =>
    match addAc s single ab with
    | none => (s, false)
    | some s' => processAbility s' single rest

/-! ## heartbeat wrappers (the embedded `Heartbeat.HB`) -/

def hbApply (h : Heartbeat.HB) (l : Heartbeat.Label) : Heartbeat.HB := (Heartbeat.step h l).getD h

def hbIdle (h : Heartbeat.HB) : Bool := h.tl == .idle && h.hl == .idle

/-- the heartbeat message and `is_heartbeat_response` of `AirTouch4.__init__` -/
def hbMessage : OutMsg := versionRequest

def isHeartbeatResponse : RMsg → Bool
  | .extended sub => sub.messageId == Gen.At4.X1FFF30ConsoleVer.MESSAGE_ID
  | _ => false

/-- `HeartbeatManager.start()`: when idle, both loops take their first step at once - the first beat is
    sent immediately if the socket is connected -/
def hbStart (s : State) : State × List Ev :=
  if hbIdle s.hb then
    let h := hbApply { s.hb with now := s.now } .start
    let h := hbApply h .hlBeat
    ({ s with hb := h }, if s.sockConnected then [Ev.send .connected hbMessage] else [])
  else (s, [])

/-! ## the message handler `_message_received` -/

/-- `INIT_GROUP_STATUS` + group status: `CONNECTED`, heartbeat start, new poll task, initialised event -/
def enterConnected (s : State) : State × List Ev :=
  let s1 : State := { s with st := .CONNECTED
                             pollOrphans := s.pollOrphans ++ s.pollCur.toList
                             pollCur := some (s.now + Api4.GROUP_STATUS_TIMEOUT)
                             initialised := true
                             initWaits := [] }
  let r := hbStart s1
  (r.1, [Ev.hbStart] ++ s.initWaits.map (fun _ => Ev.result "init True") ++ r.2)

/-- `_group_status_received_event.set()`: every live poll task re-arms its timeout -/
def rearmPolls (s : State) : State :=
  { s with pollCur := s.pollCur.map (fun _ => s.now + Api4.GROUP_STATUS_TIMEOUT)
           pollOrphans := s.pollOrphans.map (fun _ => s.now + Api4.GROUP_STATUS_TIMEOUT) }

def processTimers (s : State) (l : List AcTimerStatusData) : State × List Ev × Option Exc :=
  if s.st = .INIT_AC_TIMER_STATUS then
    let r := foldEv updateAcTimer s l
    ({ r.1 with st := .INIT_GROUP_STATUS }, r.2 ++ [Ev.send .connected groupStatusRequest], none)
  else if s.st = .CONNECTED then
    let r := foldEv updateAcTimer s l
    (r.1, r.2, none)
  else (s, [], none)

def onMessage (s : State) (m : RMsg) : State × List Ev × Option Exc :=
  match m with
  | .extended (.consoleVer (.message v)) =>
    if s.st = .INIT_VERSION then
      ({ s with version := v, st := .INIT_GROUP_NAMES }, [Ev.send .connected namesRequest], none)
    else if s.st = .CONNECTED then
      let r := updateVersion s v
      (r.1, r.2, none)
    else (s, [], none)
  | .extended (.groupNames (.message n)) =>
    if s.st = .INIT_GROUP_NAMES then
      ({ processGroupNames s n.group_names with st := .INIT_AC_ABILITY }, [Ev.send .connected abilityRequest], none)
    else (s, [], none)
  | .extended (.acAbility (.ability acs)) =>
    if s.st = .INIT_AC_ABILITY then
      match processAbility s (acs.length == 1) acs with
      | (s', true) => ({ s' with st := .INIT_AC_STATUS }, [Ev.send .connected acStatusRequest], none)
      | (s', false) => (s', [], some .keyError)
    else (s, [], none)
  | .acStatus (.status l) =>
    if s.st = .INIT_AC_STATUS then
      let r := foldEv updateAcStatus s l
      ({ r.1 with st := .INIT_AC_TIMER_STATUS }, r.2 ++ [Ev.send .connected timerStatusRequest], none)
    else if s.st = .CONNECTED then
      let r := foldEv updateAcStatus s l
      (r.1, r.2, none)
    else (s, [], none)
  | .acTimerStatus (.status l) => processTimers s l
  /- `AcTimerControlMessage` is a subclass of `AcTimerStatusMessage`: the class pattern matches it -/
  | .acTimerCtrl c => processTimers s c.ac_timer_status
  | .groupStatus (.status l) =>
    if s.st = .INIT_GROUP_STATUS then
      let r := foldEv updateGroupStatus s l
      let r' := enterConnected r.1
      (r'.1, r.2 ++ r'.2, none)
    else if s.st = .CONNECTED then
      let r := foldEv updateGroupStatus (rearmPolls s) l
      (r.1, r.2, none)
    else (s, [], none)
  | .extended (.errInfo (.message e)) =>
    let r := updateErrInfo s e
    (r.1, r.2, none)
  | _ => (s, [], none)

/-- the heartbeat manager's `_message_received` (subscribed while it runs), then its timeout loop consumes
    the event -/
def hbOnMessage (s : State) (m : RMsg) : State :=
  if isHeartbeatResponse m then
    { s with hb := hbApply (hbApply { s.hb with now := s.now } .response) .tlWake }
  else s

/-- a decoded message is delivered to the socket's message subscribers -/
def recv (s : State) (m : RMsg) : State × List Ev :=
  let r := if s.subscribed then onMessage s m else (s, [], none)
  let evs := r.2.1 ++ (match r.2.2 with | some e => [Ev.subscriberExc e.name] | none => [])
  (hbOnMessage r.1 m, evs)

/-! ## connection changes -/

/-- `_connection_changed` -/
def onConn (s : State) (up : Bool) : State × List Ev :=
  if !s.subscribed then (s, [])
  else if up && s.st == .CONNECTING then
    if s.sockOpen then ({ s with st := .INIT_VERSION }, [Ev.send .connected versionRequest])
    else ({ s with st := .INIT_VERSION }, [Ev.subscriberExc Exc.notOpen.name])
  else if up then
    if s.sockOpen then (s, [Ev.send .connected acStatusRequest, Ev.send .connected groupStatusRequest])
    else (s, [Ev.subscriberExc Exc.notOpen.name])
  else (s, [])

/-! ## timers -/

/-- one poll task whose `asyncio.timeout` is at `d`, at time `t`: new deadline (`none` = the task died with
    `NotOpenError`) and what it sent -/
def firePoll (connected sockOpen : Bool) (t d : Nat) : Option Nat × List Ev :=
  if d ≤ t then
    if connected then
      if sockOpen then (some (t + Api4.GROUP_STATUS_TIMEOUT), [Ev.send .connected groupStatusRequest])
      else (none, [])
    else (some (t + Api4.GROUP_STATUS_TIMEOUT), [])
  else (some d, [])

def fireHbTimeout (s : State) : State × List Ev :=
  match s.hb.tl with
  | .waiting d =>
    if d ≤ s.now then
      if s.sockConnected then
        ({ s with hb := hbApply (hbApply s.hb .tlFire) .tlResetDone }, [Ev.reset])
      else ({ s with hb := hbApply s.hb .tlFire }, [])
    else (s, [])
  | _ => (s, [])

def fireBeat (s : State) : State × List Ev :=
  match s.hb.hl with
  | .sleeping u =>
    if u ≤ s.now then
      ({ s with hb := hbApply s.hb .hlBeat }, if s.sockConnected then [Ev.send .connected hbMessage] else [])
    else (s, [])
  | .idle => (s, [])

def firePolls (s : State) : State × List Ev :=
  let orph := s.pollOrphans.map (firePoll s.sockConnected s.sockOpen s.now)
  let cur := s.pollCur.map (firePoll s.sockConnected s.sockOpen s.now)
  ({ s with pollOrphans := orph.filterMap (·.1), pollCur := cur.bind (·.1) },
   orph.flatMap (·.2) ++ (match cur with | some c => c.2 | none => []))

def fireInitWaits (s : State) : State × List Ev :=
  ({ s with initWaits := s.initWaits.filter (fun d => !decide (d ≤ s.now)) },
   (s.initWaits.filter (fun d => decide (d ≤ s.now))).map fun _ => Ev.result ("init " ++ cBool s.initialised))

/-- the clock moves one tick; everything that is due fires -/
def tick (s : State) : State × List Ev :=
  let s0 : State := { s with now := s.now + 1, hb := { s.hb with now := s.now + 1 } }
  let r1 := fireHbTimeout s0
  let r2 := firePolls r1.1
  let r3 := fireInitWaits r2.1
  let r4 := fireBeat r3.1
  (r4.1, r1.2 ++ r2.2 ++ r3.2 ++ r4.2)

def advance : Nat → State → State × List Ev
  | 0, s => (s, [])
  | n+1, s =>
    let r := tick s
    let r' := advance n r.1
    (r'.1, r.2 ++ r'.2)

/-! ## public calls -/

inductive Call
  | atCheckForUpdates
  | acSetPower (ac : Nat) (p : ApiEnums.AcPowerControl)
  | acSetMode (ac : Nat) (m : ApiEnums.AcMode) (powerOn : Bool)
  | acSetFanSpeed (ac : Nat) (f : ApiEnums.AcFanSpeed)
  /-- temperature in hundredths of a degree -/
  | acSetTemp (ac : Nat) (hundredths : Int)
  | acSetTimerTime (ac : Nat) (tt : ApiEnums.AcTimerType) (hour minute : Nat)
  | acSetTimerDuration (ac : Nat) (tt : ApiEnums.AcTimerType) (seconds : Nat)
  | acClearTimer (ac : Nat) (tt : ApiEnums.AcTimerType)
  | zoneSetPower (zone : Nat) (p : ApiEnums.ZonePowerState)
  | zoneSetTemp (zone : Nat) (hundredths : Int)
  | zoneSetDamper (zone : Nat) (percentage : Int)
deriving DecidableEq, Repr

/-- Python `round(x)` (half to even) of the decimal `h / 100` -/
def roundHundredths (h : Int) : Int :=
  let q := h / 100          -- floor
  let r := h % 100          -- 0 ≤ r < 100
  if r < 50 then q else if r > 50 then q + 1 else if q % 2 = 0 then q else q + 1

/- the harness's `_ac(i)` is `State.findAc` -/

/-- the harness's `_zone(i)`: the first zone object with this id among the air-conditioners' zones -/
def State.findZone (s : State) (i : Nat) : Option Nat :=
  (s.airConditioners.flatMap (·.zones)).find? fun zi =>
    match s.zoneObjs[zi]? with
    | some z => z.zoneId == i
    | none => false

/-- `_send_ac_control_message` -/
def acControl (a : AcObj) (power : Gen.At4.X2CAcCtrl.AcPowerControl) (mode : Gen.At4.X2CAcCtrl.AcModeControl)
    (fan : Gen.At4.X2CAcCtrl.AcFanSpeedControl) (sp : X2C.AcSetPointControl) : Policy × OutMsg :=
  let pol := if (match sp with | .incDec _ => true | _ => false) || power == .TOGGLE
             then Policy.nonIdempotent else Policy.idempotent
  (pol, .reg (.acCtrl { ac_number := a.acId, power := power, mode := mode, fan_speed := fan, set_point_control := sp }))

/-- `_send_group_control_message` -/
def groupControl (z : ZoneObj) (power : Gen.At4.X2AGroupCtrl.GroupPowerControl)
    (cm : Gen.At4.X2AGroupCtrl.GroupControlMethod) (setting : X2A.GroupSetting) : Policy × OutMsg :=
  let pol := if (match setting with | .incDec _ => true | _ => false) || cm == .CHANGE
             then Policy.nonIdempotent else Policy.idempotent
  (pol, .reg (.groupCtrl { group_number := z.status.group_number, power := power, control_method := cm, setting := setting }))

/-- `_send_timer_control_message`: the other timer as last reported -/
def timerControl (a : AcObj) (tt : ApiEnums.AcTimerType) (t : AcTimerState) : Policy × OutMsg :=
  let onT := if tt = .ON_TIMER then t else a.timer.on_timer
  let offT := if tt = .OFF_TIMER then t else a.timer.off_timer
  (.idempotent, .reg (.acTimerCtrl { ac_timer_status := [{ ac_number := a.acId, on_timer := onT, off_timer := offT }] }))

/-- what the call hands to `socket.send`, or the exception it raises before sending -/
def callAc (a : AcObj) : Call → Except Exc (Policy × OutMsg)
  | .acSetPower _ p =>
    if supportedPowerControls.contains p then do
      let pw ← lookupE Api4.API_POWER_CONTROL_MAPPING p
      pure (acControl a pw .UNCHANGED .UNCHANGED .none)
    else .error .valueError
  | .acSetMode _ m powerOn =>
    if a.supportedModes.contains m then do
      let md ← lookupE Api4.API_MODE_CONTROL_MAPPING m
      pure (acControl a (if powerOn then .TURN_ON else .UNCHANGED) md .UNCHANGED .none)
    else .error .valueError
  | .acSetFanSpeed _ f =>
    if a.supportedFanSpeeds.contains f then do
      let fs ← lookupE Api4.API_FAN_SPEED_CONTROL_MAPPING f
      pure (acControl a .UNCHANGED .UNCHANGED fs .none)
    else .error .valueError
  | .acSetTemp _ h =>
    let r := roundHundredths h
    let clipped := min (max (a.ability.min_set_point : Int) r) (a.ability.max_set_point : Int)
    .ok (acControl a .UNCHANGED .UNCHANGED .UNCHANGED (.value clipped.toNat))
  | .acSetTimerTime _ tt hour minute =>
    if hour < 24 ∧ minute < 60 then .ok (timerControl a tt { disabled := false, hour := hour, minute := minute })
    else .error .valueError          -- `datetime.time(hour, minute)` of the caller
  | .acSetTimerDuration _ tt secs => do
    let ty ← lookupE Api4.API_TIMER_TYPE_MAPPING tt
    pure (.idempotent, .reg (.extended (.quickTimer { ac_number := a.acId, timer_type := ty, duration := secs })))
  | .acClearTimer _ tt => .ok (timerControl a tt { disabled := true, hour := 0, minute := 0 })
  | _ => .error .keyError

def callZone (z : ZoneObj) : Call → Except Exc (Policy × OutMsg)
  | .zoneSetPower _ p =>
    if z.supportedPowerStates.contains p then do
      let pw ← lookupE Api4.API_ZONE_POWER_MAPPING p
      pure (groupControl z pw .UNCHANGED .none)
    else .error .valueError
  | .zoneSetTemp _ h =>
    if z.status.has_sensor then
      let r := roundHundredths h
      if 0 ≤ r then .ok (groupControl z .UNCHANGED .TEMPERATURE (.setPoint r.toNat))
      else .ok (.idempotent, .zoneSetPointNeg z.status.group_number r)
    else .error .valueError
  | .zoneSetDamper _ p =>
    if p < 0 ∨ p > 100 then .error .valueError
    else .ok (groupControl z .UNCHANGED .DAMPER (.damper p.toNat))
  | _ => .error .keyError

def Call.acId? : Call → Option Nat
  | .acSetPower a _ | .acSetMode a _ _ | .acSetFanSpeed a _ | .acSetTemp a _ | .acSetTimerTime a _ _ _
  | .acSetTimerDuration a _ _ | .acClearTimer a _ => some a
  | _ => none

def Call.zoneId? : Call → Option Nat
  | .zoneSetPower z _ | .zoneSetTemp z _ | .zoneSetDamper z _ => some z
  | _ => none

/-- the send a call makes, or its exception (`KeyError`: the harness finds no such AC / zone) -/
def callResult (s : State) (c : Call) : Except Exc (Policy × OutMsg) :=
  match c with
  | .atCheckForUpdates => .ok (.idempotent, versionRequest)
  | _ =>
    match c.acId? with
    | some i =>
      match s.findAc i with
      | some a => callAc a c
      | none => .error .keyError
    | none =>
      match c.zoneId? with
      | some i =>
        match (s.findZone i).bind (s.zoneObjs[·]?) with
        | some z => callZone z c
        | none => .error .keyError
      | none => .error .keyError

def doCall (s : State) (c : Call) : List Ev :=
  match callResult s c with
  | .ok (p, m) => if s.sockOpen then [Ev.send p m, Ev.result "OK"] else [Ev.result Exc.notOpen.name]
  | .error e => [Ev.result e.name]

/-! ## subscriptions -/

inductive Target
  | airtouch
  | ac (id : Nat) (general : Bool)
  | zone (id : Nat)
deriving DecidableEq, Repr

/-- `sub` / `unsub`; `f` is `subAdd · sb` or `subRemove · sid` -/
def subUnsub (s : State) (t : Target) (f : List Sub → List Sub) : State × List Ev :=
  match t with
  | .airtouch => ({ s with subs := f s.subs }, [])
  | .ac i general =>
    match s.findAc i with
    | none => (s, [Ev.result Exc.keyError.name])
    | some a =>
      (s.setAc i (if general then { a with subs := f a.subs } else { a with stateSubs := f a.stateSubs }), [])
  | .zone i =>
    match s.findZone i with
    | none => (s, [Ev.result Exc.keyError.name])
    | some zi =>
      match s.zoneObjs[zi]? with
      | some z => ({ s with zoneObjs := s.zoneObjs.set zi { z with subs := f z.subs } }, [])
      | none => (s, [Ev.result Exc.keyError.name])

/-! ## the op language -/

inductive Op
  | init
  | shutdown
  | conn (up : Bool)
  /-- a frame with this top-level message id and payload arrives -/
  | msg (mid : Nat) (payload : Bytes)
  /-- a decoded message arrives -/
  | recv (m : RMsg)
  | call (c : Call)
  /-- a call whose arguments the harness itself rejects (unknown enum member name: `KeyError`) -/
  | callBad (cls : String)
  | sub (t : Target) (sid : String) (raises : Bool)
  | unsub (t : Target) (sid : String)
  | adv (ticks : Nat)
  | view

/-- the header the harness builds for `msg` (only id and length matter to the decoders) -/
def harnessHeader (mid len : Nat) : At4.Registry.Hdr :=
  { to_address := 0xB0, from_address := if mid = 0x1F then 0x90 else 0x80, packet_id := 1,
    message_id := mid, message_length := len }

/-- `type(e).__name__` -/
def decErrClass : DecErr → String
  | .decodeError => "DecodeError"
  | .structError => "error"
  | .valueError => "ValueError"
  | .unicodeError => "UnicodeDecodeError"
  | .indexError => "IndexError"
  | .keyError => "KeyError"
  | .other => "Exception"

/-- `registry.get_decoder(mid).decode(payload, hdr)` then `assert_complete()` -/
def decodeTop (mid : Nat) (payload : Bytes) : Except String RMsg :=
  match At4.Registry.decodeMsg (harnessHeader mid payload.length) payload with
  | .error e => .error (decErrClass e)
  | .ok (m, rest) => if rest.isEmpty then .ok m else .error "DecodeError"

def doInit (s : State) : State × List Ev :=
  let s1 : State := { s with st := .CONNECTING, subscribed := true, sockOpen := true }
  if s.initialised then (s1, [Ev.opened, Ev.result "init True"])
  else ({ s1 with initWaits := s.initWaits ++ [s.now + Api4.INIT_TIMEOUT] }, [Ev.opened])

def doShutdown (s : State) : State × List Ev :=
  ({ s with st := .CLOSED, initialised := false, pollCur := none
            hb := hbApply (hbApply { s.hb with now := s.now } .stop) (.conn false)
            sockOpen := false, sockConnected := false
            acDict := [], zoneDict := [], acObjs := [], zoneObjs := [] },
   [Ev.hbStop, Ev.closed, Ev.result "shutdown OK"])

def apiStep (s : State) : Op → State × List Ev
  | .init => doInit s
  | .shutdown => doShutdown s
  | .conn up =>
    onConn { s with sockConnected := up, hb := hbApply { s.hb with now := s.now } (.conn up) } up
  | .msg mid payload =>
    match decodeTop mid payload with
    | .ok m => recv s m
    | .error cls => (s, [Ev.undecodable cls])
  | .recv m => recv s m
  | .call c => (s, doCall s c)
  | .callBad cls => (s, [Ev.result cls])
  | .sub t sid raises => subUnsub s t (subAdd · { sid := sid, raises := raises })
  | .unsub t sid => subUnsub s t (subRemove · sid)
  | .adv n => advance n s
  | .view =>
    match viewAt s with
    | .ok t => (s, [Ev.view t])
    | .error e => (s, [Ev.result e.name])

/-- run a script -/
def run (s : State) : List Op → State × List Ev
  | [] => (s, [])
  | op :: ops =>
    let r := apiStep s op
    let r' := run r.1 ops
    (r'.1, r.2 ++ r'.2)

/-! ## text rendering (the harness's output lines) -/

def Ev.render (airtouchId : Bytes) : Ev → String
  | .send p m => "SEND " ++ p.name ++ " " ++ m.canon
  | .notifyAt sid => "NOTIFY at " ++ cStr airtouchId ++ " " ++ sid
  | .notifyAc i g sid => "NOTIFY ac " ++ cNat i ++ " " ++ (if g then "general:" else "state:") ++ sid
  | .notifyZone i sid => "NOTIFY zone " ++ cNat i ++ " " ++ sid
  | .opened => "OPEN"
  | .closed => "CLOSE"
  | .reset => "RESET"
  | .hbStart => "HBSTART"
  | .hbStop => "HBSTOP"
  | .result t => "RESULT " ++ t
  | .view t => "VIEW " ++ t
  | .undecodable c => "UNDECODABLE " ++ c
  | .subscriberExc c => "SUBSCRIBER-EXC " ++ c

/-- `apiStep` with the events as the harness prints them -/
def apiStepText (s : State) (op : Op) : State × List String :=
  let r := apiStep s op
  (r.1, r.2.map (Ev.render s.airtouchId))

end PyAirtouch.Model.Api4
