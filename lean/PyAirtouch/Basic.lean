def hello := "world"
