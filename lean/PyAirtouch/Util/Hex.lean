/-! Hex and line-protocol helpers shared by the two executables (core Lean only). -/
namespace PyAirtouch.Util

def hexDigit? (c : Char) : Option Nat :=
  if '0' ≤ c ∧ c ≤ '9' then some (c.toNat - '0'.toNat)
  else if 'a' ≤ c ∧ c ≤ 'f' then some (c.toNat - 'a'.toNat + 10)
  else if 'A' ≤ c ∧ c ≤ 'F' then some (c.toNat - 'A'.toNat + 10)
  else none

def parseHexChars : List Char → Option (List Nat)
  | [] => some []
  | [_] => none
  | a :: b :: rest => do
    let x ← hexDigit? a
    let y ← hexDigit? b
    let tl ← parseHexChars rest
    pure ((x * 16 + y) :: tl)

/-- `"-"` is the empty byte string; otherwise an even number of hex digits -/
def parseHex (s : String) : Option (List Nat) :=
  if s = "-" then some [] else parseHexChars s.toList

def hexNibble (n : Nat) : Char :=
  if n < 10 then Char.ofNat ('0'.toNat + n) else Char.ofNat ('a'.toNat + (n - 10))

def toHex (bs : List Nat) : String :=
  if bs.isEmpty then "-" else
  String.ofList (bs.flatMap fun b => [hexNibble ((b / 16) % 16), hexNibble (b % 16)])

def words (line : String) : List String :=
  (line.splitOn " ").filter (· ≠ "")

end PyAirtouch.Util
