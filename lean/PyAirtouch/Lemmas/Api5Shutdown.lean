import PyAirtouch.Lemmas.Api5Run
import PyAirtouch.Lemmas.HeartbeatSim
set_option linter.unusedSimpArgs false
set_option linter.unusedVariables false
/-!
# `shutdown()` in the AirTouch 5 API model

* `Closed`: what every state is after `shutdown` (whatever it was before);
* `closed_step`: what each op does and outputs in a closed state;
* `FreshSim`: the observational relation between an object that was shut down and a fresh one; it is a simulation.
-/
namespace PyAirtouch.Lemmas.Api5
open PyAirtouch.Model PyAirtouch.Model.Api5 PyAirtouch.Model.At5 PyAirtouch.Model.At5.Registry
open PyAirtouch.Model.TimerCommon (AcTimerState AcTimerStatusData)
open PyAirtouch.Model.Heartbeat PyAirtouch.Lemmas.Heartbeat
open PyAirtouch.Gen PyAirtouch.Gen.Api5

/-! ### the closed state -/

/-- state machine `CLOSED`, initialised event clear, both dictionaries and both object heaps empty, stub socket
closed, heartbeat manager stopped (no pending beat, no pending deadline) -/
structure Closed (s : State) : Prop where
  st : s.st = .CLOSED
  ninit : s.initialised = false
  zones : s.zones = []
  acs : s.acs = []
  zobjs : s.zobjs = []
  aobjs : s.aobjs = []
  sockOpen : s.sockOpen = false
  idle : HbIdle s.hb

/-- `stop` always leaves the manager idle, whatever it was doing -/
theorem apply_stop_idle (h : HB) : HbIdle (apply! h .stop) := by
  simp only [apply!, step]
  split <;> simp_all [HbIdle, HB.emit]

theorem feed_stop_idle (rt : Nat) (h : HB) (t : Nat) : HbIdle (feed rt h (.stop t)) := by
  unfold feed
  exact apply_stop_idle _

theorem apply_conn (h : HB) (up : Bool) :
    apply! h (.conn up) = { h with connected := up, trace := h.trace ++ [.conn up h.now] } := by
  simp [apply!, step, HB.emit]

theorem feed_conn_connected (rt : Nat) (h : HB) (up : Bool) (t : Nat) : (feed rt h (.conn up t)).connected = up := by
  unfold feed
  simp only [apply_conn]

theorem hbFeed_params (s : State) (i : HIn) :
    (hbFeed s i).1.st = s.st ∧ (hbFeed s i).1.initialised = s.initialised ∧ (hbFeed s i).1.zones = s.zones ∧
    (hbFeed s i).1.acs = s.acs ∧ (hbFeed s i).1.zobjs = s.zobjs ∧ (hbFeed s i).1.aobjs = s.aobjs ∧
    (hbFeed s i).1.sockOpen = s.sockOpen ∧ (hbFeed s i).1.now = s.now :=
  ⟨rfl, rfl, rfl, rfl, rfl, rfl, rfl, rfl⟩

/-- **`shutdown()` from any state whatsoever** -/
theorem doShutdown_spec (s : State) :
    Closed (apiStep s .shutdown).1 ∧
    (apiStep s .shutdown).2 = [.hbStop, .closed, .result "shutdown OK"] ∧
    (apiStep s .shutdown).1.hb.connected = false ∧
    -- what persists
    (apiStep s .shutdown).1.subs = s.subs ∧ (apiStep s .shutdown).1.consoleVersion = s.consoleVersion ∧
    (apiStep s .shutdown).1.pendingInits = s.pendingInits ∧ (apiStep s .shutdown).1.sockSubscribed = s.sockSubscribed ∧
    (apiStep s .shutdown).1.now = s.now ∧ (apiStep s .shutdown).1.airtouchId = s.airtouchId ∧
    (apiStep s .shutdown).1.serial = s.serial ∧ (apiStep s .shutdown).1.name = s.name ∧
    (apiStep s .shutdown).1.host = s.host ∧
    (apiStep s .shutdown).1.hb.interval = s.hb.interval ∧ (apiStep s .shutdown).1.hb.timeout = s.hb.timeout := by
  have e : apiStep s .shutdown =
      ({ (hbFeed (hbFeed s (.stop s.now)).1 (.conn false s.now)).1 with
          st := .CLOSED, initialised := false, sockOpen := false, zobjs := [], aobjs := [], zones := [], acs := [] },
       [.hbStop, .closed, .result "shutdown OK"]) := rfl
  rw [e]
  have h1 : HbIdle (hbFeed s (.stop s.now)).1.hb := feed_stop_idle 0 _ _
  have h2 : HbIdle (hbFeed (hbFeed s (.stop s.now)).1 (.conn false s.now)).1.hb :=
    hbFeed_idle _ _ h1 (.inr (.inl ⟨false, s.now, rfl⟩))
  refine ⟨⟨rfl, rfl, rfl, rfl, rfl, rfl, rfl, h2⟩, rfl, feed_conn_connected _ _ _ _, rfl, rfl, rfl, rfl, rfl, rfl, rfl, rfl, rfl, ?_, ?_⟩
  · exact ((feed_params 0 _ _).1.trans (feed_params 0 _ _).1)
  · exact ((feed_params 0 _ _).2.trans (feed_params 0 _ _).2)

/-! ### ops in a closed state -/

theorem closed_hb {s : State} (h : Closed s) (hb' : HB) (hi : HbIdle hb') : Closed { s with hb := hb' } :=
  ⟨h.st, h.ninit, h.zones, h.acs, h.zobjs, h.aobjs, h.sockOpen, hi⟩

theorem closed_ac? {s : State} (h : Closed s) (id : Nat) : s.ac? id = none := by
  simp [State.ac?, State.acRef, h.acs]

theorem closed_zone? {s : State} (h : Closed s) (id : Nat) : s.zone? id = none := by
  simp [State.zone?, State.zoneRefOf, State.zoneList, h.acs]

/-- a frame arriving in a closed state: the API's handler does nothing at all -/
theorem closed_handleMessage {s : State} (h : Closed s) (toAddr : Nat) (m : Msg) :
    handleMessage s toAddr m = { s := s, out := [], exc := none } := by
  unfold handleMessage
  dsimp only
  split
  all_goals (repeat' split)
  all_goals (try (simp_all [h.st]; done))
  all_goals first
    | rfl
    | (simp [processErrInfo, State.acRef, h.acs])

/-- the connection callback in a closed state: `NotOpenError` out of the refresh requests when the link comes up -/
theorem closed_handleConnection {s : State} (h : Closed s) (up : Bool) :
    handleConnection s up = { s := s, out := [], exc := if up then some "NotOpenError" else none } := by
  cases up <;> simp [handleConnection, h.st, sendMsg, h.sockOpen, HR.andThen]

/-- the view of a closed object: no air-conditioner -/
def closedView (s : State) : String :=
  "AirTouch(" ++ ",".intercalate [
    "initialised=" ++ cBool false, "airtouch_id=" ++ cStr s.airtouchId, "serial=" ++ cStr s.serial,
    "name=" ++ cStr s.name, "host=" ++ cStr s.host, "model=" ++ MODEL.name,
    "update_available=" ++ cBool s.consoleVersion.update_available,
    "console_versions=" ++ cList cStr s.consoleVersion.versions,
    "air_conditioners=[" ++ ",".intercalate [] ++ "]"] ++ ")"

theorem closed_viewAt {s : State} (h : Closed s) : viewAt s = .ok (closedView s) := by
  simp [viewAt, State.airConditioners, h.acs, h.ninit, closedView, bind, Except.bind, pure, Except.pure]

def Op.isView : Op → Bool
  | .view => true
  | _ => false

/-- every op but `init` -/
def Op.notInit : Op → Bool
  | .init => false
  | _ => true

/-- what an op outputs in the closed state `s` -/
def closedOut (s : State) : Op → List Out
  | .init => [.opened]
  | .shutdown => [.hbStop, .closed, .result "shutdown OK"]
  | .conn up => if up && s.sockSubscribed then [.subscriberExc "NotOpenError"] else []
  | .msg _ _ => []
  | .undecodable c => [.undecodable c]
  | .callAt => [.result "NotOpenError"]
  | .callAc _ _ => [.result "KeyError"]
  | .callZone _ _ => [.result "KeyError"]
  | .sub .at _ _ => []
  | .sub _ _ _ => [.result "KeyError"]
  | .unsub .at _ => []
  | .unsub _ _ => [.result "KeyError"]
  | .adv n => (s.pendingInits.filter (· ≤ s.now + n)).map fun _ => .result "init False"
  | .view => [.view (closedView s)]

/-- `adv` drops the `init()` calls that have timed out; nothing else touches the list of waiters -/
def pendingAfter (s : State) : Op → List Nat
  | .adv n => s.pendingInits.filter (s.now + n < ·)
  | _ => s.pendingInits

/-- the AirTouch-level subscribers are only changed by `sub at` / `unsub at` -/
def subsAfter (s : State) : Op → List Sub
  | .sub .at sid _ => subAdd s.subs sid
  | .unsub .at sid => subDel s.subs sid
  | _ => s.subs

/-- the parts of the state that survive `shutdown()`, and what the ops allowed while closed do to them -/
structure ClosedFrame (s : State) (op : Op) (s' : State) : Prop where
  airtouchId : s'.airtouchId = s.airtouchId
  serial : s'.serial = s.serial
  name : s'.name = s.name
  host : s'.host = s.host
  consoleVersion : s'.consoleVersion = s.consoleVersion
  sockSubscribed : s'.sockSubscribed = s.sockSubscribed
  now : s'.now = s.now + Op.ticks op
  pendingInits : s'.pendingInits = pendingAfter s op
  subs : s'.subs = subsAfter s op
  interval : s'.hb.interval = s.hb.interval
  timeout : s'.hb.timeout = s.hb.timeout

theorem hbFeed_hb_params (s : State) (i : HIn) :
    (hbFeed s i).1.hb.interval = s.hb.interval ∧ (hbFeed s i).1.hb.timeout = s.hb.timeout :=
  feed_params 0 _ i

theorem doAdv_hb_params (s : State) (n : Nat) :
    (doAdv s n).1.hb.interval = s.hb.interval ∧ (doAdv s n).1.hb.timeout = s.hb.timeout := by
  unfold doAdv
  simp only
  have key : ∀ (due : List Nat) (acc : State × List Out),
      let res := due.foldl (fun (acc : State × List Out) d =>
        ((hbFeed acc.1 (.finish d)).1, acc.2 ++ (hbFeed acc.1 (.finish d)).2 ++ [Out.result "init False"])) acc
      res.1.hb.interval = acc.1.hb.interval ∧ res.1.hb.timeout = acc.1.hb.timeout := by
    intro due
    induction due with
    | nil => intro acc; exact ⟨rfl, rfl⟩
    | cons d due ih =>
      intro acc
      have := ih ((hbFeed acc.1 (.finish d)).1, acc.2 ++ (hbFeed acc.1 (.finish d)).2 ++ [Out.result "init False"])
      obtain ⟨p1, p2⟩ := hbFeed_hb_params acc.1 (.finish d)
      simp only [List.foldl_cons]
      exact ⟨this.1.trans p1, this.2.trans p2⟩
  obtain ⟨k1, k2⟩ := key (s.pendingInits.filter (· ≤ s.now + n)) (s, [])
  obtain ⟨p1, p2⟩ := hbFeed_hb_params (List.foldl (fun (acc : State × List Out) d =>
        ((hbFeed acc.1 (.finish d)).1, acc.2 ++ (hbFeed acc.1 (.finish d)).2 ++ [Out.result "init False"])) (s, [])
        (s.pendingInits.filter (· ≤ s.now + n))).1 (.finish (s.now + n))
  exact ⟨p1.trans k1, p2.trans k2⟩

/-- **one op in a closed state** (anything but `init`): the state stays closed, the outputs are `closedOut` -/
theorem closed_step {s : State} (h : Closed s) (op : Op) (hop : Op.notInit op = true) :
    Closed (apiStep s op).1 ∧ (apiStep s op).2 = closedOut s op ∧ ClosedFrame s op (apiStep s op).1 := by
  cases op with
  | init => cases hop
  | shutdown =>
    obtain ⟨a, b, _, c1, c2, c3, c4, c5, c6, c7, c8, c9, c10, c11⟩ := doShutdown_spec s
    exact ⟨a, b, ⟨c6, c7, c8, c9, c2, c4, by simpa [Op.ticks] using c5, c3, c1, c10, c11⟩⟩
  | conn up =>
    have hidle := hbFeed_idle s (.conn up s.now) h.idle (.inr (.inl ⟨up, s.now, rfl⟩))
    have hout := hbFeed_conn_idle_out s up s.now h.idle
    obtain ⟨hp1, hp2⟩ := hbFeed_hb_params s (.conn up s.now)
    obtain ⟨hb', hs⟩ := hbFeed_ctl s (.conn up s.now)
    have hc1 : Closed (hbFeed s (.conn up s.now)).1 := by rw [hs]; rw [hs] at hidle; exact closed_hb h hb' hidle
    have e : apiStep s (.conn up) =
        if (hbFeed s (.conn up s.now)).1.sockSubscribed = true then
          ((handleConnection (hbFeed s (.conn up s.now)).1 up).s, excOut (handleConnection (hbFeed s (.conn up s.now)).1 up))
        else ((hbFeed s (.conn up s.now)).1, []) := rfl
    rw [e, closed_handleConnection hc1 up]
    have hsub : (hbFeed s (.conn up s.now)).1.sockSubscribed = s.sockSubscribed := rfl
    rw [hsub]
    have fr : ClosedFrame s (.conn up) (hbFeed s (.conn up s.now)).1 :=
      ⟨rfl, rfl, rfl, rfl, rfl, rfl, rfl, rfl, rfl, hp1, hp2⟩
    cases hss : s.sockSubscribed <;> cases up <;> simp [closedOut, hss, excOut] <;> exact ⟨hc1, fr⟩
  | msg toAddr m =>
    by_cases hss : s.sockSubscribed = true
    · have e : apiStep s (.msg toAddr m) =
          (if isHeartbeatResponse m then hbFeed s (.resp s.now) else (s, [])) := by
        simp only [apiStep, doMsg, hss, if_true, closed_handleMessage h, excOut, List.nil_append]
      rw [e]
      split
      · have hidle := hbFeed_idle s (.resp s.now) h.idle (.inl ⟨s.now, rfl⟩)
        obtain ⟨hp1, hp2⟩ := hbFeed_hb_params s (.resp s.now)
        obtain ⟨hb', hs⟩ := hbFeed_ctl s (.resp s.now)
        refine ⟨?_, hbFeed_resp_idle_out s s.now h.idle, ⟨rfl, rfl, rfl, rfl, rfl, rfl, rfl, rfl, rfl, hp1, hp2⟩⟩
        rw [hs]; rw [hs] at hidle; exact closed_hb h hb' hidle
      · exact ⟨h, rfl, ⟨rfl, rfl, rfl, rfl, rfl, rfl, rfl, rfl, rfl, rfl, rfl⟩⟩
    · have e : apiStep s (.msg toAddr m) = (s, []) := by simp [apiStep, doMsg, hss]
      rw [e]
      exact ⟨h, rfl, ⟨rfl, rfl, rfl, rfl, rfl, rfl, rfl, rfl, rfl, rfl, rfl⟩⟩
  | undecodable cls => exact ⟨h, rfl, ⟨rfl, rfl, rfl, rfl, rfl, rfl, rfl, rfl, rfl, rfl, rfl⟩⟩
  | callAt =>
    have e : apiStep s .callAt = (s, [.result "NotOpenError"]) := by
      simp [apiStep, sendMsg, h.sockOpen, callOut]
    rw [e]
    exact ⟨h, rfl, ⟨rfl, rfl, rfl, rfl, rfl, rfl, rfl, rfl, rfl, rfl, rfl⟩⟩
  | callAc id c =>
    have e : apiStep s (.callAc id c) = (s, [.result "KeyError"]) := by simp [apiStep, closed_ac? h]
    rw [e]
    exact ⟨h, rfl, ⟨rfl, rfl, rfl, rfl, rfl, rfl, rfl, rfl, rfl, rfl, rfl⟩⟩
  | callZone id c =>
    have e : apiStep s (.callZone id c) = (s, [.result "KeyError"]) := by simp [apiStep, closed_zone? h]
    rw [e]
    exact ⟨h, rfl, ⟨rfl, rfl, rfl, rfl, rfl, rfl, rfl, rfl, rfl, rfl, rfl⟩⟩
  | sub t sid r =>
    cases t with
    | «at» => exact ⟨⟨h.st, h.ninit, h.zones, h.acs, h.zobjs, h.aobjs, h.sockOpen, h.idle⟩, rfl,
        ⟨rfl, rfl, rfl, rfl, rfl, rfl, rfl, rfl, rfl, rfl, rfl⟩⟩
    | ac id st =>
      have e : apiStep s (.sub (.ac id st) sid r) = (s, [.result "KeyError"]) := by simp [apiStep, subTarget, closed_ac? h]
      rw [e]; exact ⟨h, rfl, ⟨rfl, rfl, rfl, rfl, rfl, rfl, rfl, rfl, rfl, rfl, rfl⟩⟩
    | zone id =>
      have e : apiStep s (.sub (.zone id) sid r) = (s, [.result "KeyError"]) := by simp [apiStep, subTarget, closed_zone? h]
      rw [e]; exact ⟨h, rfl, ⟨rfl, rfl, rfl, rfl, rfl, rfl, rfl, rfl, rfl, rfl, rfl⟩⟩
  | unsub t sid =>
    cases t with
    | «at» => exact ⟨⟨h.st, h.ninit, h.zones, h.acs, h.zobjs, h.aobjs, h.sockOpen, h.idle⟩, rfl,
        ⟨rfl, rfl, rfl, rfl, rfl, rfl, rfl, rfl, rfl, rfl, rfl⟩⟩
    | ac id st =>
      have e : apiStep s (.unsub (.ac id st) sid) = (s, [.result "KeyError"]) := by simp [apiStep, subTarget, closed_ac? h]
      rw [e]; exact ⟨h, rfl, ⟨rfl, rfl, rfl, rfl, rfl, rfl, rfl, rfl, rfl, rfl, rfl⟩⟩
    | zone id =>
      have e : apiStep s (.unsub (.zone id) sid) = (s, [.result "KeyError"]) := by simp [apiStep, subTarget, closed_zone? h]
      rw [e]; exact ⟨h, rfl, ⟨rfl, rfl, rfl, rfl, rfl, rfl, rfl, rfl, rfl, rfl, rfl⟩⟩
  | adv n =>
    obtain ⟨a, b, hb', c⟩ := doAdv_idle s n h.idle
    have e : apiStep s (.adv n) = doAdv s n := rfl
    rw [e]
    refine ⟨?_, a, ?_⟩
    · rw [c]; rw [c] at b
      exact ⟨h.st, h.ninit, h.zones, h.acs, h.zobjs, h.aobjs, h.sockOpen, b⟩
    · obtain ⟨p1, p2⟩ := doAdv_hb_params s n
      refine ⟨?_, ?_, ?_, ?_, ?_, ?_, ?_, ?_, ?_, p1, p2⟩ <;> rw [c] <;> rfl
  | view =>
    have e : apiStep s .view = (s, [.view (closedView s)]) := by simp [apiStep, closed_viewAt h]
    rw [e]
    exact ⟨h, rfl, ⟨rfl, rfl, rfl, rfl, rfl, rfl, rfl, rfl, rfl, rfl, rfl⟩⟩

/-! ### nothing of the client acts after `shutdown()` -/

/-- an output that shows no activity of the client: not a `SEND`, not a `NOTIFY`, not `OPEN`, `RESET`, `HBSTART`, and
not `RESULT init True` -/
def QuietOut : Out → Prop
  | .send _ _ _ | .notifyAt _ | .notifyAc _ _ _ | .notifyZone _ _ | .opened | .reset | .hbStart => False
  | .result t => t ≠ "init True"
  | _ => True

theorem closedOut_quiet (s : State) (op : Op) (hop : Op.notInit op = true) : ∀ o ∈ closedOut s op, QuietOut o := by
  intro o ho
  cases op with
  | init => cases hop
  | conn up => simp only [closedOut] at ho; split at ho <;> simp at ho; subst ho; trivial
  | sub t sid r => cases t <;> simp [closedOut] at ho <;> subst ho <;> simp [QuietOut]
  | unsub t sid => cases t <;> simp [closedOut] at ho <;> subst ho <;> simp [QuietOut]
  | adv n =>
    simp only [closedOut, List.mem_map] at ho
    obtain ⟨_, _, rfl⟩ := ho
    simp [QuietOut]
  | _ =>
    (simp [closedOut] at ho) <;> first
      | (subst ho; simp [QuietOut])
      | (rcases ho with rfl | rfl | rfl <;> simp [QuietOut])

/-- **quiet after shutdown**: whatever arrives, however much time passes, whatever is called (short of `init()`), a
closed object stays closed and shows no activity -/
theorem closed_run {s : State} (h : Closed s) (ops : List Op) (hops : ∀ op ∈ ops, Op.notInit op = true) :
    Closed (runS s ops) ∧ ∀ o ∈ runOut s ops, QuietOut o := by
  induction ops generalizing s with
  | nil => exact ⟨h, by simp⟩
  | cons op ops ih =>
    obtain ⟨h1, h2, _⟩ := closed_step h op (hops op (by simp))
    obtain ⟨g1, g2⟩ := ih h1 (fun o ho => hops o (by simp [ho]))
    refine ⟨g1, ?_⟩
    intro o ho
    simp only [runOut_cons, List.mem_append] at ho
    rcases ho with ho | ho
    · rw [h2] at ho; exact closedOut_quiet s op (hops op (by simp)) o ho
    · exact g2 o ho

/-- … and with no `init()` caller left waiting, no `RESULT init …` at all ever appears, and no timer is left -/
theorem closed_run_noWaiters {s : State} (h : Closed s) (hp : s.pendingInits = []) (ops : List Op)
    (hops : ∀ op ∈ ops, Op.notInit op = true) :
    (runS s ops).pendingInits = [] ∧ ∀ o ∈ runOut s ops, o ≠ .result "init True" ∧ o ≠ .result "init False" := by
  induction ops generalizing s with
  | nil => exact ⟨hp, by simp⟩
  | cons op ops ih =>
    obtain ⟨h1, h2, h3⟩ := closed_step h op (hops op (by simp))
    have hp1 : (apiStep s op).1.pendingInits = [] := by
      rw [h3.pendingInits]; cases op <;> simp [pendingAfter, hp]
    obtain ⟨g1, g2⟩ := ih h1 hp1 (fun o ho => hops o (by simp [ho]))
    refine ⟨g1, ?_⟩
    intro o ho
    simp only [runOut_cons, List.mem_append] at ho
    rcases ho with ho | ho
    · rw [h2] at ho
      cases op with
      | init => exact absurd (hops .init (by simp)) (by simp [Op.notInit])
      | conn up => simp only [closedOut] at ho; split at ho <;> simp at ho; subst ho; simp
      | sub t sid r => cases t <;> simp [closedOut] at ho <;> subst ho <;> simp
      | unsub t sid => cases t <;> simp [closedOut] at ho <;> subst ho <;> simp
      | adv n => simp [closedOut, hp] at ho
      | _ =>
        (simp [closedOut] at ho) <;> first
          | (subst ho; simp)
          | (rcases ho with rfl | rfl | rfl <;> simp)
    · exact g2 o ho

/-! ### an object that was shut down and a fresh object

What `shutdown()` leaves behind that a fresh object does not have: the console version of the previous session
(overwritten by the first answer of the next handshake, read before that only by `view`), and stale values in fields of
the stopped heartbeat manager that nothing reads (`HbEquiv`).  Everything else that survives - the AirTouch-level
subscribers, the clock, the registration of the callbacks, `init()` callers still waiting - is kept *equal* by the
relation. -/

/-- the state without the heartbeat manager and the console version -/
def coreOf (s : State) : State :=
  { s with hb := Heartbeat.init 0 0, consoleVersion := { update_available := false, versions := [] } }

/-- the states in which the console version of the object has not been read by anything but `view` since the last
`init()`, and will be overwritten before anything else reads it -/
def earlySt (st : AirTouchState) : Prop := st = .CLOSED ∨ st = .CONNECTING ∨ st = .INIT_VERSION

/-- equal in everything but (1) unread fields of the heartbeat manager, (2) the console version as long as the next
handshake has not got its first answer -/
structure FreshSimG (k : Bool) (a b : State) : Prop where
  core : coreOf a = coreOf b
  hb : HbEquiv a.hb b.hb
  version : a.consoleVersion = b.consoleVersion ∨ (k = false ∧ earlySt a.st)

/-- the relation between an object that was shut down and a fresh one -/
abbrev FreshSim := FreshSimG false
/-- … once the console versions agree (`k = true`: they must) -/
abbrev FreshSimV := FreshSimG true

namespace FreshSimG
variable {k : Bool} {k : Bool} {a b : State} (h : FreshSimG k a b)
include h
theorem airtouchId : a.airtouchId = b.airtouchId := by have := congrArg State.airtouchId h.core; exact this
theorem serial : a.serial = b.serial := by have := congrArg State.serial h.core; exact this
theorem name : a.name = b.name := by have := congrArg State.name h.core; exact this
theorem host : a.host = b.host := by have := congrArg State.host h.core; exact this
theorem st : a.st = b.st := by have := congrArg State.st h.core; exact this
theorem zobjs : a.zobjs = b.zobjs := by have := congrArg State.zobjs h.core; exact this
theorem aobjs : a.aobjs = b.aobjs := by have := congrArg State.aobjs h.core; exact this
theorem zones : a.zones = b.zones := by have := congrArg State.zones h.core; exact this
theorem acs : a.acs = b.acs := by have := congrArg State.acs h.core; exact this
theorem subs : a.subs = b.subs := by have := congrArg State.subs h.core; exact this
theorem initialised : a.initialised = b.initialised := by have := congrArg State.initialised h.core; exact this
theorem pendingInits : a.pendingInits = b.pendingInits := by have := congrArg State.pendingInits h.core; exact this
theorem sockOpen : a.sockOpen = b.sockOpen := by have := congrArg State.sockOpen h.core; exact this
theorem sockSubscribed : a.sockSubscribed = b.sockSubscribed := by have := congrArg State.sockSubscribed h.core; exact this
theorem now : a.now = b.now := by have := congrArg State.now h.core; exact this
end FreshSimG

theorem FreshSimG.refl (k : Bool) (s : State) : FreshSimG k s s := ⟨rfl, HbEquiv.refl _, .inl rfl⟩

/-- the relation spelled out field by field -/
theorem freshSim_iff (k : Bool) (a b : State) : FreshSimG k a b ↔
    (a.airtouchId = b.airtouchId ∧ a.serial = b.serial ∧ a.name = b.name ∧ a.host = b.host ∧ a.st = b.st ∧
     a.zobjs = b.zobjs ∧ a.aobjs = b.aobjs ∧ a.zones = b.zones ∧ a.acs = b.acs ∧ a.subs = b.subs ∧
     a.initialised = b.initialised ∧ a.pendingInits = b.pendingInits ∧ a.sockOpen = b.sockOpen ∧
     a.sockSubscribed = b.sockSubscribed ∧ a.now = b.now) ∧
    HbEquiv a.hb b.hb ∧ (a.consoleVersion = b.consoleVersion ∨ (k = false ∧ earlySt a.st)) := by
  constructor
  · intro h
    exact ⟨⟨h.airtouchId, h.serial, h.name, h.host, h.st, h.zobjs, h.aobjs, h.zones, h.acs, h.subs, h.initialised,
      h.pendingInits, h.sockOpen, h.sockSubscribed, h.now⟩, h.hb, h.version⟩
  · rintro ⟨⟨h1, h2, h3, h4, h5, h6, h7, h8, h9, h10, h11, h12, h13, h14, h15⟩, hb, hv⟩
    refine ⟨?_, hb, hv⟩
    cases a; cases b
    simp only [coreOf] at *
    simp_all

/-- an update of both states that touches neither the heartbeat manager nor the console version nor the state
machine -/
theorem FreshSimG.map {k : Bool} {a b : State} (h : FreshSimG k a b) (f : State → State)
    (hc : ∀ s, coreOf (f s) = coreOf (f (coreOf s))) (hhb : ∀ s, (f s).hb = s.hb)
    (hv : ∀ s, (f s).consoleVersion = s.consoleVersion) (hst : ∀ s, (f s).st = s.st) : FreshSimG k (f a) (f b) :=
  ⟨by rw [hc a, hc b, h.core], by rw [hhb, hhb]; exact h.hb, by rw [hv, hv, hst]; exact h.version⟩

/-- … or sets the state machine to a state that is still early, or when the versions already agree -/
theorem FreshSimG.mapSt {k : Bool} {a b : State} (h : FreshSimG k a b) (f : State → State)
    (hc : ∀ s, coreOf (f s) = coreOf (f (coreOf s))) (hhb : ∀ s, (f s).hb = s.hb)
    (hv : ∀ s, (f s).consoleVersion = s.consoleVersion)
    (hst : a.consoleVersion = b.consoleVersion ∨ (k = false ∧ earlySt (f a).st)) : FreshSimG k (f a) (f b) :=
  ⟨by rw [hc a, hc b, h.core], by rw [hhb, hhb]; exact h.hb, by rw [hv, hv]; exact hst⟩

theorem FreshSimG.setAc {k : Bool} {a b : State} (h : FreshSimG k a b) (r : Nat) (x : AcObj) : FreshSimG k (a.setAc r x) (b.setAc r x) :=
  h.map (fun s => s.setAc r x) (fun _ => rfl) (fun _ => rfl) (fun _ => rfl) (fun _ => rfl)

theorem FreshSimG.setZone {k : Bool} {a b : State} (h : FreshSimG k a b) (r : Nat) (x : ZoneObj) : FreshSimG k (a.setZone r x) (b.setZone r x) :=
  h.map (fun s => s.setZone r x) (fun _ => rfl) (fun _ => rfl) (fun _ => rfl) (fun _ => rfl)

/-- handler results: same outputs, same exception, related states -/
structure HRSim (k : Bool) (ra rb : HR) : Prop where
  out : ra.out = rb.out
  exc : ra.exc = rb.exc
  s : FreshSimG k ra.s rb.s

theorem HRSim.ret {k : Bool} {a b : State} (h : FreshSimG k a b) (o : List Out) (e : Option String) :
    HRSim k { s := a, out := o, exc := e } { s := b, out := o, exc := e } := ⟨rfl, rfl, h⟩

theorem sendMsg_sim {k : Bool} {a b : State} (h : FreshSimG k a b) (p : Policy) (m : Msg) (i : Bool) :
    HRSim k (sendMsg a p m i) (sendMsg b p m i) := by
  unfold sendMsg
  rw [← h.sockOpen]
  split <;> exact HRSim.ret h _ _

theorem andThen_sim {k : Bool} {ra rb : HR} {f g : State → HR} (h : HRSim k ra rb)
    (hf : ∀ a b, FreshSimG k a b → HRSim k (f a) (g b)) : HRSim k (ra.andThen f) (rb.andThen g) := by
  unfold HR.andThen
  rw [← h.exc]
  split
  · exact h
  · have := hf _ _ h.s
    exact ⟨by simp [h.out, this.out], this.exc, this.s⟩

theorem andThen_sim' {k : Bool} {ra rb : HR} {f g : State → HR} (h : HRSim k ra rb)
    (hf : HRSim k (f ra.s) (g rb.s)) : HRSim k (ra.andThen f) (rb.andThen g) := by
  unfold HR.andThen
  rw [← h.exc]
  split
  · exact h
  · exact ⟨by simp [h.out, hf.out], hf.exc, hf.s⟩

theorem forEach_sim {k : Bool} {α} (xs : List α) (f : State → α → HR) (hf : ∀ a b x, FreshSimG k a b → HRSim k (f a x) (f b x))
    {a b : State} (h : FreshSimG k a b) : HRSim k (forEach xs f a) (forEach xs f b) := by
  induction xs generalizing a b with
  | nil => exact HRSim.ret h _ _
  | cons x xs ih => exact andThen_sim (hf a b x h) (fun a' b' h' => ih h')

theorem updateAcStatus_sim {k : Bool} {a b : State} (h : FreshSimG k a b) (r : Nat) (d : C023.AcStatusData) :
    HRSim k (updateAcStatus a r d) (updateAcStatus b r d) := by
  unfold updateAcStatus
  rw [← h.aobjs]
  repeat' split
  all_goals first
    | exact HRSim.ret h _ _
    | exact HRSim.ret (h.setAc _ _) _ _
    | exact andThen_sim (sendMsg_sim (h.setAc _ _) _ _ _) (fun a' b' h' => HRSim.ret h' _ _)

theorem updateAcTimer_sim {k : Bool} {a b : State} (h : FreshSimG k a b) (r : Nat) (d : AcTimerStatusData) :
    HRSim k (updateAcTimer a r d) (updateAcTimer b r d) := by
  unfold updateAcTimer
  rw [← h.aobjs]
  repeat' split
  all_goals first
    | exact HRSim.ret h _ _
    | exact HRSim.ret (h.setAc _ _) _ _

theorem updateAcErrInfo_sim {k : Bool} {a b : State} (h : FreshSimG k a b) (r : Nat) (e : Option Bytes) :
    HRSim k (updateAcErrInfo a r e) (updateAcErrInfo b r e) := by
  unfold updateAcErrInfo
  rw [← h.aobjs]
  repeat' split
  all_goals first
    | exact HRSim.ret h _ _
    | exact HRSim.ret (h.setAc _ _) _ _

theorem updateZoneStatus_sim {k : Bool} {a b : State} (h : FreshSimG k a b) (r : Nat) (d : C021.ZoneStatusData) :
    HRSim k (updateZoneStatus a r d) (updateZoneStatus b r d) := by
  unfold updateZoneStatus
  rw [← h.zobjs, ← h.aobjs]
  repeat' split
  all_goals first
    | exact HRSim.ret h _ _
    | exact HRSim.ret (h.setZone _ _) _ _

theorem processAcStatus_sim {k : Bool} {a b : State} (h : FreshSimG k a b) (l : List C023.AcStatusData) :
    HRSim k (processAcStatus l a) (processAcStatus l b) := by
  unfold processAcStatus
  refine forEach_sim _ _ ?_ h
  intro a b d h
  simp only [State.acRef, ← h.acs]
  split
  · exact updateAcStatus_sim h _ _
  · exact HRSim.ret h _ _

theorem processAcTimer_sim {k : Bool} {a b : State} (h : FreshSimG k a b) (l : List AcTimerStatusData) :
    HRSim k (processAcTimer l a) (processAcTimer l b) := by
  unfold processAcTimer
  refine forEach_sim _ _ ?_ h
  intro a b d h
  simp only [State.acRef, ← h.acs]
  split
  · exact updateAcTimer_sim h _ _
  · exact HRSim.ret h _ _

theorem processZoneStatus_sim {k : Bool} {a b : State} (h : FreshSimG k a b) (l : List C021.ZoneStatusData) :
    HRSim k (processZoneStatus l a) (processZoneStatus l b) := by
  unfold processZoneStatus
  refine forEach_sim _ _ ?_ h
  intro a b d h
  simp only [← h.zones]
  split
  · exact updateZoneStatus_sim h _ _
  · exact HRSim.ret h _ _

theorem processErrInfo_sim {k : Bool} {a b : State} (h : FreshSimG k a b) (m : FF10.AcErrorInformationMessage) :
    HRSim k (processErrInfo m a) (processErrInfo m b) := by
  unfold processErrInfo
  simp only [State.acRef, ← h.acs]
  split
  · exact updateAcErrInfo_sim h _ _
  · exact HRSim.ret h _ _

theorem processConsoleVersionUpdate_sim {k : Bool} {a b : State} (h : FreshSimG k a b) (hv : a.consoleVersion = b.consoleVersion)
    (m : FF30.ConsoleVersionMessage) :
    HRSim k (processConsoleVersionUpdate m a) (processConsoleVersionUpdate m b) ∧
    (processConsoleVersionUpdate m a).s.consoleVersion = (processConsoleVersionUpdate m b).s.consoleVersion := by
  unfold processConsoleVersionUpdate
  rw [← hv]
  split
  · exact ⟨HRSim.ret h _ _, hv⟩
  · refine ⟨⟨?_, rfl, ⟨?_, h.hb, .inl rfl⟩⟩, rfl⟩
    · show List.map _ a.subs = List.map _ b.subs
      rw [h.subs]
    · show coreOf a = coreOf b
      exact h.core

theorem processZoneNames_sim {k : Bool} {a b : State} (h : FreshSimG k a b) (names : List (Nat × Bytes)) :
    FreshSimG k (processZoneNames names a) (processZoneNames names b) := by
  unfold processZoneNames
  induction names generalizing a b with
  | nil => exact h
  | cons p ps ih =>
    simp only [List.foldl_cons]
    exact ih (h.map (fun s => addZone s p) (fun _ => rfl) (fun _ => rfl) (fun _ => rfl) (fun _ => rfl))

theorem processZoneNames_frame (names : List (Nat × Bytes)) (s : State) :
    (processZoneNames names s).consoleVersion = s.consoleVersion ∧ (processZoneNames names s).st = s.st := by
  have := sameCtl_processZoneNames names s
  exact ⟨this.consoleVersion, this.st⟩

theorem FreshSimG.of_eq {k : Bool} {a b a' b' : State} (h : FreshSimG k a' b') (ea : a = a') (eb : b = b') : FreshSimG k a b := by
  subst ea eb; exact h

theorem addAc_sim {k : Bool} {a b : State} (h : FreshSimG k a b) (ab : FF11.AcAbility) :
    (addAc a ab = none ∧ addAc b ab = none) ∨ ∃ a' b', addAc a ab = some a' ∧ addAc b ab = some b' ∧ FreshSimG k a' b' := by
  have hz : zoneRange b.zones ab.start_zone ab.zone_count = zoneRange a.zones ab.start_zone ab.zone_count := by
    rw [h.zones]
  unfold addAc
  rw [hz]
  split
  · right
    refine ⟨_, _, rfl, rfl, ?_⟩
    rename_i refs modes fans _ _ _
    let f : State → State := fun s =>
      { s with aobjs := s.aobjs ++ [newAc ab refs modes fans]
               zobjs := attachAc s.aobjs.length refs s.zobjs
               acs := dictInsert s.acs ab.ac_number s.aobjs.length }
    exact h.map f (fun _ => rfl) (fun _ => rfl) (fun _ => rfl) (fun _ => rfl)
  · left; exact ⟨rfl, rfl⟩

theorem processAcAbility_sim {k : Bool} {a b : State} (h : FreshSimG k a b) (l : List FF11.AcAbility) :
    HRSim k (processAcAbility l a) (processAcAbility l b) := by
  unfold processAcAbility
  refine forEach_sim _ _ ?_ h
  intro a b ab h
  rcases addAc_sim h ab with ⟨n1, n2⟩ | ⟨a', b', s1, s2, h'⟩
  · rw [n1, n2]; exact HRSim.ret h _ _
  · rw [s1, s2]; exact HRSim.ret h' _ _

/-- the heartbeat manager fed the same input: same outputs, still related -/
theorem hbFeed_sim {k : Bool} {a b : State} (h : FreshSimG k a b) (i : HIn) :
    (hbFeed a i).2 = (hbFeed b i).2 ∧ FreshSimG k (hbFeed a i).1 (hbFeed b i).1 := by
  obtain ⟨e, t⟩ := HbEquiv.feed_cleared 0 h.hb i
  refine ⟨?_, ⟨h.core, e, h.version⟩⟩
  simp only [hbFeed, t]

theorem finishInit_eq (s : State) :
    finishInit s =
      { s := { (hbFeed { s with st := .CONNECTED } (.start s.now)).1 with initialised := true, pendingInits := [] }
        out := [.hbStart] ++ s.pendingInits.map (fun _ => .result "init True") ++
                (hbFeed { s with st := .CONNECTED } (.start s.now)).2 } := rfl

theorem finishInit_sim {k : Bool} {a b : State} (h : FreshSimG k a b) (hv : a.consoleVersion = b.consoleVersion) :
    HRSim k (finishInit a) (finishInit b) ∧ (finishInit a).s.consoleVersion = (finishInit b).s.consoleVersion := by
  have h1 : FreshSimG k { a with st := .CONNECTED } { b with st := .CONNECTED } :=
    h.mapSt (fun s => { s with st := .CONNECTED }) (fun _ => rfl) (fun _ => rfl) (fun _ => rfl) (.inl hv)
  have hs : HIn.start b.now = HIn.start a.now := by rw [h.now]
  obtain ⟨o, h2⟩ := hbFeed_sim h1 (.start a.now)
  rw [finishInit_eq, finishInit_eq, hs, ← o, ← h.pendingInits]
  refine ⟨⟨rfl, rfl, ?_⟩, hv⟩
  exact h2.mapSt (fun s => { s with initialised := true, pendingInits := [] }) (fun _ => rfl) (fun _ => rfl) (fun _ => rfl)
      (.inl hv)

/-- a state beyond `INIT_VERSION` (and not `CLOSED`/`CONNECTING`): the console versions agree -/
theorem FreshSimG.version_of_late {k : Bool} {a b : State} (h : FreshSimG k a b) (hl : ¬ earlySt a.st) :
    a.consoleVersion = b.consoleVersion := by
  rcases h.version with e | ⟨_, e⟩
  · exact e
  · exact absurd e hl

/-- set the state machine to a late state, the versions agreeing -/
theorem FreshSimG.setSt {k : Bool} {a b : State} (h : FreshSimG k a b) (hv : a.consoleVersion = b.consoleVersion)
    (x : AirTouchState) : FreshSimG k { a with st := x } { b with st := x } :=
  h.mapSt (fun s => { s with st := x }) (fun _ => rfl) (fun _ => rfl) (fun _ => rfl) (.inl hv)

/-- the first answer of the handshake: both objects take the console's version -/
theorem FreshSimG.setVersionSt {k : Bool} {a b : State} (h : FreshSimG k a b) (v : FF30.ConsoleVersionMessage)
    (x : AirTouchState) :
    FreshSimG k { a with consoleVersion := v, st := x } { b with consoleVersion := v, st := x } := by
  refine ⟨?_, h.hb, .inl rfl⟩
  have := congrArg (fun s : State => { s with st := x }) h.core
  exact this

theorem sameCtl_cv {s : State} {r : HR} (h : SameCtl s r.s) : r.s.consoleVersion = s.consoleVersion := h.consoleVersion

theorem handleMessage_sim {k : Bool} {a b : State} (h : FreshSimG k a b) (toAddr : Nat) (m : Msg) :
    HRSim k (handleMessage a toAddr m) (handleMessage b toAddr m) := by
  have hst : b.st = a.st := h.st.symm
  -- in a late state the versions agree, and a status handler keeps them
  have late : ∀ {ra rb : HR}, ¬ earlySt a.st → SameCtl a ra.s → SameCtl b rb.s → HRSim k ra rb → ∀ x p m,
      HRSim k (sendMsg { ra.s with st := x } p m) (sendMsg { rb.s with st := x } p m) := by
    intro ra rb hl s1 s2 hr x p m
    have hv := h.version_of_late hl
    exact sendMsg_sim (hr.s.setSt (by rw [s1.consoleVersion, s2.consoleVersion]; exact hv) x) _ _ _
  unfold handleMessage
  dsimp only
  split
  all_goals try simp only [hst]
  -- console version
  · rename_i v
    by_cases h1 : a.st = .INIT_VERSION
    · simp only [h1, if_true]
      exact sendMsg_sim (h.setVersionSt v _) _ _ _
    · by_cases h2 : a.st = .CONNECTED
      · simp only [h2, if_true, reduceCtorEq, if_false]
        exact (processConsoleVersionUpdate_sim h (h.version_of_late (by simp [earlySt, h2])) v).1
      · simp only [h1, h2, if_false]
        exact HRSim.ret h _ _
  -- zone names
  · rename_i zn
    by_cases h1 : a.st = .INIT_ZONE_NAMES
    · simp only [h1, if_true]
      have hv := h.version_of_late (by simp [earlySt, h1])
      have hz := processZoneNames_sim h zn.zone_names
      have f1 := processZoneNames_frame zn.zone_names a
      have f2 := processZoneNames_frame zn.zone_names b
      exact sendMsg_sim (hz.setSt (by rw [f1.1, f2.1]; exact hv) _) _ _ _
    · simp only [h1, if_false]
      exact HRSim.ret h _ _
  -- zone names request echoed
  · by_cases h1 : a.st = .INIT_ZONE_NAMES
    · have hv := h.version_of_late (by simp [earlySt, h1])
      simp only [h1]
      split
      · exact sendMsg_sim (h.setSt hv _) _ _ _
      · exact HRSim.ret h _ _
    · simp only [h1, and_false, Bool.and_false, if_false]
      first | exact HRSim.ret h _ _ | (split <;> first | exact HRSim.ret h _ _ | simp_all)
  -- AC ability
  · rename_i acs
    by_cases h1 : a.st = .INIT_AC_ABILITY
    · simp only [h1, if_true]
      exact andThen_sim' (processAcAbility_sim h acs)
        (late (by simp [earlySt, h1]) (sameCtl_processAcAbility _ _) (sameCtl_processAcAbility _ _) (processAcAbility_sim h acs) _ _ _)
    · simp only [h1, if_false]
      exact HRSim.ret h _ _
  -- AC status
  · rename_i l
    by_cases h1 : a.st = .INIT_AC_STATUS
    · simp only [h1, if_true]
      exact andThen_sim' (processAcStatus_sim h l)
        (late (by simp [earlySt, h1]) (sameCtl_processAcStatus _ _) (sameCtl_processAcStatus _ _) (processAcStatus_sim h l) _ _ _)
    · by_cases h2 : a.st = .CONNECTED
      · simp only [h2, if_true, reduceCtorEq, if_false]
        exact processAcStatus_sim h l
      · simp only [h1, h2, if_false]
        exact HRSim.ret h _ _
  -- AC timer status
  · rename_i l
    by_cases h1 : a.st = .INIT_AC_TIMER_STATUS
    · simp only [h1, if_true]
      exact andThen_sim' (processAcTimer_sim h l)
        (late (by simp [earlySt, h1]) (sameCtl_processAcTimer _ _) (sameCtl_processAcTimer _ _) (processAcTimer_sim h l) _ _ _)
    · by_cases h2 : a.st = .CONNECTED
      · simp only [h2, if_true, reduceCtorEq, if_false]
        exact processAcTimer_sim h l
      · simp only [h1, h2, if_false]
        exact HRSim.ret h _ _
  -- AC timer control (a subclass of the status message)
  · rename_i c
    by_cases h1 : a.st = .INIT_AC_TIMER_STATUS
    · simp only [h1, if_true]
      exact andThen_sim' (processAcTimer_sim h _)
        (late (by simp [earlySt, h1]) (sameCtl_processAcTimer _ _) (sameCtl_processAcTimer _ _) (processAcTimer_sim h _) _ _ _)
    · by_cases h2 : a.st = .CONNECTED
      · simp only [h2, if_true, reduceCtorEq, if_false]
        exact processAcTimer_sim h _
      · simp only [h1, h2, if_false]
        exact HRSim.ret h _ _
  -- zone status
  · rename_i l
    by_cases h1 : a.st = .INIT_ZONE_STATUS
    · simp only [h1, if_true]
      have hv := h.version_of_late (by simp [earlySt, h1])
      have hz := processZoneStatus_sim h l
      refine andThen_sim' hz (finishInit_sim hz.s ?_).1
      rw [(sameCtl_processZoneStatus l a).consoleVersion, (sameCtl_processZoneStatus l b).consoleVersion]; exact hv
    · by_cases h2 : a.st = .CONNECTED
      · simp only [h2, if_true, reduceCtorEq, if_false]
        exact processZoneStatus_sim h l
      · simp only [h1, h2, if_false]
        exact HRSim.ret h _ _
  -- zone status request echoed
  · by_cases h1 : a.st = .INIT_ZONE_STATUS
    · have hv := h.version_of_late (by simp [earlySt, h1])
      simp only [h1]
      split
      · exact (finishInit_sim h hv).1
      · exact HRSim.ret h _ _
    · simp only [h1, and_false, Bool.and_false, if_false]
      first | exact HRSim.ret h _ _ | (split <;> first | exact HRSim.ret h _ _ | simp_all)
  -- error information
  · exact processErrInfo_sim h _
  · exact HRSim.ret h _ _

/-- set the state machine to an early state (`CLOSED`, `CONNECTING`, `INIT_VERSION`) -/
theorem FreshSimG.setEarly {k : Bool} {a b : State} (h : FreshSimG k a b) (f : State → State)
    (hc : ∀ s, coreOf (f s) = coreOf (f (coreOf s))) (hhb : ∀ s, (f s).hb = s.hb)
    (hv : ∀ s, (f s).consoleVersion = s.consoleVersion) (he : earlySt (f a).st) : FreshSimG k (f a) (f b) :=
  h.mapSt f hc hhb hv (h.version.elim .inl (fun hk => .inr ⟨hk.1, he⟩))

theorem handleConnection_sim {k : Bool} {a b : State} (h : FreshSimG k a b) (up : Bool) :
    HRSim k (handleConnection a up) (handleConnection b up) := by
  have hst : b.st = a.st := h.st.symm
  unfold handleConnection
  simp only [hst]
  split
  · exact sendMsg_sim (h.setEarly (fun s => { s with st := .INIT_VERSION }) (fun _ => rfl) (fun _ => rfl) (fun _ => rfl)
      (.inr (.inr rfl))) _ _ _
  · split
    · exact andThen_sim (sendMsg_sim h _ _ _) (fun a' b' h' => sendMsg_sim h' _ _ _)
    · exact HRSim.ret h _ _

theorem excOut_sim {k : Bool} {ra rb : HR} (h : HRSim k ra rb) : excOut ra = excOut rb := by
  unfold excOut
  rw [h.out, h.exc]

theorem doInit_sim {k : Bool} {a b : State} (h : FreshSimG k a b) :
    (doInit a).2 = (doInit b).2 ∧ FreshSimG k (doInit a).1 (doInit b).1 := by
  have e : ∀ s, doInit s =
      if s.initialised = true then
        ({ s with st := .CONNECTING, sockSubscribed := true, sockOpen := true }, [.opened, .result "init True"])
      else ({ s with st := .CONNECTING, sockSubscribed := true, sockOpen := true
                     pendingInits := s.pendingInits ++ [s.now + initTimeout] }, [.opened]) := fun _ => rfl
  rw [e a, e b]
  by_cases hi : a.initialised = true
  · have hi' : b.initialised = true := by rw [← h.initialised]; exact hi
    rw [if_pos hi, if_pos hi']
    exact ⟨rfl, h.setEarly (fun s => { s with st := .CONNECTING, sockSubscribed := true, sockOpen := true })
      (fun _ => rfl) (fun _ => rfl) (fun _ => rfl) (.inr (.inl rfl))⟩
  · have hi' : ¬ b.initialised = true := by rw [← h.initialised]; exact hi
    rw [if_neg hi, if_neg hi']
    refine ⟨rfl, ?_⟩
    let f : State → State := fun s =>
      { s with st := .CONNECTING, sockSubscribed := true, sockOpen := true
               pendingInits := s.pendingInits ++ [s.now + initTimeout] }
    exact h.setEarly f (fun _ => rfl) (fun _ => rfl) (fun _ => rfl) (.inr (.inl rfl))

theorem doShutdown_sim {k : Bool} {a b : State} (h : FreshSimG k a b) :
    (doShutdown a).2 = (doShutdown b).2 ∧ FreshSimG k (doShutdown a).1 (doShutdown b).1 := by
  have e : ∀ s, doShutdown s =
      ({ (hbFeed (hbFeed s (.stop s.now)).1 (.conn false s.now)).1 with
          st := .CLOSED, initialised := false, sockOpen := false, zobjs := [], aobjs := [], zones := [], acs := [] },
       [.hbStop, .closed, .result "shutdown OK"]) := fun _ => rfl
  rw [e a, e b]
  refine ⟨rfl, ?_⟩
  have hn : b.now = a.now := h.now.symm
  rw [hn]
  have h2 := (hbFeed_sim (hbFeed_sim h (.stop a.now)).2 (.conn false a.now)).2
  let f : State → State := fun s =>
    { s with st := .CLOSED, initialised := false, sockOpen := false, zobjs := [], aobjs := [], zones := [], acs := [] }
  exact h2.setEarly f (fun _ => rfl) (fun _ => rfl) (fun _ => rfl) (.inl rfl)

theorem doConn_sim {k : Bool} {a b : State} (h : FreshSimG k a b) (up : Bool) :
    (doConn a up).2 = (doConn b up).2 ∧ FreshSimG k (doConn a up).1 (doConn b up).1 := by
  have e : ∀ s, doConn s up =
      if (hbFeed s (.conn up s.now)).1.sockSubscribed = true then
        ((handleConnection (hbFeed s (.conn up s.now)).1 up).s, excOut (handleConnection (hbFeed s (.conn up s.now)).1 up))
      else ((hbFeed s (.conn up s.now)).1, []) := fun _ => rfl
  rw [e a, e b]
  have hn : b.now = a.now := h.now.symm
  rw [hn]
  have h1 := (hbFeed_sim h (.conn up a.now)).2
  have hs : (hbFeed b (.conn up a.now)).1.sockSubscribed = (hbFeed a (.conn up a.now)).1.sockSubscribed :=
    h1.sockSubscribed.symm
  rw [hs]
  split
  · have := handleConnection_sim h1 up
    exact ⟨excOut_sim this, this.s⟩
  · exact ⟨rfl, h1⟩

theorem doMsg_sim {k : Bool} {a b : State} (h : FreshSimG k a b) (toAddr : Nat) (m : Msg) :
    (doMsg a toAddr m).2 = (doMsg b toAddr m).2 ∧ FreshSimG k (doMsg a toAddr m).1 (doMsg b toAddr m).1 := by
  unfold doMsg
  have hs : b.sockSubscribed = a.sockSubscribed := h.sockSubscribed.symm
  rw [hs]
  split
  · have hm := handleMessage_sim h toAddr m
    simp only
    split
    · have hn : (handleMessage b toAddr m).s.now = (handleMessage a toAddr m).s.now := hm.s.now.symm
      rw [hn]
      have := hbFeed_sim hm.s (.resp (handleMessage a toAddr m).s.now)
      exact ⟨by rw [excOut_sim hm, this.1], this.2⟩
    · exact ⟨by rw [excOut_sim hm], hm.s⟩
  · exact ⟨rfl, h⟩

theorem ac?_sim {k : Bool} {a b : State} (h : FreshSimG k a b) (id : Nat) : b.ac? id = a.ac? id := by
  simp only [State.ac?, State.acRef, ← h.acs, ← h.aobjs]

theorem zone?_sim {k : Bool} {a b : State} (h : FreshSimG k a b) (id : Nat) : b.zone? id = a.zone? id := by
  have e : b.zoneHasId id = a.zoneHasId id := by
    funext r; simp only [State.zoneHasId, ← h.zobjs]
  simp only [State.zone?, State.zoneRefOf, State.zoneList, e, ← h.acs, ← h.aobjs, ← h.zobjs]

theorem subTarget_sim {k : Bool} {a b : State} (h : FreshSimG k a b) (t : Target) (f : List Sub → List Sub) :
    (subTarget a t f).2 = (subTarget b t f).2 ∧ FreshSimG k (subTarget a t f).1 (subTarget b t f).1 := by
  unfold subTarget
  cases t with
  | «at» =>
    exact ⟨rfl, h.map (fun s => { s with subs := f s.subs }) (fun _ => rfl) (fun _ => rfl) (fun _ => rfl) (fun _ => rfl)⟩
  | ac id st =>
    simp only [ac?_sim h]
    split
    · exact ⟨rfl, h.setAc _ _⟩
    · exact ⟨rfl, h⟩
  | zone id =>
    simp only [zone?_sim h]
    split
    · exact ⟨rfl, h.setZone _ _⟩
    · exact ⟨rfl, h⟩

theorem doAdv_sim {k : Bool} {a b : State} (h : FreshSimG k a b) (n : Nat) :
    (doAdv a n).2 = (doAdv b n).2 ∧ FreshSimG k (doAdv a n).1 (doAdv b n).1 := by
  have key : ∀ (due : List Nat) (x y : State × List Out), x.2 = y.2 → FreshSimG k x.1 y.1 →
      let F := fun (acc : State × List Out) d =>
        ((hbFeed acc.1 (.finish d)).1, acc.2 ++ (hbFeed acc.1 (.finish d)).2 ++ [Out.result "init False"])
      (due.foldl F x).2 = (due.foldl F y).2 ∧ FreshSimG k (due.foldl F x).1 (due.foldl F y).1 := by
    intro due
    induction due with
    | nil => intro x y e hs; exact ⟨e, hs⟩
    | cons d due ih =>
      intro x y e hs
      simp only [List.foldl_cons]
      obtain ⟨o, hs'⟩ := hbFeed_sim hs (.finish d)
      exact ih _ _ (by simp only [e, o]) hs'
  have e : ∀ s, doAdv s n =
      (let r := (s.pendingInits.filter (· ≤ s.now + n)).foldl (fun (acc : State × List Out) d =>
          ((hbFeed acc.1 (.finish d)).1, acc.2 ++ (hbFeed acc.1 (.finish d)).2 ++ [Out.result "init False"])) (s, [])
       ({ (hbFeed r.1 (.finish (s.now + n))).1 with now := s.now + n, pendingInits := s.pendingInits.filter (s.now + n < ·) },
        r.2 ++ (hbFeed r.1 (.finish (s.now + n))).2)) := fun _ => rfl
  rw [e a, e b]
  have hn : b.now = a.now := h.now.symm
  have hp : b.pendingInits = a.pendingInits := h.pendingInits.symm
  rw [hn, hp]
  obtain ⟨k1, k2⟩ := key (a.pendingInits.filter (· ≤ a.now + n)) (a, []) (b, []) rfl h
  obtain ⟨o, k3⟩ := hbFeed_sim k2 (.finish (a.now + n))
  simp only at k1 k2 o k3 ⊢
  refine ⟨by rw [k1, o], ?_⟩
  let f : State → State := fun s => { s with now := a.now + n, pendingInits := a.pendingInits.filter (a.now + n < ·) }
  exact k3.map f (fun _ => rfl) (fun _ => rfl) (fun _ => rfl) (fun _ => rfl)

theorem acCall_sim {k : Bool} {a b : State} (h : FreshSimG k a b) (x : AcObj) (c : AcCall) :
    HRSim k (acCall a x c) (acCall b x c) := by
  cases c <;> simp only [acCall, sendAcControl, sendTimerControl, raise]
  all_goals (repeat' split)
  all_goals first
    | exact sendMsg_sim h _ _ _
    | exact HRSim.ret h _ _

theorem zoneCall_sim {k : Bool} {a b : State} (h : FreshSimG k a b) (z : ZoneObj) (c : ZoneCall) :
    HRSim k (zoneCall a z c) (zoneCall b z c) := by
  cases c <;> simp only [zoneCall, sendZoneControl, raise]
  all_goals (repeat' split)
  all_goals first
    | exact sendMsg_sim h _ _ _
    | exact HRSim.ret h _ _

theorem callOut_sim {k : Bool} {ra rb : HR} (h : HRSim k ra rb) : callOut ra = callOut rb := by
  unfold callOut; rw [h.out, h.exc]

theorem viewAt_sim {a b : State} (h : FreshSimG true a b) : viewAt a = viewAt b := by
  have hv : a.consoleVersion = b.consoleVersion := h.version.elim id (fun x => by simp at x)
  simp only [viewAt, State.airConditioners, ← h.acs, ← h.aobjs, ← h.zobjs, ← h.initialised, ← h.airtouchId, ← h.serial,
    ← h.name, ← h.host, hv]

/-- **the simulation**: related states, any op: equal outputs (for `view`: when the console versions agree) and related
successors -/
theorem apiStep_sim {k : Bool} {a b : State} (h : FreshSimG k a b) (op : Op) :
    FreshSimG k (apiStep a op).1 (apiStep b op).1 ∧
    ((k = true ∨ Op.isView op = false) → (apiStep a op).2 = (apiStep b op).2) := by
  cases op with
  | init => exact ⟨(doInit_sim h).2, fun _ => (doInit_sim h).1⟩
  | shutdown => exact ⟨(doShutdown_sim h).2, fun _ => (doShutdown_sim h).1⟩
  | conn up => exact ⟨(doConn_sim h up).2, fun _ => (doConn_sim h up).1⟩
  | msg toAddr m => exact ⟨(doMsg_sim h toAddr m).2, fun _ => (doMsg_sim h toAddr m).1⟩
  | undecodable cls => exact ⟨h, fun _ => rfl⟩
  | callAt =>
    have := sendMsg_sim h .idempotent msgConsoleVersionRequest false
    exact ⟨this.s, fun _ => callOut_sim this⟩
  | callAc id c =>
    simp only [apiStep, ac?_sim h]
    split
    · have := acCall_sim h ‹_› c
      exact ⟨this.s, fun _ => callOut_sim this⟩
    · exact ⟨h, fun _ => rfl⟩
  | callZone id c =>
    simp only [apiStep, zone?_sim h]
    split
    · have := zoneCall_sim h ‹_› c
      exact ⟨this.s, fun _ => callOut_sim this⟩
    · exact ⟨h, fun _ => rfl⟩
  | sub t sid r => exact ⟨(subTarget_sim h t _).2, fun _ => (subTarget_sim h t _).1⟩
  | unsub t sid => exact ⟨(subTarget_sim h t _).2, fun _ => (subTarget_sim h t _).1⟩
  | adv n => exact ⟨(doAdv_sim h n).2, fun _ => (doAdv_sim h n).1⟩
  | view =>
    have hs : (apiStep a .view).1 = a ∧ (apiStep b .view).1 = b := by
      simp only [apiStep]; constructor <;> split <;> rfl
    refine ⟨by rw [hs.1, hs.2]; exact h, ?_⟩
    intro hk
    rcases hk with rfl | hk
    · simp only [apiStep, viewAt_sim h]
      split <;> rfl
    · cases hk

/-! ### sequences of ops -/

/-- strict ⇒ lax; and in a late state lax ⇒ strict -/
theorem FreshSimG.weaken {k : Bool} {a b : State} (h : FreshSimG true a b) : FreshSimG k a b :=
  ⟨h.core, h.hb, .inl (h.version.elim id (fun x => by simp at x))⟩

theorem FreshSimG.strict {k : Bool} {a b : State} (h : FreshSimG k a b) (hv : a.consoleVersion = b.consoleVersion) :
    FreshSimG true a b := ⟨h.core, h.hb, .inl hv⟩

theorem FreshSimG.strict_of_late {k : Bool} {a b : State} (h : FreshSimG k a b) (hl : ¬ earlySt a.st) :
    FreshSimG true a b := h.strict (h.version_of_late hl)

/-- related states, any list of ops (no `view` unless the console versions agree): equal outputs op by op, related
final states -/
theorem run_sim {k : Bool} {a b : State} (h : FreshSimG k a b) (ops : List Op)
    (hv : k = true ∨ ∀ op ∈ ops, Op.isView op = false) :
    (Api5.run a ops).2 = (Api5.run b ops).2 ∧ FreshSimG k (runS a ops) (runS b ops) := by
  induction ops generalizing a b with
  | nil => exact ⟨rfl, h⟩
  | cons op ops ih =>
    obtain ⟨h1, h2⟩ := apiStep_sim h op
    have h2' := h2 (hv.imp id (fun f => f op (by simp)))
    obtain ⟨g1, g2⟩ := ih h1 (hv.imp id (fun f o ho => f o (by simp [ho])))
    refine ⟨?_, g2⟩
    simp only [Api5.run]
    rw [h2']
    have e1 : (Api5.run (apiStep a op).1 ops).2 = (Api5.run (apiStep b op).1 ops).2 := g1
    rw [e1]

/-- first ops without `view` that bring the handshake beyond its first answer, then anything: equal outputs throughout -/
theorem run_sim_then {a b : State} (h : FreshSimG false a b) (ops1 ops2 : List Op)
    (hv : ∀ op ∈ ops1, Op.isView op = false) (hl : ¬ earlySt (runS a ops1).st) :
    (Api5.run a ops1).2 = (Api5.run b ops1).2 ∧
    (Api5.run (runS a ops1) ops2).2 = (Api5.run (runS b ops1) ops2).2 ∧
    FreshSimG true (runS a (ops1 ++ ops2)) (runS b (ops1 ++ ops2)) := by
  obtain ⟨o1, s1⟩ := run_sim h ops1 (.inr hv)
  obtain ⟨o2, s2⟩ := run_sim (s1.strict_of_late hl) ops2 (.inl rfl)
  refine ⟨o1, o2, ?_⟩
  rw [runS_append, runS_append]
  exact s2

/-! ### `init()` after `shutdown()` -/

/-- a fresh object with the identity of `c`, on which as much time has passed, with the same AirTouch-level subscribers
(and the same `init()` callers still waiting, the same socket flag) -/
def freshAt (c : State) : State :=
  { State.new c.airtouchId c.serial c.name c.host with
    subs := c.subs, now := c.now, pendingInits := c.pendingInits
    hb := { Heartbeat.init Api5.heartbeatInterval Api5.heartbeatTimeout with now := c.hb.now, connected := c.hb.connected } }

/-- **`init()` on an object that was shut down behaves as on a fresh object** -/
theorem reinit_as_fresh {c : State} (h : Closed c) (hi : c.hb.interval = Api5.heartbeatInterval)
    (ht : c.hb.timeout = Api5.heartbeatTimeout) :
    (apiStep c .init).2 = [.opened] ∧ (apiStep (freshAt c) .init).2 = [.opened] ∧
    FreshSim (apiStep c .init).1 (apiStep (freshAt c) .init).1 := by
  have e1 : apiStep c .init = doInit { c with sockSubscribed := true } := rfl
  have e2 : apiStep (freshAt c) .init = doInit { freshAt c with sockSubscribed := true } := rfl
  have hs : FreshSimG false { c with sockSubscribed := true } { freshAt c with sockSubscribed := true } := by
    rw [freshSim_iff]
    refine ⟨⟨rfl, rfl, rfl, rfl, h.st, h.zobjs, h.aobjs, h.zones, h.acs, rfl, h.ninit, rfl, h.sockOpen, rfl, rfl⟩, ?_, ?_⟩
    · exact ⟨rfl, hi, ht, h.idle.1, h.idle.2, rfl, fun hn => absurd h.idle.1 hn, fun hr => by rw [h.idle.1] at hr; cases hr⟩
    · exact .inr ⟨rfl, .inl h.st⟩
  obtain ⟨o, s⟩ := doInit_sim hs
  rw [e1, e2]
  refine ⟨?_, ?_, s⟩
  · simp [doInit, h.ninit]
  · simp [doInit, freshAt, State.new]

/-! ### invariants of the embedded heartbeat manager under every op -/

/-- a property of the heartbeat manager preserved by every feed at a time up to now is preserved by the frame handler -/
theorem handleMessage_hbInv (P : HB → Prop) (s : State)
    (hP : ∀ (x : State) i, i.time ≤ s.now → P x.hb → P (hbFeed x i).1.hb)
    (toAddr : Nat) (m : Msg) (h : P s.hb) : P (handleMessage s toAddr m).s.hb := by
  have fin : ∀ x : State, x.now = s.now → P x.hb → P (finishInit x).s.hb := by
    intro x hn hx
    rw [finishInit_eq]
    show P (hbFeed { x with st := .CONNECTED } (.start x.now)).1.hb
    exact hP { x with st := .CONNECTED } _ (by simp [HIn.time, hn]) hx
  have same : ∀ {x : State}, SameCtl s x → P x.hb := fun hx => by rw [hx.hb]; exact h
  have andT : ∀ (r : HR) (f : State → HR), P r.s.hb → (∀ x, x = r.s → P (f x).s.hb) → P (r.andThen f).s.hb := by
    intro r f h1 h2
    rcases andThen_s r f with e | ⟨_, e⟩ <;> rw [e]
    · exact h1
    · exact h2 _ rfl
  unfold handleMessage
  dsimp only
  split
  all_goals (repeat' split)
  all_goals first
    | exact h
    | (rw [sendMsg_s]; exact h)
    | exact same (sameCtl_processAcStatus _ _)
    | exact same (sameCtl_processAcTimer _ _)
    | exact same (sameCtl_processZoneStatus _ _)
    | exact same (sameCtl_processErrInfo _ _)
    | exact fin _ rfl h
    | (rw [sendMsg_s]; exact same (x := processZoneNames _ s) (sameCtl_processZoneNames _ _))
    | (refine andT _ _ (same (sameCtl_processAcAbility _ _)) ?_; intro x hx; rw [sendMsg_s, hx]
       exact same (x := (processAcAbility _ s).s) (sameCtl_processAcAbility _ _))
    | (refine andT _ _ (same (sameCtl_processAcStatus _ _)) ?_; intro x hx; rw [sendMsg_s, hx]
       exact same (x := (processAcStatus _ s).s) (sameCtl_processAcStatus _ _))
    | (refine andT _ _ (same (sameCtl_processAcTimer _ _)) ?_; intro x hx; rw [sendMsg_s, hx]
       exact same (x := (processAcTimer _ s).s) (sameCtl_processAcTimer _ _))
    | (refine andT _ _ (same (sameCtl_processZoneStatus _ _)) ?_; intro x hx; rw [hx]
       exact fin _ (sameCtl_processZoneStatus _ _).now (same (sameCtl_processZoneStatus _ _)))
    | (unfold processConsoleVersionUpdate; split <;> exact h)

theorem handleMessage_now (s : State) (toAddr : Nat) (m : Msg) : (handleMessage s toAddr m).s.now = s.now :=
  (handleMessage_mono s toAddr m).now

theorem handleConnection_hb (s : State) (up : Bool) :
    (handleConnection s up).s.hb = s.hb ∧ (handleConnection s up).s.now = s.now := by
  unfold handleConnection
  repeat' split
  all_goals first
    | exact ⟨rfl, rfl⟩
    | (rw [sendMsg_s]; exact ⟨rfl, rfl⟩)
    | (rcases andThen_s (sendMsg s .connected msgAcStatusRequest) (fun s => sendMsg s .connected msgZoneStatusRequest)
         with e | ⟨_, e⟩ <;> rw [e] <;> simp [sendMsg_s])

theorem subTarget_hb (s : State) (t : Target) (f : List Sub → List Sub) :
    (subTarget s t f).1.hb = s.hb ∧ (subTarget s t f).1.now = s.now := by
  unfold subTarget
  repeat' split
  all_goals exact ⟨rfl, rfl⟩

/-- **invariants of the embedded heartbeat manager**: a time-indexed property that is monotone in the time bound and
preserved by every feed at a time up to the bound is preserved by every op of the API -/
theorem apiStep_hbInv (P : Nat → HB → Prop) (mono : ∀ T T' h, T ≤ T' → P T h → P T' h)
    (hP : ∀ T (x : State) i, i.time ≤ T → P T x.hb → P T (hbFeed x i).1.hb)
    (s : State) (op : Op) (h : P s.now s.hb) : P (apiStep s op).1.now (apiStep s op).1.hb := by
  cases op with
  | init =>
    have e : (apiStep s .init).1.hb = s.hb ∧ (apiStep s .init).1.now = s.now := by
      simp only [apiStep, doInit]; split <;> simp
    rw [e.1, e.2]; exact h
  | shutdown =>
    show P s.now (hbFeed (hbFeed s (.stop s.now)).1 (.conn false s.now)).1.hb
    exact hP _ _ _ (Nat.le_refl _) (hP _ _ _ (Nat.le_refl _) h)
  | conn up =>
    have h1 : P s.now (hbFeed s (.conn up s.now)).1.hb := hP _ _ _ (Nat.le_refl _) h
    have e : apiStep s (.conn up) =
        if (hbFeed s (.conn up s.now)).1.sockSubscribed = true then
          ((handleConnection (hbFeed s (.conn up s.now)).1 up).s, excOut (handleConnection (hbFeed s (.conn up s.now)).1 up))
        else ((hbFeed s (.conn up s.now)).1, []) := rfl
    rw [e]
    split
    · simp only [(handleConnection_hb _ up).1, (handleConnection_hb _ up).2]; exact h1
    · exact h1
  | msg toAddr m =>
    simp only [apiStep, doMsg]
    split
    · have h1 : P s.now (handleMessage s toAddr m).s.hb :=
        handleMessage_hbInv (P s.now) s (fun x i hi hx => hP s.now x i hi hx) toAddr m h
      have hn := handleMessage_now s toAddr m
      split
      · show P (handleMessage s toAddr m).s.now (hbFeed (handleMessage s toAddr m).s (.resp (handleMessage s toAddr m).s.now)).1.hb
        rw [hn]
        exact hP _ _ _ (Nat.le_refl _) h1
      · show P (handleMessage s toAddr m).s.now (handleMessage s toAddr m).s.hb
        rw [hn]; exact h1
    · exact h
  | undecodable cls => exact h
  | callAt => simp only [apiStep, sendMsg_s]; exact h
  | callAc id c =>
    simp only [apiStep]
    split
    · rename_i a _
      have : SameCtl s (acCall s a c).s := by
        cases c <;> simp only [acCall, sendAcControl, sendTimerControl, raise]
        all_goals (repeat' split)
        all_goals first | exact sameCtl_sendMsg _ _ _ _ | exact SameCtl.refl s
      show P (acCall s a c).s.now (acCall s a c).s.hb
      rw [this.now, this.hb]; exact h
    · exact h
  | callZone id c =>
    simp only [apiStep]
    split
    · rename_i z _
      have : SameCtl s (zoneCall s z c).s := by
        cases c <;> simp only [zoneCall, sendZoneControl, raise]
        all_goals (repeat' split)
        all_goals first | exact sameCtl_sendMsg _ _ _ _ | exact SameCtl.refl s
      show P (zoneCall s z c).s.now (zoneCall s z c).s.hb
      rw [this.now, this.hb]; exact h
    · exact h
  | sub t sid r =>
    show P (subTarget s t _).1.now (subTarget s t _).1.hb
    rw [(subTarget_hb s t _).1, (subTarget_hb s t _).2]; exact h
  | unsub t sid =>
    show P (subTarget s t _).1.now (subTarget s t _).1.hb
    rw [(subTarget_hb s t _).1, (subTarget_hb s t _).2]; exact h
  | adv n =>
    have h0 : P (s.now + n) s.hb := mono _ _ _ (Nat.le_add_right _ _) h
    have key : ∀ (due : List Nat) (acc : State × List Out), (∀ d ∈ due, d ≤ s.now + n) → P (s.now + n) acc.1.hb →
        P (s.now + n) (due.foldl (fun (acc : State × List Out) d =>
          ((hbFeed acc.1 (.finish d)).1, acc.2 ++ (hbFeed acc.1 (.finish d)).2 ++ [Out.result "init False"])) acc).1.hb := by
      intro due
      induction due with
      | nil => intro acc _ h; exact h
      | cons d due ih =>
        intro acc hd h
        simp only [List.foldl_cons]
        exact ih _ (fun d' hd' => hd d' (by simp [hd'])) (hP _ _ _ (by simpa [HIn.time] using hd d (by simp)) h)
    have k1 := key (s.pendingInits.filter (· ≤ s.now + n)) (s, []) (by intro d hd; simpa using (List.mem_filter.1 hd).2) h0
    show P (s.now + n) (hbFeed _ (.finish (s.now + n))).1.hb
    exact hP _ _ _ (Nat.le_refl _) k1
  | view =>
    have e : (apiStep s .view).1 = s := by simp only [apiStep]; split <;> rfl
    rw [e]; exact h

/-- the parameters of the heartbeat manager are those of the constructor, for ever -/
theorem apiStep_hb_params (s : State) (op : Op) :
    (apiStep s op).1.hb.interval = s.hb.interval ∧ (apiStep s op).1.hb.timeout = s.hb.timeout :=
  apiStep_hbInv (fun _ h => h.interval = s.hb.interval ∧ h.timeout = s.hb.timeout) (fun _ _ _ _ h => h)
    (fun _ x i _ hx => ⟨(hbFeed_hb_params x i).1.trans hx.1, (hbFeed_hb_params x i).2.trans hx.2⟩) s op ⟨rfl, rfl⟩

/-- the embedded clock never runs ahead of the API's clock -/
theorem apiStep_hb_now_le (s : State) (op : Op) (h : s.hb.now ≤ s.now) : (apiStep s op).1.hb.now ≤ (apiStep s op).1.now :=
  apiStep_hbInv (fun T h => h.now ≤ T) (fun _ _ _ hT h => Nat.le_trans h hT)
    (fun _ x i hi hx => feed_now_le 0 _ i hx hi) s op h

/-- the invariants that make an object "well formed": they hold in a new object and are preserved by every op -/
structure HbWf (s : State) : Prop where
  interval : s.hb.interval = Api5.heartbeatInterval
  timeout : s.hb.timeout = Api5.heartbeatTimeout
  now_le : s.hb.now ≤ s.now

theorem hbWf_new (a b c d : Bytes) : HbWf (State.new a b c d) := ⟨rfl, rfl, Nat.le_refl _⟩

theorem hbWf_step {s : State} (h : HbWf s) (op : Op) : HbWf (apiStep s op).1 :=
  ⟨(apiStep_hb_params s op).1.trans h.interval, (apiStep_hb_params s op).2.trans h.timeout, apiStep_hb_now_le s op h.now_le⟩

theorem hbWf_run {s : State} (h : HbWf s) (ops : List Op) : HbWf (runS s ops) := by
  induction ops generalizing s with
  | nil => exact h
  | cons op ops ih => exact ih (hbWf_step h op)

theorem feed_conn_idle_now (rt : Nat) (h : HB) (up : Bool) (t : Nat) (hi : HbIdle h) (hn : h.now ≤ t) :
    (feed rt h (.conn up t)).now = t := by
  unfold feed
  simp only [HIn.time]
  rw [settle_idle _ _ _ _ _ hi]
  have : apply! h (.advance t) = { h with now := t } := by
    simp [apply!, step, hi.1, hi.2, hn]
  rw [this, apply_conn]

/-- after `shutdown()` of a well-formed object the stopped heartbeat manager's clock shows the time of the shutdown -/
theorem doShutdown_hb_now {s : State} (h : s.hb.now ≤ s.now) : (apiStep s .shutdown).1.hb.now = s.now := by
  show (hbFeed (hbFeed s (.stop s.now)).1 (.conn false s.now)).1.hb.now = s.now
  have h1 : HbIdle (hbFeed s (.stop s.now)).1.hb := feed_stop_idle 0 _ _
  have h2 : (hbFeed s (.stop s.now)).1.hb.now ≤ s.now := feed_now_le 0 _ _ h (Nat.le_refl _)
  exact feed_conn_idle_now 0 _ false s.now h1 h2

/-- time passing on a new object -/
theorem new_adv (a b c d : Bytes) (n : Nat) :
    apiStep (State.new a b c d) (.adv n) =
      ({ State.new a b c d with now := n
                                hb := { Heartbeat.init Api5.heartbeatInterval Api5.heartbeatTimeout with now := n } }, []) := by
  have e : ∀ t, feed 0 (Heartbeat.init Api5.heartbeatInterval Api5.heartbeatTimeout) (.finish t) =
      { Heartbeat.init Api5.heartbeatInterval Api5.heartbeatTimeout with now := t } := by
    intro t
    have hi : HbIdle (Heartbeat.init Api5.heartbeatInterval Api5.heartbeatTimeout) := ⟨rfl, rfl⟩
    unfold feed
    simp only [HIn.time]
    rw [settle_idle _ _ _ _ _ hi]
    have : apply! (Heartbeat.init Api5.heartbeatInterval Api5.heartbeatTimeout) (.advance t) =
        { Heartbeat.init Api5.heartbeatInterval Api5.heartbeatTimeout with now := t } := by
      simp [apply!, step, Heartbeat.init]
    rw [this]
    exact settle_idle _ _ _ _ _ ⟨rfl, rfl⟩
  simp only [apiStep, doAdv, State.new, List.filter_nil, List.foldl_nil, hbFeed, Nat.zero_add]
  have e' := e n
  simp only [Heartbeat.init] at e' ⊢
  rw [e']
  rfl

/-- the comparator of `reinit_as_fresh` is a new object on which the clock was advanced (when `shutdown()` left no
`init()` caller waiting and nobody subscribed at the AirTouch level; such subscribers are simply carried over) -/
theorem freshAt_is_new_adv {c : State} (hs : c.subs = []) (hp : c.pendingInits = []) (hn : c.hb.now = c.now)
    (hc : c.hb.connected = false) :
    freshAt c = (apiStep (State.new c.airtouchId c.serial c.name c.host) (.adv c.now)).1 := by
  rw [new_adv]
  simp only [freshAt, hs, hp, hn, hc, State.new, Heartbeat.init]

end PyAirtouch.Lemmas.Api5
