import PyAirtouch.Lemmas.SockLoss
/-!
# Retries are only spent on real failures (C02, last clause)

`_drain_message_queue` returns at the top of an iteration when the writer is closing, so:

* part A (`noDW_reachable`): no `deadWrite` event is ever produced - every write attempt is made on a transport
  that is open at that moment (`doWrite_of_live`: the outcome is a frame or a write fault; `drainLoop_not_raised`:
  the `except OSError` arm is only reached through a failing `drain()`);
* part B (`rinv_reachableWF`): the retries a message has used up never exceed the number of transports that have
  gone down (`down`); under the discipline `gentle` (no `close()` / `reset_connection()`, readers only woken with an
  error on a transport that is already down, blocked tasks resumed before the next connection comes up) the number
  of transports that have gone down is bounded by the number of fault labels (`score_runG`); hence
  `kept_single_fault`;
* part C (`QRel`, `run_qrel`): re-queued entries go to the front, accepted ones to the back, nothing else moves.
-/
namespace PyAirtouch.Lemmas.SockRetry
open PyAirtouch.Model.Sock PyAirtouch.Spec.Trace PyAirtouch.Lemmas.Sock PyAirtouch.Lemmas.SockConn
open PyAirtouch.Lemmas.SockHeal (isLiveAt isLiveAt_iff Mono rwValid rwValid_shrink hinv1_reachable mem_upd mem_spawnApi)

/-! ### writing on an open transport -/

theorem live_cases {c : Core} {w : Nat} (hl : (c.conns[w]?.map ConnSt.isLive).getD false = true) :
    ∃ p f, c.conns[w]? = some (.live p f) := by
  cases h : c.conns[w]? with
  | none => simp [h] at hl
  | some x =>
    cases x with
    | live p f => exact ⟨p, f, rfl⟩
    | dying e => simp [h, ConnSt.isLive] at hl
    | dead e => simp [h, ConnSt.isLive] at hl

/-- `_write` on an open transport: a whole frame (then `drain()` returns at once or blocks), or a write fault that
    takes the transport down (then `drain()` blocks until `connection_lost` has run) -/
theorem doWrite_of_live {c : Core} {w : Nat} (e : Entry) (hl : (c.conns[w]?.map ConnSt.isLive).getD false = true) :
    doWrite c w e = (c.emit (.wire w e.sid c.now), .cont) ∨
    doWrite c w e = (c.emit (.wire w e.sid c.now), .suspend) ∨
    ((∃ p, c.conns[w]? = some (.live p true)) ∧
      doWrite c w e = (({ c with conns := c.conns.set w (.dying true) }.emit (.writeFault w e.sid c.now)).emit (.lost w c.now),
        .suspend)) := by
  obtain ⟨p, f, hpf⟩ := live_cases hl
  cases f with
  | false => cases p <;> simp [doWrite, hpf]
  | true => exact .inr (.inr ⟨⟨p, hpf⟩, by simp [doWrite, hpf]⟩)

/-- the drain loop never takes the `except OSError` arm directly: a write on an open transport does not raise -/
theorem drainLoop_not_raised (w : Nat) : ∀ (q : List Entry) (c : Core) (e : Entry), (drainLoop c w q).2 ≠ .raised e := by
  intro q
  induction q with
  | nil => intro c e h; simp [drainLoop] at h
  | cons x rest ih =>
    intro c e
    unfold drainLoop
    split
    · intro h; cases h
    split
    · exact ih _ e
    split
    · exact ih _ e
    rename_i hl _ _
    rcases doWrite_of_live x (by simpa using hl) with hw | hw | ⟨_, hw⟩ <;> rw [hw]
    · exact ih _ e
    · intro h; cases h
    · intro h; cases h

theorem drainLoop_not_raised' {c c' : Core} {w : Nat} {q : List Entry} {e : Entry} :
    drainLoop c w q ≠ (c', .raised e) := by
  intro h
  exact drainLoop_not_raised w q c e (by rw [h])

/-! ### part A: no write on a lost connection -/

def notDW : Ev → Bool
  | .deadWrite .. => false
  | _ => true

/-- the trace contains no write to a transport that was closing or lost -/
def NoDW (c : Core) : Prop := ∀ ev ∈ c.trace, notDW ev = true

theorem NoDW.of_trace_eq {c c' : Core} (h : NoDW c) (ht : c'.trace = c.trace) : NoDW c' := by
  intro ev hev; rw [ht] at hev; exact h ev hev

theorem NoDW.append {c c' : Core} (h : NoDW c) (evs : List Ev) (ht : c'.trace = c.trace ++ evs)
    (he : ∀ ev ∈ evs, notDW ev = true) : NoDW c' := by
  intro ev hev
  rw [ht] at hev
  rcases List.mem_append.1 hev with hev | hev
  · exact h ev hev
  · exact he ev hev

theorem NoDW.emit {c : Core} (h : NoDW c) {e : Ev} (he : notDW e = true) : NoDW (c.emit e) :=
  h.append [e] rfl (fun ev hev => by rw [List.mem_singleton.1 hev]; exact he)

theorem noDW_drainLoop (w : Nat) : ∀ (q : List Entry) {c : Core}, NoDW c → NoDW (drainLoop c w q).1 := by
  intro q
  induction q with
  | nil => intro c h; exact h.of_trace_eq rfl
  | cons x rest ih =>
    intro c h
    unfold drainLoop
    split
    · exact h.of_trace_eq rfl
    split
    · exact ih (h.emit rfl)
    split
    · exact ih (h.emit rfl)
    rename_i hl _ _
    rcases doWrite_of_live x (by simpa using hl) with hw | hw | ⟨_, hw⟩ <;> rw [hw]
    · exact ih (h.emit rfl)
    · exact (h.emit (e := .wire w x.sid c.now) rfl).of_trace_eq rfl
    · exact ((NoDW.of_trace_eq (c' := { c with conns := c.conns.set w (.dying true) }) h rfl).emit
        (e := .writeFault w x.sid c.now) rfl).emit (e := .lost w c.now) rfl |>.of_trace_eq rfl

theorem noDW_drainLoop' {c c' : Core} {w : Nat} {q : List Entry} {st : DrainStop} (h : NoDW c)
    (hd : drainLoop c w q = (c', st)) : NoDW c' := by
  have := noDW_drainLoop w q h; rw [hd] at this; exact this

theorem noDW_requeue {c : Core} (h : NoDW c) (e : Entry) : NoDW (requeue c e) := by
  unfold requeue; split
  · exact h.emit rfl
  · exact h.of_trace_eq rfl

theorem noDW_closeConn {c : Core} (h : NoDW c) (w : Nat) : NoDW (closeConn c w) := by
  unfold closeConn; split
  · exact (NoDW.of_trace_eq (c' := { c with conns := c.conns.set w (.dying false) }) h rfl).emit
      (e := .clientClose w c.now) rfl
  · exact h

theorem noDW_exec (fuel : Nat) (c : Core) (sp : List Pc) (k : Kont) (h : NoDW c) : NoDW (exec fuel c sp k).core := by
  fun_induction exec fuel c sp k
  case case4 c' hd ih => exact ih (noDW_drainLoop' h hd)
  case case5 c' e hd => exact noDW_drainLoop' h hd
  case case6 c' e hd ih => exact ih (noDW_requeue (noDW_drainLoop' h hd) e)
  case case7 => exact noDW_closeConn h _
  case case9 fuel c sp r =>
    exact (NoDW.of_trace_eq (c' := { c with isConnected := false, rw := none }) h rfl).emit rfl
  case case12 => exact h.emit rfl
  all_goals first | exact h | (rename_i ih; exact ih h)

theorem execCase_noDW {s : Sys} {pc : Pc} {c0 : Core} {kont : Kont} (h : ExecCase s pc c0 kont)
    (hm : NoDW s.core) : NoDW c0 := by
  cases h <;> first | exact hm | exact noDW_requeue hm _

theorem noDW_step {s s' : Sys} {l : Label} (ho : NoDW s.core) (h : step s l = some s') : NoDW s'.core := by
  cases l with
  | advance t =>
    simp only [step] at h
    split at h <;> cases h
    exact ho.of_trace_eq rfl
  | envLost cid =>
    simp only [step] at h
    split at h <;> cases h
    exact (NoDW.of_trace_eq (c' := { s.core with conns := s.core.conns.set cid (.dying true) }) ho rfl).emit rfl
  | envLostRan cid =>
    simp only [step] at h
    split at h <;> cases h
    exact ho.of_trace_eq rfl
  | envPause cid b =>
    simp only [step] at h
    split at h <;> cases h
    exact ho.of_trace_eq rfl
  | envFailWrites cid b =>
    simp only [step] at h
    split at h <;> cases h
    exact ho.of_trace_eq rfl
  | apiOpen =>
    simp only [step] at h
    split at h <;> (cases h; exact (ho.emit (e := .apiOpen s.core.now) rfl).of_trace_eq rfl)
  | apiClose =>
    simp only [step] at h
    have h1 : NoDW (s.core.emit (.apiClose s.core.now)) := ho.emit rfl
    split at h
    · cases h; exact h1.emit rfl
    · split at h
      · cases h; exact h1.of_trace_eq rfl
      · cases h
        exact noDW_exec _ _ _ _ (h1.of_trace_eq (c' := { s.core.emit (.apiClose s.core.now) with isOpen := false }) rfl)
  | apiReset =>
    simp only [step] at h
    cases h
    exact noDW_exec _ _ _ _ (ho.emit rfl)
  | apiSend sid retries life encOk =>
    simp only [step] at h
    split at h
    · cases h; exact ho.emit rfl
    · have hp : ∀ e ∈ purgeEvents s.core.now s.core.queue, notDW e = true := by
        intro e he
        simp only [purgeEvents, List.mem_map] at he
        obtain ⟨_, _, rfl⟩ := he; rfl
      split at h
      · cases h
        exact (ho.append _ (c' := { s.core with queue := purged s.core.now s.core.queue, trace := s.core.trace ++ purgeEvents s.core.now s.core.queue }) rfl hp).emit rfl
      · cases h
        refine noDW_exec _ _ _ _ (NoDW.emit ?_ rfl)
        exact ho.append _ (c' := { s.core with queue := purged s.core.now s.core.queue ++ [⟨sid, retries, s.core.now + life, encOk, false⟩], trace := s.core.trace ++ purgeEvents s.core.now s.core.queue }) rfl hp
  | run t a =>
    cases step_run_cases h with
    | exec k0 pc c0 kont hk0 hpc hcase => exact noDW_exec _ _ _ _ (execCase_noDW hcase ho)
    | connect k0 hk0 hpc =>
      show NoDW (connectBlock s.core).core
      unfold connectBlock; split
      · exact ho
      · exact (NoDW.of_trace_eq (c' := { s.core with connecting := true }) ho rfl).emit rfl
    | openOk k0 hk0 hpc =>
      have h1 : NoDW (s.core.emit (.opened s.core.conns.length s.core.now)) := ho.emit rfl
      exact (NoDW.emit (c := { (s.core.emit (.opened s.core.conns.length s.core.now)) with
        conns := s.core.conns ++ [ConnSt.live false false], rw := some s.core.conns.length, connecting := false,
        isConnected := true }) (h1.of_trace_eq rfl) (e := .notify true s.core.now) rfl).of_trace_eq rfl
    | openRefused k0 hk0 hpc =>
      exact (NoDW.of_trace_eq (c' := { s.core with connecting := false }) ho rfl).emit rfl
    | cancelled k0 hk0 hpc => exact ho.of_trace_eq rfl
    | readMsg k0 c tag hk0 hpc => exact ho.emit rfl
    | readEof k0 c hk0 hpc => exact ho

/-- no write attempt is ever made on a transport that is closing or lost -/
theorem noDW_reachable {s : Sys} (h : Reachable s) : NoDW s.core :=
  Reachable.induction (P := fun s => NoDW s.core) (fun _ hev => by simp [init] at hev)
    (fun _ _ _ _ hp hst => noDW_step hp hst) s h

/-! ### part B: retries are spent on transports that went down -/

def lv (l : List ConnSt) (i : Nat) : Bool := (l[i]?.map ConnSt.isLive).getD false
def dn (l : List ConnSt) : Nat := l.countP (fun x => !x.isLive)

theorem lv_none {l : List ConnSt} {i : Nat} (h : l.length ≤ i) : lv l i = false := by
  simp [lv, List.getElem?_eq_none h]

theorem dn_lv_mono : ∀ (l l' : List ConnSt), l.length ≤ l'.length →
    (∀ i, i < l.length → lv l' i = true → lv l i = true) →
    ∀ w, dn l + (lv l w).toNat ≤ dn l' + (lv l' w).toNat := by
  intro l
  induction l with
  | nil => intro l' _ _ w; simp [dn, lv]
  | cons a l ih =>
    intro l' hlen hlive w
    cases l' with
    | nil => simp at hlen
    | cons a' l'' =>
      have h0 : a'.isLive = true → a.isLive = true := by simpa [lv] using hlive 0 (by simp)
      have htl : ∀ i, i < l.length → lv l'' i = true → lv l i = true := by
        intro i hi h
        have := hlive (i + 1) (by simpa using hi)
        simpa [lv] using this (by simpa [lv] using h)
      have hlen' : l.length ≤ l''.length := by simpa using hlen
      have hd := ih l'' hlen' htl l''.length
      rw [lv_none hlen', lv_none (Nat.le_refl _)] at hd
      simp only [Bool.toNat_false, Nat.add_zero] at hd
      cases w with
      | zero =>
        simp only [dn, lv, List.countP_cons, List.getElem?_cons_zero, Option.map_some, Option.getD_some] at hd ⊢
        cases ha : a.isLive <;> cases ha' : a'.isLive <;> simp_all <;> omega
      | succ w =>
        have hw := ih l'' hlen' htl w
        simp only [dn, lv, List.countP_cons, List.getElem?_cons_succ] at hw ⊢
        cases ha : a.isLive <;> cases ha' : a'.isLive <;> simp_all <;> omega

/-- the number of transports that are no longer open (closing or lost) -/
def down (c : Core) : Nat := dn c.conns

/-- … plus one if transport `w` is still open -/
def pot (c : Core) (w : Nat) : Nat := down c + (lv c.conns w).toNat

theorem pot_mono {c c' : Core} (h : Mono c c') (w : Nat) : pot c w ≤ pot c' w := by
  refine dn_lv_mono c.conns c'.conns h.len ?_ w
  intro i hi hl
  have := h.live i hi (by unfold liveAt; unfold lv at hl; revert hl; cases c'.conns[i]? <;> simp)
  unfold liveAt at this; simp [lv, this]

theorem down_mono {c c' : Core} (h : Mono c c') : down c ≤ down c' := by
  have := pot_mono h c'.conns.length
  unfold pot at this
  rw [lv_none h.len, lv_none (Nat.le_refl _)] at this
  simpa using this

theorem pot_of_live {c : Core} {w : Nat} (h : (c.conns[w]?.map ConnSt.isLive).getD false = true) :
    pot c w = down c + 1 := by
  unfold pot lv; rw [h]; rfl

theorem pot_of_not_live {c : Core} {w : Nat} (h : ¬ liveAt c w) : pot c w = down c := by
  have : lv c.conns w = false := by
    unfold liveAt at h; unfold lv
    cases hc : c.conns[w]? with
    | none => rfl
    | some x => cases hx : x.isLive <;> simp_all
  unfold pot; rw [this]; rfl

/-- everything except "dropped after the last retry" -/
def notMax : Ev → Bool
  | .qdrop _ _ .maxRetries => false
  | _ => true

/-- `x` has used up at most `d` of the retries granted at acceptance (`A sid`) -/
def Qb (A : Nat → Option Nat) (d : Nat) (x : Entry) : Prop := ∀ r0, A x.sid = some r0 → r0 ≤ x.retries + d

/-- a message dropped after its last retry had more than `d`... at most `d - 1` retries -/
def Xb (A : Nat → Option Nat) (d : Nat) (tr : List Ev) : Prop :=
  ∀ sid t, Ev.qdrop sid t .maxRetries ∈ tr → ∀ r0, A sid = some r0 → r0 + 1 ≤ d

/-- `x`, written to transport `w` and waiting for `drain()`: if `w` is still open the attempt is not a failure yet -/
def Fb (A : Nat → Option Nat) (c : Core) (w : Nat) (x : Entry) : Prop :=
  ∀ r0, A x.sid = some r0 → r0 + 1 ≤ x.retries + pot c w

theorem Qb.mono {A : Nat → Option Nat} {d d' : Nat} {x : Entry} (h : Qb A d x) (hd : d ≤ d') : Qb A d' x :=
  fun r0 hr => Nat.le_trans (h r0 hr) (Nat.add_le_add_left hd _)

theorem Fb.mono {A : Nat → Option Nat} {c c' : Core} {w : Nat} {x : Entry} (h : Fb A c w x) (hm : Mono c c') :
    Fb A c' w x :=
  fun r0 hr => Nat.le_trans (h r0 hr) (Nat.add_le_add_left (pot_mono hm w) _)

theorem Xb.ext {A : Nat → Option Nat} {d d' : Nat} {tr : List Ev} (h : Xb A d tr) (hd : d ≤ d') (evs : List Ev)
    (he : ∀ ev ∈ evs, notMax ev = true) : Xb A d' (tr ++ evs) := by
  intro sid t hmem r0 hr
  rcases List.mem_append.1 hmem with hmem | hmem
  · exact Nat.le_trans (h sid t hmem r0 hr) hd
  · have := he _ hmem; simp [notMax] at this

/-- the part of the invariant that talks about the socket's own fields -/
structure CRs (A : Nat → Option Nat) (c : Core) : Prop where
  q : ∀ x ∈ c.queue, Qb A (down c) x
  x : Xb A (down c) c.trace

theorem CRs.ext {A : Nat → Option Nat} {c c' : Core} (h : CRs A c) (hq : ∀ x ∈ c'.queue, x ∈ c.queue)
    (hd : down c ≤ down c') (evs : List Ev) (ht : c'.trace = c.trace ++ evs) (he : ∀ ev ∈ evs, notMax ev = true) :
    CRs A c' :=
  ⟨fun x hx => (h.q x (hq x hx)).mono hd, by rw [ht]; exact h.x.ext hd evs he⟩

theorem CRs.emit {A : Nat → Option Nat} {c : Core} (h : CRs A c) {e : Ev} (he : notMax e = true) : CRs A (c.emit e) :=
  h.ext (fun _ hx => hx) (Nat.le_refl _) [e] rfl (fun ev hev => by rw [List.mem_singleton.1 hev]; exact he)

theorem CRs.same {A : Nat → Option Nat} {c c' : Core} (h : CRs A c) (hq : c'.queue = c.queue) (hc : c'.conns = c.conns)
    (ht : c'.trace = c.trace) : CRs A c' :=
  h.ext (fun _ hx => hq ▸ hx) (by unfold down; rw [hc]; exact Nat.le_refl _) [] (by simp [ht]) (by simp)

theorem doWrite_notMax (c : Core) (w : Nat) (e : Entry) :
    ∃ evs, (doWrite c w e).1.trace = c.trace ++ evs ∧ ∀ ev ∈ evs, notMax ev = true := by
  obtain ⟨evs, h1, h2⟩ := SockOrder.doWrite_events c w e
  refine ⟨evs, h1, ?_⟩
  rcases h2 with rfl | rfl | rfl | rfl <;> simp [notMax]

theorem drainLoop_rinv (A : Nat → Option Nat) (w : Nat) : ∀ (q : List Entry) (c : Core),
    (∀ x ∈ q, Qb A (down c) x) → Xb A (down c) c.trace →
    (∀ x ∈ (drainLoop c w q).1.queue, Qb A (down (drainLoop c w q).1) x) ∧
    Xb A (down (drainLoop c w q).1) (drainLoop c w q).1.trace ∧
    ∀ e, (drainLoop c w q).2 = .suspended e → Fb A (drainLoop c w q).1 w e := by
  intro q
  induction q with
  | nil => intro c _ hx; exact ⟨fun x hx' => (by simp [drainLoop] at hx'), hx, fun e h => (by simp [drainLoop] at h)⟩
  | cons e rest ih =>
    intro c hq hx
    have hrest : ∀ x ∈ rest, Qb A (down c) x := fun x h => hq x (List.mem_cons_of_mem _ h)
    unfold drainLoop
    split
    · exact ⟨hq, hx, fun e' h => (by cases h)⟩
    split
    · exact ih (c.emit (.qdrop e.sid c.now .expired)) hrest (hx.ext (Nat.le_refl _) [_] (by simp [notMax]))
    split
    · exact ih (c.emit (.qdrop e.sid c.now .encErr)) hrest (hx.ext (Nat.le_refl _) [_] (by simp [notMax]))
    rename_i hl _ _
    have hlive : (c.conns[w]?.map ConnSt.isLive).getD false = true := by simpa using hl
    have hm : Mono c (doWrite c w e).1 := Mono.ofShrink (shrink_doWrite c w e)
    obtain ⟨evs, ht, hev⟩ := doWrite_notMax c w e
    have hfb : Fb A (doWrite c w e).1 w e := by
      intro r0 hr
      have h1 := hq e (by simp) r0 hr
      have h2 := pot_mono hm w
      rw [pot_of_live hlive] at h2
      omega
    split
    · rename_i c' heq
      rw [heq] at hm ht hfb
      exact ih c' (fun x h => (hrest x h).mono (down_mono hm)) (by rw [ht]; exact hx.ext (down_mono hm) evs hev)
    · rename_i c' heq
      rw [heq] at hm ht hfb
      refine ⟨?_, ?_, ?_⟩
      · show ∀ x ∈ rest, Qb A (down c') x
        exact fun x h => (hrest x h).mono (down_mono hm)
      · show Xb A (down c') c'.trace
        rw [ht]; exact hx.ext (down_mono hm) evs hev
      · intro e' he'
        cases he'
        exact hfb
    · rename_i c' heq
      rw [heq] at hm ht
      refine ⟨?_, ?_, fun e' he' => (by cases he')⟩
      · show ∀ x ∈ rest, Qb A (down c') x
        exact fun x h => (hrest x h).mono (down_mono hm)
      · show Xb A (down c') c'.trace
        rw [ht]; exact hx.ext (down_mono hm) evs hev

theorem drainLoop_rinv' {A : Nat → Option Nat} {c c' : Core} {w : Nat} {st : DrainStop} (h : CRs A c)
    (hd : drainLoop c w c.queue = (c', st)) : CRs A c' ∧ ∀ e, st = .suspended e → Fb A c' w e := by
  have := drainLoop_rinv A w c.queue c h.q h.x
  rw [hd] at this
  exact ⟨⟨this.1, this.2.1⟩, this.2.2⟩

/-- the `except OSError` arm after a failed `drain()`: the transport is down, so the attempt counts -/
theorem requeue_rinv {A : Nat → Option Nat} {c : Core} {w : Nat} {e : Entry} (h : CRs A c) (hf : Fb A c w e)
    (hnl : ¬ liveAt c w) : CRs A (requeue c e) := by
  have hb : ∀ r0, A e.sid = some r0 → r0 + 1 ≤ e.retries + down c := by
    intro r0 hr; have := hf r0 hr; rwa [pot_of_not_live hnl] at this
  unfold requeue
  split
  · rename_i h0
    refine ⟨h.q, ?_⟩
    intro sid t hmem r0 hr
    rcases List.mem_append.1 hmem with hmem | hmem
    · exact h.x sid t hmem r0 hr
    · simp only [List.mem_singleton] at hmem
      cases hmem
      have := hb r0 hr
      show r0 + 1 ≤ down c
      omega
  · rename_i h0
    refine ⟨?_, h.x⟩
    intro x hx
    rcases List.mem_cons.1 hx with rfl | hx
    · intro r0 hr
      have := hb r0 hr
      show r0 ≤ (e.retries - 1) + down c
      omega
    · exact h.q x hx

theorem closeConn_rinv {A : Nat → Option Nat} {c : Core} (h : CRs A c) (w : Nat) : CRs A (closeConn c w) := by
  have hm := down_mono (Mono.ofShrink (shrink_closeConn c w))
  unfold closeConn at hm ⊢
  split
  · rename_i hc
    rw [hc] at hm
    exact h.ext (fun _ hx => hx) hm [.clientClose w c.now] rfl (by simp [notMax])
  · exact h

theorem exec_rinv (A : Nat → Option Nat) (fuel : Nat) (c : Core) (sp : List Pc) (k : Kont) (h : CRs A c) :
    CRs A (exec fuel c sp k).core ∧
      ∀ w e r, (exec fuel c sp k).pc = .drainAwait w e r → Fb A (exec fuel c sp k).core w e := by
  fun_induction exec fuel c sp k
  case case4 c' hd ih => exact ih (drainLoop_rinv' h hd).1
  case case5 fuel c sp r hcon w hw c' e hd =>
    obtain ⟨h1, h2⟩ := drainLoop_rinv' h hd
    refine ⟨h1, ?_⟩
    intro w' e' r' hpc
    cases hpc
    exact h2 e rfl
  case case6 c' e hd ih => exact absurd hd drainLoop_not_raised'
  case case7 => exact ⟨closeConn_rinv h _, fun _ _ _ hpc => by cases hpc⟩
  case case9 fuel c sp r =>
    refine ⟨?_, fun _ _ _ hpc => by cases hpc⟩
    exact h.ext (c' := { c with isConnected := false, rw := none }.emit (.notify false c.now)) (fun _ hx => hx)
      (Nat.le_refl _) [.notify false c.now] rfl (by simp [notMax])
  case case12 => exact ⟨h.emit rfl, fun _ _ _ hpc => by cases hpc⟩
  all_goals first | exact ⟨h, fun _ _ _ hpc => by cases hpc⟩ | (rename_i ih; exact ih h)

/-- the invariant of a whole state, relative to a table `A` of the retries granted at acceptance -/
structure RInv (A : Nat → Option Nat) (s : Sys) : Prop where
  core : CRs A s.core
  fl : ∀ k ∈ s.tasks, ∀ w e r, k.pc = .drainAwait w e r → Fb A s.core w e

theorem not_drainAwait_of_hold {p : Pc} (h : hold p = []) : ∀ w e r, p ≠ .drainAwait w e r := by
  intro w e r hp; rw [hp] at h; simp [hold] at h

theorem rinv_upd {A : Nat → Option Nat} {s : Sys} (h : RInv A s) (t : Nat) (out : Out) (hc : CRs A out.core)
    (hm : Mono s.core out.core) (hpc : ∀ w e r, out.pc = .drainAwait w e r → Fb A out.core w e)
    (hsp : ∀ p ∈ out.spawned, hold p = []) : RInv A (upd s t out) := by
  refine ⟨hc, ?_⟩
  intro k hk w e r hp
  rcases mem_upd hk with hk | ⟨k0, _, rfl⟩ | ⟨_, hk⟩
  · exact (h.fl k hk w e r hp).mono hm
  · exact hpc w e r hp
  · exact absurd hp (not_drainAwait_of_hold (hsp _ hk) w e r)

theorem rinv_api {A : Nat → Option Nat} {s : Sys} (ts : List Task) (h : ∀ k ∈ ts, ∀ w e r, k.pc = .drainAwait w e r → Fb A s.core w e)
    (out : Out) (hc : CRs A out.core)
    (hm : Mono s.core out.core) (hpc : ∀ w e r, out.pc = .drainAwait w e r → Fb A out.core w e)
    (hsp : ∀ p ∈ out.spawned, hold p = []) : RInv A (spawnApi ⟨s.core, ts⟩ out) := by
  refine ⟨hc, ?_⟩
  intro k hk w e r hp
  rcases mem_spawnApi hk with hk | rfl | ⟨_, hk⟩
  · exact (h k hk w e r hp).mono hm
  · exact hpc w e r hp
  · exact absurd hp (not_drainAwait_of_hold (hsp _ hk) w e r)

theorem rinv_env {A : Nat → Option Nat} {s : Sys} (h : RInv A s) (c' : Core) (hc : CRs A c') (hm : Mono s.core c') :
    RInv A { s with core := c' } :=
  ⟨hc, fun k hk w e r hp => (h.fl k hk w e r hp).mono hm⟩

theorem mono_same {c c' : Core} (hn : c.now ≤ c'.now) (hc : c'.conns = c.conns) : Mono c c' :=
  ⟨hn, by rw [hc]; exact Nat.le_refl _, fun i _ hl => by unfold liveAt at *; rw [hc] at hl; exact hl⟩

theorem mono_set {c : Core} (w : Nat) (x : ConnSt) (h : x.isLive = true → liveAt c w) :
    Mono c { c with conns := c.conns.set w x } := Mono.ofShrink (shrink_set c w x h)

theorem rinv_upd_exec {A : Nat → Option Nat} {s : Sys} (h : RInv A s) (t : Nat) (c0 : Core) (kont : Kont)
    (hc : CRs A c0) (hm : Mono s.core c0) : RInv A (upd s t (exec FUEL c0 [] kont)) := by
  obtain ⟨h1, h2⟩ := exec_rinv A FUEL c0 [] kont hc
  exact rinv_upd h t _ h1 (hm.trans (Mono.ofFrame (exec_frame FUEL c0 [] kont))) h2 (exec_abs' [] c0 kont []).2

theorem rinv_api_exec {A : Nat → Option Nat} {s : Sys} (ts : List Task)
    (h : ∀ k ∈ ts, ∀ w e r, k.pc = .drainAwait w e r → Fb A s.core w e) (c0 : Core) (kont : Kont)
    (hc : CRs A c0) (hm : Mono s.core c0) : RInv A (spawnApi ⟨s.core, ts⟩ (exec FUEL c0 [] kont)) := by
  obtain ⟨h1, h2⟩ := exec_rinv A FUEL c0 [] kont hc
  exact rinv_api ts h _ h1 (hm.trans (Mono.ofFrame (exec_frame FUEL c0 [] kont))) h2 (exec_abs' [] c0 kont []).2

theorem cancel_drainAwait {ts : List Task} {k : Task} (hk : k ∈ ts.map cancelTask) {w : Nat} {e : Entry} {r : Ret}
    (hp : k.pc = .drainAwait w e r) : ∃ k0 ∈ ts, k0.pc = .drainAwait w e r := by
  simp only [List.mem_map] at hk
  obtain ⟨k0, hk0, rfl⟩ := hk
  refine ⟨k0, hk0, ?_⟩
  unfold cancelTask at hp
  split at hp
  · split at hp
    · cases hp
    · rename_i h; rw [h] at hp; cases hp
    · cases hp
  · exact hp

/-- one step of the model, for a table `A` that knows the retries of a message accepted by this step -/
theorem step_rinv {A : Nat → Option Nat} {s s' : Sys} {l : Label} (h : RInv A s)
    (hA : ∀ sid r life ok, l = .apiSend sid r life ok → s.core.isOpen = true →
      (purged s.core.now s.core.queue).length < CAP → A sid = some r)
    (hst : step s l = some s') : RInv A s' := by
  have hplain : ∀ (c' : Core), c'.queue = s.core.queue → c'.conns = s.core.conns → c'.trace = s.core.trace →
      CRs A c' := fun c' a b c => h.core.same a b c
  cases l with
  | advance t =>
    simp only [step] at hst
    split at hst
    · rename_i hle; cases hst
      exact rinv_env h _ (hplain _ rfl rfl rfl) (mono_same hle rfl)
    · cases hst
  | envLost cid =>
    simp only [step] at hst
    split at hst
    · cases hst
      have hm : Mono s.core ({ s.core with conns := s.core.conns.set cid (.dying true) }.emit (.lost cid s.core.now)) :=
        (mono_set (c := s.core) cid (.dying true) (fun h => by cases h)).trans (mono_same (Nat.le_refl _) rfl)
      exact rinv_env h _ (h.core.ext (fun _ hx => hx) (down_mono hm) [.lost cid s.core.now] rfl (by simp [notMax])) hm
    · cases hst
  | envLostRan cid =>
    simp only [step] at hst
    split at hst
    · rename_i e _; cases hst
      have hm : Mono s.core { s.core with conns := s.core.conns.set cid (.dead e) } := mono_set cid (.dead e) (fun h => by cases h)
      exact rinv_env h _ (h.core.ext (fun _ hx => hx) (down_mono hm) [] (by simp) (by simp)) hm
    · cases hst
  | envPause cid b =>
    simp only [step] at hst
    split at hst
    · rename_i p f hc; cases hst
      have hm : Mono s.core { s.core with conns := s.core.conns.set cid (.live b f) } :=
        mono_set cid (.live b f) (fun _ => by simp [liveAt, hc, ConnSt.isLive])
      exact rinv_env h _ (h.core.ext (fun _ hx => hx) (down_mono hm) [] (by simp) (by simp)) hm
    · cases hst
  | envFailWrites cid b =>
    simp only [step] at hst
    split at hst
    · rename_i p f hc; cases hst
      have hm : Mono s.core { s.core with conns := s.core.conns.set cid (.live p b) } :=
        mono_set cid (.live p b) (fun _ => by simp [liveAt, hc, ConnSt.isLive])
      exact rinv_env h _ (h.core.ext (fun _ hx => hx) (down_mono hm) [] (by simp) (by simp)) hm
    · cases hst
  | apiOpen =>
    simp only [step] at hst
    split at hst
    · cases hst
      exact rinv_api s.tasks h.fl _ (h.core.emit (e := .apiOpen s.core.now) rfl) (mono_same (Nat.le_refl _) rfl)
        (fun _ _ _ hp => by cases hp) (by simp)
    · cases hst
      refine rinv_api s.tasks h.fl ⟨_, _, _⟩ ?_ (mono_same (Nat.le_refl _) rfl) (fun _ _ _ hp => by cases hp) ?_
      · exact h.core.ext (fun _ hx => (by cases hx)) (Nat.le_refl _) [.apiOpen s.core.now] rfl (by simp [notMax])
      · intro p hp; simp only [List.mem_singleton] at hp; subst hp; rfl
  | apiClose =>
    simp only [step] at hst
    have h1 : CRs A (s.core.emit (.apiClose s.core.now)) := h.core.emit rfl
    split at hst
    · cases hst
      exact rinv_api s.tasks h.fl _ (h1.emit (e := .apiCloseDone s.core.now) rfl) (mono_same (Nat.le_refl _) rfl)
        (fun _ _ _ hp => by cases hp) (by simp)
    · have hts : ∀ k ∈ s.tasks.map cancelTask, ∀ w e r, k.pc = .drainAwait w e r → Fb A s.core w e := by
        intro k hk w e r hp
        obtain ⟨k0, hk0, hp0⟩ := cancel_drainAwait hk hp
        exact h.fl k0 hk0 w e r hp0
      have h2 : CRs A { s.core.emit (.apiClose s.core.now) with isOpen := false } := h1.same rfl rfl rfl
      split at hst
      · cases hst
        exact rinv_api (s := s) _ hts ⟨_, _, _⟩ h2 (mono_same (Nat.le_refl _) rfl) (fun _ _ _ hp => by cases hp) (by simp)
      · cases hst
        exact rinv_api_exec (s := s) _ hts _ _ h2 (mono_same (Nat.le_refl _) rfl)
  | apiReset =>
    simp only [step] at hst
    cases hst
    exact rinv_api_exec s.tasks h.fl _ _ (h.core.emit rfl) (mono_same (Nat.le_refl _) rfl)
  | apiSend sid retries life encOk =>
    simp only [step] at hst
    split at hst
    · cases hst
      exact rinv_api s.tasks h.fl _ (h.core.emit (e := .reject sid s.core.now .notOpen) rfl) (mono_same (Nat.le_refl _) rfl)
        (fun _ _ _ hp => by cases hp) (by simp)
    · have hp : ∀ e ∈ purgeEvents s.core.now s.core.queue, notMax e = true := by
        intro e he
        simp only [purgeEvents, List.mem_map] at he
        obtain ⟨_, _, rfl⟩ := he; rfl
      have h1 : CRs A { s.core with queue := purged s.core.now s.core.queue, trace := s.core.trace ++ purgeEvents s.core.now s.core.queue } :=
        h.core.ext (fun x hx => (List.mem_filter.1 hx).1) (Nat.le_refl _) _ rfl hp
      split at hst
      · cases hst
        exact rinv_api s.tasks h.fl _ (h1.emit (e := .reject sid s.core.now .overflow) rfl) (mono_same (Nat.le_refl _) rfl)
          (fun _ _ _ hp => by cases hp) (by simp)
      · rename_i hopen hcap
        have hr := hA sid retries life encOk rfl (by simpa using hopen) (by simpa using hcap)
        cases hst
        refine rinv_api_exec s.tasks h.fl _ _ ?_ (mono_same (Nat.le_refl _) rfl)
        refine ⟨?_, ?_⟩
        · intro x hx
          simp only [Core.emit, List.mem_append, List.mem_singleton] at hx
          rcases hx with hx | rfl
          · exact h1.q x hx
          · intro r0 hr0
            rw [hr] at hr0; cases hr0
            exact Nat.le_add_right _ _
        · exact h1.x.ext (Nat.le_refl _) [.accept sid s.core.now (s.core.now + life) retries encOk] (by simp [notMax])
  | run t a =>
    cases step_run_cases hst with
    | exec k0 pc c0 kont hk0 hpc hcase =>
      have hc0 : CRs A c0 ∧ Mono s.core c0 := by
        cases hcase with
        | drainErr w e r hnl =>
          exact ⟨requeue_rinv h.core (h.fl k0 (List.mem_of_getElem? hk0) w e r hpc) hnl,
            Mono.ofShrink (shrink_requeue _ _)⟩
        | _ => exact ⟨h.core, Mono.refl _⟩
      exact rinv_upd_exec h t c0 kont hc0.1 hc0.2
    | connect k0 hk0 hpc =>
      refine rinv_upd h t _ ?_ ?_ ?_ (connectBlock_abs [] s.core []).2
      · unfold connectBlock; split
        · exact h.core
        · exact h.core.ext (fun _ hx => hx) (Nat.le_refl _) [.attempt s.core.now] rfl (by simp [notMax])
      · unfold connectBlock; split
        · exact Mono.refl _
        · exact mono_same (Nat.le_refl _) rfl
      · unfold connectBlock; split <;> (intro _ _ _ hp; cases hp)
    | openOk k0 hk0 hpc =>
      have hm : Mono s.core (({ s.core with conns := s.core.conns ++ [ConnSt.live false false], rw := some s.core.conns.length, connecting := false, isConnected := true }.emit (.opened s.core.conns.length s.core.now)).emit (.notify true s.core.now)) := by
        refine ⟨Nat.le_refl _, by simp [Core.emit], ?_⟩
        intro i hi hl
        unfold liveAt at *
        simp only [Core.emit] at hl
        rw [List.getElem?_append_left hi] at hl
        exact hl
      refine rinv_upd h t ⟨_, _, _⟩ ?_ hm (fun _ _ _ hp => by cases hp) (by simp)
      refine h.core.ext (fun _ hx => hx) ?_ [.opened s.core.conns.length s.core.now, .notify true s.core.now]
        (by simp [Core.emit]) (by simp [notMax])
      simp [down, dn, Core.emit, List.countP_append, ConnSt.isLive]
    | openRefused k0 hk0 hpc =>
      refine rinv_upd h t ⟨_, _, _⟩ ?_ (mono_same (Nat.le_refl _) rfl) (fun _ _ _ hp => by cases hp) ?_
      · exact h.core.ext (fun _ hx => hx) (Nat.le_refl _) [.refused s.core.now] rfl (by simp [notMax])
      · intro p hp
        split at hp
        · simp only [List.mem_singleton] at hp; subst hp; rfl
        · cases hp
    | cancelled k0 hk0 hpc =>
      exact rinv_upd h t ⟨_, _, _⟩ (hplain _ rfl rfl rfl) (mono_same (Nat.le_refl _) rfl) (fun _ _ _ hp => by cases hp) (by simp)
    | readMsg k0 c tag hk0 hpc =>
      exact rinv_upd h t ⟨_, _, _⟩ (h.core.emit rfl) (mono_same (Nat.le_refl _) rfl) (fun _ _ _ hp => by cases hp) (by simp)
    | readEof k0 c hk0 hpc =>
      exact rinv_upd h t ⟨_, _, _⟩ h.core (Mono.refl _) (fun _ _ _ hp => by cases hp) (by simp)

/-- `A` knows the retries granted to every message accepted in `tr` -/
def Agrees (A : Nat → Option Nat) (tr : List Ev) : Prop :=
  ∀ sid t e r ok, acceptedAt tr sid = some (t, e, r, ok) → A sid = some r

theorem Agrees.prefix {A : Nat → Option Nat} {tr : List Ev} (evs : List Ev) (h : Agrees A (tr ++ evs)) : Agrees A tr :=
  fun sid t e r ok ha => h sid t e r ok (acceptedAt_mono evs ha)

theorem rinv_init (A : Nat → Option Nat) : RInv A init := by
  refine ⟨⟨?_, ?_⟩, ?_⟩
  · intro x hx; simp [init] at hx
  · intro sid t hmem; simp [init] at hmem
  · intro k hk; simp [init] at hk

/-- the retry invariant holds after every history whose sends carry pairwise distinct identities, for every table
    that agrees with the acceptances recorded in the trace -/
theorem rinv_reachableWF {s : Sys} (h : ReachableWF s) (A : Nat → Option Nat) (hA : Agrees A s.core.trace) :
    RInv A s := by
  obtain ⟨ls, hn, hr⟩ := h
  refine run_induction (P := fun ls s => (sendSids ls).Nodup → ∀ A, Agrees A s.core.trace → RInv A s)
    (fun _ A _ => rinv_init A) ?_ ls s hr hn A hA
  intro ls s l s' hrun hp hst hnd A hA'
  rw [sendSids_append] at hnd
  have hnd0 : (sendSids ls).Nodup := (List.nodup_append.1 hnd).1
  have hrw : rwValid s.core := (hinv1_reachable ⟨ls, hrun⟩).rwv
  obtain ⟨evs, htr⟩ := SockHeal.step_trace_ext hst
  have hAs : Agrees A s.core.trace := by rw [htr] at hA'; exact hA'.prefix evs
  refine step_rinv (hp hnd0 A hAs) ?_ hst
  intro sid r life ok hl hopen hcap
  subst hl
  have hinv : AInv (abs (sendSids ls) s) := (run_abs ls s hrun).inv (fun _ => AInv.init) hnd0
  have hnone : acceptedAt s.core.trace sid = none := by
    cases hx : acceptedAt s.core.trace sid with
    | none => rfl
    | some x =>
      exfalso
      have hu : sid ∈ sendSids ls := hinv.accUsed sid x hx
      exact (List.nodup_append.1 hnd).2.2 sid hu sid (by simp [sendSids]) rfl
  -- the trace after the step starts with the old trace, the purge events and the acceptance
  simp only [step] at hst
  rw [if_neg (by simp [hopen]), if_neg (by simpa using hcap)] at hst
  cases hst
  have hrw2 : rwValid ({ s.core with queue := purged s.core.now s.core.queue ++ [(⟨sid, r, s.core.now + life, ok, false⟩ : Entry)], trace := s.core.trace ++ purgeEvents s.core.now s.core.queue }.emit (.accept sid s.core.now (s.core.now + life) r ok)) := hrw
  obtain ⟨evs2, htr2, _⟩ := SockHeal.exec_fate FUEL _ [] (.drain .done) hrw2
  have hacc : acceptedAt (s.core.trace ++ purgeEvents s.core.now s.core.queue ++
      [.accept sid s.core.now (s.core.now + life) r ok]) sid = some (s.core.now, s.core.now + life, r, ok) := by
    rw [acceptedAt_accept, SockLoss.acceptedAt_ext _ _ _ ?_, hnone]
    · simp
    · intro ev hev
      simp only [purgeEvents, List.mem_map] at hev
      obtain ⟨e, _, rfl⟩ := hev; rfl
  refine hA' sid s.core.now (s.core.now + life) r ok ?_
  show acceptedAt (exec FUEL _ [] (.drain .done)).core.trace sid = _
  rw [htr2]
  exact acceptedAt_mono _ hacc

/-- retries granted at acceptance, read off the trace -/
def R0 (tr : List Ev) (sid : Nat) : Option Nat := (acceptedAt tr sid).map (fun v => v.2.2.1)

theorem agrees_R0 (tr : List Ev) : Agrees (R0 tr) tr := by
  intro sid t e r ok h; simp [R0, h]

/-- **retries are spent on transports that went down**: with `r` retries granted at acceptance,
    * a queued entry has `retries ≥ r - down`,
    * an entry written to transport `w` and waiting for `drain()` has `retries + 1 ≥ r - down` while `w` is open and
      `retries ≥ r + 1 - down` once `w` is down (the failure is then certain, and paid for by `w`),
    * a message dropped for `maxRetries` has `r + 1 ≤ down`. -/
theorem retries_spent_bounded {s : Sys} (h : ReachableWF s) :
    (∀ x ∈ s.core.queue, ∀ t e r ok, acceptedAt s.core.trace x.sid = some (t, e, r, ok) → r ≤ x.retries + down s.core) ∧
    (∀ k ∈ s.tasks, ∀ w x ret, k.pc = .drainAwait w x ret → ∀ t e r ok,
      acceptedAt s.core.trace x.sid = some (t, e, r, ok) → r + 1 ≤ x.retries + pot s.core w) ∧
    (∀ sid t, Ev.qdrop sid t .maxRetries ∈ s.core.trace → ∀ t0 e r ok,
      acceptedAt s.core.trace sid = some (t0, e, r, ok) → r + 1 ≤ down s.core) := by
  have hI := rinv_reachableWF h (R0 s.core.trace) (agrees_R0 _)
  refine ⟨?_, ?_, ?_⟩
  · intro x hx t e r ok ha; exact hI.core.q x hx r (by simp [R0, ha])
  · intro k hk w x ret hp t e r ok ha; exact hI.fl k hk w x ret hp r (by simp [R0, ha])
  · intro sid t hmem t0 e r ok ha; exact hI.core.x sid t hmem r (by simp [R0, ha])

/-! #### how many transports can go down -/

/-- environment faults: the peer resets a transport, or the next write on it will fail -/
def isFault : Label → Bool
  | .envLost _ | .envFailWrites _ true => true
  | _ => false

/-- the transport a task is blocked on (`drain()` or `read`) -/
def blockedOn : Pc → Option Nat
  | .drainAwait w _ _ | .readWait w => some w
  | _ => none

/-- histories in which a transport only goes down through an environment fault:
    * the user does not call `close()` / `reset_connection()`;
    * a reader is only woken with an error / EOF / an undecodable frame on a transport that is already down (on an open
      one these are faults of their own: the client then closes the transport itself);
    * wake-ups are prompt: when a new connection comes up, no task is still blocked on a transport that is down
      (asyncio wakes `drain()` / `read` waiters from `connection_lost`, long before `open_connection` can complete). -/
def gentle (s : Sys) : Label → Bool
  | .apiClose | .apiReset => false
  | .run t a =>
    match pcAt s t, a with
    | some (.readWait _), .readMsg _ => true
    | some (.readWait c), _ => !isLiveAt s.core c
    | some .connOpening, .openOk =>
      s.tasks.all (fun k => match blockedOn k.pc with | some w => isLiveAt s.core w | none => true)
    | _, _ => true
  | _ => true

def runG (s : Sys) : List Label → Option Sys
  | [] => some s
  | l :: ls => if gentle s l then (step s l).bind (fun s' => runG s' ls) else none

theorem runG_run {ls : List Label} : ∀ {s s' : Sys}, runG s ls = some s' → run s ls = some s' := by
  induction ls with
  | nil => intro s s' h; exact h
  | cons l ls ih =>
    intro s s' h
    simp only [runG] at h
    split at h
    · cases hs : step s l with
      | none => rw [hs] at h; cases h
      | some s1 =>
        rw [hs] at h
        simp only [run, hs, Option.bind_some]
        exact ih h
    · cases h

theorem runG_append (s : Sys) (l₁ l₂ : List Label) :
    runG s (l₁ ++ l₂) = (runG s l₁).bind (fun s' => runG s' l₂) := by
  induction l₁ generalizing s with
  | nil => simp [runG]
  | cons l ls ih =>
    simp only [List.cons_append, runG]
    split
    · cases step s l with
      | none => simp
      | some s' => simpa using ih s'
    · simp

theorem runG_induction {P : List Label → Sys → Prop} (h0 : P [] init)
    (hs : ∀ ls s l s', runG init ls = some s → P ls s → gentle s l = true → step s l = some s' → P (ls ++ [l]) s') :
    ∀ ls s, runG init ls = some s → P ls s := by
  have key : ∀ ls pre m s, runG init pre = some m → P pre m → runG m ls = some s → P (pre ++ ls) s := by
    intro ls
    induction ls with
    | nil => intro pre m s _ hp h; simp only [runG, Option.some.injEq] at h; subst h; simpa using hp
    | cons l ls ih =>
      intro pre m s hm hp h
      simp only [runG] at h
      split at h
      · rename_i hg
        cases hst : step m l with
        | none => simp [hst] at h
        | some m' =>
          simp only [hst, Option.bind_some] at h
          have hm' : runG init (pre ++ [l]) = some m' := by
            rw [runG_append, hm]; simp [runG, hg, hst]
          have := ih (pre ++ [l]) m' s hm' (hs pre m l m' hm hp hg hst) h
          simpa using this
      · cases h
  intro ls s h
  simpa using key ls [] init s rfl h0 h

/-- a transport counts once it is down, or while the next write on it is set to fail -/
def armedOrDown : ConnSt → Bool
  | .live _ f => f
  | _ => true

def score (c : Core) : Nat := c.conns.countP armedOrDown

theorem down_le_score (c : Core) : down c ≤ score c := by
  unfold down dn score
  apply List.countP_mono_left
  intro x _ hx
  cases x <;> simp_all [ConnSt.isLive, armedOrDown]

theorem countP_set_eq {α : Type} (p : α → Bool) : ∀ (l : List α) (w : Nat) (x y : α), l[w]? = some x →
    (l.set w y).countP p + (p x).toNat = l.countP p + (p y).toNat := by
  intro l
  induction l with
  | nil => intro w x y h; simp at h
  | cons a l ih =>
    intro w x y h
    cases w with
    | zero =>
      simp only [List.getElem?_cons_zero, Option.some.injEq] at h; subst h
      simp only [List.set_cons_zero, List.countP_cons]
      cases p a <;> cases p y <;> simp <;> omega
    | succ w =>
      simp only [List.getElem?_cons_succ] at h
      have := ih w x y h
      simp only [List.set_cons_succ, List.countP_cons]
      omega

theorem score_set {c : Core} {w : Nat} {x : ConnSt} (y : ConnSt) (h : c.conns[w]? = some x) :
    score { c with conns := c.conns.set w y } + (armedOrDown x).toNat = score c + (armedOrDown y).toNat :=
  countP_set_eq armedOrDown c.conns w x y h

theorem score_set_le {c : Core} {w : Nat} {x : ConnSt} (y : ConnSt) (h : c.conns[w]? = some x) (n : Nat)
    (hn : (armedOrDown y).toNat ≤ (armedOrDown x).toNat + n) :
    score { c with conns := c.conns.set w y } ≤ score c + n := by
  have := score_set y h
  omega

theorem doWrite_score (c : Core) (w : Nat) (e : Entry) : score (doWrite c w e).1 = score c := by
  unfold doWrite
  split <;> try rfl
  rename_i p hp
  have := score_set (.dying true) hp
  simp only [armedOrDown, Bool.toNat_true] at this
  show score { c with conns := c.conns.set w (.dying true) } = score c
  omega

theorem drainLoop_score (w : Nat) : ∀ (q : List Entry) (c : Core), score (drainLoop c w q).1 = score c := by
  intro q
  induction q with
  | nil => intro c; rfl
  | cons e rest ih =>
    intro c
    unfold drainLoop
    split
    · rfl
    split
    · exact ih _
    split
    · exact ih _
    have hw := doWrite_score c w e
    split
    · rename_i c' heq; rw [heq] at hw; exact (ih c').trans hw
    · rename_i c' heq; rw [heq] at hw; exact hw
    · rename_i c' heq; rw [heq] at hw; exact hw

theorem drainLoop_score' {c c' : Core} {w : Nat} {q : List Entry} {st : DrainStop} (h : drainLoop c w q = (c', st)) :
    score c' = score c := by
  have := drainLoop_score w q c; rw [h] at this; exact this

theorem closeConn_of_not_live {c : Core} {w : Nat} (h : ¬ liveAt c w) : closeConn c w = c := by
  unfold closeConn
  split
  · rename_i hc; exact absurd (by unfold liveAt; rw [hc]; rfl) h
  · rfl

/-- a disconnect finds its transport already down -/
def KOk (c : Core) : Kont → Prop
  | .disconnect _ => ∀ w, c.rw = some w → ¬ liveAt c w
  | _ => True

theorem exec_score (fuel : Nat) (c : Core) (sp : List Pc) (k : Kont) (hk : KOk c k) :
    score (exec fuel c sp k).core = score c := by
  fun_induction exec fuel c sp k
  case case4 c' hd ih => exact (ih trivial).trans (drainLoop_score' hd)
  case case5 c' e hd => exact drainLoop_score' hd
  case case6 c' e hd ih => exact absurd hd drainLoop_not_raised'
  case case7 fuel c sp r w hw =>
    show score (closeConn c w) = score c
    rw [closeConn_of_not_live (hk w hw)]
  all_goals first | rfl | (rename_i ih; exact ih trivial)

theorem exec_blocked (fuel : Nat) (c : Core) (sp : List Pc) (k : Kont) :
    ∀ w, blockedOn (exec fuel c sp k).pc = some w → (exec fuel c sp k).core.rw = some w := by
  fun_induction exec fuel c sp k
  case case5 fuel c sp r hcon w hw c' e hd =>
    intro w' h
    simp only [blockedOn, Option.some.injEq] at h
    subst h
    exact (shrink_drainLoop' hd).rw.trans hw
  case case16 fuel c sp k hk =>
    intro w' h
    simp only [blockedOn, Option.some.injEq] at h
    subst h; exact hk
  all_goals first | (intro w' h; simp [blockedOn] at h; done) | assumption

structure GInv (s : Sys) : Prop where
  noGather : ∀ k ∈ s.tasks, k.pc ≠ .closeGather
  cur : ∀ k ∈ s.tasks, ∀ w, blockedOn k.pc = some w → s.core.rw = some w ∨ s.core.rw = none

theorem spawn_plain {p : Pc} (h : spawnPc p = true) : p ≠ .closeGather ∧ blockedOn p = none := by
  cases p <;> simp_all [spawnPc, blockedOn]

theorem ginv_upd {s : Sys} (hg : GInv s) (t : Nat) (out : Out) (h1 : out.pc ≠ .closeGather)
    (h2 : ∀ w, blockedOn out.pc = some w → out.core.rw = some w ∨ out.core.rw = none)
    (hsp : ∀ p ∈ out.spawned, spawnPc p = true) (hrw : out.core.rw = s.core.rw ∨ out.core.rw = none) :
    GInv (upd s t out) := by
  constructor
  · intro k hk
    rcases mem_upd hk with hk | ⟨k0, _, rfl⟩ | ⟨_, hk⟩
    · exact hg.noGather k hk
    · exact h1
    · exact (spawn_plain (hsp _ hk)).1
  · intro k hk w hb
    rcases mem_upd hk with hk | ⟨k0, _, rfl⟩ | ⟨_, hk⟩
    · show out.core.rw = some w ∨ out.core.rw = none
      rcases hrw with hrw | hrw
      · rw [hrw]; exact hg.cur k hk w hb
      · exact .inr hrw
    · exact h2 w hb
    · rw [(spawn_plain (hsp _ hk)).2] at hb; cases hb

theorem ginv_api {s : Sys} (hg : GInv s) (out : Out) (h1 : out.pc ≠ .closeGather)
    (h2 : ∀ w, blockedOn out.pc = some w → out.core.rw = some w ∨ out.core.rw = none)
    (hsp : ∀ p ∈ out.spawned, spawnPc p = true) (hrw : out.core.rw = s.core.rw ∨ out.core.rw = none) :
    GInv (spawnApi s out) := by
  constructor
  · intro k hk
    rcases mem_spawnApi hk with hk | rfl | ⟨_, hk⟩
    · exact hg.noGather k hk
    · exact h1
    · exact (spawn_plain (hsp _ hk)).1
  · intro k hk w hb
    rcases mem_spawnApi hk with hk | rfl | ⟨_, hk⟩
    · show out.core.rw = some w ∨ out.core.rw = none
      rcases hrw with hrw | hrw
      · rw [hrw]; exact hg.cur k hk w hb
      · exact .inr hrw
    · exact h2 w hb
    · rw [(spawn_plain (hsp _ hk)).2] at hb; cases hb

theorem exec_ginv_facts (c0 : Core) (kont : Kont) :
    (exec FUEL c0 [] kont).pc ≠ .closeGather ∧
    (∀ w, blockedOn (exec FUEL c0 [] kont).pc = some w →
      (exec FUEL c0 [] kont).core.rw = some w ∨ (exec FUEL c0 [] kont).core.rw = none) ∧
    (∀ p ∈ (exec FUEL c0 [] kont).spawned, spawnPc p = true) ∧
    ((exec FUEL c0 [] kont).core.rw = c0.rw ∨ (exec FUEL c0 [] kont).core.rw = none) := by
  refine ⟨?_, fun w h => .inl (exec_blocked _ _ _ _ w h), ?_, (exec_frame _ _ _ _).rw⟩
  · intro h
    have := exec_pc FUEL c0 [] kont
    rw [h] at this; cases this
  · intro p hp
    rcases exec_spawned FUEL c0 [] kont p hp with h | h
    · cases h
    · exact h

theorem gstep_upd_exec {s : Sys} (hg : GInv s) (t : Nat) (c0 : Core) (kont : Kont) (hc : c0.conns = s.core.conns)
    (hrw : c0.rw = s.core.rw) (hk : KOk c0 kont) :
    GInv (upd s t (exec FUEL c0 [] kont)) ∧ score (upd s t (exec FUEL c0 [] kont)).core = score s.core := by
  obtain ⟨f1, f2, f3, f4⟩ := exec_ginv_facts c0 kont
  refine ⟨ginv_upd hg t _ f1 f2 f3 (hrw ▸ f4), ?_⟩
  show score (exec FUEL c0 [] kont).core = score s.core
  rw [exec_score _ _ _ _ hk]; unfold score; rw [hc]

theorem requeue_conns_rw (c : Core) (e : Entry) : (requeue c e).conns = c.conns ∧ (requeue c e).rw = c.rw := by
  unfold requeue; split <;> exact ⟨rfl, rfl⟩

/-- under `gentle`, a task blocked on a transport that is down sees that transport (or none) as the current one -/
theorem kOk_of_blocked {s : Sys} (hg : GInv s) {k0 : Task} (hk0 : k0 ∈ s.tasks) {w : Nat}
    (hb : blockedOn k0.pc = some w) (hnl : ¬ liveAt s.core w) {c0 : Core} (hc : c0.conns = s.core.conns)
    (hrw : c0.rw = s.core.rw) (r : Ret) : KOk c0 (.disconnect r) := by
  intro w' hw'
  rw [hrw] at hw'
  rcases hg.cur k0 hk0 w hb with h | h
  · rw [h] at hw'; cases hw'
    unfold liveAt at *; rw [hc]; exact hnl
  · rw [h] at hw'; cases hw'

theorem gstep {s s' : Sys} {l : Label} (hinv : Inv s) (hg : GInv s) (hl : gentle s l = true)
    (hst : step s l = some s') : GInv s' ∧ score s'.core ≤ score s.core + (isFault l).toNat := by
  have hsame : ∀ c' : Core, c'.rw = s.core.rw → GInv { s with core := c' } := fun c' hrw =>
    ⟨hg.noGather, fun k hk w hb => by show c'.rw = some w ∨ c'.rw = none; rw [hrw]; exact hg.cur k hk w hb⟩
  cases l with
  | advance t =>
    simp only [step] at hst
    split at hst <;> cases hst
    exact ⟨hsame _ rfl, Nat.le_add_right _ _⟩
  | envLost cid =>
    simp only [step] at hst
    split at hst
    · rename_i p f hc; cases hst
      exact ⟨hsame _ rfl, score_set_le (.dying true) hc _ (by simp [armedOrDown, isFault])⟩
    · cases hst
  | envLostRan cid =>
    simp only [step] at hst
    split at hst
    · rename_i e hc; cases hst
      exact ⟨hsame _ rfl, score_set_le (.dead e) hc _ (by simp [armedOrDown])⟩
    · cases hst
  | envPause cid b =>
    simp only [step] at hst
    split at hst
    · rename_i p f hc; cases hst
      exact ⟨hsame _ rfl, score_set_le (.live b f) hc _ (by simp [armedOrDown])⟩
    · cases hst
  | envFailWrites cid b =>
    simp only [step] at hst
    split at hst
    · rename_i p f hc; cases hst
      exact ⟨hsame _ rfl, score_set_le (.live p b) hc _ (by cases b <;> cases f <;> simp [armedOrDown, isFault])⟩
    · cases hst
  | apiOpen =>
    simp only [step] at hst
    split at hst
    · cases hst
      exact ⟨ginv_api hg _ (by simp) (by simp [blockedOn]) (by simp) (.inl rfl), Nat.le_add_right _ _⟩
    · cases hst
      refine ⟨ginv_api hg ⟨_, _, _⟩ (by simp) (by simp [blockedOn]) ?_ (.inl rfl), Nat.le_add_right _ _⟩
      intro p hp; simp only [List.mem_singleton] at hp; subst hp; rfl
  | apiClose => cases hl
  | apiReset => cases hl
  | apiSend sid retries life encOk =>
    simp only [step] at hst
    split at hst
    · cases hst
      exact ⟨ginv_api hg _ (by simp) (by simp [blockedOn]) (by simp) (.inl rfl), Nat.le_add_right _ _⟩
    · split at hst
      · cases hst
        exact ⟨ginv_api hg _ (by simp) (by simp [blockedOn]) (by simp) (.inl rfl), Nat.le_add_right _ _⟩
      · cases hst
        obtain ⟨f1, f2, f3, f4⟩ := exec_ginv_facts ({ s.core with queue := purged s.core.now s.core.queue ++ [(⟨sid, retries, s.core.now + life, encOk, false⟩ : Entry)], trace := s.core.trace ++ purgeEvents s.core.now s.core.queue }.emit (.accept sid s.core.now (s.core.now + life) retries encOk)) (.drain .done)
        refine ⟨ginv_api hg _ f1 f2 f3 f4, ?_⟩
        show score (exec FUEL _ [] (.drain .done)).core ≤ _
        rw [exec_score FUEL _ [] (.drain .done) trivial]
        exact Nat.le_add_right _ _
  | run t a =>
    have hplain : ∀ out : Out, out.pc ≠ .closeGather → blockedOn out.pc = none → (∀ p ∈ out.spawned, spawnPc p = true) →
        out.core.conns = s.core.conns → out.core.rw = s.core.rw →
        GInv (upd s t out) ∧ score (upd s t out).core ≤ score s.core + (isFault (.run t a)).toNat := by
      intro out h1 h2 h3 h4 h5
      refine ⟨ginv_upd hg t out h1 (fun w hb => by rw [h2] at hb; cases hb) h3 (.inl h5), ?_⟩
      show score out.core ≤ _
      unfold score; rw [h4]; exact Nat.le_add_right _ _
    have hexec : ∀ (c0 : Core) (kont : Kont), c0.conns = s.core.conns → c0.rw = s.core.rw → KOk c0 kont →
        GInv (upd s t (exec FUEL c0 [] kont)) ∧
          score (upd s t (exec FUEL c0 [] kont)).core ≤ score s.core + (isFault (.run t a)).toNat := by
      intro c0 kont h1 h2 h3
      obtain ⟨g1, g2⟩ := gstep_upd_exec hg t c0 kont h1 h2 h3
      exact ⟨g1, by rw [g2]; exact Nat.le_add_right _ _⟩
    have hcb : (connectBlock s.core).pc ≠ .closeGather ∧ blockedOn (connectBlock s.core).pc = none ∧
        (∀ p ∈ (connectBlock s.core).spawned, spawnPc p = true) ∧ (connectBlock s.core).core.conns = s.core.conns ∧
        (connectBlock s.core).core.rw = s.core.rw := by
      unfold connectBlock; split <;> simp [blockedOn, Core.emit]
    simp only [step] at hst
    split at hst
    · split at hst
      · cases hst; exact hplain _ hcb.1 hcb.2.1 hcb.2.2.1 hcb.2.2.2.1 hcb.2.2.2.2
      · cases hst
    · cases hst; exact hplain _ hcb.1 hcb.2.1 hcb.2.2.1 hcb.2.2.2.1 hcb.2.2.2.2
    · -- openOk: nobody is blocked on an old transport
      rename_i hp
      cases hst
      simp only [gentle, hp, List.all_eq_true] at hl
      obtain ⟨k0, hk0, hpc⟩ := pcAt_eq.1 hp
      have hconn : s.core.connecting = true :=
        hinv.opening_connecting t k0 hk0 (by rw [hpc]; rfl)
      have hrw : s.core.rw = none := by
        have h1 := hinv.core.connecting hconn
        have h2 := hinv.core.conn_rw
        rw [h1] at h2
        cases h : s.core.rw with
        | none => rfl
        | some w => rw [h] at h2; cases h2
      have hnone : ∀ k ∈ s.tasks, blockedOn k.pc = none := by
        intro k hk
        cases hb : blockedOn k.pc with
        | none => rfl
        | some w =>
          exfalso
          have := hl k hk
          rw [hb] at this
          have hlive := hinv.core.live_rw w ((isLiveAt_iff _ _).1 this)
          rw [hrw] at hlive; cases hlive
      constructor
      · constructor
        · intro k hk
          rcases mem_upd hk with hk | ⟨k0, _, rfl⟩ | ⟨_, hk⟩
          · exact hg.noGather k hk
          · simp
          · cases hk
        · intro k hk w hb
          rcases mem_upd hk with hk | ⟨k0, _, rfl⟩ | ⟨_, hk⟩
          · rw [hnone k hk] at hb; cases hb
          · simp [blockedOn] at hb
          · cases hk
      · show score ⟨_, _, _, _, _, _, s.core.conns ++ [ConnSt.live false false], _⟩ ≤ _
        simp [score, List.countP_append, armedOrDown]
    · cases hst
      refine hplain ⟨_, _, _⟩ (by simp) rfl ?_ rfl rfl
      intro p hp'
      split at hp'
      · simp only [List.mem_singleton] at hp'; subst hp'; rfl
      · cases hp'
    · cases hst; exact hplain ⟨_, _, _⟩ (by simp) rfl (by simp) rfl rfl
    · cases hst; exact hexec _ _ rfl rfl trivial
    · -- drainErr
      rename_i w e r hp
      split at hst
      · cases hst
      · rename_i hnl
        cases hst
        obtain ⟨k0, hk0, hpc⟩ := pcAt_eq.1 hp
        have hnl' : ¬ liveAt s.core w := by
          intro hlive; unfold liveAt at hlive; rw [hlive] at hnl; exact hnl rfl
        obtain ⟨q1, q2⟩ := requeue_conns_rw s.core e
        exact hexec _ _ q1 q2
          (kOk_of_blocked hg (List.mem_of_getElem? hk0) (by rw [hpc]; rfl) hnl' q1 q2 _)
    · split at hst
      · cases hst; exact hexec _ _ rfl rfl trivial
      · cases hst
    · cases hst; exact hexec _ _ rfl rfl trivial
    · cases hst; exact hexec _ _ rfl rfl trivial
    · cases hst
      exact hplain ⟨_, _, _⟩ (by simp) rfl (by simp) rfl rfl
    · -- readBad
      rename_i c hp
      cases hst
      simp only [gentle, hp] at hl
      obtain ⟨k0, hk0, hpc⟩ := pcAt_eq.1 hp
      have hnl : ¬ liveAt s.core c := by
        intro hlive; rw [(isLiveAt_iff _ _).2 hlive] at hl; cases hl
      exact hexec _ _ rfl rfl (kOk_of_blocked hg (List.mem_of_getElem? hk0) (by rw [hpc]; rfl) hnl rfl rfl _)
    · -- readEof
      rename_i c hp
      simp only [gentle, hp] at hl
      obtain ⟨k0, hk0, hpc⟩ := pcAt_eq.1 hp
      have hnl : ¬ liveAt s.core c := by
        intro hlive; rw [(isLiveAt_iff _ _).2 hlive] at hl; cases hl
      split at hst
      · split at hst
        · cases hst
          exact hexec _ _ rfl rfl (kOk_of_blocked hg (List.mem_of_getElem? hk0) (by rw [hpc]; rfl) hnl rfl rfl _)
        · cases hst; exact hplain ⟨_, _, _⟩ (by simp) rfl (by simp) rfl rfl
      · cases hst; exact hplain ⟨_, _, _⟩ (by simp) rfl (by simp) rfl rfl
    · -- readErr
      rename_i c hp
      cases hst
      simp only [gentle, hp] at hl
      obtain ⟨k0, hk0, hpc⟩ := pcAt_eq.1 hp
      have hnl : ¬ liveAt s.core c := by
        intro hlive; rw [(isLiveAt_iff _ _).2 hlive] at hl; cases hl
      exact hexec _ _ rfl rfl (kOk_of_blocked hg (List.mem_of_getElem? hk0) (by rw [hpc]; rfl) hnl rfl rfl _)
    · -- closeGather does not occur
      rename_i hp
      obtain ⟨k0, hk0, hpc⟩ := pcAt_eq.1 hp
      exact absurd hpc (hg.noGather k0 (List.mem_of_getElem? hk0))
    · cases hst

theorem ginv_init : GInv init := ⟨fun k hk => by simp [init] at hk, fun k hk => by simp [init] at hk⟩

/-- along a gentle history the number of transports that are down (or about to fail) is bounded by the number of
    environment faults -/
theorem score_runG {ls : List Label} {s : Sys} (h : runG init ls = some s) :
    GInv s ∧ score s.core ≤ ls.countP isFault := by
  refine runG_induction (P := fun ls s => GInv s ∧ score s.core ≤ ls.countP isFault) ⟨ginv_init, by simp [score, init]⟩
    ?_ ls s h
  intro ls s l s' hrun ⟨hg, hsc⟩ hl hst
  obtain ⟨g1, g2⟩ := gstep (inv_reachable ⟨ls, runG_run hrun⟩) hg hl hst
  refine ⟨g1, ?_⟩
  rw [List.countP_append, List.countP_singleton]
  cases hf : isFault l <;> simp [hf] at g2 ⊢ <;> omega

theorem down_runG {ls : List Label} {s : Sys} (h : runG init ls = some s) : down s.core ≤ ls.countP isFault :=
  Nat.le_trans (down_le_score _) (score_runG h).2

/-- with at most one transport down, only messages without retries are dropped for `maxRetries` -/
theorem kept_of_down_le_one {s : Sys} (h : ReachableWF s) (hd : down s.core ≤ 1) :
    ∀ sid t, Ev.qdrop sid t .maxRetries ∈ s.core.trace → ∀ t0 e r ok,
      acceptedAt s.core.trace sid = some (t0, e, r, ok) → r = 0 := by
  intro sid t hmem t0 e r ok ha
  have := (retries_spent_bounded h).2.2 sid t hmem t0 e r ok ha
  omega

/-- a gentle history with at most one environment fault: no message accepted with `retries ≥ 1` is dropped for
    `maxRetries` -/
theorem kept_single_fault {ls : List Label} {s : Sys} (hnd : (sendSids ls).Nodup) (hr : runG init ls = some s)
    (hf : ls.countP isFault ≤ 1) :
    ∀ sid t, Ev.qdrop sid t .maxRetries ∈ s.core.trace → ∀ t0 e r ok,
      acceptedAt s.core.trace sid = some (t0, e, r, ok) → r = 0 :=
  kept_of_down_le_one ⟨ls, hnd, runG_run hr⟩ (Nat.le_trans (down_runG hr) hf)

theorem acceptedAt_insert_fault (pre post : List Ev) (tf s : Nat) :
    acceptedAt (pre ++ Ev.fault tf :: post) s = acceptedAt (pre ++ post) s := by
  simp [acceptedAt, List.findSome?_append]

/-- the Spec monitor, on the model's trace with the harness marker `fault tf` inserted anywhere (the model itself
    never emits `fault`) -/
theorem keptAcrossSingleFault_marked {s : Sys}
    (h : ∀ sid t, Ev.qdrop sid t .maxRetries ∈ s.core.trace → ∀ t0 e r ok,
      acceptedAt s.core.trace sid = some (t0, e, r, ok) → r = 0)
    (pre post : List Ev) (tf : Nat) (htr : s.core.trace = pre ++ post) :
    keptAcrossSingleFault (pre ++ Ev.fault tf :: post) = true := by
  unfold keptAcrossSingleFault
  split
  · rfl
  split
  · rfl
  simp only [List.all_eq_true]
  intro ev hev
  have hev' : ev = .fault tf ∨ ev ∈ s.core.trace := by
    rw [htr]
    simp only [List.mem_append, List.mem_cons] at hev ⊢
    rcases hev with hev | hev | hev
    · exact .inr (.inl hev)
    · exact .inl hev
    · exact .inr (.inr hev)
  rcases hev' with rfl | hev'
  · rfl
  · cases ev with
    | qdrop sid t why =>
      cases why with
      | maxRetries =>
        simp only [acceptedAt_insert_fault, ← htr]
        cases ha : acceptedAt s.core.trace sid with
        | none => rfl
        | some v =>
          obtain ⟨t0, e, r, ok⟩ := v
          simp [h sid t hev' t0 e r ok ha]
      | _ => rfl
    | _ => rfl

/-- without `deadWrite` events the attempts of a message are its frames plus its write faults -/
def writeFaults (tr : List Ev) (sid : Nat) : Nat :=
  tr.countP fun
    | .writeFault _ s _ => s = sid
    | _ => false

theorem writeAttempts_split {tr : List Ev} (h : ∀ ev ∈ tr, notDW ev = true) (sid : Nat) :
    writeAttempts tr sid = wireCount tr sid + writeFaults tr sid ∧ failedAttempts tr sid = writeFaults tr sid := by
  induction tr with
  | nil => exact ⟨rfl, rfl⟩
  | cons ev tr ih =>
    obtain ⟨ih1, ih2⟩ := ih (fun e he => h e (List.mem_cons_of_mem _ he))
    have h0 := h ev (by simp)
    simp only [writeAttempts, wireCount, writeFaults, failedAttempts, List.countP_cons] at ih1 ih2 ⊢
    cases ev <;> simp_all [notDW] <;> omega

/-! ### part C: re-queued entries go to the front -/

/-- how the queue `q'` relates to an earlier queue `q`: entries re-queued since (`pre`), then what is left of `q` in
    its old order (`mid`), then entries accepted since (`post`) -/
def QRel (q q' : List Entry) : Prop :=
  ∃ pre mid post, q' = pre ++ mid ++ post ∧ mid.Sublist q ∧ (∀ x ∈ pre, x.requeued = true) ∧
    (∀ y ∈ post, y.requeued = false)

theorem QRel.sub {q q' : List Entry} (h : q'.Sublist q) : QRel q q' :=
  ⟨[], q', [], by simp, h, by simp, by simp⟩

theorem QRel.refl (q : List Entry) : QRel q q := QRel.sub (List.Sublist.refl _)

theorem QRel.trans {a b c : List Entry} (h1 : QRel a b) (h2 : QRel b c) : QRel a c := by
  obtain ⟨p1, m1, t1, e1, s1, hp1, ht1⟩ := h1
  obtain ⟨p2, m2, t2, e2, s2, hp2, ht2⟩ := h2
  subst e1
  obtain ⟨m12, z, hz, hs12, hsz⟩ := List.sublist_append_iff.1 s2
  obtain ⟨x, y, hxy, hsx, hsy⟩ := List.sublist_append_iff.1 hs12
  refine ⟨p2 ++ x, y, z ++ t2, ?_, hsy.trans s1, ?_, ?_⟩
  · rw [e2, hz, hxy]; simp [List.append_assoc]
  · intro e he
    rcases List.mem_append.1 he with he | he
    · exact hp2 e he
    · exact hp1 e (hsx.subset he)
  · intro e he
    rcases List.mem_append.1 he with he | he
    · exact ht1 e (hsz.subset he)
    · exact ht2 e he

theorem astep_qrel {a b : Abs} (h : AStep a b) : QRel a.queue b.queue := by
  induction h with
  | refl a => exact QRel.refl _
  | trans _ _ ih1 ih2 => exact ih1.trans ih2
  | tick a t h => exact QRel.refl _
  | note a ev h => exact QRel.refl _
  | dropQ a q' h => exact QRel.sub h
  | dropF a fl' h => exact QRel.refl _
  | permF a fl' h => exact QRel.refl _
  | write a e rest wev hq hlt hw => exact QRel.sub (by rw [hq]; exact List.sublist_cons_self _ _)
  | writeNone a e rest hq => exact QRel.sub (by rw [hq]; exact List.sublist_cons_self _ _)
  | requeue a e fl' hf hk =>
    exact ⟨[{ e with retries := e.retries - 1, requeued := true }], a.queue, [], by simp, List.Sublist.refl _,
      by simp, by simp⟩
  | burn a sid => exact QRel.refl _
  | accept a sid r life ok hcap =>
    exact ⟨[], a.queue, [⟨sid, r, a.now + life, ok, false⟩], by simp, List.Sublist.refl _, by simp, by simp⟩

theorem step_qrel {s s' : Sys} {l : Label} (h : step s l = some s') : QRel s.core.queue s'.core.queue :=
  astep_qrel (step_abs [] s s' l h)

/-- along every run, from every state -/
theorem run_qrel : ∀ (ls : List Label) {s s' : Sys}, run s ls = some s' → QRel s.core.queue s'.core.queue := by
  intro ls
  induction ls with
  | nil => intro s s' h; simp only [run, Option.some.injEq] at h; subst h; exact QRel.refl _
  | cons l ls ih =>
    intro s s' h
    simp only [run] at h
    cases hs : step s l with
    | none => rw [hs] at h; cases h
    | some s1 =>
      rw [hs] at h
      exact (step_qrel hs).trans (ih h)

/-- the failed-write path puts the entry back at the head of the queue, with one retry fewer -/
theorem drainErr_requeues {s s' : Sys} {t w : Nat} {e : Entry} {r : Ret} (hp : pcAt s t = some (.drainAwait w e r))
    (hk : e.retries ≠ 0) (h : step s (.run t .drainErr) = some s') :
    s'.core.queue = { e with retries := e.retries - 1, requeued := true } :: s.core.queue := by
  simp only [step, hp] at h
  split at h
  · cases h
  · cases h
    show (exec FUEL (requeue s.core e) [] (.disconnect (.resetTail r))).core.queue = _
    have hq : (requeue s.core e).queue = { e with retries := e.retries - 1, requeued := true } :: s.core.queue := by
      simp [requeue, hk]
    rw [← hq]
    generalize requeue s.core e = c
    simp only [FUEL, exec]
    split
    · unfold closeConn; split <;> rfl
    · split
      · rfl
      · rename_i h1 h2; exact absurd h1 h2

/-- an entry that was queued with the re-queued mark stays ahead of every entry that was not yet queued and does not
    carry the mark (i.e. was accepted later), for as long as it stays in the queue -/
theorem requeued_stays_ahead {ls : List Label} {s s' : Sys} (h : run s ls = some s') {x y : Entry}
    (hx' : x ∈ s'.core.queue) (hxr : x.requeued = true)
    (hy : y ∈ s'.core.queue) (hyn : y ∉ s.core.queue) (hyr : y.requeued = false) :
    ∃ l1 l2, s'.core.queue = l1 ++ l2 ∧ x ∈ l1 ∧ y ∈ l2 := by
  obtain ⟨pre, mid, post, e, hs, hpre, hpost⟩ := run_qrel ls h
  refine ⟨pre ++ mid, post, e, ?_, ?_⟩
  · rw [e] at hx'
    rcases List.mem_append.1 hx' with hx' | hx'
    · exact hx'
    · have := hpost x hx'; rw [hxr] at this; cases this
  · rw [e] at hy
    rcases List.mem_append.1 hy with hy | hy
    · rcases List.mem_append.1 hy with hy | hy
      · have := hpre y hy; rw [hyr] at this; cases this
      · exact absurd (hs.subset hy) hyn
    · exact hy

/-- in every reachable state the re-queued entries form a prefix of the queue -/
theorem requeued_prefix {s : Sys} (h : Reachable s) :
    ∃ pre post, s.core.queue = pre ++ post ∧ (∀ x ∈ pre, x.requeued = true) ∧ (∀ y ∈ post, y.requeued = false) := by
  obtain ⟨ls, h⟩ := h
  obtain ⟨pre, mid, post, e, hs, hpre, hpost⟩ := run_qrel ls h
  have : mid = [] := by simpa [init] using hs
  subst this
  exact ⟨pre, post, by simpa using e, hpre, hpost⟩

end PyAirtouch.Lemmas.SockRetry
