import PyAirtouch.Model.At4.X2A
/-! Round trip and length lemmas for the AirTouch 4 group control codec (0x2A). -/
namespace PyAirtouch.Lemmas.At4X2A
open PyAirtouch.Model PyAirtouch.Model.At4.X2A PyAirtouch.Gen.At4.X2AGroupCtrl

/-- the bit-field byte always fits: only the two pass-through fields can make `struct.pack` raise -/
theorem encB2_lt (m : Msg) : encB2 m < 256 := by
  rcases m with ⟨gn, pw, cm, st⟩
  simp only [encB2]
  cases st with
  | incDec v => simp only [encSetting]; cases v <;> cases pw <;> cases cm <;> decide
  | damper p => simp only [encSetting]; cases pw <;> cases cm <;> decide
  | setPoint sp => simp only [encSetting]; cases pw <;> cases cm <;> decide
  | none => simp only [encSetting]; cases pw <;> cases cm <;> decide

/-- the encoder accepts exactly the well-formed messages ... -/
theorem encode_ok (m : Msg) (h : WF m) : encode m = .ok (encodeBytes m) := by
  obtain ⟨hg, hs⟩ := h
  have hb := encB2_lt m
  have hv : (encSetting m.setting).2 < 256 := by
    rcases m with ⟨gn, pw, cm, st⟩
    cases st <;> simp_all [encSetting, WFSetting, VALUE_INVALID]
  simp [encode, hg, hb, hv]

/-- ... and raises `struct.error` on all others (group number or setting value above 255) -/
theorem encode_error (m : Msg) (h : ¬ WF m) : encode m = .error .structError := by
  have : ¬ (m.group_number < 256 ∧ encB2 m < 256 ∧ (encSetting m.setting).2 < 256) := by
    intro ⟨hg, _, hv⟩
    apply h
    refine ⟨hg, ?_⟩
    rcases m with ⟨gn, pw, cm, st⟩
    cases st <;> simp_all [encSetting, WFSetting]
  simp [encode, this]

theorem encode_ok_iff (m : Msg) : (∃ bs, encode m = .ok bs) ↔ WF m := by
  constructor
  · intro ⟨bs, hbs⟩
    apply Classical.byContradiction
    intro hn
    rw [encode_error m hn] at hbs
    cases hbs
  · intro h
    exact ⟨_, encode_ok m h⟩

theorem encode_length (m : Msg) (bs : Bytes) (h : encode m = .ok bs) : bs.length = size m := by
  unfold encode at h
  split at h
  · cases h; rfl
  · cases h

/-- the three fields packed into the bit-field byte are read back unchanged -/
theorem b2_cases (pw : GroupPowerControl) (cm : GroupControlMethod) (st : GroupSetting) :
    GroupPowerControl.ofNat? (((encSetting st).1 + encMethod cm + pw.toNat) % 8) = some pw ∧
    GroupControlMethod.ofNat? (((encSetting st).1 + encMethod cm + pw.toNat) / 8 % 4) = some cm ∧
    decSetting ((encSetting st).1 + encMethod cm + pw.toNat) (encSetting st).2 = st := by
  have hpw : GroupPowerControl.ofNat? pw.toNat = some pw := by cases pw <;> rfl
  have hcm : GroupControlMethod.ofNat? cm.toNat = some cm := by cases cm <;> rfl
  have hq : pw.toNat < 8 := by cases pw <;> decide
  have he : encMethod cm = cm.toNat * 8 ∧ cm.toNat < 4 := by cases cm <;> decide
  obtain ⟨he1, he2⟩ := he
  -- the setting type field holds `k`, below 8
  have key : ∀ k, k < 8 →
      (k * 32 + encMethod cm + pw.toNat) % 8 = pw.toNat ∧
      (k * 32 + encMethod cm + pw.toNat) / 8 % 4 = cm.toNat ∧
      (k * 32 + encMethod cm + pw.toNat) / 32 % 8 = k := by
    intro k hk
    rw [he1]
    omega
  cases st with
  | incDec v =>
    obtain ⟨k1, k2, k3⟩ := key v.toNat (by cases v <;> decide)
    simp only [encSetting, decSetting, k1, k2, k3, hpw, hcm, true_and]
    cases v <;> rfl
  | damper p =>
    obtain ⟨k1, k2, k3⟩ := key SET_PERCENTAGE (by decide)
    simp only [encSetting, decSetting, k1, k2, k3, hpw, hcm, true_and]
    rfl
  | setPoint sp =>
    obtain ⟨k1, k2, k3⟩ := key SET_SETPOINT (by decide)
    simp only [encSetting, decSetting, k1, k2, k3, hpw, hcm, true_and]
    rfl
  | none =>
    obtain ⟨k1, k2, k3⟩ := key KEEP_SETTING (by decide)
    simp only [encSetting, decSetting, k1, k2, k3, hpw, hcm, true_and]
    rfl

theorem decode_encodeBytes (m : Msg) (rest : Bytes) (msgLen : Nat) :
    decode (encodeBytes m ++ rest) msgLen = .ok (m, rest) := by
  rcases m with ⟨gn, pw, cm, st⟩
  obtain ⟨hp, hc, hs⟩ := b2_cases pw cm st
  simp only [encodeBytes, encB2, List.cons_append, List.nil_append, decode, hp, hc, hs]

/-- `decode(encode(m) ++ rest, header with message_length = size(m))` gives `m` back and leaves `rest` -/
theorem decode_encode (m : Msg) (h : WF m) (rest : Bytes) :
    ∃ bs, encode m = .ok bs ∧ decode (bs ++ rest) (size m) = .ok (m, rest) :=
  ⟨encodeBytes m, encode_ok m h, decode_encodeBytes m rest _⟩

/-- the same, stated for whatever the encoder returned -/
theorem decode_encode' (m : Msg) (bs rest : Bytes) (h : encode m = .ok bs) :
    decode (bs ++ rest) (size m) = .ok (m, rest) := by
  unfold encode at h
  split at h
  · cases h; exact decode_encodeBytes m rest _
  · cases h

theorem wfSettingBool_iff (s : GroupSetting) : wfSettingBool s = true ↔ WFSetting s := by
  cases s <;> simp [wfSettingBool, WFSetting]

theorem wfBool_iff (m : Msg) : wfBool m = true ↔ WF m := by
  simp [wfBool, WF, wfSettingBool_iff]

end PyAirtouch.Lemmas.At4X2A
