import PyAirtouch.Lemmas.Api5Run
/-!
# The entities the AirTouch 5 API model builds from the zone names and the AC abilities
-/
namespace PyAirtouch.Lemmas.Api5
open PyAirtouch.Model PyAirtouch.Model.Api5 PyAirtouch.Model.At5 PyAirtouch.Model.At5.Registry
open PyAirtouch.Gen PyAirtouch.Gen.Api5

/-! ### Python dict assignment -/

theorem lookup_map_replace {β} (d : List (Nat × β)) (k n : Nat) (v : β) :
    (d.map (fun p => if p.1 = k then (k, v) else p)).lookup n =
      if n = k then (if d.any (·.1 = k) then some v else none) else d.lookup n := by
  induction d with
  | nil => simp [List.lookup]
  | cons p d ih =>
    obtain ⟨a, b⟩ := p
    by_cases hak : a = k
    · subst hak
      by_cases hn : n = a
      · subst hn; simp
      · have : (n == a) = false := by simpa using hn
        simp [List.lookup, this, hn, ih]
    · by_cases hn : n = a
      · subst hn
        have hnk : ¬ n = k := hak
        simp [List.lookup, hak]
      · have : (n == a) = false := by simpa using hn
        simp only [List.map_cons, hak, if_false, List.lookup, this, ih, List.any_cons, decide_false, Bool.false_or]

theorem lookup_append_single {β} (d : List (Nat × β)) (k n : Nat) (v : β) :
    (d ++ [(k, v)]).lookup n = match d.lookup n with
      | some x => some x
      | none => if n = k then some v else none := by
  induction d with
  | nil =>
    by_cases h : n = k
    · subst h; simp [List.lookup]
    · have : (n == k) = false := by simpa using h
      simp [List.lookup, h, this]
  | cons p d ih =>
    obtain ⟨a, b⟩ := p
    by_cases hn : n = a
    · subst hn; simp [List.lookup]
    · have : (n == a) = false := by simpa using hn
      simp [List.lookup, this, ih]

theorem lookup_none_of_not_any {β} (d : List (Nat × β)) (k : Nat) (h : d.any (·.1 = k) = false) : d.lookup k = none := by
  induction d with
  | nil => rfl
  | cons p d ih =>
    obtain ⟨a, b⟩ := p
    simp only [List.any_cons, Bool.or_eq_false_iff, decide_eq_false_iff_not] at h
    have : (k == a) = false := by simpa using (fun e => h.1 e.symm)
    simp [List.lookup, this, ih h.2]

/-- `d[k] = v` on a Python dict -/
theorem lookup_dictInsert {β} (d : List (Nat × β)) (k n : Nat) (v : β) :
    (dictInsert d k v).lookup n = if n = k then some v else d.lookup n := by
  unfold dictInsert
  by_cases h : d.any (·.1 = k) = true
  · simp only [h, if_true]
    rw [lookup_map_replace]
    simp [h]
  · have h' : d.any (·.1 = k) = false := by
      cases hb : d.any (·.1 = k)
      · rfl
      · exact absurd hb h
    simp only [h', Bool.false_eq_true, if_false]
    rw [lookup_append_single]
    by_cases hn : n = k
    · subst hn; simp [lookup_none_of_not_any d n h']
    · simp only [hn, if_false]
      cases d.lookup n <;> rfl

/-! ### zone objects -/

/-- what the zone names `zn` say about the zone dict: every entry points to an object with that number, a name from
the message, and the initial status -/
def ZonesDescribed (zn : List (Nat × Bytes)) (s : State) : Prop :=
  ∀ n r, s.zones.lookup n = some r →
    ∃ z, s.zobjs[r]? = some z ∧ z.id = n ∧ (n, z.name) ∈ zn ∧ z.status = (newZone n z.name).status

theorem addZone_described (zn : List (Nat × Bytes)) (s : State) (p : Nat × Bytes) (hp : p ∈ zn)
    (h : ZonesDescribed zn s) : ZonesDescribed zn (addZone s p) := by
  intro n r hl
  simp only [addZone, lookup_dictInsert] at hl
  by_cases hn : n = p.1
  · subst hn
    simp only [if_true, Option.some.injEq] at hl
    subst hl
    refine ⟨newZone p.1 p.2, by simp [addZone], rfl, ?_, rfl⟩
    show (p.1, p.2) ∈ zn
    exact hp
  · simp only [hn, if_false] at hl
    obtain ⟨z, hz, h1, h2, h3⟩ := h n r hl
    refine ⟨z, ?_, h1, h2, h3⟩
    have hr : r < s.zobjs.length := by
      rcases Nat.lt_or_ge r s.zobjs.length with h | h
      · exact h
      · rw [List.getElem?_eq_none h] at hz; cases hz
    simp [addZone, List.getElem?_append_left hr, hz]

theorem processZoneNames_described (zn names : List (Nat × Bytes)) (s : State) (hsub : ∀ p ∈ names, p ∈ zn)
    (h : ZonesDescribed zn s) : ZonesDescribed zn (processZoneNames names s) := by
  unfold processZoneNames
  induction names generalizing s with
  | nil => exact h
  | cons p ps ih =>
    simp only [List.foldl_cons]
    exact ih _ (fun q hq => hsub q (by simp [hq])) (addZone_described zn s p (hsub p (by simp)) h)

/-- every zone of the message is in the dict afterwards -/
theorem processZoneNames_covers (names : List (Nat × Bytes)) (s : State) :
    (∀ p ∈ names, ((processZoneNames names s).zones.lookup p.1).isSome) ∧
    (∀ n, (s.zones.lookup n).isSome → ((processZoneNames names s).zones.lookup n).isSome) := by
  unfold processZoneNames
  induction names generalizing s with
  | nil => exact ⟨by simp, fun n h => h⟩
  | cons p ps ih =>
    simp only [List.foldl_cons]
    obtain ⟨h1, h2⟩ := ih (addZone s p)
    refine ⟨?_, ?_⟩
    · intro q hq
      simp only [List.mem_cons] at hq
      rcases hq with rfl | hq
      · exact h2 _ (by simp [addZone, lookup_dictInsert])
      · exact h1 q hq
    · intro n hn
      apply h2
      simp only [addZone, lookup_dictInsert]
      split
      · rfl
      · exact hn


/-! ### AC objects -/

theorem zoneRange_spec (zones : List (Nat × Nat)) (start count : Nat) (refs : List Nat)
    (h : zoneRange zones start count = some refs) :
    refs.length = count ∧ ∀ k, k < count → refs[k]? = zones.lookup (start + k) ∧ (zones.lookup (start + k)).isSome := by
  induction count generalizing start refs with
  | zero =>
    simp only [zoneRange, Option.some.injEq] at h
    subst h
    exact ⟨rfl, fun k hk => absurd hk (Nat.not_lt_zero k)⟩
  | succ c ih =>
    simp only [zoneRange] at h
    split at h
    · rename_i r rs h1 h2
      cases h
      obtain ⟨g1, g2⟩ := ih (start + 1) rs h2
      refine ⟨by simp [g1], ?_⟩
      intro k hk
      cases k with
      | zero => simp [h1]
      | succ k =>
        have := g2 k (by omega)
        have e : start + (k + 1) = start + 1 + k := by omega
        simp only [List.getElem?_cons_succ, e]
        exact this
    · cases h

/-- a zone object that only gained forwarders -/
def ZExt (z z' : ZoneObj) : Prop :=
  z'.name = z.name ∧ z'.status = z.status ∧ z'.subs = z.subs ∧ ∀ x ∈ z.fwd, x ∈ z'.fwd

theorem ZExt.refl (z : ZoneObj) : ZExt z z := ⟨rfl, rfl, rfl, fun _ h => h⟩
theorem ZExt.trans {a b c : ZoneObj} (h1 : ZExt a b) (h2 : ZExt b c) : ZExt a c :=
  ⟨h2.1.trans h1.1, h2.2.1.trans h1.2.1, h2.2.2.1.trans h1.2.2.1, fun x hx => h2.2.2.2 x (h1.2.2.2 x hx)⟩

theorem subscribeFwd_ext (r : Nat) (z : ZoneObj) : ZExt z (subscribeFwd r z) ∧ r ∈ (subscribeFwd r z).fwd := by
  unfold subscribeFwd
  by_cases h : z.fwd.contains r = true
  · simp only [h, if_true]
    exact ⟨ZExt.refl z, by simpa using h⟩
  · simp only [h]
    exact ⟨⟨rfl, rfl, rfl, fun x hx => by simp [hx]⟩, by simp⟩

theorem attachAc_length (r : Nat) (refs : List Nat) (zobjs : List ZoneObj) :
    (attachAc r refs zobjs).length = zobjs.length := by
  unfold attachAc
  induction refs generalizing zobjs with
  | nil => rfl
  | cons zr refs ih => simp only [List.foldl_cons]; rw [ih, modifyAt_length]

theorem attachAc_get (r : Nat) (refs : List Nat) (zobjs : List ZoneObj) (i : Nat) (z : ZoneObj)
    (hz : zobjs[i]? = some z) :
    ∃ z', (attachAc r refs zobjs)[i]? = some z' ∧ ZExt z z' ∧ (i ∈ refs → r ∈ z'.fwd) := by
  unfold attachAc
  induction refs generalizing zobjs z with
  | nil => exact ⟨z, hz, ZExt.refl z, by simp⟩
  | cons zr refs ih =>
    simp only [List.foldl_cons]
    by_cases he : zr = i
    · subst he
      have h1 : (modifyAt zobjs zr (subscribeFwd r))[zr]? = some (subscribeFwd r z) := by
        simp [modifyAt_get_same, hz]
      obtain ⟨z', g1, g2, g3⟩ := ih _ _ h1
      refine ⟨z', g1, (subscribeFwd_ext r z).1.trans g2, fun _ => g2.2.2.2 r (subscribeFwd_ext r z).2⟩
    · have h1 : (modifyAt zobjs zr (subscribeFwd r))[i]? = some z := by
        rw [modifyAt_get_other _ _ _ _ he]; exact hz
      obtain ⟨z', g1, g2, g3⟩ := ih _ _ h1
      refine ⟨z', g1, g2, ?_⟩
      intro hi
      simp only [List.mem_cons] at hi
      rcases hi with hi | hi
      · exact absurd hi.symm he
      · exact g3 hi

/-- what the abilities `abs` say about the AC dict: every entry points to an AC object freshly built from an ability of
the message with that number, whose zone list is the zone range of that ability, each of those zones forwarding to it -/
def AcsDescribed (abs : List FF11.AcAbility) (s : State) : Prop :=
  ∀ n r, s.acs.lookup n = some r →
    ∃ a ab, s.aobjs[r]? = some a ∧ ab ∈ abs ∧ ab.ac_number = n ∧
      a = newAc ab a.zones a.supportedModes a.supportedFanSpeeds ∧
      zoneRange s.zones ab.start_zone ab.zone_count = some a.zones ∧
      ∀ zr ∈ a.zones, ∃ z, s.zobjs[zr]? = some z ∧ r ∈ z.fwd

theorem addAc_described (zn : List (Nat × Bytes)) (abs : List FF11.AcAbility) (s s' : State) (ab : FF11.AcAbility)
    (hab : ab ∈ abs) (hz : ZonesDescribed zn s) (ha : AcsDescribed abs s) (h : addAc s ab = some s') :
    ZonesDescribed zn s' ∧ AcsDescribed abs s' ∧ s'.zones = s.zones ∧ (s'.acs.lookup ab.ac_number).isSome ∧
      (∀ n, (s.acs.lookup n).isSome → (s'.acs.lookup n).isSome) := by
  unfold addAc at h
  split at h
  · rename_i refs modes fans hr hm hf
    cases h
    obtain ⟨hlen, hrefs⟩ := zoneRange_spec _ _ _ _ hr
    refine ⟨?_, ?_, rfl, by simp [lookup_dictInsert], ?_⟩
    · -- zones: objects only gained a forwarder
      intro n r hl
      obtain ⟨z, g1, g2, g3, g4⟩ := hz n r hl
      obtain ⟨z', e1, e2, _⟩ := attachAc_get s.aobjs.length refs s.zobjs r z g1
      refine ⟨z', e1, ?_, ?_, ?_⟩
      · show z'.status.zone_number = n
        rw [e2.2.1]; exact g2
      · rw [e2.1]; exact g3
      · rw [e2.2.1, e2.1]; exact g4
    · intro n r hl
      simp only [lookup_dictInsert] at hl
      by_cases hn : n = ab.ac_number
      · subst hn
        simp only [if_true, Option.some.injEq] at hl
        subst hl
        refine ⟨newAc ab refs modes fans, ab, by simp, hab, rfl, rfl, hr, ?_⟩
        intro zr hzr
        -- the zone object exists: its reference came out of the zone dict
        obtain ⟨k, hk, hk'⟩ := List.getElem?_of_mem hzr |>.imp fun k hk => And.intro hk hk
        have hklt : k < ab.zone_count := by
          have := (List.getElem?_eq_some_iff.1 hk).1
          show k < ab.zone_count
          rw [← hlen]; exact this
        have hlook := (hrefs k hklt).1
        have hl2 : s.zones.lookup (ab.start_zone + k) = some zr := by
          rw [← hlook]; exact hk
        obtain ⟨z, g1, _⟩ := hz _ _ hl2
        obtain ⟨z', e1, _, e3⟩ := attachAc_get s.aobjs.length refs s.zobjs zr z g1
        exact ⟨z', e1, e3 hzr⟩
      · simp only [hn, if_false] at hl
        obtain ⟨a, ab', g1, g2, g3, g4, g5, g6⟩ := ha n r hl
        have hr' : r < s.aobjs.length := by
          rcases Nat.lt_or_ge r s.aobjs.length with h | h
          · exact h
          · rw [List.getElem?_eq_none h] at g1; cases g1
        refine ⟨a, ab', by simp [List.getElem?_append_left hr', g1], g2, g3, g4, g5, ?_⟩
        intro zr hzr
        obtain ⟨z, f1, f2⟩ := g6 zr hzr
        obtain ⟨z', e1, e2, _⟩ := attachAc_get s.aobjs.length refs s.zobjs zr z f1
        exact ⟨z', e1, e2.2.2.2 r f2⟩
    · intro n hn
      simp only [lookup_dictInsert]
      split
      · rfl
      · exact hn
  · cases h

/-- `_process_ac_ability_message` as a pure fold (`none` = `KeyError`) -/
def addAcs : List FF11.AcAbility → State → Option State
  | [], s => some s
  | ab :: l, s => (addAc s ab).bind (addAcs l)

theorem processAcAbility_ok (l : List FF11.AcAbility) (s : State) (h : (processAcAbility l s).exc = none) :
    addAcs l s = some (processAcAbility l s).s := by
  unfold processAcAbility at h ⊢
  induction l generalizing s with
  | nil => rfl
  | cons ab l ih =>
    simp only [forEach, addAcs] at h ⊢
    cases ha : addAc s ab with
    | none => simp [ha, HR.andThen] at h
    | some s' =>
      simp only [ha, HR.andThen, Option.bind_some] at h ⊢
      exact ih s' h

theorem addAcs_described (zn : List (Nat × Bytes)) (abs l : List FF11.AcAbility) (s s' : State)
    (hl : ∀ ab ∈ l, ab ∈ abs) (hz : ZonesDescribed zn s) (ha : AcsDescribed abs s) (h : addAcs l s = some s') :
    ZonesDescribed zn s' ∧ AcsDescribed abs s' ∧ s'.zones = s.zones ∧
      (∀ ab ∈ l, (s'.acs.lookup ab.ac_number).isSome) ∧ (∀ n, (s.acs.lookup n).isSome → (s'.acs.lookup n).isSome) := by
  induction l generalizing s with
  | nil =>
    simp only [addAcs, Option.some.injEq] at h
    subst h
    exact ⟨hz, ha, rfl, by simp, fun _ h => h⟩
  | cons ab l ih =>
    simp only [addAcs] at h
    cases h1 : addAc s ab with
    | none => simp [h1] at h
    | some s1 =>
      simp only [h1, Option.bind_some] at h
      obtain ⟨g1, g2, g3, g4, g5⟩ := addAc_described zn abs s s1 ab (hl ab (by simp)) hz ha h1
      obtain ⟨f1, f2, f3, f4, f5⟩ := ih s1 (fun a ha' => hl a (by simp [ha'])) g1 g2 h
      refine ⟨f1, f2, f3.trans g3, ?_, fun n hn => f5 n (g5 n hn)⟩
      intro a ha'
      simp only [List.mem_cons] at ha'
      rcases ha' with rfl | ha'
      · exact f5 _ g4
      · exact f4 a ha'


/-! ### single steps of the handshake -/

theorem doMsg_nonHb (s : State) (toAddr : Nat) (m : Msg) (hsub : s.sockSubscribed = true)
    (h : isHeartbeatResponse m = false) :
    doMsg s toAddr m = ((handleMessage s toAddr m).s, excOut (handleMessage s toAddr m)) := by
  unfold doMsg
  rw [if_pos hsub]
  simp [h]

theorem finishInit_spec (s : State) :
    (finishInit s).s.st = .CONNECTED ∧ (finishInit s).s.initialised = true ∧ (finishInit s).s.pendingInits = [] ∧
    (finishInit s).exc = none ∧
    ∃ post, (finishInit s).out = [.hbStart] ++ s.pendingInits.map (fun _ => Out.result "init True") ++ post ∧
      ∀ o ∈ post, o = .send .connected hbMessage false ∨ o = .reset := by
  exact ⟨rfl, rfl, rfl, rfl, (hbFeed { s with st := .CONNECTED } (.start s.now)).2, rfl, hbFeed_out _ _⟩

theorem step_zoneNames (s : State) (t : Nat) (zn : FF13.ZoneNamesMessage) (hsub : s.sockSubscribed = true)
    (hst : s.st = .INIT_ZONE_NAMES) :
    (apiStep s (.msg t (.extended (.zoneNames (.message zn))))).1 =
      { processZoneNames zn.zone_names s with st := .INIT_AC_ABILITY } := by
  have e : handleMessage s t (.extended (.zoneNames (.message zn))) =
      sendMsg { processZoneNames zn.zone_names s with st := .INIT_AC_ABILITY } .connected msgAcAbilityRequestAll := by
    simp [handleMessage, hst]
  show (doMsg s t _).1 = _
  rw [doMsg_nonHb s t _ hsub rfl, e, sendMsg_s]

theorem step_ability (s : State) (t : Nat) (abs : List FF11.AcAbility) (hsub : s.sockSubscribed = true)
    (hst : s.st = .INIT_AC_ABILITY) (hok : (processAcAbility abs s).exc = none) :
    (apiStep s (.msg t (.extended (.acAbility (.ability abs))))).1 =
      { (processAcAbility abs s).s with st := .INIT_AC_STATUS } := by
  have e : handleMessage s t (.extended (.acAbility (.ability abs))) =
      (processAcAbility abs s).andThen fun s => sendMsg { s with st := .INIT_AC_STATUS } .connected msgAcStatusRequest := by
    simp [handleMessage, hst]
  show (doMsg s t _).1 = _
  rw [doMsg_nonHb s t _ hsub rfl, e, andThen_none _ _ hok]
  exact sendMsg_s _ _ _ _

theorem last_answer_spec (s : State) (toAddr : Nat) (m : Msg) (hsub : s.sockSubscribed = true)
    (hst : s.st = .INIT_ZONE_STATUS) (ha : answers .INIT_ZONE_STATUS toAddr m = true) :
    (doMsg s toAddr m).1.st = .CONNECTED ∧ (doMsg s toAddr m).1.initialised = true ∧
    (doMsg s toAddr m).1.pendingInits = [] ∧
    ∃ pre post, (doMsg s toAddr m).2 =
        pre ++ [.hbStart] ++ s.pendingInits.map (fun _ => Out.result "init True") ++ post ∧
      (∀ o ∈ pre, o.isNotify = true) ∧ (∀ o ∈ post, o = .send .connected hbMessage false ∨ o = .reset) := by
  rcases answers_zoneStatus_inv ha with ⟨l, rfl⟩ | ⟨rfl, hc⟩
  · have e : handleMessage s toAddr (.controlStatus (.zoneStatus (.status l))) = (processZoneStatus l s).andThen finishInit := by
      simp [handleMessage, hst]
    have hexc : (processZoneStatus l s).exc = none := by rw [processZoneStatus_eq l s]
    have hp : (processZoneStatus l s).s.pendingInits = s.pendingInits := (sameCtl_processZoneStatus l s).pendingInits
    obtain ⟨f1, f2, f3, f4, post, f5, f6⟩ := finishInit_spec (processZoneStatus l s).s
    rw [doMsg_nonHb s toAddr _ hsub rfl, e, andThen_none _ _ hexc]
    refine ⟨f1, f2, f3, (processZoneStatus l s).out, post, ?_, processZoneStatus_notify l s, f6⟩
    simp only [excOut, f4, List.append_nil, f5, hp, List.append_assoc]
  · have e : handleMessage s toAddr (.controlStatus (.zoneStatus .request)) = finishInit s := by
      simp [handleMessage, hst, hc]
    obtain ⟨f1, f2, f3, f4, post, f5, f6⟩ := finishInit_spec s
    rw [doMsg_nonHb s toAddr _ hsub rfl, e]
    refine ⟨f1, f2, f3, [], post, ?_, by simp, f6⟩
    simp only [excOut, f4, List.append_nil, f5, List.nil_append]

end PyAirtouch.Lemmas.Api5
