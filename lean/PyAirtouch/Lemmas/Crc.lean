import PyAirtouch.Model.Crc
import PyAirtouch.Spec.Crc
/-! Helper lemmas: the table-driven model equals the bitwise specification; linearity. -/
namespace PyAirtouch.Lemmas.Crc
open PyAirtouch.Gen PyAirtouch.Model PyAirtouch.Spec

def fb (c : Nat) : Nat := if c % 2 = 1 then 0xA001 else 0

theorem bitStep_eq (c : Nat) : bitStep c = (c / 2) ^^^ fb c := by
  unfold bitStep fb; split <;> simp [Nat.shiftRight_eq_div_pow]

theorem xor_even_mod2 (a d : Nat) (hd : d % 2 = 0) : (a ^^^ d) % 2 = a % 2 := by
  have := @Nat.xor_mod_two_pow a d 1
  simp only [Nat.pow_one] at this
  rw [this, hd, Nat.xor_zero]

theorem bitStep_xor_even (a d : Nat) (hd : d % 2 = 0) :
    bitStep (a ^^^ d) = bitStep a ^^^ (d / 2) := by
  simp only [bitStep_eq, fb, xor_even_mod2 a d hd, Nat.xor_div_two]
  rw [Nat.xor_assoc, Nat.xor_comm (d / 2), ← Nat.xor_assoc]

def bitStepN : Nat → Nat → Nat
  | 0, c => c
  | n+1, c => bitStepN n (bitStep c)

theorem bitStepN_xor (n : Nat) : ∀ (a d : Nat), d % 2^n = 0 →
    bitStepN n (a ^^^ d) = bitStepN n a ^^^ (d / 2^n) := by
  induction n with
  | zero => intro a d _; simp [bitStepN]
  | succ n ih =>
    intro a d hd
    rw [Nat.pow_succ] at hd
    have hd2 : d % 2 = 0 := by
      have h := Nat.mod_mul_left_mod d (2^n) 2
      omega
    have hshift : (d / 2) % 2^n = 0 := by
      have h := @Nat.mod_mul_right_div_self d 2 (2^n)
      rw [Nat.mul_comm] at hd
      omega
    simp only [bitStepN]
    rw [bitStep_xor_even a d hd2, ih _ _ hshift, Nat.div_div_eq_div_mul, Nat.pow_succ, Nat.mul_comm]

theorem stepBitwise_eq (crc b : Nat) : stepBitwise crc b = bitStepN 8 (crc ^^^ b) := rfl

theorem split_xor (c : Nat) : c = (c % 2^8) ^^^ ((c / 2^8) * 2^8) := by
  apply Nat.eq_of_testBit_eq
  intro i
  simp only [Nat.testBit_xor, Nat.testBit_mod_two_pow, Nat.testBit_mul_two_pow, Nat.testBit_div_two_pow]
  by_cases h : i < 8
  · have h2 : ¬ 8 ≤ i := by omega
    simp [h, h2]
  · have : 8 ≤ i := by omega
    simp [h, this]

/-- every word of the generated table is eight shifts of its index (kernel evaluation, 256 cases) -/
theorem table_spec : ∀ i : Fin 256, crcTable.getD i.val 0 =
    bitStep (bitStep (bitStep (bitStep (bitStep (bitStep (bitStep (bitStep i.val))))))) := by
  decide +kernel

theorem table_length : crcTable.length = 256 := by decide +kernel

theorem table_spec' (i : Nat) (h : i < 256) : crcTable.getD i 0 = bitStepN 8 i := by
  have := table_spec ⟨i, h⟩
  simpa [bitStepN] using this

/-- the classic byte-at-a-time identity, for every register value and byte -/
theorem stepTable_eq_stepBitwise (crc b : Nat) (hb : b < 256) :
    crcStepTable crc b = stepBitwise crc b := by
  rw [stepBitwise_eq]
  generalize hc : crc ^^^ b = c
  have hdiv : c / 2^8 = crc / 2^8 := by
    rw [← hc, Nat.xor_div_two_pow, Nat.div_eq_of_lt (a := b) (by simpa using hb), Nat.xor_zero]
  have hlow : (c / 2^8 * 2^8) % 2^8 = 0 := Nat.mul_mod_left _ _
  conv => rhs; rw [split_xor c]
  rw [bitStepN_xor 8 _ _ hlow, Nat.mul_div_cancel _ (by decide : 0 < 2^8), hdiv]
  unfold crcStepTable
  have hidx : (b ^^^ crc) &&& 0xFF = c % 2^8 := by
    rw [Nat.xor_comm, hc]; exact Nat.and_two_pow_sub_one_eq_mod c 8
  simp only [hidx]
  rw [table_spec' _ (Nat.mod_lt _ (by decide)), Nat.shiftRight_eq_div_pow, Nat.xor_comm]

theorem register_eq_modbus (bs : List Nat) (h : ∀ b ∈ bs, b < 256) :
    crcRegister bs = crc16Modbus bs := by
  unfold crcRegister crc16Modbus
  generalize 0xFFFF = init
  induction bs generalizing init with
  | nil => rfl
  | cons b bs ih =>
    simp only [List.foldl_cons]
    rw [stepTable_eq_stepBitwise init b (h b (by simp))]
    exact ih (fun x hx => h x (by simp [hx])) _

/-! ### the register stays below 2^16 -/

theorem bitStep_lt (c : Nat) (h : c < 65536) : bitStep c < 65536 := by
  unfold bitStep
  have h1 : c >>> 1 < 2^15 := by rw [Nat.shiftRight_eq_div_pow]; omega
  split
  · exact Nat.xor_lt_two_pow (n := 16) (by omega) (by decide)
  · omega

theorem stepBitwise_lt (c b : Nat) (h : c < 65536) (hb : b < 256) : stepBitwise c b < 65536 := by
  unfold stepBitwise
  have h0 : c ^^^ b < 65536 := Nat.xor_lt_two_pow (n := 16) h (by omega)
  simp only
  exact bitStep_lt _ (bitStep_lt _ (bitStep_lt _ (bitStep_lt _ (bitStep_lt _ (bitStep_lt _
    (bitStep_lt _ (bitStep_lt _ h0)))))))

theorem foldl_stepBitwise_lt (bs : List Nat) (h : ∀ b ∈ bs, b < 256) (c : Nat) (hc : c < 65536) :
    bs.foldl stepBitwise c < 65536 := by
  induction bs generalizing c with
  | nil => simpa
  | cons b bs ih =>
    simp only [List.foldl_cons]
    exact ih (fun x hx => h x (by simp [hx])) _ (stepBitwise_lt c b hc (h b (by simp)))

theorem crc16Modbus_lt (bs : List Nat) (h : ∀ b ∈ bs, b < 256) : crc16Modbus bs < 65536 :=
  foldl_stepBitwise_lt bs h _ (by decide)

/-! ### linearity over xor -/

theorem fb_xor (a b : Nat) : fb (a ^^^ b) = fb a ^^^ fb b := by
  have h := @Nat.xor_mod_two_pow a b 1
  simp only [Nat.pow_one] at h
  unfold fb
  have ha : a % 2 = 0 ∨ a % 2 = 1 := by omega
  have hb : b % 2 = 0 ∨ b % 2 = 1 := by omega
  rcases ha with ha | ha <;> rcases hb with hb | hb <;> simp [h, ha, hb]

theorem bitStep_xor (a b : Nat) : bitStep (a ^^^ b) = bitStep a ^^^ bitStep b := by
  simp only [bitStep_eq, fb_xor, Nat.xor_div_two]
  simp only [Nat.xor_assoc]
  congr 1
  rw [← Nat.xor_assoc, Nat.xor_comm (b / 2), Nat.xor_assoc]

theorem bitStepN_lin (n : Nat) : ∀ a b, bitStepN n (a ^^^ b) = bitStepN n a ^^^ bitStepN n b := by
  induction n with
  | zero => intro a b; rfl
  | succ n ih => intro a b; simp only [bitStepN, bitStep_xor, ih]

theorem stepBitwise_lin (r r' b b' : Nat) :
    stepBitwise (r ^^^ r') (b ^^^ b') = stepBitwise r b ^^^ stepBitwise r' b' := by
  simp only [stepBitwise_eq]
  rw [← bitStepN_lin]
  congr 1
  simp only [Nat.xor_assoc]
  congr 1
  rw [← Nat.xor_assoc, Nat.xor_comm r', Nat.xor_assoc]

/-- bytewise xor of two equally long byte strings (the damage model) -/
def xorL : List Nat → List Nat → List Nat
  | a :: as, b :: bs => (a ^^^ b) :: xorL as bs
  | _, _ => []

theorem run_lin (bs : List Nat) : ∀ (es : List Nat) (r r' : Nat), bs.length = es.length →
    (xorL bs es).foldl stepBitwise (r ^^^ r') = bs.foldl stepBitwise r ^^^ es.foldl stepBitwise r' := by
  induction bs with
  | nil => intro es r r' h; cases es <;> simp_all [xorL]
  | cons b bs ih =>
    intro es r r' h
    cases es with
    | nil => simp at h
    | cons e es =>
      simp only [xorL, List.foldl_cons]
      rw [stepBitwise_lin]
      exact ih es _ _ (by simpa using h)

/-- register after a damaged string = register after the original xor the register the error
    pattern alone produces from 0 -/
theorem crc_damage (bs es : List Nat) (h : bs.length = es.length) :
    crc16Modbus (xorL bs es) = crc16Modbus bs ^^^ es.foldl stepBitwise 0 := by
  unfold crc16Modbus
  have := run_lin bs es 0xFFFF 0 h
  simpa using this

end PyAirtouch.Lemmas.Crc
