import PyAirtouch.Model.Api4
set_option linter.unusedSimpArgs false
/-!
# Basic lemmas about the AirTouch 4 API model: dictionaries, the object-heap invariant, record updates
-/
namespace PyAirtouch.Lemmas.Api4
open PyAirtouch.Model PyAirtouch.Model.Api4 PyAirtouch.Model.At4
open PyAirtouch.Model.TimerCommon (AcTimerState AcTimerStatusData)

/-! ### association lists -/

theorem lookup_cons_nat {β} (k a : Nat) (b : β) (d : List (Nat × β)) :
    List.lookup k ((a, b) :: d) = if k = a then some b else List.lookup k d := by
  rw [List.lookup_cons]
  by_cases h : k = a
  · simp [h]
  · have : (k == a) = false := by simp [h]
    simp [this, h]

theorem lookup_map_replace {β} (d : List (Nat × β)) (k k' : Nat) (v : β) :
    (d.map (fun p => if p.1 = k then (k, v) else p)).lookup k' =
      if k' = k then (d.lookup k).map (fun _ => v) else d.lookup k' := by
  induction d with
  | nil => simp [List.lookup]
  | cons p d ih =>
    obtain ⟨a, b⟩ := p
    rw [List.map_cons]
    by_cases hak : a = k
    · subst hak
      simp only [↓reduceIte, lookup_cons_nat, ih]
      by_cases hk : k' = a <;> simp [hk]
    · simp only [hak, ↓reduceIte, lookup_cons_nat, ih]
      by_cases hk : k' = k
      · subst hk
        have : ¬ k' = a := fun h => hak h.symm
        simp [this]
      · simp [hk]

theorem any_key_iff_lookup {β} (d : List (Nat × β)) (k : Nat) :
    d.any (fun p => decide (p.1 = k)) = (d.lookup k).isSome := by
  induction d with
  | nil => simp [List.lookup]
  | cons p d ih =>
    obtain ⟨a, b⟩ := p
    rw [List.any_cons, lookup_cons_nat, ih]
    by_cases h : k = a
    · subst h; simp
    · have h2 : ¬ a = k := fun e => h e.symm
      simp [h, h2]

/-- a Python dict assignment `d[k] = v` -/
theorem lookup_dictInsert {β} (d : List (Nat × β)) (k k' : Nat) (v : β) :
    (dictInsert d k v).lookup k' = if k' = k then some v else d.lookup k' := by
  unfold dictInsert
  rw [any_key_iff_lookup]
  cases hl : d.lookup k with
  | none =>
    simp only [Option.isSome_none, Bool.false_eq_true, ↓reduceIte, List.lookup_append, lookup_cons_nat]
    by_cases hk : k' = k
    · subst hk; simp [hl]
    · simp [hk, List.lookup]
  | some w =>
    simp only [Option.isSome_some, ↓reduceIte]
    rw [lookup_map_replace]
    by_cases hk : k' = k
    · simp [hk, hl]
    · simp [hk]

/-! ### the heap invariant -/

/-- well-formedness of the object heap: the object stored under a number exists and carries that number
    (so `update_*` never raise their `ValueError`, and two numbers never share an object) -/
structure Inv (s : State) : Prop where
  acKey : ∀ k i, s.acDict.lookup k = some i →
    ∃ a, s.acObjs[i]? = some a ∧ a.status.ac_number = k ∧ a.timer.ac_number = k
  zoneKey : ∀ k i, s.zoneDict.lookup k = some i →
    ∃ z, s.zoneObjs[i]? = some z ∧ z.status.group_number = k

theorem Inv.findAc_number {s : State} (h : Inv s) {k : Nat} {a : AcObj} (hf : s.findAc k = some a) :
    a.status.ac_number = k ∧ a.timer.ac_number = k := by
  unfold State.findAc at hf
  cases hl : s.acDict.lookup k with
  | none => simp [hl] at hf
  | some i =>
    obtain ⟨b, hb, h1, h2⟩ := h.acKey _ _ hl
    simp [hl, hb] at hf
    subst hf; exact ⟨h1, h2⟩

theorem Inv.zoneOf_number {s : State} (h : Inv s) {k : Nat} {z : ZoneObj} (hf : s.zoneOf k = some z) :
    z.status.group_number = k := by
  unfold State.zoneOf at hf
  cases hl : s.zoneDict.lookup k with
  | none => simp [hl] at hf
  | some i =>
    obtain ⟨b, hb, h1⟩ := h.zoneKey _ _ hl
    simp [hl, hb] at hf
    subst hf; exact h1

/-! ### `setAc` / `setZone` -/

theorem setAc_frame (s : State) (k : Nat) (a' : AcObj) :
    s.setAc k a' = { s with acObjs := (s.setAc k a').acObjs } := by
  unfold State.setAc; split <;> rfl

theorem setZone_frame (s : State) (k : Nat) (z' : ZoneObj) :
    s.setZone k z' = { s with zoneObjs := (s.setZone k z').zoneObjs } := by
  unfold State.setZone; split <;> rfl

theorem findAc_setAc {s : State} (hinv : Inv s) {k : Nat} (a' : AcObj) (k' : Nat) :
    (s.setAc k a').findAc k' = if k' = k then (s.findAc k).map (fun _ => a') else s.findAc k' := by
  unfold State.setAc
  cases hl : s.acDict.lookup k with
  | none =>
    simp only
    split
    · next h => subst h; simp [State.findAc, hl]
    · rfl
  | some i =>
    obtain ⟨a, ha, han, _⟩ := hinv.acKey _ _ hl
    obtain ⟨hlt, _⟩ := List.getElem?_eq_some_iff.mp ha
    by_cases hk : k' = k
    · subst hk
      simp [State.findAc, hl, ha, List.getElem?_set, hlt]
    · simp only [hk, ↓reduceIte, State.findAc]
      cases hl' : s.acDict.lookup k' with
      | none => rfl
      | some j =>
        obtain ⟨b, hb, hbn, _⟩ := hinv.acKey _ _ hl'
        have hij : i ≠ j := by
          intro e; subst e
          rw [ha] at hb; cases hb
          exact hk (hbn.symm.trans han)
        simp [List.getElem?_set, hij]

theorem zoneOf_setZone {s : State} (hinv : Inv s) {k : Nat} (z' : ZoneObj) (k' : Nat) :
    (s.setZone k z').zoneOf k' = if k' = k then (s.zoneOf k).map (fun _ => z') else s.zoneOf k' := by
  unfold State.setZone
  cases hl : s.zoneDict.lookup k with
  | none =>
    simp only
    split
    · next h => subst h; simp [State.zoneOf, hl]
    · rfl
  | some i =>
    obtain ⟨a, ha, han⟩ := hinv.zoneKey _ _ hl
    obtain ⟨hlt, _⟩ := List.getElem?_eq_some_iff.mp ha
    by_cases hk : k' = k
    · subst hk
      simp [State.zoneOf, hl, ha, List.getElem?_set, hlt]
    · simp only [hk, ↓reduceIte, State.zoneOf]
      cases hl' : s.zoneDict.lookup k' with
      | none => rfl
      | some j =>
        obtain ⟨b, hb, hbn⟩ := hinv.zoneKey _ _ hl'
        have hij : i ≠ j := by
          intro e; subst e
          rw [ha] at hb; cases hb
          exact hk (hbn.symm.trans han)
        simp [List.getElem?_set, hij]

theorem Inv_setAc {s : State} (hinv : Inv s) {k : Nat} {a' : AcObj}
    (h1 : a'.status.ac_number = k) (h2 : a'.timer.ac_number = k) : Inv (s.setAc k a') := by
  unfold State.setAc
  cases hl : s.acDict.lookup k with
  | none => exact hinv
  | some i =>
    obtain ⟨a, ha, han, _⟩ := hinv.acKey _ _ hl
    obtain ⟨hlt, _⟩ := List.getElem?_eq_some_iff.mp ha
    constructor
    · intro k' j hj
      obtain ⟨b, hb, hbn, hbt⟩ := hinv.acKey _ _ hj
      by_cases hij : i = j
      · subst hij
        rw [ha] at hb; cases hb
        have : k' = k := hbn.symm.trans han
        subst this
        exact ⟨a', by simp [List.getElem?_set, hlt], h1, h2⟩
      · exact ⟨b, by simp [List.getElem?_set, hij, hb], hbn, hbt⟩
    · exact hinv.zoneKey

theorem Inv_setZone {s : State} (hinv : Inv s) {k : Nat} {z' : ZoneObj}
    (h1 : z'.status.group_number = k) : Inv (s.setZone k z') := by
  unfold State.setZone
  cases hl : s.zoneDict.lookup k with
  | none => exact hinv
  | some i =>
    obtain ⟨a, ha, han⟩ := hinv.zoneKey _ _ hl
    obtain ⟨hlt, _⟩ := List.getElem?_eq_some_iff.mp ha
    constructor
    · exact hinv.acKey
    · intro k' j hj
      obtain ⟨b, hb, hbn⟩ := hinv.zoneKey _ _ hj
      by_cases hij : i = j
      · subst hij
        rw [ha] at hb; cases hb
        have : k' = k := hbn.symm.trans han
        subst this
        exact ⟨z', by simp [List.getElem?_set, hlt], h1⟩
      · exact ⟨b, by simp [List.getElem?_set, hij, hb], hbn⟩

/-! ### `foldEv` -/

theorem foldEv_inv {α} (P : State → Prop) (f : State → α → State × List Ev)
    (hf : ∀ s x, P s → P (f s x).1) (s : State) (l : List α) (h : P s) : P (foldEv f s l).1 := by
  induction l generalizing s with
  | nil => exact h
  | cons x xs ih => exact ih _ (hf s x h)

theorem foldEv_append {α} (f : State → α → State × List Ev) (s : State) (l₁ l₂ : List α) :
    foldEv f s (l₁ ++ l₂) =
      ((foldEv f (foldEv f s l₁).1 l₂).1, (foldEv f s l₁).2 ++ (foldEv f (foldEv f s l₁).1 l₂).2) := by
  induction l₁ generalizing s with
  | nil => simp [foldEv]
  | cons x xs ih => simp [foldEv, ih, List.append_assoc]

end PyAirtouch.Lemmas.Api4
