import PyAirtouch.Model.At5.Registry
import PyAirtouch.Spec.At5Read
import PyAirtouch.Lemmas.Part3Text
/-!
# C05, AirTouch 5: the decoder's reading equals the vendor reading

For every assigned kind: `Agree<Kind>` (field by field, the correspondence of `harness/specmap.py` with its
named relaxations as explicit disjuncts), `decode_agrees_<kind>`, `undefined_rejected_<kind>` (where the public
type has enum fields), and for the two stride-aware 0xC0 kinds the stride clause at full strength
(`stride_offsets_*`, `stride_below_known_size_rejected_*`, `spec_stride_offsets_*`).

The model side is `PyAirtouch.Model.At5.*` (the Python decoders), the vendor side `PyAirtouch.Spec.At5.*`.
-/
namespace PyAirtouch.Lemmas.SpecAgree5
open PyAirtouch.Model

/-! ## shared facts -/

/-- record by record: same number of records, same order, each pair related by `R` -/
inductive RecordWise {α β : Type} (R : α → β → Prop) : List α → List β → Prop
  | nil : RecordWise R [] []
  | cons {a : α} {b : β} {as : List α} {bs : List β} : R a b → RecordWise R as bs → RecordWise R (a :: as) (b :: bs)

theorem RecordWise.length_eq {α β : Type} {R : α → β → Prop} {as : List α} {bs : List β}
    (h : RecordWise R as bs) : as.length = bs.length := by
  induction h with
  | nil => rfl
  | cons _ _ ih => simp [ih]

theorem RecordWise.get {α β : Type} {R : α → β → Prop} {as : List α} {bs : List β}
    (h : RecordWise R as bs) : ∀ (i : Nat) (a : α) (b : β), as[i]? = some a → bs[i]? = some b → R a b := by
  induction h with
  | nil => intro i a b ha; simp at ha
  | cons hab _ ih =>
    intro i a b ha hb
    cases i with
    | zero => simp at ha hb; subst ha; subst hb; exact hab
    | succ i => simp at ha hb; exact ih i a b ha hb

theorem RecordWise.exists_of_mem_right {α β : Type} {R : α → β → Prop} {as : List α} {bs : List β}
    (h : RecordWise R as bs) : ∀ b ∈ bs, ∃ a ∈ as, R a b := by
  induction h with
  | nil => intro b hb; simp at hb
  | cons hab _ ih =>
    intro b hb
    rcases List.mem_cons.mp hb with rfl | hb
    · exact ⟨_, by simp, hab⟩
    · obtain ⟨a, ha, hr⟩ := ih b hb
      exact ⟨a, by simp [ha], hr⟩

/-- The eight bytes of a 0xC0 sub-header: sub type, "Keep 0", normal length, each repeat length, repeat count
(each high byte first). -/
def subHeader (sub nr rl rc : Nat) : Bytes :=
  [sub, 0, nr / 256, nr % 256, rl / 256, rl % 256, rc / 256, rc % 256]

theorem be16_split (n : Nat) : PyAirtouch.Spec.At5.be16 (n / 256) (n % 256) = n := by
  unfold PyAirtouch.Spec.At5.be16; omega

/-- vendor bit `k+1` (Bit1 = least significant) is the implementation's bit offset `k` -/
theorem bit_eq (v k : Nat) : PyAirtouch.Spec.At5.bit v (k+1) = bitToBool v k := by
  simp only [PyAirtouch.Spec.At5.bit, PyAirtouch.Spec.At5.bits, Nat.shiftRight_eq_div_pow, bitToBool]
  have : k + 1 + 1 - (k + 1) = 1 := by omega
  simp only [this, Nat.add_sub_cancel, Nat.pow_one]
  by_cases h : v / 2 ^ k % 2 = 1 <;> simp [h]

/-- the 11-bit temperature field: Byte5 Bit3-1 ++ Byte6 is the low 11 bits of the big-endian pair -/
theorem temp_raw_eq (b5 b6 : Nat) (h6 : b6 < 256) :
    PyAirtouch.Spec.At5.be16 (PyAirtouch.Spec.At5.bits b5 3 1) b6 = PyAirtouch.Model.be16 b5 b6 % 2048 := by
  simp only [PyAirtouch.Spec.At5.be16, PyAirtouch.Spec.At5.bits, Nat.shiftRight_eq_div_pow, PyAirtouch.Model.be16]
  omega

/-- raw record `i` of a repeat area that starts after `nr` bytes and has stride `rl` -/
def rawRec (b : Bytes) (nr rl i : Nat) : Bytes := (b.drop (nr + i * rl)).take rl

theorem allBytes_drop {bs : Bytes} (h : AllBytes bs) (n : Nat) : AllBytes (bs.drop n) :=
  fun x hx => h x (List.mem_of_mem_drop hx)

theorem allBytes_take {bs : Bytes} (h : AllBytes bs) (n : Nat) : AllBytes (bs.take n) :=
  fun x hx => h x (List.mem_of_mem_take hx)

/-- the vendor's `splitRecords` reads block `i` at offset `i * each` -/
theorem splitRecords_getElem? (each : Nat) : ∀ (n : Nat) (bs : Bytes) (i : Nat), i < n →
    (PyAirtouch.Spec.At5.splitRecords each n bs)[i]? = some ((bs.drop (i * each)).take each)
  | 0, _, _, h => by omega
  | n + 1, bs, 0, _ => by simp [PyAirtouch.Spec.At5.splitRecords]
  | n + 1, bs, i + 1, h => by
    simp only [PyAirtouch.Spec.At5.splitRecords, List.getElem?_cons_succ]
    rw [splitRecords_getElem? each n (bs.drop each) i (by omega), List.drop_drop]
    congr 3
    rw [Nat.add_mul]; omega

theorem splitRecords_length (each : Nat) : ∀ (n : Nat) (bs : Bytes),
    (PyAirtouch.Spec.At5.splitRecords each n bs).length = n
  | 0, _ => rfl
  | n + 1, bs => by simp [PyAirtouch.Spec.At5.splitRecords, splitRecords_length each n]

/-- `readAll` is a pointwise map -/
theorem readAll_some {α : Type} (f : List Nat → Option α) : ∀ (rs : List (List Nat)) (xs : List α),
    PyAirtouch.Spec.At5.readAll f rs = some xs →
    xs.length = rs.length ∧ ∀ i, i < rs.length → ∃ r x, rs[i]? = some r ∧ xs[i]? = some x ∧ f r = some x
  | [], xs, h => by
    simp only [PyAirtouch.Spec.At5.readAll, Option.some.injEq] at h
    subst h; exact ⟨rfl, fun i hi => by simp at hi⟩
  | r :: rs, xs, h => by
    simp only [PyAirtouch.Spec.At5.readAll] at h
    split at h
    · rename_i x xs' hx hxs
      simp only [Option.some.injEq] at h
      subst h
      obtain ⟨hl, hp⟩ := readAll_some f rs xs' hxs
      refine ⟨by simp [hl], ?_⟩
      intro i hi
      cases i with
      | zero => exact ⟨r, x, by simp, by simp, hx⟩
      | succ i =>
        obtain ⟨r', x', h1, h2, h3⟩ := hp i (by simpa using hi)
        exact ⟨r', x', by simpa using h1, by simpa using h2, h3⟩
    · cases h

/-! ## Zone status (0xC0 / 0x21) -/
section C021
open PyAirtouch.Model.At5.C021 PyAirtouch.Gen.At5.XC021ZoneStatus
open PyAirtouch.Spec.At5 (ZoneStatus ZonePower ControlMethod readZoneStatus readZoneStatusRecord readAll
  splitRecords readSubMessage)

/-- `AT5_ZONE_POWER` of `specmap.py` -/
def zonePowerWord : ZonePowerState → ZonePower
  | .OFF => .off | .ON => .on | .TURBO => .turbo

/-- `AT5_ZONE_METHOD` of `specmap.py` -/
def zoneMethodWord : ZoneControlMethod → ControlMethod
  | .DAMPER => .percentage | .TEMPERATURE => .temperature

/-- `BATTERY_LOW` of `specmap.py` -/
def batteryLowWord : SensorBatteryStatus → Bool
  | .NORMAL => false | .LOW => true

/-- `specmap.at5_C021`: all nine fields of the vendor's zone record. -/
def AgreeC021 (z : ZoneStatusData) (s : ZoneStatus) : Prop :=
  s.zone = z.zone_number ∧
  s.power = zonePowerWord z.power_state ∧
  s.controlMethod = zoneMethodWord z.control_method ∧
  s.openPercentage = z.damper_percentage ∧
  s.setpoint = z.set_point ∧
  s.hasSensor = z.has_sensor ∧
  (s.temperature = z.temperature ∨
    -- relaxation AT5_C021_TEMPERATURE_ABSENT_WITHOUT_SENSOR: `None` accepted only when the vendor reading has
    -- has_sensor = false (Byte4 Bit8 = 0)
    (z.temperature = none ∧ s.hasSensor = false)) ∧
  s.spill = z.spill_active ∧
  s.lowBattery = batteryLowWord z.battery_status

theorem zonePower_tbl (c : Nat) (hc : c < 4) (ps : ZonePowerState) (h : ZonePowerState.ofNat? c = some ps) :
    ZonePower.ofCode c = zonePowerWord ps := by
  match c, hc with
  | 0, _ | 1, _ | 3, _ => cases h; rfl
  | 2, _ => cases h

theorem temp_agrees_C021 (b4 b5 b6 : Nat) (h6 : b6 < 256) :
    PyAirtouch.Spec.At5.temperatureTenths (PyAirtouch.Spec.At5.be16 (PyAirtouch.Spec.At5.bits b5 3 1) b6)
        = decTemp (bitToBool b4 7) (PyAirtouch.Model.be16 b5 b6) ∨
      (decTemp (bitToBool b4 7) (PyAirtouch.Model.be16 b5 b6) = none ∧ PyAirtouch.Spec.At5.bit b4 8 = false) := by
  rw [temp_raw_eq b5 b6 h6, bit_eq]
  simp only [decTemp]
  generalize PyAirtouch.Model.be16 b5 b6 % 2048 = v
  cases hs : bitToBool b4 7
  · right; simp
  · left
    simp only [PyAirtouch.Spec.At5.temperatureTenths, At5.Utils.decodeTemperature, MAXIMUM_TEMPERATURE_tenths]
    by_cases hv : v ≤ 2000
    · have : ¬ ((v : Int) - 500 > 1500) := by omega
      simp [hv, this]
    · have : ((v : Int) - 500 > 1500) := by omega
      simp [hv, this]

/-- one record: what the decoder makes of the first 8 bytes is the vendor reading of the announced block -/
theorem rec_agrees_C021 (b1 b2 b3 b4 b5 b6 b7 b8 : Nat) (tl : Bytes) (h6 : b6 < 256) (j : Nat)
    (z : ZoneStatusData) (h : decRec (b1 :: b2 :: b3 :: b4 :: b5 :: b6 :: b7 :: b8 :: tl) = .ok z) :
    ∃ s, readZoneStatusRecord ((b1 :: b2 :: b3 :: b4 :: b5 :: b6 :: b7 :: b8 :: tl).take (8 + j)) = some s ∧
      AgreeC021 z s := by
  have e : 8 + j = j + 1 + 1 + 1 + 1 + 1 + 1 + 1 + 1 := by omega
  rw [e]
  simp only [List.take_succ_cons, readZoneStatusRecord]
  refine ⟨_, rfl, ?_⟩
  simp only [decRec] at h
  split at h
  · rename_i ps cm bat hps hcm hbat
    cases h
    have hcm' : zoneMethodWord cm = if PyAirtouch.Spec.At5.bit b2 8 then .temperature else .percentage := by
      simp only [PyAirtouch.Spec.At5.bit, PyAirtouch.Spec.At5.bits, Nat.shiftRight_eq_div_pow]
      have : b2 / 128 % 2 < 2 := by omega
      match hc : b2 / 128 % 2, this with
      | 0, _ => rw [hc] at hcm; cases hcm; simp [zoneMethodWord]
      | 1, _ => rw [hc] at hcm; cases hcm; simp [zoneMethodWord]
    have hbat' : batteryLowWord bat = PyAirtouch.Spec.At5.bit b7 1 := by
      simp only [PyAirtouch.Spec.At5.bit, PyAirtouch.Spec.At5.bits, Nat.shiftRight_eq_div_pow]
      have : b7 % 2 < 2 := by omega
      match hc : b7 % 2, this with
      | 0, _ => rw [hc] at hbat; cases hbat; simp [batteryLowWord, hc]
      | 1, _ => rw [hc] at hbat; cases hbat; simp [batteryLowWord, hc]
    have hps' : ZonePower.ofCode (PyAirtouch.Spec.At5.bits b1 8 7) = zonePowerWord ps := by
      apply zonePower_tbl
      · simp only [PyAirtouch.Spec.At5.bits, Nat.shiftRight_eq_div_pow]; omega
      · simpa [PyAirtouch.Spec.At5.bits, Nat.shiftRight_eq_div_pow] using hps
    refine ⟨?_, hps', hcm'.symm, ?_, ?_, ?_, ?_, ?_, hbat'.symm⟩
    · simp [PyAirtouch.Spec.At5.bits]
    · simp [PyAirtouch.Spec.At5.bits]
    · simp only [decSetPoint, INVALID_SET_POINT, PyAirtouch.Spec.At5.setpointTenths, At5.Utils.decodeSetPoint]
      by_cases h3 : b3 = 255 <;> simp [h3]
    · exact bit_eq b4 7
    · exact temp_agrees_C021 b4 b5 b6 h6
    · exact bit_eq b7 1
  · cases h

theorem decRecs_cons_C021 (stride n : Nat) (bs : Bytes) (zs : List ZoneStatusData) (rest : Bytes)
    (h : decRecs stride (n + 1) bs = .ok (zs, rest)) :
    ∃ z zs', zs = z :: zs' ∧ decRec bs = .ok z ∧ decRecs stride n (bs.drop stride) = .ok (zs', rest) := by
  simp only [decRecs, bind, Except.bind] at h
  split at h
  · cases h
  · rename_i z hz
    split at h
    · cases h
    · rename_i p hp
      obtain ⟨zs', r⟩ := p
      simp only [pure, Except.pure, Except.ok.injEq, Prod.mk.injEq] at h
      exact ⟨z, zs', h.1.symm, hz, by rw [hp, h.2]⟩

theorem decRecs_offsets_C021 (stride : Nat) : ∀ (n : Nat) (bs : Bytes) (zs : List ZoneStatusData) (rest : Bytes),
    decRecs stride n bs = .ok (zs, rest) →
    zs.length = n ∧ rest = bs.drop (stride * n) ∧
      ∀ i, i < n → ∃ z, zs[i]? = some z ∧ decRec (bs.drop (i * stride)) = .ok z
  | 0, bs, zs, rest, h => by
    simp only [decRecs, Except.ok.injEq, Prod.mk.injEq] at h
    obtain ⟨rfl, rfl⟩ := h
    exact ⟨rfl, by simp, fun i hi => by omega⟩
  | n + 1, bs, zs, rest, h => by
    obtain ⟨z, zs', rfl, hz, hr⟩ := decRecs_cons_C021 stride n bs zs rest h
    obtain ⟨hl, hrest, hp⟩ := decRecs_offsets_C021 stride n (bs.drop stride) zs' rest hr
    refine ⟨by simp [hl], ?_, ?_⟩
    · rw [hrest, List.drop_drop]; congr 1; rw [Nat.mul_succ]; omega
    · intro i hi
      cases i with
      | zero => exact ⟨z, by simp, by simpa using hz⟩
      | succ i =>
        obtain ⟨z', h1, h2⟩ := hp i (by omega)
        refine ⟨z', by simpa using h1, ?_⟩
        rw [List.drop_drop] at h2
        rw [← h2]; congr 2; rw [Nat.add_mul]; omega

theorem decRec_shape_C021 (bs : Bytes) (z : ZoneStatusData) (h : decRec bs = .ok z) :
    ∃ b1 b2 b3 b4 b5 b6 b7 b8 tl, bs = b1 :: b2 :: b3 :: b4 :: b5 :: b6 :: b7 :: b8 :: tl := by
  unfold decRec at h
  split at h
  · exact ⟨_, _, _, _, _, _, _, _, _, rfl⟩
  · cases h

theorem recs_agree_C021 (stride : Nat) (hs : 8 ≤ stride) : ∀ (n : Nat) (bs : Bytes) (zs : List ZoneStatusData)
    (rest : Bytes), AllBytes bs → decRecs stride n bs = .ok (zs, rest) →
    ∃ ss, readAll readZoneStatusRecord (splitRecords stride n bs) = some ss ∧ RecordWise AgreeC021 zs ss
  | 0, bs, zs, rest, _, h => by
    simp only [decRecs, Except.ok.injEq, Prod.mk.injEq] at h
    obtain ⟨rfl, rfl⟩ := h
    exact ⟨[], rfl, .nil⟩
  | n + 1, bs, zs, rest, hb, h => by
    obtain ⟨z, zs', rfl, hz, hr⟩ := decRecs_cons_C021 stride n bs zs rest h
    obtain ⟨ss, hss, hag⟩ := recs_agree_C021 stride hs n (bs.drop stride) zs' rest (allBytes_drop hb _) hr
    obtain ⟨b1, b2, b3, b4, b5, b6, b7, b8, tl, rfl⟩ := decRec_shape_C021 bs z hz
    have h6 : b6 < 256 := hb b6 (by simp)
    obtain ⟨s, hs1, hs2⟩ := rec_agrees_C021 b1 b2 b3 b4 b5 b6 b7 b8 tl h6 (stride - 8) z hz
    have e : 8 + (stride - 8) = stride := by omega
    rw [e] at hs1
    refine ⟨s :: ss, ?_, .cons hs2 hag⟩
    simp only [splitRecords, readAll, hs1, hss]

theorem readSubMessage_subHeader (sub nr rl rc : Nat) (b : Bytes) :
    readSubMessage (subHeader sub nr rl rc ++ b) =
      if b.length = nr + rl * rc then
        some { hdr := { subType := sub, reserved := 0, normalLen := nr, eachLen := rl, count := rc },
               normal := b.take nr, records := splitRecords rl rc (b.drop nr) }
      else none := by
  simp [subHeader, readSubMessage, be16_split]

theorem decode_status_C021 (b : Bytes) (nr rl rc : Nat) (zs : List ZoneStatusData) (rest : Bytes)
    (h : decode b nr rl rc = .ok (.status zs, rest)) :
    8 ≤ rl ∧ decRecs rl rc (b.drop nr) = .ok (zs, rest) := by
  unfold decode at h
  split at h
  · cases h
  · split at h
    · cases h
    · rename_i h8
      have : recSize = 8 := rfl
      refine ⟨by omega, ?_⟩
      simp only [bind, Except.bind] at h
      split at h
      · cases h
      · rename_i p hp
        obtain ⟨zs', r⟩ := p
        simp only [pure, Except.pure, Except.ok.injEq, Prod.mk.injEq, Msg.status.injEq] at h
        rw [hp, h.1, h.2]

theorem readZoneStatus_subHeader (nr rl rc : Nat) (b : Bytes) :
    readZoneStatus (subHeader 0x21 nr rl rc ++ b) =
      if b.length = nr + rl * rc ∧ 8 ≤ rl then readAll readZoneStatusRecord (splitRecords rl rc (b.drop nr))
      else none := by
  unfold readZoneStatus
  rw [readSubMessage_subHeader]
  by_cases h1 : b.length = nr + rl * rc <;> by_cases h2 : 8 ≤ rl <;>
    simp [h1, h2, PyAirtouch.Spec.At5.subTypeZoneStatus]

/-- Whenever both sides read the payload, they read the same records. -/
theorem decode_agrees_C021_of_spec (b : Bytes) (nr rl rc : Nat) (hb : AllBytes b)
    (zs : List ZoneStatusData) (rest : Bytes) (ss : List ZoneStatus)
    (h : decode b nr rl rc = .ok (.status zs, rest))
    (hs : readZoneStatus (subHeader 0x21 nr rl rc ++ b) = some ss) : RecordWise AgreeC021 zs ss := by
  obtain ⟨h8, hr⟩ := decode_status_C021 b nr rl rc zs rest h
  obtain ⟨ss', hss, hag⟩ := recs_agree_C021 rl h8 rc (b.drop nr) zs rest (allBytes_drop hb _) hr
  rw [readZoneStatus_subHeader] at hs
  split at hs
  · rw [hss] at hs; cases hs; exact hag
  · cases hs

/-- **Zone status.**  For every sub data `b` of bytes and every header `(nr, rl, rc)`: if the decoder returns a status
message and consumes everything, the vendor reader applied to the 8-byte sub-header followed by `b` returns records
that agree with it one by one.  ADDED HYPOTHESIS `hlen` (the announced data is present: `nr + rl * rc ≤ |b|`):
without it the statement is false, see `decode_agrees_C021_needs_length` — the decoder reads the known 8 bytes of a
last record whose announced stride runs past the end, or zero records after announced normal data that is not
there, where the document's "Data length = 8 + normal + repeat length * repeat count" makes the vendor reader refuse. -/
theorem decode_agrees_C021 (b : Bytes) (nr rl rc : Nat) (hb : AllBytes b)
    (hlen : nr + rl * rc ≤ b.length) (zs : List ZoneStatusData)
    (h : decode b nr rl rc = .ok (.status zs, [])) :
    ∃ ss, readZoneStatus (subHeader 0x21 nr rl rc ++ b) = some ss ∧ RecordWise AgreeC021 zs ss := by
  obtain ⟨h8, hr⟩ := decode_status_C021 b nr rl rc zs [] h
  obtain ⟨ss, hss, hag⟩ := recs_agree_C021 rl h8 rc (b.drop nr) zs [] (allBytes_drop hb _) hr
  obtain ⟨_, hrest, _⟩ := decRecs_offsets_C021 rl rc (b.drop nr) zs [] hr
  have hl : b.length = nr + rl * rc := by
    have := congrArg List.length hrest
    simp only [List.length_nil, List.length_drop] at this
    omega
  refine ⟨ss, ?_, hag⟩
  rw [readZoneStatus_subHeader, if_pos ⟨hl, h8⟩, hss]

theorem decRecs_complete_C021 (stride : Nat) : ∀ (n : Nat) (bs : Bytes),
    (∀ i, i < n → ∃ z, decRec (bs.drop (i * stride)) = .ok z) →
    ∃ zs, decRecs stride n bs = .ok (zs, bs.drop (stride * n))
  | 0, bs, _ => ⟨[], by simp [decRecs]⟩
  | n + 1, bs, h => by
    obtain ⟨z, hz⟩ := h 0 (by omega)
    simp only [Nat.zero_mul, List.drop_zero] at hz
    obtain ⟨zs, hzs⟩ := decRecs_complete_C021 stride n (bs.drop stride) (fun i hi => by
      obtain ⟨z', hz'⟩ := h (i + 1) (by omega)
      refine ⟨z', ?_⟩
      rw [List.drop_drop, ← hz']; congr 2; rw [Nat.add_mul]; omega)
    refine ⟨z :: zs, ?_⟩
    simp only [decRecs, bind, Except.bind, hz, hzs, pure, Except.pure, List.drop_drop]
    congr 3; rw [Nat.mul_succ]; omega

/-- **Stride clause, decoder side.**  When the zone status decoder returns a message, the announced stride is at
least the known record size 8, there is one record per announced count, record `i` is what `decRec` reads at
offset `nonRepeat + i * stride` of the sub data, and what is left is everything after
`nonRepeat + stride * count`. -/
theorem stride_offsets_C021 (b : Bytes) (nr rl rc : Nat) (zs : List ZoneStatusData) (rest : Bytes)
    (h : decode b nr rl rc = .ok (.status zs, rest)) :
    8 ≤ rl ∧ zs.length = rc ∧ rest = b.drop (nr + rl * rc) ∧
      ∀ i, i < rc → ∃ z, zs[i]? = some z ∧ decRec (b.drop (nr + i * rl)) = .ok z := by
  obtain ⟨h8, hr⟩ := decode_status_C021 b nr rl rc zs rest h
  obtain ⟨hl, hrest, hp⟩ := decRecs_offsets_C021 rl rc (b.drop nr) zs rest hr
  refine ⟨h8, hl, by rw [hrest, List.drop_drop], ?_⟩
  intro i hi
  obtain ⟨z, h1, h2⟩ := hp i hi
  exact ⟨z, h1, by rw [List.drop_drop] at h2; exact h2⟩

/-- **Stride clause, decoder side, converse**: for EVERY announced stride ≥ 8 (and a non-request header), if each
of the `count` offsets `nonRepeat + i * stride` holds a decodable record, the decoder returns a message. -/
theorem stride_accepted_C021 (b : Bytes) (nr rl rc : Nat) (h8 : 8 ≤ rl)
    (hrec : ∀ i, i < rc → ∃ z, decRec (b.drop (nr + i * rl)) = .ok z) :
    ∃ zs, decode b nr rl rc = .ok (.status zs, b.drop (nr + rl * rc)) := by
  obtain ⟨zs, hzs⟩ := decRecs_complete_C021 rl rc (b.drop nr) (fun i hi => by
    obtain ⟨z, hz⟩ := hrec i hi
    exact ⟨z, by rw [List.drop_drop]; exact hz⟩)
  refine ⟨zs, ?_⟩
  have h1 : ¬ (rl = 0 ∧ rc = 0) := by omega
  have h2 : ¬ rl < recSize := by have : recSize = 8 := rfl; omega
  simp only [decode, h1, h2, if_false, bind, Except.bind, hzs, pure, Except.pure, List.drop_drop]

/-- **Stride clause: a stride below the known record size is rejected** (unless the header is the request form
`repeat_length = 0 ∧ repeat_count = 0`). -/
theorem stride_below_known_size_rejected_C021 (b : Bytes) (nr rl rc : Nat) (h8 : rl < 8)
    (hreq : ¬ (rl = 0 ∧ rc = 0)) : decode b nr rl rc = .error .decodeError := by
  have h2 : rl < recSize := by have : recSize = 8 := rfl; omega
  simp only [decode, hreq, h2, if_false, if_true]

/-- the vendor reader rejects a stride below 8 as well -/
theorem spec_stride_below_known_size_rejected_C021 (b : Bytes) (nr rl rc : Nat) (h8 : rl < 8) :
    readZoneStatus (subHeader 0x21 nr rl rc ++ b) = none := by
  rw [readZoneStatus_subHeader, if_neg (by omega)]

/-- **Stride clause, vendor side**: record `i` of the vendor reading is the documented 8-byte prefix of the block
of `stride` bytes at offset `normal + i * stride`. -/
theorem spec_stride_offsets_C021 (b : Bytes) (nr rl rc : Nat) (ss : List ZoneStatus)
    (h : readZoneStatus (subHeader 0x21 nr rl rc ++ b) = some ss) :
    8 ≤ rl ∧ b.length = nr + rl * rc ∧ ss.length = rc ∧
      ∀ i, i < rc → ∃ s, ss[i]? = some s ∧ readZoneStatusRecord (rawRec b nr rl i) = some s := by
  rw [readZoneStatus_subHeader] at h
  split at h
  · rename_i hc
    obtain ⟨hl, hp⟩ := readAll_some _ _ _ h
    rw [splitRecords_length] at hl hp
    refine ⟨hc.2, hc.1, hl, ?_⟩
    intro i hi
    obtain ⟨r, x, h1, h2, h3⟩ := hp i hi
    rw [splitRecords_getElem? rl rc _ i hi, List.drop_drop] at h1
    cases h1
    exact ⟨x, h2, h3⟩
  · cases h

/-- An undefined zone power code (Byte1 Bit8-7 = 10, vendor reading `other n`) in any record makes the decoder raise. -/
theorem undefined_rejected_C021 (b : Bytes) (nr rl rc : Nat) (hb : AllBytes b) (ss : List ZoneStatus)
    (hs : readZoneStatus (subHeader 0x21 nr rl rc ++ b) = some ss)
    (hu : ∃ s ∈ ss, ∃ n, s.power = .other n) : ∃ e, decode b nr rl rc = .error e := by
  match hd : decode b nr rl rc with
  | .error e => exact ⟨e, rfl⟩
  | .ok (.request, rest) =>
    exfalso
    have h8 := (spec_stride_offsets_C021 b nr rl rc ss hs).1
    unfold decode at hd
    split at hd
    · omega
    · split at hd
      · cases hd
      · simp only [bind, Except.bind] at hd
        split at hd
        · cases hd
        · cases hd
  | .ok (.status zs, rest) =>
    exfalso
    have hag := decode_agrees_C021_of_spec b nr rl rc hb zs rest ss hd hs
    obtain ⟨s, hmem, n, hn⟩ := hu
    obtain ⟨z, _, hz⟩ := hag.exists_of_mem_right s hmem
    have := hz.2.1
    rw [hn] at this
    cases hp : z.power_state <;> rw [hp] at this <;> cases this

/-- what the decoder reads as the request form is not a status message for the vendor reader either; with no
normal data announced it is the vendor's request form -/
theorem request_form_C021 (b : Bytes) (nr rl rc : Nat) (h : decode b nr rl rc = .ok (.request, [])) :
    readZoneStatus (subHeader 0x21 nr rl rc ++ b) = none ∧
      (nr = 0 → PyAirtouch.Spec.At5.isZoneStatusRequest (subHeader 0x21 nr rl rc ++ b) = true) := by
  unfold decode at h
  split at h
  · rename_i hc
    simp only [Except.ok.injEq, Prod.mk.injEq, true_and] at h
    subst h
    refine ⟨spec_stride_below_known_size_rejected_C021 [] nr rl rc (by omega), ?_⟩
    intro hn
    obtain ⟨rfl, rfl⟩ := hc
    subst hn
    decide
  · split at h
    · cases h
    · simp only [bind, Except.bind] at h
      split at h
      · cases h
      · cases h

/-- The length hypothesis of `decode_agrees_C021` cannot be dropped: announced stride 10, one record, but only the
8 known bytes present.  The decoder returns the zone and consumes everything; the vendor reader refuses
("Data length = 8 + normal + repeat length * repeat count"). -/
theorem decode_agrees_C021_needs_length :
    decode [0x40, 0x80, 0x96, 0x80, 0x02, 0xE7, 0x00, 0x00] 0 10 1 =
        .ok (.status [{ zone_number := 0, power_state := .ON, spill_active := false, control_method := .TEMPERATURE,
                        has_sensor := true, battery_status := .NORMAL, temperature := some 243,
                        damper_percentage := 0, set_point := some 250 }], []) ∧
      readZoneStatus (subHeader 0x21 0 10 1 ++ [0x40, 0x80, 0x96, 0x80, 0x02, 0xE7, 0x00, 0x00]) = none :=
  ⟨by rfl, by decide⟩

end C021

/-! ## AC status (0xC0 / 0x23) -/
section C023
open PyAirtouch.Model.At5.C023 PyAirtouch.Gen.At5.XC023AcStatus
open PyAirtouch.Spec.At5 (AcStatus readAcStatus readAcStatusRecord readAll splitRecords readSubMessage)

/-- `AT5_AC_POWER` of `specmap.py` -/
def acPowerWord : AcPowerState → Spec.At5.AcPower
  | .OFF => .off | .ON => .on | .OFF_AWAY => .awayOff | .ON_AWAY => .awayOn | .SLEEP => .sleep

/-- `AC_MODE` of `specmap.py` -/
def acModeWord : AcMode → Spec.At5.AcMode
  | .AUTO => .auto | .HEAT => .heat | .DRY => .dry | .FAN => .fan | .COOL => .cool
  | .AUTO_HEAT => .autoHeat | .AUTO_COOL => .autoCool

/-- `AT5_AC_FAN` of `specmap.py`: the document has ONE meaning "Intelligent Auto" for the codes 1001-1110; all six
`INTELLIGENT_AUTO_*` members carry it (the vendor reading keeps the code, the word is the same). -/
def AcFanAgrees : AcFanSpeed → Spec.At5.AcFan → Prop
  | .AUTO, .auto | .QUIET, .quiet | .LOW, .low | .MEDIUM, .medium | .HIGH, .high | .POWERFUL, .powerful
  | .TURBO, .turbo => True
  | .INTELLIGENT_AUTO_QUIET, .intelligentAuto _ | .INTELLIGENT_AUTO_LOW, .intelligentAuto _
  | .INTELLIGENT_AUTO_MEDIUM, .intelligentAuto _ | .INTELLIGENT_AUTO_HIGH, .intelligentAuto _
  | .INTELLIGENT_AUTO_POWERFUL, .intelligentAuto _ | .INTELLIGENT_AUTO_TURBO, .intelligentAuto _ => True
  | _, _ => False

/-- `specmap.at5_C023`: all eleven fields of the vendor's AC record. -/
def AgreeC023 (a : AcStatusData) (s : AcStatus) : Prop :=
  s.ac = a.ac_number ∧
  s.power = acPowerWord a.power_state ∧
  s.mode = acModeWord a.mode ∧
  AcFanAgrees a.fan_speed s.fanSpeed ∧
  (s.setpoint = some a.set_point ∨
    -- relaxation AT5_C023_SETPOINT_HAS_NO_ABSENT_VALUE: `set_point` is a plain float; where the vendor reading is
    -- "not available" (Byte3 = 251..255) exactly the numbers (VALUE+100)/10 = 35.1..35.5 are accepted
    (s.setpoint = none ∧ 351 ≤ a.set_point ∧ a.set_point ≤ 355)) ∧
  s.turbo = a.turbo_active ∧
  s.bypass = a.bypass_active ∧
  s.spill = a.spill_active ∧
  s.timer = a.timer_set ∧
  (s.temperature = some a.temperature ∨
    -- relaxation AT5_C023_TEMPERATURE_HAS_NO_ABSENT_VALUE: `temperature` is a plain float; where the vendor reading
    -- is "not available" (VALUE = 2001..2047) exactly the numbers (VALUE-500)/10 = 150.1..154.7 are accepted
    (s.temperature = none ∧ 1501 ≤ a.temperature ∧ a.temperature ≤ 1547)) ∧
  -- `has_error()` is `error_code != 0`: 0 is the package's "no error", the vendor's `none`
  s.errorCode = (if a.error_code = 0 then none else some a.error_code)

theorem acPower_tbl (c : Nat) (hc : c < 16) (ps : AcPowerState) (h : AcPowerState.ofNat? c = some ps) :
    Spec.At5.AcPower.ofCode c = acPowerWord ps := by
  match c, hc with
  | 0, _ | 1, _ | 2, _ | 3, _ | 5, _ => cases h; rfl
  | 4, _ | 6, _ | 7, _ | 8, _ | 9, _ | 10, _ | 11, _ | 12, _ | 13, _ | 14, _ | 15, _ => cases h

theorem acMode_tbl (c : Nat) (hc : c < 16) (m : AcMode) (h : AcMode.ofNat? c = some m) :
    Spec.At5.AcMode.ofCode c = acModeWord m := by
  match c, hc with
  | 0, _ | 1, _ | 2, _ | 3, _ | 4, _ | 8, _ | 9, _ => cases h; rfl
  | 5, _ | 6, _ | 7, _ | 10, _ | 11, _ | 12, _ | 13, _ | 14, _ | 15, _ => cases h

theorem acFan_tbl (c : Nat) (hc : c < 16) (f : AcFanSpeed) (h : AcFanSpeed.ofNat? c = some f) :
    AcFanAgrees f (Spec.At5.AcFan.ofCode c) := by
  match c, hc with
  | 0, _ | 1, _ | 2, _ | 3, _ | 4, _ | 5, _ | 6, _ | 9, _ | 10, _ | 11, _ | 12, _ | 13, _ | 14, _ =>
    cases h; simp [AcFanAgrees, Spec.At5.AcFan.ofCode]
  | 7, _ | 8, _ | 15, _ => cases h

theorem rec_agrees_C023 (b1 b2 b3 b4 b5 b6 b7 b8 : Nat) (tl : Bytes) (h3 : b3 < 256) (h6 : b6 < 256) (j : Nat)
    (a : AcStatusData) (h : decRec (b1 :: b2 :: b3 :: b4 :: b5 :: b6 :: b7 :: b8 :: tl) = .ok a) :
    ∃ s, readAcStatusRecord ((b1 :: b2 :: b3 :: b4 :: b5 :: b6 :: b7 :: b8 :: tl).take (8 + j)) = some s ∧
      AgreeC023 a s := by
  have e : 8 + j = j + 1 + 1 + 1 + 1 + 1 + 1 + 1 + 1 := by omega
  rw [e]
  simp only [List.take_succ_cons, readAcStatusRecord]
  refine ⟨_, rfl, ?_⟩
  simp only [decRec] at h
  split at h
  · rename_i ps m f hps hm hf
    cases h
    have hps' : Spec.At5.AcPower.ofCode (Spec.At5.bits b1 8 5) = acPowerWord ps := by
      apply acPower_tbl
      · simp only [Spec.At5.bits, Nat.shiftRight_eq_div_pow]; omega
      · simpa [Spec.At5.bits, Nat.shiftRight_eq_div_pow] using hps
    have hm' : Spec.At5.AcMode.ofCode (Spec.At5.bits b2 8 5) = acModeWord m := by
      apply acMode_tbl
      · simp only [Spec.At5.bits, Nat.shiftRight_eq_div_pow]; omega
      · simpa [Spec.At5.bits, Nat.shiftRight_eq_div_pow] using hm
    have hf' : AcFanAgrees f (Spec.At5.AcFan.ofCode (Spec.At5.bits b2 4 1)) := by
      apply acFan_tbl
      · simp only [Spec.At5.bits, Nat.shiftRight_eq_div_pow]; omega
      · simpa [Spec.At5.bits, Nat.shiftRight_eq_div_pow] using hf
    refine ⟨?_, hps', hm', hf', ?_, bit_eq b4 3, bit_eq b4 2, bit_eq b4 1, bit_eq b4 0, ?_, ?_⟩
    · simp [Spec.At5.bits]
    · simp only [Spec.At5.setpointTenths, At5.Utils.decodeSetPoint]
      by_cases hb : b3 ≤ 250
      · left; simp [hb]
      · right; simp only [hb, if_false, true_and]; omega
    · rw [temp_raw_eq b5 b6 h6]
      simp only [Spec.At5.temperatureTenths, At5.Utils.decodeTemperature]
      have hv : PyAirtouch.Model.be16 b5 b6 % 2048 < 2048 := Nat.mod_lt _ (by omega)
      generalize PyAirtouch.Model.be16 b5 b6 % 2048 = v at hv
      by_cases hb : v ≤ 2000
      · left; simp [hb]
      · right; simp only [hb, if_false, true_and]; omega
    · rfl
  · cases h

/-- The two plain-float relaxations of `AgreeC023` are stated there by their ranges (35.1..35.5, 150.1..154.7); this
pins the accepted number to the raw record exactly as `specmap.py` does: the decoder's set-point is always
`(Byte3 + 100)/10` and its temperature always `(VALUE - 500)/10` with `VALUE` the 11-bit field.  (Together with
`stride_offsets_C023`, which says which bytes the record is.) -/
theorem decRec_formulas_C023 (b1 b2 b3 b4 b5 b6 b7 b8 : Nat) (tl : Bytes) (a : AcStatusData)
    (h : decRec (b1 :: b2 :: b3 :: b4 :: b5 :: b6 :: b7 :: b8 :: tl) = .ok a) :
    a.set_point = (b3 : Int) + 100 ∧ a.temperature = ((PyAirtouch.Model.be16 b5 b6 % 2048 : Nat) : Int) - 500 ∧
      a.error_code = b7 * 256 + b8 := by
  simp only [decRec] at h
  split at h
  · cases h; exact ⟨rfl, rfl, rfl⟩
  · cases h

theorem decRecs_cons_C023 (stride n : Nat) (bs : Bytes) (zs : List AcStatusData) (rest : Bytes)
    (h : decRecs stride (n + 1) bs = .ok (zs, rest)) :
    ∃ z zs', zs = z :: zs' ∧ decRec bs = .ok z ∧ decRecs stride n (bs.drop stride) = .ok (zs', rest) := by
  simp only [decRecs, bind, Except.bind] at h
  split at h
  · cases h
  · rename_i z hz
    split at h
    · cases h
    · rename_i p hp
      obtain ⟨zs', r⟩ := p
      simp only [pure, Except.pure, Except.ok.injEq, Prod.mk.injEq] at h
      exact ⟨z, zs', h.1.symm, hz, by rw [hp, h.2]⟩

theorem decRecs_offsets_C023 (stride : Nat) : ∀ (n : Nat) (bs : Bytes) (zs : List AcStatusData) (rest : Bytes),
    decRecs stride n bs = .ok (zs, rest) →
    zs.length = n ∧ rest = bs.drop (stride * n) ∧
      ∀ i, i < n → ∃ z, zs[i]? = some z ∧ decRec (bs.drop (i * stride)) = .ok z
  | 0, bs, zs, rest, h => by
    simp only [decRecs, Except.ok.injEq, Prod.mk.injEq] at h
    obtain ⟨rfl, rfl⟩ := h
    exact ⟨rfl, by simp, fun i hi => by omega⟩
  | n + 1, bs, zs, rest, h => by
    obtain ⟨z, zs', rfl, hz, hr⟩ := decRecs_cons_C023 stride n bs zs rest h
    obtain ⟨hl, hrest, hp⟩ := decRecs_offsets_C023 stride n (bs.drop stride) zs' rest hr
    refine ⟨by simp [hl], ?_, ?_⟩
    · rw [hrest, List.drop_drop]; congr 1; rw [Nat.mul_succ]; omega
    · intro i hi
      cases i with
      | zero => exact ⟨z, by simp, by simpa using hz⟩
      | succ i =>
        obtain ⟨z', h1, h2⟩ := hp i (by omega)
        refine ⟨z', by simpa using h1, ?_⟩
        rw [List.drop_drop] at h2
        rw [← h2]; congr 2; rw [Nat.add_mul]; omega

theorem decRec_shape_C023 (bs : Bytes) (z : AcStatusData) (h : decRec bs = .ok z) :
    ∃ b1 b2 b3 b4 b5 b6 b7 b8 tl, bs = b1 :: b2 :: b3 :: b4 :: b5 :: b6 :: b7 :: b8 :: tl := by
  unfold decRec at h
  split at h
  · exact ⟨_, _, _, _, _, _, _, _, _, rfl⟩
  · cases h

theorem recs_agree_C023 (stride : Nat) (hs : 8 ≤ stride) : ∀ (n : Nat) (bs : Bytes) (zs : List AcStatusData)
    (rest : Bytes), AllBytes bs → decRecs stride n bs = .ok (zs, rest) →
    ∃ ss, readAll readAcStatusRecord (splitRecords stride n bs) = some ss ∧ RecordWise AgreeC023 zs ss
  | 0, bs, zs, rest, _, h => by
    simp only [decRecs, Except.ok.injEq, Prod.mk.injEq] at h
    obtain ⟨rfl, rfl⟩ := h
    exact ⟨[], rfl, .nil⟩
  | n + 1, bs, zs, rest, hb, h => by
    obtain ⟨z, zs', rfl, hz, hr⟩ := decRecs_cons_C023 stride n bs zs rest h
    obtain ⟨ss, hss, hag⟩ := recs_agree_C023 stride hs n (bs.drop stride) zs' rest (allBytes_drop hb _) hr
    obtain ⟨b1, b2, b3, b4, b5, b6, b7, b8, tl, rfl⟩ := decRec_shape_C023 bs z hz
    have h3 : b3 < 256 := hb b3 (by simp)
    have h6 : b6 < 256 := hb b6 (by simp)
    obtain ⟨s, hs1, hs2⟩ := rec_agrees_C023 b1 b2 b3 b4 b5 b6 b7 b8 tl h3 h6 (stride - 8) z hz
    have e : 8 + (stride - 8) = stride := by omega
    rw [e] at hs1
    refine ⟨s :: ss, ?_, .cons hs2 hag⟩
    simp only [splitRecords, readAll, hs1, hss]

theorem decode_status_C023 (b : Bytes) (nr rl rc : Nat) (zs : List AcStatusData) (rest : Bytes)
    (h : decode b nr rl rc = .ok (.status zs, rest)) :
    8 ≤ rl ∧ decRecs rl rc (b.drop nr) = .ok (zs, rest) := by
  unfold decode at h
  split at h
  · cases h
  · split at h
    · cases h
    · rename_i h8
      have : recSize = 8 := rfl
      refine ⟨by omega, ?_⟩
      simp only [bind, Except.bind] at h
      split at h
      · cases h
      · rename_i p hp
        obtain ⟨zs', r⟩ := p
        simp only [pure, Except.pure, Except.ok.injEq, Prod.mk.injEq, Msg.status.injEq] at h
        rw [hp, h.1, h.2]

theorem readAcStatus_subHeader (nr rl rc : Nat) (b : Bytes) :
    readAcStatus (subHeader 0x23 nr rl rc ++ b) =
      if b.length = nr + rl * rc ∧ 8 ≤ rl then readAll readAcStatusRecord (splitRecords rl rc (b.drop nr))
      else none := by
  unfold readAcStatus
  rw [readSubMessage_subHeader]
  by_cases h1 : b.length = nr + rl * rc <;> by_cases h2 : 8 ≤ rl <;>
    simp [h1, h2, PyAirtouch.Spec.At5.subTypeAcStatus]

/-- Whenever both sides read the payload, they read the same records. -/
theorem decode_agrees_C023_of_spec (b : Bytes) (nr rl rc : Nat) (hb : AllBytes b)
    (zs : List AcStatusData) (rest : Bytes) (ss : List AcStatus)
    (h : decode b nr rl rc = .ok (.status zs, rest))
    (hs : readAcStatus (subHeader 0x23 nr rl rc ++ b) = some ss) : RecordWise AgreeC023 zs ss := by
  obtain ⟨h8, hr⟩ := decode_status_C023 b nr rl rc zs rest h
  obtain ⟨ss', hss, hag⟩ := recs_agree_C023 rl h8 rc (b.drop nr) zs rest (allBytes_drop hb _) hr
  rw [readAcStatus_subHeader] at hs
  split at hs
  · rw [hss] at hs; cases hs; exact hag
  · cases hs

/-- **AC status.**  As `decode_agrees_C021`; the same ADDED HYPOTHESIS `hlen` (announced data present), necessary by
`decode_agrees_C023_needs_length`. -/
theorem decode_agrees_C023 (b : Bytes) (nr rl rc : Nat) (hb : AllBytes b)
    (hlen : nr + rl * rc ≤ b.length) (zs : List AcStatusData)
    (h : decode b nr rl rc = .ok (.status zs, [])) :
    ∃ ss, readAcStatus (subHeader 0x23 nr rl rc ++ b) = some ss ∧ RecordWise AgreeC023 zs ss := by
  obtain ⟨h8, hr⟩ := decode_status_C023 b nr rl rc zs [] h
  obtain ⟨ss, hss, hag⟩ := recs_agree_C023 rl h8 rc (b.drop nr) zs [] (allBytes_drop hb _) hr
  obtain ⟨_, hrest, _⟩ := decRecs_offsets_C023 rl rc (b.drop nr) zs [] hr
  have hl : b.length = nr + rl * rc := by
    have := congrArg List.length hrest
    simp only [List.length_nil, List.length_drop] at this
    omega
  refine ⟨ss, ?_, hag⟩
  rw [readAcStatus_subHeader, if_pos ⟨hl, h8⟩, hss]

theorem decRecs_complete_C023 (stride : Nat) : ∀ (n : Nat) (bs : Bytes),
    (∀ i, i < n → ∃ z, decRec (bs.drop (i * stride)) = .ok z) →
    ∃ zs, decRecs stride n bs = .ok (zs, bs.drop (stride * n))
  | 0, bs, _ => ⟨[], by simp [decRecs]⟩
  | n + 1, bs, h => by
    obtain ⟨z, hz⟩ := h 0 (by omega)
    simp only [Nat.zero_mul, List.drop_zero] at hz
    obtain ⟨zs, hzs⟩ := decRecs_complete_C023 stride n (bs.drop stride) (fun i hi => by
      obtain ⟨z', hz'⟩ := h (i + 1) (by omega)
      refine ⟨z', ?_⟩
      rw [List.drop_drop, ← hz']; congr 2; rw [Nat.add_mul]; omega)
    refine ⟨z :: zs, ?_⟩
    simp only [decRecs, bind, Except.bind, hz, hzs, pure, Except.pure, List.drop_drop]
    congr 3; rw [Nat.mul_succ]; omega

/-- **Stride clause, decoder side.**  When the AC status decoder returns a message, the announced stride is at
least the known record size 8, there is one record per announced count, record `i` is what `decRec` reads at
offset `nonRepeat + i * stride` of the sub data, and what is left is everything after
`nonRepeat + stride * count`. -/
theorem stride_offsets_C023 (b : Bytes) (nr rl rc : Nat) (zs : List AcStatusData) (rest : Bytes)
    (h : decode b nr rl rc = .ok (.status zs, rest)) :
    8 ≤ rl ∧ zs.length = rc ∧ rest = b.drop (nr + rl * rc) ∧
      ∀ i, i < rc → ∃ z, zs[i]? = some z ∧ decRec (b.drop (nr + i * rl)) = .ok z := by
  obtain ⟨h8, hr⟩ := decode_status_C023 b nr rl rc zs rest h
  obtain ⟨hl, hrest, hp⟩ := decRecs_offsets_C023 rl rc (b.drop nr) zs rest hr
  refine ⟨h8, hl, by rw [hrest, List.drop_drop], ?_⟩
  intro i hi
  obtain ⟨z, h1, h2⟩ := hp i hi
  exact ⟨z, h1, by rw [List.drop_drop] at h2; exact h2⟩

/-- **Stride clause, decoder side, converse**: for EVERY announced stride ≥ 8 (and a non-request header), if each
of the `count` offsets `nonRepeat + i * stride` holds a decodable record, the decoder returns a message. -/
theorem stride_accepted_C023 (b : Bytes) (nr rl rc : Nat) (h8 : 8 ≤ rl)
    (hrec : ∀ i, i < rc → ∃ z, decRec (b.drop (nr + i * rl)) = .ok z) :
    ∃ zs, decode b nr rl rc = .ok (.status zs, b.drop (nr + rl * rc)) := by
  obtain ⟨zs, hzs⟩ := decRecs_complete_C023 rl rc (b.drop nr) (fun i hi => by
    obtain ⟨z, hz⟩ := hrec i hi
    exact ⟨z, by rw [List.drop_drop]; exact hz⟩)
  refine ⟨zs, ?_⟩
  have h1 : ¬ (rc = 0 ∧ rl = 0) := by omega
  have h2 : ¬ rl < recSize := by have : recSize = 8 := rfl; omega
  simp only [decode, h1, h2, if_false, bind, Except.bind, hzs, pure, Except.pure, List.drop_drop]

/-- **Stride clause: a stride below the known record size is rejected** (unless the header is the request form
`repeat_length = 0 ∧ repeat_count = 0`). -/
theorem stride_below_known_size_rejected_C023 (b : Bytes) (nr rl rc : Nat) (h8 : rl < 8)
    (hreq : ¬ (rl = 0 ∧ rc = 0)) : decode b nr rl rc = .error .decodeError := by
  have h2 : rl < recSize := by have : recSize = 8 := rfl; omega
  have h1 : ¬ (rc = 0 ∧ rl = 0) := by omega
  simp only [decode, h1, h2, if_false, if_true]

/-- the vendor reader rejects a stride below 8 as well -/
theorem spec_stride_below_known_size_rejected_C023 (b : Bytes) (nr rl rc : Nat) (h8 : rl < 8) :
    readAcStatus (subHeader 0x23 nr rl rc ++ b) = none := by
  rw [readAcStatus_subHeader, if_neg (by omega)]

/-- **Stride clause, vendor side**: record `i` of the vendor reading is the documented 8-byte prefix of the block
of `stride` bytes at offset `normal + i * stride`. -/
theorem spec_stride_offsets_C023 (b : Bytes) (nr rl rc : Nat) (ss : List AcStatus)
    (h : readAcStatus (subHeader 0x23 nr rl rc ++ b) = some ss) :
    8 ≤ rl ∧ b.length = nr + rl * rc ∧ ss.length = rc ∧
      ∀ i, i < rc → ∃ s, ss[i]? = some s ∧ readAcStatusRecord (rawRec b nr rl i) = some s := by
  rw [readAcStatus_subHeader] at h
  split at h
  · rename_i hc
    obtain ⟨hl, hp⟩ := readAll_some _ _ _ h
    rw [splitRecords_length] at hl hp
    refine ⟨hc.2, hc.1, hl, ?_⟩
    intro i hi
    obtain ⟨r, x, h1, h2, h3⟩ := hp i hi
    rw [splitRecords_getElem? rl rc _ i hi, List.drop_drop] at h1
    cases h1
    exact ⟨x, h2, h3⟩
  · cases h


/-- An undefined AC power, mode or fan speed code ("Other: Not available", vendor reading `notAvailable n`) in any
record makes the decoder raise. -/
theorem undefined_rejected_C023 (b : Bytes) (nr rl rc : Nat) (hb : AllBytes b) (ss : List AcStatus)
    (hs : readAcStatus (subHeader 0x23 nr rl rc ++ b) = some ss)
    (hu : ∃ s ∈ ss, (∃ n, s.power = .notAvailable n) ∨ (∃ n, s.mode = .notAvailable n) ∨
      (∃ n, s.fanSpeed = .notAvailable n)) : ∃ e, decode b nr rl rc = .error e := by
  match hd : decode b nr rl rc with
  | .error e => exact ⟨e, rfl⟩
  | .ok (.request, rest) =>
    exfalso
    have h8 := (spec_stride_offsets_C023 b nr rl rc ss hs).1
    unfold decode at hd
    split at hd
    · omega
    · split at hd
      · cases hd
      · simp only [bind, Except.bind] at hd
        split at hd
        · cases hd
        · cases hd
  | .ok (.status zs, rest) =>
    exfalso
    have hag := decode_agrees_C023_of_spec b nr rl rc hb zs rest ss hd hs
    obtain ⟨s, hmem, hn⟩ := hu
    obtain ⟨z, _, hz⟩ := hag.exists_of_mem_right s hmem
    rcases hn with ⟨n, hn⟩ | ⟨n, hn⟩ | ⟨n, hn⟩
    · have := hz.2.1
      rw [hn] at this
      cases hp : z.power_state <;> rw [hp] at this <;> cases this
    · have := hz.2.2.1
      rw [hn] at this
      cases hp : z.mode <;> rw [hp] at this <;> cases this
    · have := hz.2.2.2.1
      rw [hn] at this
      cases hp : z.fan_speed <;> rw [hp] at this <;> exact this

/-- what the decoder reads as the request form is not a status message for the vendor reader either; with no
normal data announced it is the vendor's request form -/
theorem request_form_C023 (b : Bytes) (nr rl rc : Nat) (h : decode b nr rl rc = .ok (.request, [])) :
    readAcStatus (subHeader 0x23 nr rl rc ++ b) = none ∧
      (nr = 0 → PyAirtouch.Spec.At5.isAcStatusRequest (subHeader 0x23 nr rl rc ++ b) = true) := by
  unfold decode at h
  split at h
  · rename_i hc
    simp only [Except.ok.injEq, Prod.mk.injEq, true_and] at h
    subst h
    refine ⟨spec_stride_below_known_size_rejected_C023 [] nr rl rc (by omega), ?_⟩
    intro hn
    obtain ⟨rfl, rfl⟩ := hc
    subst hn
    decide
  · split at h
    · cases h
    · simp only [bind, Except.bind] at h
      split at h
      · cases h
      · cases h

/-- The length hypothesis of `decode_agrees_C023` cannot be dropped: the first AC of the document's example with
announced stride 10 but only the 8 known bytes present.  The decoder returns the AC and consumes everything; the
vendor reader refuses ("Data length = 8 + normal + repeat length * repeat count"). -/
theorem decode_agrees_C023_needs_length :
    decode [0x10, 0x12, 0x78, 0xC0, 0x02, 0xDA, 0x00, 0x00] 0 10 1 =
        .ok (.status [{ ac_number := 0, power_state := .ON, mode := .HEAT, fan_speed := .LOW, turbo_active := false,
                        bypass_active := false, spill_active := false, timer_set := false, set_point := 220,
                        temperature := 230, error_code := 0 }], []) ∧
      readAcStatus (subHeader 0x23 0 10 1 ++ [0x10, 0x12, 0x78, 0xC0, 0x02, 0xDA, 0x00, 0x00]) = none :=
  ⟨by rfl, by decide⟩

end C023

/-! ## Zone names (0x1F / 0xFF13) -/
section FF13
open PyAirtouch.Model.At5.FF13
open PyAirtouch.Spec.At5 (ZoneName readZoneNames readZoneNameRecords)

/-- how a Python dict is filled from the vendor's records in order: a repeated zone number keeps its first
position and takes the last name -/
def collapseNames (acc : List (Nat × Bytes)) (ss : List ZoneName) : List (Nat × Bytes) :=
  ss.foldl (fun d r => dictInsert d r.zone r.name) acc

/-- `specmap.at5_FF13`: the mapping, in insertion order, is the vendor's (zone, name) list. -/
def AgreeFF13 (m : ZoneNamesMessage) (ss : List ZoneName) : Prop :=
  m.zone_names = ss.map (fun r => (r.zone, r.name)) ∨
  -- relaxation NAMES_DUPLICATE_NUMBER_LAST_WINS: accepted only when the vendor's records really contain a repeated
  -- zone number; then the vendor's list reduced the way a mapping is filled (first position, last name)
  (¬ (ss.map (·.zone)).Nodup ∧ m.zone_names = collapseNames [] ss)

theorem collapseNames_nodup : ∀ (ss : List ZoneName) (acc : List (Nat × Bytes)),
    (ss.map (·.zone)).Nodup → (∀ r ∈ ss, r.zone ∉ dictKeys acc) →
    collapseNames acc ss = acc ++ ss.map (fun r => (r.zone, r.name))
  | [], acc, _, _ => by simp [collapseNames]
  | r :: rs, acc, hn, hd => by
    simp only [List.map_cons, List.nodup_cons] at hn
    have h1 : dictInsert acc r.zone r.name = acc ++ [(r.zone, r.name)] :=
      Part3Text.dictInsert_fresh acc r.zone r.name (hd r (by simp))
    have := collapseNames_nodup rs (acc ++ [(r.zone, r.name)]) hn.2 (by
      intro r' hr' hk
      simp only [dictKeys, List.map_append, List.map_cons, List.map_nil, List.mem_append, List.mem_singleton] at hk
      rcases hk with hk | hk
      · exact hd r' (by simp [hr']) hk
      · exact hn.1 (by rw [← hk]; exact List.mem_map_of_mem hr'))
    simp only [collapseNames, List.foldl_cons] at this ⊢
    rw [h1, this]
    simp

theorem decNames_agrees : ∀ (k : Nat) (buf : Bytes) (acc d : List (Nat × Bytes)) (rest : Bytes) (fuel : Nat),
    buf.length = k → k ≤ fuel → decNames buf k acc = .ok (d, rest) →
    ∃ ss, readZoneNameRecords fuel buf = some ss ∧ d = collapseNames acc ss ∧ rest = [] := by
  intro k
  induction k using Nat.strongRecOn with
  | _ k ih =>
    intro buf acc d rest fuel hlen hfuel h
    unfold decNames at h
    split at h
    · rename_i hk
      subst hk
      have : buf = [] := List.eq_nil_of_length_eq_zero hlen
      subst this
      simp only [Except.ok.injEq, Prod.mk.injEq] at h
      refine ⟨[], by cases fuel <;> rfl, h.1.symm, h.2.symm⟩
    · rename_i hk
      split at h
      · cases h
      · cases h
      · rename_i zone n tl
        split at h
        · cases h
        · rename_i hfit
          simp only at h
          split at h
          · simp only [List.length_cons] at hlen
            have hdl : (tl.drop n).length = k - (2 + n) := by simp only [List.length_drop]; omega
            cases fuel with
            | zero => omega
            | succ fuel =>
              obtain ⟨ss, hss, hd, hr⟩ := ih (k - (2 + n)) (by omega) (tl.drop n) _ d rest fuel hdl (by omega) h
              refine ⟨{ zone := zone, name := tl.take n } :: ss, ?_, ?_, hr⟩
              · have : ¬ tl.length < n := by omega
                simp only [readZoneNameRecords, this, if_false, hss]
              · simp only [collapseNames, List.foldl_cons] at hd ⊢
                exact hd
          · cases h

/-- **Zone names.**  No extra hypothesis: called as the receive path calls it (`message_length` = the bytes present) the
decoder either raises or consumes everything, and then the vendor reader returns the records the mapping was
filled from. -/
theorem decode_agrees_FF13 (b : Bytes) (m : ZoneNamesMessage) (rest : Bytes)
    (h : decode b b.length = .ok (.message m, rest)) :
    rest = [] ∧ ∃ ss, readZoneNames ([0xFF, 0x13] ++ b) = some ss ∧ AgreeFF13 m ss := by
  unfold decode at h
  split at h
  · cases h
  · split at h
    · split at h <;> cases h
    · split at h
      · cases h
      · rename_i d r hd
        simp only [Except.ok.injEq, Prod.mk.injEq, Msg.message.injEq] at h
        obtain ⟨hm, hr⟩ := h
        subst hm; subst hr
        obtain ⟨ss, hss, hdd, hr⟩ := decNames_agrees b.length b [] d r b.length rfl (Nat.le_refl _) hd
        refine ⟨hr, ss, ?_, ?_⟩
        · simp only [List.cons_append, List.nil_append, readZoneNames, PyAirtouch.Spec.At5.extZoneName, if_true, hss]
        · by_cases hn : (ss.map (·.zone)).Nodup
          · left
            simp only [hdd]
            rw [collapseNames_nodup ss [] hn (by intro r _; simp [dictKeys])]
            simp
          · right; exact ⟨hn, hdd⟩

/-- what the decoder reads as a request (no byte: all zones; one byte: that zone) is the vendor's request of the
same meaning -/
theorem request_form_FF13 (b : Bytes) (r : ZoneNamesRequest) (rest : Bytes)
    (h : decode b b.length = .ok (.request r, rest)) :
    rest = [] ∧ PyAirtouch.Spec.At5.readExtendedRequest ([0xFF, 0x13] ++ b) =
      some (match r.zone_number with
        | none => .zoneNamesAll
        | some z => .zoneName z) := by
  unfold decode at h
  split at h
  · rename_i h0
    have : b = [] := List.eq_nil_of_length_eq_zero h0
    subst this
    simp only [Except.ok.injEq, Prod.mk.injEq, Msg.request.injEq] at h
    obtain ⟨hr, hrest⟩ := h
    subst hr; subst hrest
    exact ⟨rfl, by decide⟩
  · split at h
    · rename_i h1
      split at h
      · cases h
      · rename_i z tl _
        simp only [List.length_cons] at h1
        have : tl = [] := List.eq_nil_of_length_eq_zero (by omega)
        subst this
        simp only [Except.ok.injEq, Prod.mk.injEq, Msg.request.injEq] at h
        obtain ⟨hr, hrest⟩ := h
        subst hr; subst hrest
        refine ⟨rfl, ?_⟩
        simp [PyAirtouch.Spec.At5.readExtendedRequest, PyAirtouch.Spec.At5.extAcAbility,
          PyAirtouch.Spec.At5.extAcError, PyAirtouch.Spec.At5.extZoneName]
    · split at h <;> cases h
end FF13
/-! ## AC error information (0x1F / 0xFF10) -/
section FF10
open PyAirtouch.Model.At5.FF10
open PyAirtouch.Spec.At5 (AcError readAcError)

/-- `specmap.ff10`: `None` is "no error", which the vendor document sends as the empty string. -/
def AgreeFF10 (m : AcErrorInformationMessage) (s : AcError) : Prop :=
  s.ac = m.ac_number ∧
  s.errorInfo = (match m.error_info with
    | none => []
    | some e => e)

theorem decode_message_FF10 (b : Bytes) (m : AcErrorInformationMessage) (rest : Bytes)
    (h : decode b b.length = .ok (.message m, rest)) :
    ∃ ac n body, b = ac :: n :: body ∧ m.ac_number = ac ∧ rest = body.drop n ∧
      m.error_info = (if n > 0 then some (body.take n) else none) := by
  unfold decode at h
  split at h
  · cases h
  · rename_i ac tl
    split at h
    · cases h
    · split at h
      · cases h
      · rename_i n body _
        refine ⟨ac, n, body, rfl, ?_⟩
        split at h
        · rename_i hn
          simp only at h
          split at h
          · simp only [Except.ok.injEq, Prod.mk.injEq, Msg.message.injEq] at h
            obtain ⟨rfl, rfl⟩ := h
            simp [hn]
          · cases h
        · rename_i hn
          simp only [Except.ok.injEq, Prod.mk.injEq, Msg.message.injEq] at h
          obtain ⟨rfl, rfl⟩ := h
          have : n = 0 := by omega
          subst this
          simp

theorem readAcError_eq (ac n : Nat) (body : Bytes) :
    readAcError ([0xFF, 0x10] ++ ac :: n :: body) =
      if body.length = n then some { ac := ac, errorInfo := body } else none := by
  simp [readAcError, PyAirtouch.Spec.At5.extAcError]

/-- Whenever both sides read the payload, they read the same. -/
theorem decode_agrees_FF10_of_spec (b : Bytes) (m : AcErrorInformationMessage) (rest : Bytes) (s : AcError)
    (h : decode b b.length = .ok (.message m, rest)) (hs : readAcError ([0xFF, 0x10] ++ b) = some s) :
    AgreeFF10 m s ∧ rest = [] := by
  obtain ⟨ac, n, body, rfl, hac, hrest, he⟩ := decode_message_FF10 b m rest h
  rw [readAcError_eq] at hs
  split at hs
  · rename_i hl
    cases hs
    refine ⟨⟨hac.symm, ?_⟩, by rw [hrest, ← hl]; simp⟩
    rw [he]
    by_cases hn : n > 0
    · have : body.take n = body := by rw [← hl]; simp
      simp [hn, this]
    · have : body = [] := List.eq_nil_of_length_eq_zero (by omega)
      simp [hn, this]
  · cases hs

/-- **AC error information.**  ADDED HYPOTHESIS `hlen` (Byte4, the string length, does not exceed the bytes present):
without it the statement is false, see `decode_agrees_FF10_needs_length` — the decoder returns the short slice,
the vendor reader ("exactly as long as Byte4 says") refuses. -/
theorem decode_agrees_FF10 (b : Bytes) (hlen : ∀ n, b[1]? = some n → 2 + n ≤ b.length)
    (m : AcErrorInformationMessage) (h : decode b b.length = .ok (.message m, [])) :
    ∃ s, readAcError ([0xFF, 0x10] ++ b) = some s ∧ AgreeFF10 m s := by
  obtain ⟨ac, n, body, rfl, hac, hrest, he⟩ := decode_message_FF10 b m [] h
  have h1 := hlen n (by simp)
  simp only [List.length_cons] at h1
  have h2 := congrArg List.length hrest
  simp only [List.length_nil, List.length_drop] at h2
  have hl : body.length = n := by omega
  refine ⟨{ ac := ac, errorInfo := body }, by rw [readAcError_eq, if_pos hl], ?_⟩
  exact (decode_agrees_FF10_of_spec _ m [] _ h (by rw [readAcError_eq, if_pos hl])).1

/-- what the decoder reads as the request (one byte) is the vendor's request for that AC -/
theorem request_form_FF10 (b : Bytes) (r : AcErrorInformationRequest) (rest : Bytes)
    (h : decode b b.length = .ok (.request r, rest)) :
    rest = [] ∧ PyAirtouch.Spec.At5.readExtendedRequest ([0xFF, 0x10] ++ b) = some (.acError r.ac_number) := by
  unfold decode at h
  split at h
  · cases h
  · rename_i ac tl
    split at h
    · rename_i h1
      simp only [List.length_cons] at h1
      have : tl = [] := List.eq_nil_of_length_eq_zero (by omega)
      subst this
      simp only [Except.ok.injEq, Prod.mk.injEq, Msg.request.injEq] at h
      obtain ⟨rfl, rfl⟩ := h
      refine ⟨rfl, ?_⟩
      simp [PyAirtouch.Spec.At5.readExtendedRequest, PyAirtouch.Spec.At5.extAcAbility,
        PyAirtouch.Spec.At5.extAcError]
    · split at h
      · cases h
      · split at h
        · simp only at h
          split at h <;> cases h
        · cases h

/-- The length hypothesis of `decode_agrees_FF10` cannot be dropped: `ff10 01 01` announces a one-byte string
that is not there.  The decoder returns the (empty) short slice; the vendor reader refuses. -/
theorem decode_agrees_FF10_needs_length :
    decode [0x01, 0x01] 2 = .ok (.message ⟨1, some []⟩, []) ∧ readAcError ([0xFF, 0x10] ++ [0x01, 0x01]) = none :=
  ⟨by rfl, by decide⟩
end FF10
/-! ## Console version (0x1F / 0xFF30) -/
section FF30
open PyAirtouch.Model.At5.FF30
open PyAirtouch.Spec.At5 (ConsoleVersion readConsoleVersion)

/-- `specmap.ff30`: the bool and the version list (the raw update sign is not part of the public type). -/
def AgreeFF30 (m : ConsoleVersionMessage) (s : ConsoleVersion) : Prop :=
  s.updateAvailable = m.update_available ∧ s.versions = m.versions

/-- `str.split(",")` of the implementation and the vendor reader's split at 0x2C are the same function -/
theorem splitOn_eq_splitAt (sep : Nat) : ∀ bs : Bytes, splitOn sep bs = PyAirtouch.Spec.At5.splitAt sep bs
  | [] => rfl
  | b :: bs => by
    simp only [splitOn, PyAirtouch.Spec.At5.splitAt, splitOn_eq_splitAt sep bs]
    split
    · rfl
    · cases PyAirtouch.Spec.At5.splitAt sep bs <;> rfl

theorem decode_message_FF30 (b : Bytes) (m : ConsoleVersionMessage) (rest : Bytes)
    (h : decode b b.length = .ok (.message m, rest)) :
    ∃ u n body, b = u :: n :: body ∧ m.update_available = decide (u ≠ 0) ∧ rest = body.drop n ∧
      m.versions = splitOn sepByte (body.take n) := by
  unfold decode at h
  split at h
  · cases h
  · split at h
    · cases h
    · cases h
    · rename_i u n body _
      refine ⟨u, n, body, rfl, ?_⟩
      simp only at h
      split at h
      · simp only [Except.ok.injEq, Prod.mk.injEq, Msg.message.injEq] at h
        obtain ⟨rfl, rfl⟩ := h
        exact ⟨rfl, rfl, rfl⟩
      · cases h

theorem readConsoleVersion_eq (u n : Nat) (body : Bytes) :
    readConsoleVersion ([0xFF, 0x30] ++ u :: n :: body) =
      if body.length = n then some { updateSign := u, versions := PyAirtouch.Spec.At5.splitAt 0x2C body }
      else none := by
  simp [readConsoleVersion, PyAirtouch.Spec.At5.extConsoleVersion]

/-- Whenever both sides read the payload, they read the same. -/
theorem decode_agrees_FF30_of_spec (b : Bytes) (m : ConsoleVersionMessage) (rest : Bytes) (s : ConsoleVersion)
    (h : decode b b.length = .ok (.message m, rest)) (hs : readConsoleVersion ([0xFF, 0x30] ++ b) = some s) :
    AgreeFF30 m s ∧ rest = [] := by
  obtain ⟨u, n, body, rfl, hu, hrest, hv⟩ := decode_message_FF30 b m rest h
  rw [readConsoleVersion_eq] at hs
  split at hs
  · rename_i hl
    cases hs
    have ht : body.take n = body := by rw [← hl]; simp
    refine ⟨⟨?_, ?_⟩, by rw [hrest, ← hl]; simp⟩
    · rw [hu]; simp only [ConsoleVersion.updateAvailable]
      by_cases h0 : u = 0 <;> simp [h0]
    · rw [hv, ht, splitOn_eq_splitAt]; rfl
  · cases hs

/-- **Console version.**  ADDED HYPOTHESIS `hlen` (Byte4, the string length, does not exceed the bytes present); necessary
by `decode_agrees_FF30_needs_length`. -/
theorem decode_agrees_FF30 (b : Bytes) (hlen : ∀ n, b[1]? = some n → 2 + n ≤ b.length)
    (m : ConsoleVersionMessage) (h : decode b b.length = .ok (.message m, [])) :
    ∃ s, readConsoleVersion ([0xFF, 0x30] ++ b) = some s ∧ AgreeFF30 m s := by
  obtain ⟨u, n, body, rfl, hu, hrest, hv⟩ := decode_message_FF30 b m [] h
  have h1 := hlen n (by simp)
  simp only [List.length_cons] at h1
  have h2 := congrArg List.length hrest
  simp only [List.length_nil, List.length_drop] at h2
  have hl : body.length = n := by omega
  refine ⟨_, by rw [readConsoleVersion_eq, if_pos hl], ?_⟩
  exact (decode_agrees_FF30_of_spec _ m [] _ h (by rw [readConsoleVersion_eq, if_pos hl])).1

/-- what the decoder reads as the request (no byte) is the vendor's console version request -/
theorem request_form_FF30 (b : Bytes) (rest : Bytes) (h : decode b b.length = .ok (.request, rest)) :
    rest = [] ∧ PyAirtouch.Spec.At5.readExtendedRequest ([0xFF, 0x30] ++ b) = some .consoleVersion := by
  unfold decode at h
  split at h
  · rename_i h0
    have : b = [] := List.eq_nil_of_length_eq_zero h0
    subst this
    simp only [Except.ok.injEq, Prod.mk.injEq, true_and] at h
    subst h
    exact ⟨rfl, by decide⟩
  · split at h
    · cases h
    · cases h
    · simp only at h
      split at h <;> cases h

/-- The length hypothesis of `decode_agrees_FF30` cannot be dropped: `ff30 b3 ce` announces 206 bytes that are
not there.  The decoder returns the short (empty) slice as one empty version; the vendor reader refuses. -/
theorem decode_agrees_FF30_needs_length :
    decode [0xB3, 0xCE] 2 = .ok (.message ⟨true, [[]]⟩, []) ∧
      readConsoleVersion ([0xFF, 0x30] ++ [0xB3, 0xCE]) = none :=
  ⟨by rfl, by decide⟩
end FF30
/-! ## AC ability (0x1F / 0xFF11) -/
section FF11
open PyAirtouch.Model.At5.FF11
open PyAirtouch.Gen.At5.XC022AcCtrl (AcModeControl AcFanSpeedControl)
open PyAirtouch.Spec.At5 (readAcAbility readAcAbilityRecords readAcAbilityBody)

/-- `specmap.at5_FF11`: every field of the vendor's record except `following_length` (a raw length byte that is
not part of `AcAbility`).  The support flags are looked up by enum member in the two mappings (a missing member
would be a mismatch); the set-points are whole degrees, the vendor reading is in tenths. -/
def AgreeFF11 (a : AcAbility) (s : Spec.At5.AcAbility) : Prop :=
  s.ac = a.ac_number ∧ s.name = a.ac_name ∧ s.startZone = a.start_zone ∧ s.zoneCount = a.zone_count ∧
  (a.ac_mode_support.lookup .COOL = some s.modeCool ∧ a.ac_mode_support.lookup .FAN = some s.modeFan ∧
   a.ac_mode_support.lookup .DRY = some s.modeDry ∧ a.ac_mode_support.lookup .HEAT = some s.modeHeat ∧
   a.ac_mode_support.lookup .AUTO = some s.modeAuto) ∧
  (a.fan_speed_support.lookup .INTELLIGENT_AUTO = some s.fanIntelligentAuto ∧
   a.fan_speed_support.lookup .TURBO = some s.fanTurbo ∧ a.fan_speed_support.lookup .POWERFUL = some s.fanPowerful ∧
   a.fan_speed_support.lookup .HIGH = some s.fanHigh ∧ a.fan_speed_support.lookup .MEDIUM = some s.fanMedium ∧
   a.fan_speed_support.lookup .LOW = some s.fanLow ∧ a.fan_speed_support.lookup .QUIET = some s.fanQuiet ∧
   a.fan_speed_support.lookup .AUTO = some s.fanAuto) ∧
  s.minCoolSetpoint = (a.min_cool_set_point : Int) * 10 ∧ s.maxCoolSetpoint = (a.max_cool_set_point : Int) * 10 ∧
  s.minHeatSetpoint = (a.min_heat_set_point : Int) * 10 ∧ s.maxHeatSetpoint = (a.max_heat_set_point : Int) * 10

theorem untilNul_eq : ∀ bs : Bytes, Spec.At5.untilNul bs = cStringPrefix bs
  | [] => rfl
  | b :: bs => by
    simp only [Spec.At5.untilNul, cStringPrefix, List.takeWhile]
    by_cases h : b = 0
    · simp [h]
    · have := untilNul_eq bs
      simp only [cStringPrefix] at this
      simp [h, this]

theorem lookup_modes (b : Nat) :
    (decModeSupport b).lookup .COOL = some (bitToBool b 4) ∧ (decModeSupport b).lookup .FAN = some (bitToBool b 3) ∧
    (decModeSupport b).lookup .DRY = some (bitToBool b 2) ∧ (decModeSupport b).lookup .HEAT = some (bitToBool b 1) ∧
    (decModeSupport b).lookup .AUTO = some (bitToBool b 0) := ⟨rfl, rfl, rfl, rfl, rfl⟩

theorem lookup_fans (b : Nat) :
    (decFanSpeedSupport b).lookup .INTELLIGENT_AUTO = some (bitToBool b 7) ∧
    (decFanSpeedSupport b).lookup .TURBO = some (bitToBool b 6) ∧
    (decFanSpeedSupport b).lookup .POWERFUL = some (bitToBool b 5) ∧
    (decFanSpeedSupport b).lookup .HIGH = some (bitToBool b 4) ∧
    (decFanSpeedSupport b).lookup .MEDIUM = some (bitToBool b 3) ∧
    (decFanSpeedSupport b).lookup .LOW = some (bitToBool b 2) ∧
    (decFanSpeedSupport b).lookup .QUIET = some (bitToBool b 1) ∧
    (decFanSpeedSupport b).lookup .AUTO = some (bitToBool b 0) := ⟨rfl, rfl, rfl, rfl, rfl, rfl, rfl, rfl⟩

/-- One iteration of the repaired loop against the vendor reader, for EVERY following length `f`: a successful
iteration returns the following-length byte it read (the loop slices `2 + f` bytes), `f` is at least the 24 described
bytes, the record lies inside the remaining announced length, and the vendor reader reads the same record from the
`f` following bytes (it ignores what follows the 24 described ones, as the decoder does). -/
theorem rec_agrees_FF11 (acN f : Nat) (r : Bytes) (remaining : Nat) (a : AcAbility) (fl : Nat)
    (h : decRec (acN :: f :: r) remaining = .ok (a, fl)) :
    fl = f ∧ 24 ≤ f ∧ 2 + f ≤ remaining ∧ 24 ≤ r.length ∧
      ∃ s, readAcAbilityBody acN f (r.take f) = some s ∧ AgreeFF11 a s := by
  unfold decRec at h
  simp only at h
  split at h
  · rename_i sz zc b23 b24 c1 c2 h1 h2 rest hdrop
    simp only [nameLen] at hdrop
    split at h
    · cases h
    · rename_i hchk
      simp only [PyAirtouch.Gen.At5.X1FFF11AcAbility.STRUCT_size] at hchk
      split at h
      · cases h
      · rename_i name hname
        simp only [Except.ok.injEq, Prod.mk.injEq] at h
        obtain ⟨ha, hr⟩ := h
        subst ha; subst hr
        have hlen : 24 ≤ r.length := by
          have := congrArg List.length hdrop
          simp only [List.length_drop, List.length_cons] at this
          omega
        obtain ⟨k, rfl⟩ : ∃ k, f = 24 + k := ⟨f - 24, by omega⟩
        have hbody : (r.take (24 + k)).drop 16 = sz :: zc :: b23 :: b24 :: c1 :: c2 :: h1 :: h2 :: rest.take k := by
          rw [List.drop_take, hdrop, show 24 + k - 16 = k + 8 by omega]
          simp only [List.take_succ_cons]
        have htake : (r.take (24 + k)).take 16 = r.take 16 := by
          rw [List.take_take]; congr 1; omega
        refine ⟨rfl, by omega, by omega, hlen, ?_⟩
        simp only [readAcAbilityBody, hbody, htake]
        refine ⟨_, rfl, ?_⟩
        simp only [decodeCString] at hname
        split at hname
        · simp only [Except.ok.injEq] at hname
          subst hname
          refine ⟨rfl, untilNul_eq _, rfl, rfl, ?_, ?_, rfl, rfl, rfl, rfl⟩
          · simp only [bit_eq]; exact lookup_modes b23
          · simp only [bit_eq]; exact lookup_fans b24
        · cases hname
  · cases h

theorem decRec_shape_FF11 (bs : Bytes) (remaining : Nat) (a : AcAbility) (fl : Nat)
    (h : decRec bs remaining = .ok (a, fl)) : ∃ acN f r, bs = acN :: f :: r := by
  unfold decRec at h
  split at h
  · exact ⟨_, _, _, rfl⟩
  · cases h

theorem body_followingLength (ac len : Nat) (body : Bytes) (r : Spec.At5.AcAbility)
    (h : readAcAbilityBody ac len body = some r) : r.followingLength = len := by
  unfold readAcAbilityBody at h
  split at h
  · cases h; rfl
  · cases h

/-- the repaired `while remaining_length > 0` loop on exactly the announced bytes: it consumes them all and its
records are the vendor reader's, whatever the following lengths (each at least 24) -/
theorem loop_agrees_FF11 (bs : Bytes) (remaining : Nat) :
    ∀ (acs : List AcAbility) (rest : Bytes) (fuel : Nat),
    decLoop bs remaining = .ok (acs, rest) → bs.length = remaining → bs.length ≤ fuel →
    rest = [] ∧ ∃ ss, readAcAbilityRecords fuel bs = some ss ∧ RecordWise AgreeFF11 acs ss ∧
      ∀ s ∈ ss, 24 ≤ s.followingLength := by
  fun_induction decLoop bs remaining with
  | case1 bs remaining hpos e hrec => intro acs rest fuel h; cases h
  | case2 bs remaining hpos ac fl hrec e hloop ih => intro acs rest fuel h; cases h
  | case3 bs remaining hpos a fl hrec acs' rest' hloop ih =>
    intro acs rest fuel h hl hf
    simp only [Except.ok.injEq, Prod.mk.injEq] at h
    obtain ⟨rfl, rfl⟩ := h
    obtain ⟨acN, f, r, rfl⟩ := decRec_shape_FF11 bs remaining a fl hrec
    obtain ⟨hfl, h24, hfit, hlen, s, hs, hag⟩ := rec_agrees_FF11 acN f r remaining a fl hrec
    subst hfl
    simp only [List.length_cons] at hl hf
    have hdrop : (acN :: fl :: r).drop (2 + fl) = r.drop fl := by
      rw [show 2 + fl = fl + 1 + 1 by omega]; rfl
    rw [hdrop] at ih hloop
    cases fuel with
    | zero => omega
    | succ fuel =>
      obtain ⟨hrest, ss, hss, hrw, hall⟩ := ih acs' rest' fuel hloop
        (by simp only [List.length_drop]; omega) (by simp only [List.length_drop]; omega)
      refine ⟨hrest, s :: ss, ?_, .cons hag hrw, ?_⟩
      · have : ¬ r.length < fl := by omega
        simp only [readAcAbilityRecords, this, if_false, hs, hss]
      · intro s' hs'
        rcases List.mem_cons.mp hs' with rfl | hs'
        · rw [body_followingLength acN fl _ _ hs]; exact h24
        · exact hall s' hs'
  | case4 bs remaining hnpos =>
    intro acs rest fuel h hl _
    simp only [Except.ok.injEq, Prod.mk.injEq] at h
    obtain ⟨rfl, rfl⟩ := h
    have : bs = [] := List.eq_nil_of_length_eq_zero (by omega)
    subst this
    exact ⟨rfl, [], by cases fuel <;> rfl, .nil, by simp⟩

theorem decode_ability_FF11 (b : Bytes) (acs : List AcAbility) (rest : Bytes)
    (h : decode b b.length = .ok (.ability acs, rest)) : decLoop b b.length = .ok (acs, rest) := by
  unfold decode at h
  split at h
  · cases h
  · split at h
    · split at h <;> cases h
    · split at h
      · cases h
      · rename_i acs' rest' hd
        simp only [Except.ok.injEq, Prod.mk.injEq, Msg.ability.injEq] at h
        rw [hd, h.1, h.2]

/-- **AC ability.**  For EVERY following length (the decoder advances by the "following data length" byte, Byte4 of
each record, as the vendor reader does; formerly a recorded defect kept out by a hypothesis): whenever the decoder
accepts a payload as an ability message, all of the payload is consumed, the vendor reader reads it too, and the
decoder's reading is the vendor reading, record by record.  Every record's following length is at least the 24
described bytes. -/
theorem decode_agrees_FF11 (b : Bytes)
    (acs : List AcAbility) (rest : Bytes) (h : decode b b.length = .ok (.ability acs, rest)) :
    rest = [] ∧ ∃ ss, readAcAbility ([0xFF, 0x11] ++ b) = some ss ∧ RecordWise AgreeFF11 acs ss ∧
      ∀ s ∈ ss, 24 ≤ s.followingLength := by
  have hd := decode_ability_FF11 b acs rest h
  obtain ⟨hrest, ss, hss, hag, hall⟩ := loop_agrees_FF11 b b.length acs rest b.length hd rfl (Nat.le_refl _)
  refine ⟨hrest, ss, ?_, hag, hall⟩
  simp only [List.cons_append, List.nil_append, readAcAbility, PyAirtouch.Spec.At5.extAcAbility, if_true, hss]

/-- The same in the vendor reading's terms: whenever the vendor reader reads the payload into `ss`, the decoder's
records are those, whatever their following lengths. -/
theorem decode_agrees_FF11_of_spec (b : Bytes) (acs : List AcAbility) (rest : Bytes) (ss : List Spec.At5.AcAbility)
    (h : decode b b.length = .ok (.ability acs, rest)) (hs : readAcAbility ([0xFF, 0x11] ++ b) = some ss) :
    RecordWise AgreeFF11 acs ss ∧ rest = [] := by
  obtain ⟨hrest, ss', hss', hag, _⟩ := decode_agrees_FF11 b acs rest h
  rw [hs] at hss'
  cases hss'
  exact ⟨hag, hrest⟩

/-- The repaired defect, concretely (`ff11 00 32 …`): one AC whose record announces following length 50 (the 24
documented bytes and 26 more a future console might append).  The vendor reading is ONE AC, and so is the decoder's
(advancing by 26 whatever Byte4 said, it used to return TWO). -/
def longFF11 : Bytes :=
  [0x00, 0x32, 0x55, 0x4E, 0x49, 0x54, 0, 0, 0, 0, 0, 0, 0, 0, 0, 0, 0, 0, 0x00, 0x04, 0x17, 0x1D, 0x10, 0x1F, 0x12, 0x1F] ++
  List.replicate 26 0xEE

def isOneAbilityNamed (n : Bytes) : Except DecErr (Msg × Bytes) → Bool
  | .ok (.ability [a], []) => a.ac_name == n
  | _ => false

theorem decode_FF11_long_record :
    isOneAbilityNamed [0x55, 0x4E, 0x49, 0x54] (decode longFF11 longFF11.length) = true ∧
    (∃ s, readAcAbility ([0xFF, 0x11] ++ longFF11) = some [s] ∧ s.followingLength = 50) :=
  ⟨by decide +kernel, ⟨_, rfl, rfl⟩⟩

/-- what the decoder reads as a request (no byte: all ACs; one byte: that AC) is the vendor's request of the same
meaning -/
theorem request_form_FF11 (b : Bytes) (r : Option Nat) (rest : Bytes)
    (h : decode b b.length = .ok (.request r, rest)) :
    rest = [] ∧ PyAirtouch.Spec.At5.readExtendedRequest ([0xFF, 0x11] ++ b) =
      some (match (generalizing := false) r with
        | none => .acAbilityAll
        | some n => .acAbility n) := by
  match b, h with
  | [], h =>
    simp only [decode, List.length_nil, if_true, Except.ok.injEq, Prod.mk.injEq, Msg.request.injEq] at h
    obtain ⟨rfl, rfl⟩ := h
    exact ⟨rfl, by decide⟩
  | [z], h =>
    simp only [decode, List.length_cons, List.length_nil, Nat.zero_add, Nat.one_ne_zero, if_false, if_true,
      Except.ok.injEq, Prod.mk.injEq, Msg.request.injEq] at h
    obtain ⟨rfl, rfl⟩ := h
    refine ⟨rfl, ?_⟩
    simp [PyAirtouch.Spec.At5.readExtendedRequest, PyAirtouch.Spec.At5.extAcAbility]
  | z :: y :: tl, h =>
    exfalso
    have h0 : ¬ (z :: y :: tl).length = 0 := by simp
    have h1 : ¬ (z :: y :: tl).length = 1 := by simp
    simp only [decode, h0, h1, if_false] at h
    split at h
    · cases h
    · cases h
end FF11
end PyAirtouch.Lemmas.SpecAgree5
