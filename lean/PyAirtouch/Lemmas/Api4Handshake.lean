import PyAirtouch.Lemmas.Api4Events
/-!
# The initialisation state machine of `AirTouch4`
-/
set_option linter.unusedSimpArgs false
set_option linter.unusedVariables false
namespace PyAirtouch.Lemmas.Api4
open PyAirtouch.Model PyAirtouch.Model.Api4 PyAirtouch.Model.At4 PyAirtouch.Gen
open PyAirtouch.Model.TimerCommon (AcTimerState AcTimerStatusData)

/-- position of a state in the handshake -/
def stage : AState → Nat
  | .CLOSED => 0 | .CONNECTING => 1 | .INIT_VERSION => 2 | .INIT_GROUP_NAMES => 3 | .INIT_AC_ABILITY => 4
  | .INIT_AC_STATUS => 5 | .INIT_AC_TIMER_STATUS => 6 | .INIT_GROUP_STATUS => 7 | .CONNECTED => 8

/-- the state after the answer has been consumed -/
def nextState : AState → AState
  | .CLOSED => .CLOSED | .CONNECTING => .INIT_VERSION | .INIT_VERSION => .INIT_GROUP_NAMES
  | .INIT_GROUP_NAMES => .INIT_AC_ABILITY | .INIT_AC_ABILITY => .INIT_AC_STATUS
  | .INIT_AC_STATUS => .INIT_AC_TIMER_STATUS | .INIT_AC_TIMER_STATUS => .INIT_GROUP_STATUS
  | .INIT_GROUP_STATUS => .CONNECTED | .CONNECTED => .CONNECTED

/-- the six handshake requests in the order they are sent -/
def handshakeRequests : List OutMsg :=
  [versionRequest, namesRequest, abilityRequest, acStatusRequest, timerStatusRequest, groupStatusRequest]

/-- the request that is sent on *leaving* a state (`CONNECTING` is left by the connection, the others by the
    answer to the previous request) -/
def requestOnLeaving : AState → Option OutMsg
  | .CONNECTING => some versionRequest | .INIT_VERSION => some namesRequest
  | .INIT_GROUP_NAMES => some abilityRequest | .INIT_AC_ABILITY => some acStatusRequest
  | .INIT_AC_STATUS => some timerStatusRequest | .INIT_AC_TIMER_STATUS => some groupStatusRequest
  | _ => none

/-- the message class that answers the request outstanding in a state -/
def answerKind : AState → RMsg → Bool
  | .INIT_VERSION, .extended (.consoleVer (.message _)) => true
  | .INIT_GROUP_NAMES, .extended (.groupNames (.message _)) => true
  | .INIT_AC_ABILITY, .extended (.acAbility (.ability _)) => true
  | .INIT_AC_STATUS, .acStatus (.status _) => true
  | .INIT_AC_TIMER_STATUS, .acTimerStatus (.status _) => true
  | .INIT_AC_TIMER_STATUS, .acTimerCtrl _ => true      -- a subclass instance of the timer-status message
  | .INIT_GROUP_STATUS, .groupStatus (.status _) => true
  | _, _ => false

/-- a send that is not an error-information request -/
def hsSend : Ev → Option OutMsg
  | .send _ (.reg (.extended (.errInfo (.request _)))) => none
  | .send _ m => some m
  | _ => none

/-- the sends of a step, error-information requests excepted -/
def hsSends (evs : List Ev) : List OutMsg := evs.filterMap hsSend

theorem hsSends_append (a b : List Ev) : hsSends (a ++ b) = hsSends a ++ hsSends b := by
  simp [hsSends, List.filterMap_append]

/-- an event that is not a send, or is an error-information request -/
def Quiet (e : Ev) : Prop := hsSend e = none ∧ ∀ c, e ≠ Ev.subscriberExc c

theorem quiet_of {e : Ev} (h1 : hsSend e = none) (h2 : ∀ c, e ≠ Ev.subscriberExc c) : Quiet e := ⟨h1, h2⟩

theorem hsSends_quiet {l : List Ev} (h : ∀ e ∈ l, Quiet e) : hsSends l = [] := by
  induction l with
  | nil => rfl
  | cons x xs ih =>
    simp only [hsSends, List.filterMap_cons]
    rw [show hsSend x = none from (h x List.mem_cons_self).1]
    exact ih (fun e he => h e (List.mem_cons_of_mem _ he))

theorem quiet_notifyAcAll (a : AcObj) : ∀ e ∈ notifyAcAll a, Quiet e := by
  intro e he
  simp only [notifyAcAll, List.mem_append, List.mem_map] at he
  rcases he with ⟨_, _, rfl⟩ | ⟨_, _, rfl⟩ <;> exact ⟨rfl, fun c h => by cases h⟩

theorem quiet_updateAcStatus (s : State) (r : X2D.AcStatusData) : ∀ e ∈ (updateAcStatus s r).2, Quiet e := by
  unfold updateAcStatus
  split
  · intro e he; cases he
  · split
    · intro e he; cases he
    · intro e he
      simp only [List.mem_append] at he
      rcases he with he | he
      · split at he
        · simp only [List.mem_singleton] at he; subst he; exact ⟨rfl, fun c h => by cases h⟩
        · cases he
      · exact quiet_notifyAcAll _ e he

theorem quiet_updateAcTimer (s : State) (r : AcTimerStatusData) : ∀ e ∈ (updateAcTimer s r).2, Quiet e := by
  unfold updateAcTimer
  split
  · intro e he; cases he
  · split
    · intro e he; cases he
    · exact quiet_notifyAcAll _

theorem quiet_updateErrInfo (s : State) (r : FF10.AcErrorInformationMessage) :
    ∀ e ∈ (updateErrInfo s r).2, Quiet e := by
  unfold updateErrInfo
  split
  · intro e he; cases he
  · split
    · intro e he; cases he
    · exact quiet_notifyAcAll _

theorem quiet_updateGroupStatus (s : State) (g : X2B.GroupStatusData) :
    ∀ e ∈ (updateGroupStatus s g).2, Quiet e := by
  unfold updateGroupStatus
  split
  · intro e he; cases he
  · split
    · intro e he; cases he
    · intro e he
      simp only [List.mem_append, List.mem_map, List.mem_flatMap, notifyAcGeneral] at he
      rcases he with ⟨_, _, rfl⟩ | ⟨_, _, _, _, rfl⟩ <;> exact ⟨rfl, fun c h => by cases h⟩

theorem quiet_updateVersion (s : State) (v : FF30.ConsoleVersionMessage) :
    ∀ e ∈ (updateVersion s v).2, Quiet e := by
  unfold updateVersion
  split
  · intro e he; cases he
  · intro e he
    simp only [List.mem_map] at he
    obtain ⟨_, _, rfl⟩ := he
    exact ⟨rfl, fun c h => by cases h⟩

theorem hsSends_foldStatus (s : State) (l : List X2D.AcStatusData) : hsSends (foldEv updateAcStatus s l).2 = [] :=
  hsSends_quiet (foldEv_events _ _ quiet_updateAcStatus s l)

theorem hsSends_foldTimer (s : State) (l : List AcTimerStatusData) : hsSends (foldEv updateAcTimer s l).2 = [] :=
  hsSends_quiet (foldEv_events _ _ quiet_updateAcTimer s l)

theorem hsSends_foldGroup (s : State) (l : List X2B.GroupStatusData) : hsSends (foldEv updateGroupStatus s l).2 = [] :=
  hsSends_quiet (foldEv_events _ _ quiet_updateGroupStatus s l)

theorem st_foldStatus (s : State) (l : List X2D.AcStatusData) : (foldEv updateAcStatus s l).1.st = s.st := by
  rw [foldEv_frame_ac _ updateAcStatus_frame]

theorem st_foldTimer (s : State) (l : List AcTimerStatusData) : (foldEv updateAcTimer s l).1.st = s.st := by
  rw [foldEv_frame_ac _ updateAcTimer_frame]

theorem st_foldGroup (s : State) (l : List X2B.GroupStatusData) : (foldEv updateGroupStatus s l).1.st = s.st := by
  rw [foldEv_frame_zone _ updateGroupStatus_frame]

theorem st_hbOnMessage (s : State) (m : RMsg) : (hbOnMessage s m).st = s.st := by
  unfold hbOnMessage; split <;> rfl

theorem st_updateVersion (s : State) (v : FF30.ConsoleVersionMessage) : (updateVersion s v).1.st = s.st := by
  unfold updateVersion; split <;> rfl

theorem st_updateErrInfo (s : State) (e : FF10.AcErrorInformationMessage) : (updateErrInfo s e).1.st = s.st := by
  rw [updateErrInfo_frame]

theorem st_processAbility (s : State) (single : Bool) (l : List FF11.AcAbility) :
    (processAbility s single l).1.st = s.st := by
  induction l generalizing s with
  | nil => rfl
  | cons ab rest ih =>
    simp only [processAbility]
    cases ha : addAc s single ab with
    | none => rfl
    | some s' =>
      simp only
      rw [ih]
      unfold addAc at ha
      cases hz : zonesForAbility s single ab with
      | none => simp [hz] at ha
      | some zs =>
        cases hm : mkAc ab zs with
        | none => simp [hz, hm] at ha
        | some a => simp [hz, hm] at ha; subst ha; rfl

theorem st_enterConnected (s : State) : (enterConnected s).1.st = .CONNECTED := by
  simp only [enterConnected, hbStart]
  split <;> rfl

/-- **A message that is not of the answering kind never advances the handshake and makes the API send nothing
    but error-information requests** (any state; this covers unsolicited, duplicate, premature and unknown
    messages). -/
theorem recv_not_answer (s : State) (m : RMsg) (h : answerKind s.st m = false) :
    (recv s m).1.st = s.st ∧ hsSends (recv s m).2 = [] ∧ ∀ c, Ev.subscriberExc c ∉ (recv s m).2 := by
  unfold recv
  simp only [st_hbOnMessage]
  split
  · cases m with
    | extended sub =>
      cases sub with
      | consoleVer v =>
        cases v with
        | message v =>
          simp only [onMessage]
          split
          · next hs => simp [hs, answerKind] at h
          · split
            · simp [st_updateVersion, hsSends_quiet (quiet_updateVersion s v)]
              intro c hc; exact (quiet_updateVersion s v _ hc).2 c rfl
            · simp [hsSends]
        | request => simp [onMessage, hsSends]
      | groupNames n =>
        cases n with
        | message n =>
          simp only [onMessage]
          split
          · next hs => simp [hs, answerKind] at h
          · simp [hsSends]
        | request r => simp [onMessage, hsSends]
      | acAbility a =>
        cases a with
        | ability acs =>
          simp only [onMessage]
          split
          · next hs => simp [hs, answerKind] at h
          · simp [hsSends]
        | request r => simp [onMessage, hsSends]
      | errInfo e =>
        cases e with
        | message e =>
          simp only [onMessage, st_updateErrInfo, List.append_nil, hsSends_quiet (quiet_updateErrInfo s e)]
          refine ⟨trivial, trivial, ?_⟩
          intro c hc; exact (quiet_updateErrInfo s e _ hc).2 c rfl
        | request r => simp [onMessage, hsSends]
      | quickTimer q => simp [onMessage, hsSends]
      | unsupported i r => simp [onMessage, hsSends]
    | groupCtrl c => simp [onMessage, hsSends]
    | groupStatus g =>
      cases g with
      | request => simp [onMessage, hsSends]
      | status l =>
        simp only [onMessage]
        split
        · next hs => simp [hs, answerKind] at h
        · split
          · simp only [st_foldGroup, List.append_nil, hsSends_foldGroup]
            refine ⟨rfl, trivial, ?_⟩
            intro c hc; exact (foldEv_events _ _ quiet_updateGroupStatus _ l _ hc).2 c rfl
          · simp [hsSends]
    | acCtrl c => simp [onMessage, hsSends]
    | acStatus a =>
      cases a with
      | request => simp [onMessage, hsSends]
      | status l =>
        simp only [onMessage]
        split
        · next hs => simp [hs, answerKind] at h
        · split
          · simp only [st_foldStatus, List.append_nil, hsSends_foldStatus]
            refine ⟨trivial, trivial, ?_⟩
            intro c hc; exact (foldEv_events _ _ quiet_updateAcStatus _ l _ hc).2 c rfl
          · simp [hsSends]
    | acTimerCtrl c =>
      simp only [onMessage, processTimers]
      split
      · next hs => simp [hs, answerKind] at h
      · split
        · simp only [st_foldTimer, List.append_nil, hsSends_foldTimer]
          refine ⟨trivial, trivial, ?_⟩
          intro c' hc; exact (foldEv_events _ _ quiet_updateAcTimer _ _ _ hc).2 c' rfl
        · simp [hsSends]
    | acTimerStatus t =>
      cases t with
      | request => simp [onMessage, hsSends]
      | status l =>
        simp only [onMessage, processTimers]
        split
        · next hs => simp [hs, answerKind] at h
        · split
          · simp only [st_foldTimer, List.append_nil, hsSends_foldTimer]
            refine ⟨trivial, trivial, ?_⟩
            intro c' hc; exact (foldEv_events _ _ quiet_updateAcTimer _ _ _ hc).2 c' rfl
          · simp [hsSends]
    | unsupported i r => simp [onMessage, hsSends]
  · simp [hsSends]

theorem noExc_of_quiet {l : List Ev} (h : ∀ e ∈ l, Quiet e) : ∀ c, Ev.subscriberExc c ∉ l :=
  fun c hc => (h _ hc).2 c rfl

/-- **the answer to the outstanding request** (for the ability message: one that names only known groups)
    **moves the handshake one state on and triggers exactly the next request** -/
theorem recv_answer (s : State) (hsub : s.subscribed = true) (m : RMsg) (h : answerKind s.st m = true)
    (hne : s.st ≠ .INIT_GROUP_STATUS)
    (hab : ∀ acs, m = .extended (.acAbility (.ability acs)) → (processAbility s (acs.length == 1) acs).2 = true) :
    (recv s m).1.st = nextState s.st ∧ hsSends (recv s m).2 = (requestOnLeaving s.st).toList ∧
    ∀ c, Ev.subscriberExc c ∉ (recv s m).2 := by
  unfold recv
  simp only [st_hbOnMessage, hsub, ↓reduceIte]
  cases m with
  | extended sub =>
    cases sub with
    | consoleVer v =>
      cases v with
      | message v =>
        cases hs : s.st <;> simp [answerKind, hs] at h
        simp [onMessage, hs, nextState, requestOnLeaving, hsSends, hsSend, namesRequest]
      | request => cases hs : s.st <;> simp [answerKind, hs] at h
    | groupNames n =>
      cases n with
      | message n =>
        cases hs : s.st <;> simp [answerKind, hs] at h
        simp [onMessage, hs, nextState, requestOnLeaving, hsSends, hsSend, abilityRequest]
      | request r => cases hs : s.st <;> simp [answerKind, hs] at h
    | acAbility a =>
      cases a with
      | ability acs =>
        cases hs : s.st <;> simp [answerKind, hs] at h
        have hok := hab acs rfl
        simp only [onMessage, hs, ↓reduceIte]
        cases hp : processAbility s (acs.length == 1) acs with
        | mk s' ok =>
          rw [hp] at hok
          simp only at hok
          subst hok
          simp [nextState, requestOnLeaving, hsSends, hsSend, acStatusRequest]
      | request r => cases hs : s.st <;> simp [answerKind, hs] at h
    | errInfo e => cases e <;> cases hs : s.st <;> simp [answerKind, hs] at h
    | quickTimer q => cases hs : s.st <;> simp [answerKind, hs] at h
    | unsupported i r => cases hs : s.st <;> simp [answerKind, hs] at h
  | groupCtrl c => cases hs : s.st <;> simp [answerKind, hs] at h
  | groupStatus g =>
    cases g with
    | request => cases hs : s.st <;> simp [answerKind, hs] at h
    | status l =>
      cases hs : s.st <;> simp [answerKind, hs] at h
      exact absurd hs hne
  | acCtrl c => cases hs : s.st <;> simp [answerKind, hs] at h
  | acStatus a =>
    cases a with
    | request => cases hs : s.st <;> simp [answerKind, hs] at h
    | status l =>
      cases hs : s.st <;> simp [answerKind, hs] at h
      simp only [onMessage, hs, ↓reduceIte, nextState, requestOnLeaving, hsSends_append, hsSends_foldStatus,
        List.append_nil, Option.toList]
      refine ⟨trivial, rfl, ?_⟩
      intro c hc
      simp only [List.mem_append, List.mem_singleton, reduceCtorEq, or_false] at hc
      exact noExc_of_quiet (foldEv_events _ _ quiet_updateAcStatus s l) c hc
  | acTimerCtrl c =>
    cases hs : s.st <;> simp [answerKind, hs] at h
    simp only [onMessage, processTimers, hs, ↓reduceIte, nextState, requestOnLeaving, hsSends_append, hsSends_foldTimer,
      List.append_nil, Option.toList]
    refine ⟨trivial, rfl, ?_⟩
    intro c' hc
    simp only [List.mem_append, List.mem_singleton, reduceCtorEq, or_false] at hc
    exact noExc_of_quiet (foldEv_events _ _ quiet_updateAcTimer s _) c' hc
  | acTimerStatus t =>
    cases t with
    | request => cases hs : s.st <;> simp [answerKind, hs] at h
    | status l =>
      cases hs : s.st <;> simp [answerKind, hs] at h
      simp only [onMessage, processTimers, hs, ↓reduceIte, nextState, requestOnLeaving, hsSends_append, hsSends_foldTimer,
        List.append_nil, Option.toList]
      refine ⟨trivial, rfl, ?_⟩
      intro c' hc
      simp only [List.mem_append, List.mem_singleton, reduceCtorEq, or_false] at hc
      exact noExc_of_quiet (foldEv_events _ _ quiet_updateAcTimer s _) c' hc
  | unsupported i r => cases hs : s.st <;> simp [answerKind, hs] at h

theorem hbStart_frame (s : State) : (hbStart s).1 = { s with hb := (hbStart s).1.hb } := by
  unfold hbStart; split <;> rfl

theorem hbStart_events (s : State) :
    (hbStart s).2 = (if hbIdle s.hb && s.sockConnected then [Ev.send .connected hbMessage] else []) := by
  unfold hbStart
  by_cases hi : hbIdle s.hb = true
  · simp [hi]
  · simp [hi]

theorem hbStart_running (s : State) : hbIdle (hbStart s).1.hb = false := by
  unfold hbStart
  by_cases hi : hbIdle s.hb = true
  · simp only [hi, ↓reduceIte]
    have h1 : s.hb.tl = .idle ∧ s.hb.hl = .idle := by
      simpa [hbIdle] using hi
    simp [hbApply, Heartbeat.step, h1.1, h1.2, Heartbeat.enterTimeout, Heartbeat.HB.emit, hbIdle]
  · simp only [hi, Bool.false_eq_true, ↓reduceIte]

theorem count_result_quiet {l : List Ev} (h : ∀ e ∈ l, Quiet e) (t : String) (hn : ∀ e ∈ l, ∀ t, e ≠ Ev.result t) :
    l.count (Ev.result t) = 0 :=
  List.count_eq_zero.mpr (fun hm => hn _ hm t rfl)

theorem noResult_updateGroupStatus (s : State) (g : X2B.GroupStatusData) :
    ∀ e ∈ (updateGroupStatus s g).2, ∀ t, e ≠ Ev.result t ∧ e ≠ Ev.hbStart := by
  unfold updateGroupStatus
  split
  · intro e he; cases he
  · split
    · intro e he; cases he
    · intro e he t
      simp only [List.mem_append, List.mem_map, List.mem_flatMap, notifyAcGeneral] at he
      rcases he with ⟨_, _, rfl⟩ | ⟨_, _, _, _, rfl⟩ <;> exact ⟨(fun h => by cases h), (fun h => by cases h)⟩

theorem recv_final_answer (s : State) (hsub : s.subscribed = true) (l : List X2B.GroupStatusData)
    (hs : s.st = .INIT_GROUP_STATUS) :
    (recv s (.groupStatus (.status l))).1.st = .CONNECTED ∧
    (recv s (.groupStatus (.status l))).1.initialised = true ∧
    (recv s (.groupStatus (.status l))).1.initWaits = [] ∧
    (recv s (.groupStatus (.status l))).1.pollCur = some (s.now + Api4.GROUP_STATUS_TIMEOUT) ∧
    hbIdle (recv s (.groupStatus (.status l))).1.hb = false ∧
    Ev.hbStart ∈ (recv s (.groupStatus (.status l))).2 ∧
    (recv s (.groupStatus (.status l))).2.count (Ev.result "init True") = s.initWaits.length ∧
    hsSends (recv s (.groupStatus (.status l))).2 =
      (if hbIdle s.hb && s.sockConnected then [hbMessage] else []) ∧
    ∀ c, Ev.subscriberExc c ∉ (recv s (.groupStatus (.status l))).2 := by
  have hb : ∀ t : State, (hbOnMessage t (.groupStatus (.status l))) = t := by
    intro t; simp [hbOnMessage, isHeartbeatResponse]
  have hfr := foldEv_frame_zone _ updateGroupStatus_frame s l
  generalize hz : (foldEv updateGroupStatus s l).1.zoneObjs = Z at hfr
  have hq := foldEv_events _ _ quiet_updateGroupStatus s l
  have hq2 := foldEv_events (fun e => ∀ t, e ≠ Ev.result t ∧ e ≠ Ev.hbStart) _ noResult_updateGroupStatus s l
  generalize hev : (foldEv updateGroupStatus s l).2 = E at hq hq2
  simp only [recv, hsub, ↓reduceIte, onMessage, hs, hb, List.append_nil, enterConnected]
  rw [hev, hfr]
  generalize hS : ({ ({ s with zoneObjs := Z } : State) with
    st := .CONNECTED, pollOrphans := s.pollOrphans ++ s.pollCur.toList,
    pollCur := some (s.now + Api4.GROUP_STATUS_TIMEOUT), initialised := true, initWaits := [] } : State) = S
  have h1 := hbStart_running S
  have h2 := hbStart_events S
  have h3 := hbStart_frame S
  have eS1 : S.hb = s.hb := by subst hS; rfl
  have eS2 : S.sockConnected = s.sockConnected := by subst hS; rfl
  simp only at h1 h2 h3 ⊢
  refine ⟨?_, ?_, ?_, ?_, h1, ?_, ?_, ?_, ?_⟩
  · rw [h3]; subst hS; rfl
  · rw [h3]; subst hS; rfl
  · rw [h3]; subst hS; rfl
  · rw [h3]; subst hS; rfl
  · simp
  · simp only [List.count_append, h2]
    have e1 : E.count (Ev.result "init True") = 0 :=
      List.count_eq_zero.mpr (fun hm => (hq2 _ hm "init True").1 rfl)
    have e2 : (List.map (fun x => Ev.result "init True") ({ s with zoneObjs := Z } : State).initWaits).count (Ev.result "init True")
        = s.initWaits.length := by
      show (List.map (fun x => Ev.result "init True") s.initWaits).count (Ev.result "init True") = _
      induction s.initWaits with
      | nil => rfl
      | cons x xs ih => simp [ih]
    rw [e1, e2]
    split <;> simp
  · simp only [hsSends_append, hsSends_quiet hq, h2, eS1, eS2]
    have e3 : hsSends (List.map (fun x => Ev.result "init True") ({ s with zoneObjs := Z } : State).initWaits) = [] := by
      apply hsSends_quiet
      intro e he
      simp only [List.mem_map] at he
      obtain ⟨_, _, rfl⟩ := he
      exact ⟨rfl, fun c h => by cases h⟩
    rw [e3]
    split <;> simp [hsSends, hsSend, hbMessage, versionRequest]
  · intro c hc
    simp only [List.mem_append, List.mem_cons, reduceCtorEq, List.mem_nil_iff, or_false, List.mem_map, and_false,
      exists_false, false_or, h2] at hc
    rcases hc with hc | hc
    · exact (hq _ hc).2 c rfl
    · split at hc <;> simp at hc

theorem recv_ability_keyerror (s : State) (hsub : s.subscribed = true) (acs : List FF11.AcAbility)
    (hs : s.st = .INIT_AC_ABILITY) (hf : (processAbility s (acs.length == 1) acs).2 = false) :
    (recv s (.extended (.acAbility (.ability acs)))).1.st = .INIT_AC_ABILITY ∧
    (recv s (.extended (.acAbility (.ability acs)))).2 = [Ev.subscriberExc "KeyError"] := by
  have hb : ∀ t : State, (hbOnMessage t (.extended (.acAbility (.ability acs)))).st = t.st := fun t => st_hbOnMessage _ _
  simp only [recv, hsub, ↓reduceIte, onMessage, hs, hb]
  cases hp : processAbility s (acs.length == 1) acs with
  | mk s' ok =>
    rw [hp] at hf
    simp only at hf
    subst hf
    have := st_processAbility s (acs.length == 1) acs
    rw [hp] at this
    simp only at this ⊢
    exact ⟨this.trans hs, rfl⟩

/-- what no message can change -/
structure SockView where
  subs : List Sub
  sockOpen : Bool
  sockConnected : Bool
  subscribed : Bool
  now : Nat
  airtouchId : Bytes

def sockView (s : State) : SockView :=
  { subs := s.subs, sockOpen := s.sockOpen, sockConnected := s.sockConnected, subscribed := s.subscribed,
    now := s.now, airtouchId := s.airtouchId }

theorem sockView_processGroupNames (s : State) (l : List (Nat × Bytes)) : sockView (processGroupNames s l) = sockView s := by
  unfold processGroupNames
  induction l generalizing s with
  | nil => rfl
  | cons p ps ih => rw [List.foldl_cons, ih]; rfl

theorem sockView_processAbility (s : State) (single : Bool) (l : List FF11.AcAbility) :
    sockView (processAbility s single l).1 = sockView s := by
  induction l generalizing s with
  | nil => rfl
  | cons ab rest ih =>
    simp only [processAbility]
    cases ha : addAc s single ab with
    | none => rfl
    | some s' =>
      simp only
      rw [ih]
      unfold addAc at ha
      cases hz : zonesForAbility s single ab with
      | none => simp [hz] at ha
      | some zs =>
        cases hm : mkAc ab zs with
        | none => simp [hz, hm] at ha
        | some a => simp [hz, hm] at ha; subst ha; rfl

theorem sockView_foldStatus (s : State) (l : List X2D.AcStatusData) : sockView (foldEv updateAcStatus s l).1 = sockView s := by
  rw [foldEv_frame_ac _ updateAcStatus_frame]; rfl
theorem sockView_foldTimer (s : State) (l : List AcTimerStatusData) : sockView (foldEv updateAcTimer s l).1 = sockView s := by
  rw [foldEv_frame_ac _ updateAcTimer_frame]; rfl
theorem sockView_foldGroup (s : State) (l : List X2B.GroupStatusData) : sockView (foldEv updateGroupStatus s l).1 = sockView s := by
  rw [foldEv_frame_zone _ updateGroupStatus_frame]; rfl
theorem sockView_updateErrInfo (s : State) (e : FF10.AcErrorInformationMessage) : sockView (updateErrInfo s e).1 = sockView s := by
  rw [updateErrInfo_frame]; rfl
theorem sockView_updateVersion (s : State) (v : FF30.ConsoleVersionMessage) : sockView (updateVersion s v).1 = sockView s := by
  unfold updateVersion; split <;> rfl
theorem sockView_hbOnMessage (s : State) (m : RMsg) : sockView (hbOnMessage s m) = sockView s := by
  unfold hbOnMessage; split <;> rfl
theorem sockView_enterConnected (s : State) : sockView (enterConnected s).1 = sockView s := by
  unfold enterConnected; simp only; rw [hbStart_frame]; rfl

theorem sockView_processTimers (s : State) (l : List AcTimerStatusData) : sockView (processTimers s l).1 = sockView s := by
  unfold processTimers
  split
  · exact sockView_foldTimer s l
  · split
    · exact sockView_foldTimer s l
    · rfl

theorem sockView_onMessage (s : State) (m : RMsg) : sockView (onMessage s m).1 = sockView s := by
  cases m with
  | extended sub =>
    cases sub with
    | consoleVer v =>
      cases v with
      | message v =>
        simp only [onMessage]
        split
        · rfl
        · split
          · exact sockView_updateVersion s v
          · rfl
      | request => rfl
    | groupNames n =>
      cases n with
      | message n =>
        simp only [onMessage]
        split
        · exact sockView_processGroupNames s _
        · rfl
      | request r => rfl
    | acAbility a =>
      cases a with
      | ability acs =>
        simp only [onMessage]
        split
        · have := sockView_processAbility s (acs.length == 1) acs
          split
          · next s' heq => rw [heq] at this; exact this
          · next s' heq => rw [heq] at this; exact this
        · rfl
      | request r => rfl
    | errInfo e =>
      cases e with
      | message e => exact sockView_updateErrInfo s e
      | request r => rfl
    | quickTimer q => rfl
    | unsupported i r => rfl
  | groupCtrl c => rfl
  | groupStatus g =>
    cases g with
    | request => rfl
    | status l =>
      simp only [onMessage]
      split
      · rw [sockView_enterConnected]; exact sockView_foldGroup s l
      · split
        · exact sockView_foldGroup (rearmPolls s) l
        · rfl
  | acCtrl c => rfl
  | acStatus a =>
    cases a with
    | request => rfl
    | status l =>
      simp only [onMessage]
      split
      · exact sockView_foldStatus s l
      · split
        · exact sockView_foldStatus s l
        · rfl
  | acTimerCtrl c => exact sockView_processTimers s _
  | acTimerStatus t =>
    cases t with
    | request => rfl
    | status l => exact sockView_processTimers s _
  | unsupported i r => rfl

theorem sockView_recv (s : State) (m : RMsg) : sockView (recv s m).1 = sockView s := by
  unfold recv
  simp only [sockView_hbOnMessage]
  split
  · exact sockView_onMessage s m
  · rfl

/-- ops that are events from the socket other than "connection established": arriving frames / messages and
    the loss of the connection -/
def passive : Op → Bool
  | .recv _ => true
  | .msg _ _ => true
  | .conn false => true
  | _ => false

theorem requestOnLeaving_index (st : AState) (h1 : 1 ≤ stage st) (h2 : stage st ≤ 6) :
    requestOnLeaving st = handshakeRequests[stage st - 1]? := by
  cases st <;> simp [stage] at h1 h2 <;> rfl

theorem stage_nextState (st : AState) (h1 : 1 ≤ stage st) (h2 : stage st ≤ 7) : stage (nextState st) = stage st + 1 := by
  cases st <;> simp [stage] at h1 h2 <;> rfl

theorem answerKind_stage (st : AState) (m : RMsg) (h : answerKind st m = true) : 2 ≤ stage st ∧ stage st ≤ 7 := by
  cases st <;> simp [answerKind] at h <;> simp [stage]

/-- one passive step: nothing happens to the handshake, or it advances by one state sending exactly the next
    request, or it completes -/
theorem passive_step (s : State) (hsub : s.subscribed = true) (op : Op) (hp : passive op = true) :
    (apiStep s op).1.subscribed = true ∧
    (((apiStep s op).1.st = s.st ∧ hsSends (apiStep s op).2 = []) ∨
     (stage (apiStep s op).1.st = stage s.st + 1 ∧ 2 ≤ stage s.st ∧ stage s.st ≤ 6 ∧
        (∃ r, handshakeRequests[stage s.st - 1]? = some r ∧ hsSends (apiStep s op).2 = [r])) ∨
     (s.st = .INIT_GROUP_STATUS ∧ (apiStep s op).1.st = .CONNECTED)) := by
  have hrecv : ∀ m, (recv s m).1.subscribed = true ∧
      (((recv s m).1.st = s.st ∧ hsSends (recv s m).2 = []) ∨
       (stage (recv s m).1.st = stage s.st + 1 ∧ 2 ≤ stage s.st ∧ stage s.st ≤ 6 ∧
          (∃ r, handshakeRequests[stage s.st - 1]? = some r ∧ hsSends (recv s m).2 = [r])) ∨
       (s.st = .INIT_GROUP_STATUS ∧ (recv s m).1.st = .CONNECTED)) := by
    intro m
    refine ⟨(congrArg SockView.subscribed (sockView_recv s m)).trans hsub, ?_⟩
    cases hk : answerKind s.st m with
    | false =>
      obtain ⟨h1, h2, _⟩ := recv_not_answer s m hk
      exact Or.inl ⟨h1, h2⟩
    | true =>
      obtain ⟨hs1, hs2⟩ := answerKind_stage _ _ hk
      by_cases hg : s.st = .INIT_GROUP_STATUS
      · have : ∃ l, m = .groupStatus (.status l) := by
          rw [hg] at hk
          cases m with
          | groupStatus g => cases g with
            | status l => exact ⟨l, rfl⟩
            | request => simp [answerKind] at hk
          | extended sub => simp [answerKind] at hk
          | _ => simp [answerKind] at hk
        obtain ⟨l, rfl⟩ := this
        exact Or.inr (Or.inr ⟨hg, (recv_final_answer s hsub l hg).1⟩)
      · have hs6 : stage s.st ≤ 6 := by
          cases hst : s.st <;> simp [hst, stage] at hs2 ⊢ <;> exact absurd hst hg
        by_cases hab : ∀ acs, m = .extended (.acAbility (.ability acs)) → (processAbility s (acs.length == 1) acs).2 = true
        · obtain ⟨h1, h2, _⟩ := recv_answer s hsub m hk hg hab
          refine Or.inr (Or.inl ⟨?_, hs1, hs6, ?_⟩)
          · rw [h1, stage_nextState _ (by omega) hs2]
          · rw [h2, requestOnLeaving_index _ (by omega) hs6]
            cases hst : s.st <;> simp [hst, stage] at hs1 hs6 ⊢ <;> exact ⟨_, rfl⟩
        · have : ∃ acs, m = .extended (.acAbility (.ability acs)) ∧ (processAbility s (acs.length == 1) acs).2 = false := by
            apply Classical.byContradiction
            intro hcon
            apply hab
            intro acs hm
            cases hpa : (processAbility s (acs.length == 1) acs).2 with
            | true => rfl
            | false => exact absurd ⟨acs, hm, hpa⟩ hcon
          obtain ⟨acs, rfl, hf⟩ := this
          have hst : s.st = .INIT_AC_ABILITY := by
            cases hs : s.st <;> simp [answerKind, hs] at hk
            rfl
          obtain ⟨h1, h2⟩ := recv_ability_keyerror s hsub acs hst hf
          exact Or.inl ⟨h1.trans hst.symm, by rw [h2]; rfl⟩
  cases op with
  | recv m => exact hrecv m
  | msg mid payload =>
    simp only [apiStep]
    split
    · exact hrecv _
    · exact ⟨hsub, Or.inl ⟨rfl, rfl⟩⟩
  | conn up =>
    cases up with
    | true => simp [passive] at hp
    | false =>
      simp only [apiStep, onConn, hsub]
      exact ⟨by simp [hsub], Or.inl ⟨by simp, by simp [hsSends]⟩⟩
  | _ => simp [passive] at hp


theorem drop_pred_cons {α} (L : List α) (i : Nat) (hi : 1 ≤ i) (r : α) (h : L[i - 1]? = some r) :
    L.drop (i - 1) = r :: L.drop i := by
  obtain ⟨hlt, hr⟩ := List.getElem?_eq_some_iff.mp h
  rw [List.drop_eq_getElem_cons hlt, hr]
  congr 2
  omega

/-- **over any sequence of arriving frames / connection losses the handshake only moves forward, and as long as
    it is not complete the requests sent (error-information requests excepted) are exactly the handshake
    requests between the first and the last state, in order** -/
theorem passive_run (s : State) (hsub : s.subscribed = true) (ops : List Op) (hops : ∀ op ∈ ops, passive op = true) :
    stage s.st ≤ stage (run s ops).1.st ∧ (run s ops).1.subscribed = true ∧
    (stage (run s ops).1.st ≤ 7 →
      hsSends (run s ops).2 =
        (handshakeRequests.drop (stage s.st - 1)).take (stage (run s ops).1.st - stage s.st)) := by
  induction ops generalizing s with
  | nil => simp [run, hsub, hsSends]
  | cons op ops ih =>
    obtain ⟨hsub1, hstep⟩ := passive_step s hsub op (hops op List.mem_cons_self)
    obtain ⟨ih1, ih2, ih3⟩ := ih (apiStep s op).1 hsub1 (fun o ho => hops o (List.mem_cons_of_mem _ ho))
    simp only [run, hsSends_append]
    rcases hstep with ⟨h1, h2⟩ | ⟨h1, h2, h3, r, h4, h5⟩ | ⟨h1, h2⟩
    · rw [h1] at ih1 ih3
      exact ⟨ih1, ih2, fun hle => by rw [h2, ih3 hle]; rfl⟩
    · rw [h1] at ih1 ih3
      refine ⟨by omega, ih2, fun hle => ?_⟩
      rw [h5, ih3 hle, drop_pred_cons handshakeRequests (stage s.st) (by omega) r h4]
      have : stage (run (apiStep s op).1 ops).1.st - stage s.st =
          (stage (run (apiStep s op).1 ops).1.st - (stage s.st + 1)) + 1 := by omega
      rw [this, List.take_succ_cons]
      simp
    · rw [h2] at ih1
      have e7 : stage s.st = 7 := by rw [h1]; rfl
      have e8 : 8 ≤ stage (run (apiStep s op).1 ops).1.st := ih1
      exact ⟨by omega, ih2, fun hle => by omega⟩

/-- the dictionaries and the initialised event -/
structure HsView where
  zoneDict : List (Nat × Nat)
  acDict : List (Nat × Nat)
  initialised : Bool
  initWaits : List Nat

def hsView (s : State) : HsView :=
  { zoneDict := s.zoneDict, acDict := s.acDict, initialised := s.initialised, initWaits := s.initWaits }

theorem hsView_hbOnMessage (s : State) (m : RMsg) : hsView (hbOnMessage s m) = hsView s := by
  unfold hbOnMessage; split <;> rfl
theorem hsView_foldStatus (s : State) (l : List X2D.AcStatusData) : hsView (foldEv updateAcStatus s l).1 = hsView s := by
  rw [foldEv_frame_ac _ updateAcStatus_frame]; rfl
theorem hsView_foldTimer (s : State) (l : List AcTimerStatusData) : hsView (foldEv updateAcTimer s l).1 = hsView s := by
  rw [foldEv_frame_ac _ updateAcTimer_frame]; rfl
theorem hsView_foldGroup (s : State) (l : List X2B.GroupStatusData) : hsView (foldEv updateGroupStatus s l).1 = hsView s := by
  rw [foldEv_frame_zone _ updateGroupStatus_frame]; rfl
theorem hsView_updateErrInfo (s : State) (e : FF10.AcErrorInformationMessage) : hsView (updateErrInfo s e).1 = hsView s := by
  rw [updateErrInfo_frame]; rfl
theorem hsView_updateVersion (s : State) (v : FF30.ConsoleVersionMessage) : hsView (updateVersion s v).1 = hsView s := by
  unfold updateVersion; split <;> rfl

/-- a message that is not the awaited answer leaves the dictionaries and the initialised event alone -/
theorem hsView_recv_not_answer (s : State) (m : RMsg) (h : answerKind s.st m = false) :
    hsView (recv s m).1 = hsView s := by
  unfold recv
  simp only [hsView_hbOnMessage]
  split
  · cases m with
    | extended sub =>
      cases sub with
      | consoleVer v =>
        cases v with
        | message v =>
          simp only [onMessage]
          split
          · next hs => simp [hs, answerKind] at h
          · split
            · exact hsView_updateVersion s v
            · rfl
        | request => rfl
      | groupNames n =>
        cases n with
        | message n =>
          simp only [onMessage]
          split
          · next hs => simp [hs, answerKind] at h
          · rfl
        | request r => rfl
      | acAbility a =>
        cases a with
        | ability acs =>
          simp only [onMessage]
          split
          · next hs => simp [hs, answerKind] at h
          · rfl
        | request r => rfl
      | errInfo e =>
        cases e with
        | message e => exact hsView_updateErrInfo s e
        | request r => rfl
      | quickTimer q => rfl
      | unsupported i r => rfl
    | groupCtrl c => rfl
    | groupStatus g =>
      cases g with
      | request => rfl
      | status l =>
        simp only [onMessage]
        split
        · next hs => simp [hs, answerKind] at h
        · split
          · exact hsView_foldGroup (rearmPolls s) l
          · rfl
    | acCtrl c => rfl
    | acStatus a =>
      cases a with
      | request => rfl
      | status l =>
        simp only [onMessage]
        split
        · next hs => simp [hs, answerKind] at h
        · split
          · exact hsView_foldStatus s l
          · rfl
    | acTimerCtrl c =>
      simp only [onMessage, processTimers]
      split
      · next hs => simp [hs, answerKind] at h
      · split
        · exact hsView_foldTimer s _
        · rfl
    | acTimerStatus t =>
      cases t with
      | request => rfl
      | status l =>
        simp only [onMessage, processTimers]
        split
        · next hs => simp [hs, answerKind] at h
        · split
          · exact hsView_foldTimer s _
          · rfl
    | unsupported i r => rfl
  · rfl

/-- the op delivers a message of the class that answers the request outstanding in state `st` -/
def answers (st : AState) : Op → Bool
  | .recv m => answerKind st m
  | .msg mid payload =>
    match decodeTop mid payload with
    | .ok m => answerKind st m
    | .error _ => false
  | _ => false

/-- anything that is not the awaited answer - unsolicited status, duplicates of earlier answers, premature
    later answers, requests, unknown or undecodable frames, connection losses -/
def Junk (st : AState) (ops : List Op) : Prop := ∀ op ∈ ops, passive op = true ∧ answers st op = false

theorem junk_step (s : State) (op : Op) (hp : passive op = true) (ha : answers s.st op = false) :
    (apiStep s op).1.st = s.st ∧ (apiStep s op).1.subscribed = s.subscribed ∧
    hsView (apiStep s op).1 = hsView s ∧ hsSends (apiStep s op).2 = [] ∧
    (∀ c, Ev.subscriberExc c ∉ (apiStep s op).2) := by
  cases op with
  | recv m =>
    obtain ⟨h1, h2, h3⟩ := recv_not_answer s m ha
    exact ⟨h1, congrArg SockView.subscribed (sockView_recv s m), hsView_recv_not_answer s m ha, h2, h3⟩
  | msg mid payload =>
    simp only [apiStep]
    simp only [answers] at ha
    split
    · next m hm =>
      rw [hm] at ha
      obtain ⟨h1, h2, h3⟩ := recv_not_answer s m ha
      exact ⟨h1, congrArg SockView.subscribed (sockView_recv s m), hsView_recv_not_answer s m ha, h2, h3⟩
    · exact ⟨rfl, rfl, rfl, rfl, by simp⟩
  | conn up =>
    cases up with
    | true => simp [passive] at hp
    | false =>
      simp only [apiStep, onConn]
      split
      · exact ⟨rfl, rfl, rfl, rfl, by simp⟩
      · simp [hsSends, hsView]
  | _ => simp [passive] at hp

theorem junk_run (s : State) (ops : List Op) (hj : Junk s.st ops) :
    (run s ops).1.st = s.st ∧ (run s ops).1.subscribed = s.subscribed ∧
    hsView (run s ops).1 = hsView s ∧ hsSends (run s ops).2 = [] ∧
    (∀ c, Ev.subscriberExc c ∉ (run s ops).2) := by
  induction ops generalizing s with
  | nil => exact ⟨rfl, rfl, rfl, rfl, by simp [run]⟩
  | cons op ops ih =>
    obtain ⟨hp, ha⟩ := hj op List.mem_cons_self
    obtain ⟨h1, h2, h3, h4, h5⟩ := junk_step s op hp ha
    have hj' : Junk (apiStep s op).1.st ops := by
      rw [h1]; exact fun o ho => hj o (List.mem_cons_of_mem _ ho)
    obtain ⟨i1, i2, i3, i4, i5⟩ := ih (apiStep s op).1 hj'
    simp only [run, hsSends_append]
    refine ⟨i1.trans h1, i2.trans h2, i3.trans h3, by rw [h4, i4]; rfl, ?_⟩
    intro c hc
    rcases List.mem_append.mp hc with hc | hc
    · exact h5 c hc
    · exact i5 c hc

theorem run_append (s : State) (a b : List Op) :
    run s (a ++ b) = ((run (run s a).1 b).1, (run s a).2 ++ (run (run s a).1 b).2) := by
  induction a generalizing s with
  | nil => simp [run]
  | cons x xs ih => simp [run, ih, List.append_assoc]


/-- junk, then the answer: one stage of the handshake -/
def hsScript (steps : List (List Op × RMsg)) : List Op := steps.flatMap fun p => p.1 ++ [Op.recv p.2]

/-- each stage's junk is junk for that stage and its answer is of the answering class -/
def ValidSteps : AState → List (List Op × RMsg) → Prop
  | _, [] => True
  | st, (j, a) :: rest => Junk st j ∧ answerKind st a = true ∧ ValidSteps (nextState st) rest

theorem hsScript_cons (j : List Op) (a : RMsg) (rest : List (List Op × RMsg)) :
    hsScript ((j, a) :: rest) = j ++ ([Op.recv a] ++ hsScript rest) := by
  simp [hsScript, List.append_assoc]

/-- **liveness of the handshake**: whatever is interleaved, if each request is eventually followed by a message
    of the answering class (for the ability request: one whose groups are all named), the state machine moves on
    by exactly one state per answer; when `CONNECTED` is reached the initialised event is set and the heartbeat
    runs; no handler raises -/
theorem handshake_run (s : State) (hsub : s.subscribed = true) (steps : List (List Op × RMsg))
    (hv : ValidSteps s.st steps) (hs2 : 2 ≤ stage s.st) (hlen : stage s.st + steps.length ≤ 8)
    (hab : ∀ pre j acs post, steps = pre ++ (j, .extended (.acAbility (.ability acs))) :: post →
      (processAbility (run s (hsScript pre ++ j)).1 (acs.length == 1) acs).2 = true) :
    stage (run s (hsScript steps)).1.st = stage s.st + steps.length ∧
    (run s (hsScript steps)).1.subscribed = true ∧
    (∀ c, Ev.subscriberExc c ∉ (run s (hsScript steps)).2) ∧
    (steps ≠ [] → stage s.st + steps.length = 8 →
      (run s (hsScript steps)).1.initialised = true ∧ hbIdle (run s (hsScript steps)).1.hb = false ∧
      Ev.hbStart ∈ (run s (hsScript steps)).2) := by
  induction steps generalizing s with
  | nil => exact ⟨rfl, hsub, by simp [hsScript, run], fun h => absurd rfl h⟩
  | cons p rest ih =>
    obtain ⟨j, a⟩ := p
    obtain ⟨hj, hk, hvr⟩ := hv
    rw [hsScript_cons, run_append, run_append]
    obtain ⟨j1, j2, j3, j4, j5⟩ := junk_run s j hj
    generalize hs1 : (run s j).1 = s1 at j1 j2 j3 j4 j5
    have hsub1 : s1.subscribed = true := j2.trans hsub
    have hk1 : answerKind s1.st a = true := by rw [j1]; exact hk
    simp only [run, List.append_nil]
    have hrun1 : ∀ t : State, (run t [Op.recv a]) = ((recv t a).1, (recv t a).2) := by
      intro t; simp [run, apiStep]
    by_cases hg : s.st = .INIT_GROUP_STATUS
    · -- the last answer
      have hrest : rest = [] := by
        have : stage s.st = 7 := by rw [hg]; rfl
        simp only [List.length_cons] at hlen
        cases rest with
        | nil => rfl
        | cons x xs => simp only [List.length_cons] at hlen; omega
      subst hrest
      have hg1 : s1.st = .INIT_GROUP_STATUS := j1.trans hg
      have : ∃ l, a = .groupStatus (.status l) := by
        rw [hg] at hk
        cases a with
        | groupStatus g => cases g with
          | status l => exact ⟨l, rfl⟩
          | request => simp [answerKind] at hk
        | extended sub => simp [answerKind] at hk
        | _ => simp [answerKind] at hk
      obtain ⟨l, rfl⟩ := this
      obtain ⟨f1, f2, f3, f4, f5, f6, f7, f8, f9⟩ := recv_final_answer s1 hsub1 l hg1
      simp only [hsScript, List.flatMap_nil, run, List.append_nil, apiStep]
      refine ⟨?_, ?_, ?_, ?_⟩
      · rw [f1, hg]; rfl
      · exact (congrArg SockView.subscribed (sockView_recv s1 _)).trans hsub1
      · intro c hc
        rcases List.mem_append.mp hc with hc | hc
        · exact j5 c hc
        · exact f9 c hc
      · intro _ _
        exact ⟨f2, f5, List.mem_append_right _ f6⟩
    · have hg1 : s1.st ≠ .INIT_GROUP_STATUS := by rw [j1]; exact hg
      have hab1 : ∀ acs, a = .extended (.acAbility (.ability acs)) →
          (processAbility s1 (acs.length == 1) acs).2 = true := by
        intro acs ha
        have := hab [] j acs rest (by rw [ha]; rfl)
        simpa [hsScript, hs1] using this
      obtain ⟨a1, a2, a3⟩ := recv_answer s1 hsub1 a hk1 hg1 hab1
      generalize hs2' : (recv s1 a).1 = s2 at a1
      have hsub2 : s2.subscribed = true := by
        rw [← hs2']; exact (congrArg SockView.subscribed (sockView_recv s1 _)).trans hsub1
      obtain ⟨ks1, ks2⟩ := answerKind_stage _ _ hk
      have hst2 : stage s2.st = stage s.st + 1 := by
        rw [a1, j1, stage_nextState _ (by omega) ks2]
      have hv2 : ValidSteps s2.st rest := by rw [a1, j1]; exact hvr
      have hab2 : ∀ pre j' acs post, rest = pre ++ (j', .extended (.acAbility (.ability acs))) :: post →
          (processAbility (run s2 (hsScript pre ++ j')).1 (acs.length == 1) acs).2 = true := by
        intro pre j' acs post hr
        have := hab ((j, a) :: pre) j' acs post (by rw [hr]; rfl)
        rw [hsScript_cons, List.append_assoc, run_append, hs1, List.append_assoc, run_append] at this
        simpa [run, apiStep, hs2'] using this
      simp only [List.length_cons] at hlen ⊢
      obtain ⟨i1, i2, i3, i4⟩ := ih s2 hsub2 hv2 (by omega) (by omega) hab2
      simp only [apiStep, hs2']
      refine ⟨by omega, i2, ?_, ?_⟩
      · intro c hc
        rcases List.mem_append.mp hc with hc | hc
        · exact j5 c hc
        · rcases List.mem_append.mp hc with hc | hc
          · exact a3 c hc
          · exact i3 c hc
      · intro _ h8
        have hne : rest ≠ [] := by
          intro hr; subst hr
          simp only [List.length_nil] at h8
          have : stage s.st = 7 := by omega
          cases hst : s.st <;> simp [hst, stage] at this
          exact hg hst
        obtain ⟨k1, k2, k3⟩ := i4 hne (by omega)
        exact ⟨k1, k2, List.mem_append_right _ (List.mem_append_right _ k3)⟩

/-- the initialised event and the pending `init()` calls -/
def initView (s : State) : Bool × List Nat := (s.initialised, s.initWaits)

theorem initView_of_hsView {s t : State} (h : hsView s = hsView t) : initView s = initView t := by
  have h1 : s.initialised = t.initialised := congrArg HsView.initialised h
  have h2 : s.initWaits = t.initWaits := congrArg HsView.initWaits h
  simp [initView, h1, h2]

theorem initView_processGroupNames (s : State) (l : List (Nat × Bytes)) : initView (processGroupNames s l) = initView s := by
  unfold processGroupNames
  induction l generalizing s with
  | nil => rfl
  | cons p ps ih => rw [List.foldl_cons, ih]; rfl

theorem initView_processAbility (s : State) (single : Bool) (l : List FF11.AcAbility) :
    initView (processAbility s single l).1 = initView s := by
  induction l generalizing s with
  | nil => rfl
  | cons ab rest ih =>
    simp only [processAbility]
    cases ha : addAc s single ab with
    | none => rfl
    | some s' =>
      simp only
      rw [ih]
      unfold addAc at ha
      cases hz : zonesForAbility s single ab with
      | none => simp [hz] at ha
      | some zs =>
        cases hm : mkAc ab zs with
        | none => simp [hz, hm] at ha
        | some a => simp [hz, hm] at ha; subst ha; rfl

/-- only the step into `CONNECTED` touches the initialised event and the pending `init()` calls -/
theorem initView_recv (s : State) (m : RMsg) (h : s.st ≠ .INIT_GROUP_STATUS) : initView (recv s m).1 = initView s := by
  cases hk : answerKind s.st m with
  | false => exact initView_of_hsView (hsView_recv_not_answer s m hk)
  | true =>
    unfold recv
    have hb : ∀ t : State, initView (hbOnMessage t m) = initView t := fun t => initView_of_hsView (hsView_hbOnMessage t m)
    simp only [hb]
    split
    · cases m with
      | extended sub =>
        cases sub with
        | consoleVer v =>
          cases v with
          | message v =>
            simp only [onMessage]
            split
            · rfl
            · split
              · exact initView_of_hsView (hsView_updateVersion s v)
              · rfl
          | request => rfl
        | groupNames n =>
          cases n with
          | message n =>
            simp only [onMessage]
            split
            · exact initView_processGroupNames s _
            · rfl
          | request r => rfl
        | acAbility a =>
          cases a with
          | ability acs =>
            simp only [onMessage]
            split
            · have := initView_processAbility s (acs.length == 1) acs
              split
              · next s' heq => rw [heq] at this; exact this
              · next s' heq => rw [heq] at this; exact this
            · rfl
          | request r => rfl
        | errInfo e =>
          cases e with
          | message e => exact initView_of_hsView (hsView_updateErrInfo s e)
          | request r => rfl
        | quickTimer q => rfl
        | unsupported i r => rfl
      | groupCtrl c => rfl
      | groupStatus g =>
        cases g with
        | request => rfl
        | status l =>
          simp only [onMessage]
          split
          · next hs => exact absurd hs h
          · split
            · exact initView_of_hsView (hsView_foldGroup (rearmPolls s) l)
            · rfl
      | acCtrl c => rfl
      | acStatus a =>
        cases a with
        | request => rfl
        | status l =>
          simp only [onMessage]
          split
          · exact initView_of_hsView (hsView_foldStatus s l)
          · split
            · exact initView_of_hsView (hsView_foldStatus s l)
            · rfl
      | acTimerCtrl c =>
        simp only [onMessage, processTimers]
        split
        · exact initView_of_hsView (hsView_foldTimer s _)
        · split
          · exact initView_of_hsView (hsView_foldTimer s _)
          · rfl
      | acTimerStatus t =>
        cases t with
        | request => rfl
        | status l =>
          simp only [onMessage, processTimers]
          split
          · exact initView_of_hsView (hsView_foldTimer s _)
          · split
            · exact initView_of_hsView (hsView_foldTimer s _)
            · rfl
      | unsupported i r => rfl
    · rfl

theorem initView_passive_step (s : State) (op : Op) (hp : passive op = true)
    (h : s.st ≠ .INIT_GROUP_STATUS) : initView (apiStep s op).1 = initView s := by
  cases op with
  | recv m => exact initView_recv s m h
  | msg mid payload =>
    simp only [apiStep]
    split
    · exact initView_recv s _ h
    · rfl
  | conn up =>
    cases up with
    | true => simp [passive] at hp
    | false =>
      simp only [apiStep, onConn]
      split <;> rfl
  | _ => simp [passive] at hp

theorem answers_final (s : State) (hsub : s.subscribed = true) (op : Op) (hg : s.st = .INIT_GROUP_STATUS)
    (ha : answers s.st op = true) : (apiStep s op).1.st = .CONNECTED := by
  have key : ∀ m, answerKind s.st m = true → (recv s m).1.st = .CONNECTED := by
    intro m hk
    have : ∃ l, m = .groupStatus (.status l) := by
      rw [hg] at hk
      cases m with
      | groupStatus g => cases g with
        | status l => exact ⟨l, rfl⟩
        | request => simp [answerKind] at hk
      | extended sub => simp [answerKind] at hk
      | _ => simp [answerKind] at hk
    obtain ⟨l, rfl⟩ := this
    exact (recv_final_answer s hsub l hg).1
  cases op with
  | recv m => exact key m ha
  | msg mid payload =>
    simp only [apiStep]
    simp only [answers] at ha
    split
    · next m hm => rw [hm] at ha; exact key m ha
    · next e he => rw [he] at ha; cases ha
  | _ => simp [answers] at ha

theorem initView_passive_step' (s : State) (hsub : s.subscribed = true) (op : Op) (hp : passive op = true) :
    (apiStep s op).1.st = .CONNECTED ∧ s.st = .INIT_GROUP_STATUS ∨ initView (apiStep s op).1 = initView s := by
  by_cases hg : s.st = .INIT_GROUP_STATUS
  · cases ha : answers s.st op with
    | true => exact Or.inl ⟨answers_final s hsub op hg ha, hg⟩
    | false => exact Or.inr (initView_of_hsView (junk_step s op hp ha).2.2.1)
  · exact Or.inr (initView_passive_step s op hp hg)

/-- **while the handshake is incomplete, frames and connection losses leave the initialised event unset and the
    pending `init()` untouched** -/
theorem initView_passive_run (s : State) (hsub : s.subscribed = true) (ops : List Op)
    (hops : ∀ op ∈ ops, passive op = true) (hle : stage (run s ops).1.st ≤ 7) :
    initView (run s ops).1 = initView s := by
  induction ops generalizing s with
  | nil => rfl
  | cons op ops ih =>
    have hp := hops op List.mem_cons_self
    obtain ⟨hsub1, _⟩ := passive_step s hsub op hp
    have hmono := (passive_run (apiStep s op).1 hsub1 ops (fun o ho => hops o (List.mem_cons_of_mem _ ho))).1
    simp only [run] at hle ⊢
    rcases initView_passive_step' s hsub op hp with ⟨h1, _⟩ | h1
    · rw [h1] at hmono
      have : stage Api4.AirTouchState.CONNECTED = 8 := rfl
      omega
    · rw [ih (apiStep s op).1 hsub1 (fun o ho => hops o (List.mem_cons_of_mem _ ho)) hle, h1]

def initFalse : Ev := Ev.result "init False"

structure InitClock where
  initialised : Bool
  initWaits : List Nat
  now : Nat
deriving DecidableEq

def initClock (s : State) : InitClock := { initialised := s.initialised, initWaits := s.initWaits, now := s.now }

theorem initClock_fireHbTimeout (s : State) : initClock (fireHbTimeout s).1 = initClock s := by
  unfold fireHbTimeout
  split
  · split
    · split <;> rfl
    · rfl
  · rfl

theorem initClock_fireBeat (s : State) : initClock (fireBeat s).1 = initClock s := by
  unfold fireBeat
  split
  · split <;> rfl
  · rfl

/-- events a tick can produce: sends, `RESET`, `RESULT init …` - never a subscriber exception or a notification -/
def TickEv (e : Ev) : Prop := (∀ c, e ≠ Ev.subscriberExc c) ∧ e.isNotify = false

theorem tickEv_fireHbTimeout (s : State) : ∀ e ∈ (fireHbTimeout s).2, TickEv e ∧ e ≠ initFalse := by
  unfold fireHbTimeout
  split
  · split
    · split
      · intro e he; simp only [List.mem_singleton] at he; subst he
        exact ⟨⟨(fun c h => by cases h), rfl⟩, (fun h => by cases h)⟩
      · intro e he; cases he
    · intro e he; cases he
  · intro e he; cases he

theorem tickEv_fireBeat (s : State) : ∀ e ∈ (fireBeat s).2, TickEv e ∧ e ≠ initFalse := by
  unfold fireBeat
  split
  · split
    · split
      · intro e he; simp only [List.mem_singleton] at he; subst he
        exact ⟨⟨(fun c h => by cases h), rfl⟩, (fun h => by cases h)⟩
      · intro e he; cases he
    · intro e he; cases he
  · intro e he; cases he

theorem tickEv_firePoll (c o : Bool) (t d : Nat) : ∀ e ∈ (firePoll c o t d).2, TickEv e ∧ e ≠ initFalse := by
  unfold firePoll
  split
  · split
    · split
      · intro e he; simp only [List.mem_singleton] at he; subst he
        exact ⟨⟨(fun c h => by cases h), rfl⟩, (fun h => by cases h)⟩
      · intro e he; cases he
    · intro e he; cases he
  · intro e he; cases he

theorem tickEv_firePolls (s : State) : ∀ e ∈ (firePolls s).2, TickEv e ∧ e ≠ initFalse := by
  intro e he
  simp only [firePolls, List.mem_append, List.mem_flatMap, List.mem_map] at he
  rcases he with ⟨x, ⟨d, _, rfl⟩, hx⟩ | he
  · exact tickEv_firePoll _ _ _ _ e hx
  · split at he
    · next c hc =>
      simp only [Option.map_eq_some_iff] at hc
      obtain ⟨d, _, rfl⟩ := hc
      exact tickEv_firePoll _ _ _ _ e he
    · cases he

theorem count_zero_of {l : List Ev} (h : ∀ e ∈ l, TickEv e ∧ e ≠ initFalse) : l.count initFalse = 0 :=
  List.count_eq_zero.mpr (fun hm => (h _ hm).2 rfl)

theorem tick_init (s : State) (hi : s.initialised = false) :
    initClock (tick s).1 =
      { initialised := false, initWaits := s.initWaits.filter (fun d => !decide (d ≤ s.now + 1)), now := s.now + 1 } ∧
    (tick s).2.count initFalse = (s.initWaits.filter (fun d => decide (d ≤ s.now + 1))).length ∧
    (∀ e ∈ (tick s).2, TickEv e) := by
  unfold tick
  simp only
  have h1 := initClock_fireHbTimeout { s with now := s.now + 1, hb := { s.hb with now := s.now + 1 } }
  have q1 := tickEv_fireHbTimeout { s with now := s.now + 1, hb := { s.hb with now := s.now + 1 } }
  generalize (fireHbTimeout { s with now := s.now + 1, hb := { s.hb with now := s.now + 1 } }) = r1 at h1 q1
  have e1 : r1.1.initialised = false := (congrArg InitClock.initialised h1).trans hi
  have e2 : r1.1.initWaits = s.initWaits := congrArg InitClock.initWaits h1
  have e3 : r1.1.now = s.now + 1 := congrArg InitClock.now h1
  have q2 := tickEv_firePolls r1.1
  have h2 : initClock (firePolls r1.1).1 = initClock r1.1 := rfl
  generalize (firePolls r1.1) = r2 at h2 q2
  have f1 : r2.1.initialised = false := (congrArg InitClock.initialised h2).trans e1
  have f2 : r2.1.initWaits = s.initWaits := (congrArg InitClock.initWaits h2).trans e2
  have f3 : r2.1.now = s.now + 1 := (congrArg InitClock.now h2).trans e3
  have q4 := tickEv_fireBeat (fireInitWaits r2.1).1
  refine ⟨?_, ?_, ?_⟩
  · rw [initClock_fireBeat]
    simp [initClock, fireInitWaits, f1, f2, f3]
  · simp only [List.count_append, count_zero_of q1, count_zero_of q2, count_zero_of q4, Nat.zero_add, Nat.add_zero]
    simp only [fireInitWaits, f1, f2, f3]
    generalize (List.filter (fun d => decide (d ≤ s.now + 1)) s.initWaits) = L
    induction L with
    | nil => rfl
    | cons x xs ih => simp [initFalse, cBool] at ih ⊢; exact ih
  · intro e he
    simp only [List.mem_append] at he
    rcases he with ((he | he) | he) | he
    · exact (q1 e he).1
    · exact (q2 e he).1
    · simp only [fireInitWaits, List.mem_map] at he
      obtain ⟨_, _, rfl⟩ := he
      exact ⟨(fun c h => by cases h), rfl⟩
    · exact (q4 e he).1

/-- **`init()` times out**: with the initialised event unset and one `init()` waiting with deadline `d`, `adv n`
    reports `RESULT init False` exactly when the clock reaches `d` (once), the event stays unset, and the clock
    alone never raises into a subscriber or notifies anybody -/
theorem advance_init (n : Nat) (s : State) (d : Nat) (hi : s.initialised = false) (hw : s.initWaits = [d])
    (hd : s.now < d) :
    (advance n s).2.count initFalse = (if s.now + n < d then 0 else 1) ∧
    initClock (advance n s).1 =
      { initialised := false, initWaits := if s.now + n < d then [d] else [], now := s.now + n } ∧
    (∀ e ∈ (advance n s).2, TickEv e) := by
  induction n generalizing s with
  | zero =>
    simp only [advance, List.count_nil, Nat.add_zero, hd, ↓reduceIte]
    exact ⟨trivial, by simp [initClock, hi, hw], by intro e he; cases he⟩
  | succ n ih =>
    obtain ⟨t1, t2, t3⟩ := tick_init s hi
    simp only [advance, List.count_append, t2]
    have g1 : (tick s).1.initialised = false := congrArg InitClock.initialised t1
    have g2 : (tick s).1.initWaits = s.initWaits.filter (fun d => !decide (d ≤ s.now + 1)) := congrArg InitClock.initWaits t1
    have g3 : (tick s).1.now = s.now + 1 := congrArg InitClock.now t1
    have hall : ∀ e ∈ (tick s).2 ++ (advance n (tick s).1).2, TickEv e →
        True := fun _ _ _ => trivial
    by_cases hfire : d ≤ s.now + 1
    · -- the deadline is reached in this tick; afterwards nobody waits any more
      have hw' : (tick s).1.initWaits = [] := by rw [g2, hw]; simp [hfire]
      have rest : ∀ (k : Nat) (t : State), t.initialised = false → t.initWaits = [] →
          (advance k t).2.count initFalse = 0 ∧
          initClock (advance k t).1 = { initialised := false, initWaits := [], now := t.now + k } ∧
          (∀ e ∈ (advance k t).2, TickEv e) := by
        intro k
        induction k with
        | zero => intro t ht hwt; exact ⟨rfl, by simp [advance, initClock, ht, hwt], by intro e he; cases he⟩
        | succ k ihk =>
          intro t ht hwt
          obtain ⟨u1, u2, u3⟩ := tick_init t ht
          have v1 : (tick t).1.initialised = false := congrArg InitClock.initialised u1
          have v2 : (tick t).1.initWaits = [] := by
            have := congrArg InitClock.initWaits u1
            simp only [hwt, List.filter_nil] at this
            exact this
          have v3 : (tick t).1.now = t.now + 1 := congrArg InitClock.now u1
          obtain ⟨w1, w2, w3⟩ := ihk (tick t).1 v1 v2
          simp only [advance, List.count_append, u2, w1, hwt, List.filter_nil, List.length_nil]
          refine ⟨(by first | rfl | trivial), ?_, ?_⟩
          · rw [w2, v3]; congr 1; omega
          · intro e he
            rcases List.mem_append.mp he with he | he
            · exact u3 e he
            · exact w3 e he
      obtain ⟨r1, r2, r3⟩ := rest n (tick s).1 g1 hw'
      have hnot : ¬ s.now + (n + 1) < d := by omega
      simp only [hnot, ↓reduceIte, r1, hw, hfire, decide_true, List.filter_cons_of_pos, List.filter_nil, List.length_cons,
        List.length_nil]
      refine ⟨(by first | rfl | trivial), ?_, ?_⟩
      · rw [r2, g3]; congr 1; omega
      · intro e he
        rcases List.mem_append.mp he with he | he
        · exact t3 e he
        · exact r3 e he
    · have hw' : (tick s).1.initWaits = [d] := by rw [g2, hw]; simp [hfire]
      obtain ⟨i1, i2, i3⟩ := ih (tick s).1 g1 hw' (by omega)
      rw [g3] at i1 i2
      have hnn : s.now + 1 + n = s.now + (n + 1) := by omega
      rw [hnn] at i1 i2
      simp only [hw, hfire, decide_false, Bool.false_eq_true, not_false_eq_true, List.filter_cons_of_neg, List.filter_nil,
        List.length_nil, Nat.zero_add, i1]
      refine ⟨(by first | rfl | trivial), i2, ?_⟩
      intro e he
      rcases List.mem_append.mp he with he | he
      · exact t3 e he
      · exact i3 e he

end PyAirtouch.Lemmas.Api4
