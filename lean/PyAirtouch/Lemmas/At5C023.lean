import PyAirtouch.Model.At5.C023
/-! Round trip and length lemmas for the AirTouch 5 AC status codec (0xC023). -/
namespace PyAirtouch.Lemmas.At5C023
open PyAirtouch.Model PyAirtouch.Model.At5.Utils PyAirtouch.Model.At5.C023 PyAirtouch.Gen.At5.XC023AcStatus

/-- byte 4: the two "unused" bits set, then turbo / bypass / spill / timer -/
def flagByte (a : AcStatusData) : Nat :=
  BYTE4_UNUSED_BITS + boolToBit a.turbo_active 3 + boolToBit a.bypass_active 2
    + boolToBit a.spill_active 1 + boolToBit a.timer_set 0

/-- the 11-bit temperature code -/
def tempCode (a : AcStatusData) : Nat := mask11 (encodeTemperature a.temperature)

/-- what `struct.pack` plus the padding produces for a well-formed record -/
def recBytes (a : AcStatusData) : Bytes :=
  [a.ac_number % 16 + a.power_state.toNat % 16 * 16, a.mode.toNat % 16 * 16 + a.fan_speed.toNat % 16,
   (encodeSetPoint a.set_point).toNat, flagByte a,
   tempCode a / 256 % 256, tempCode a % 256, a.error_code / 256 % 256, a.error_code % 256, 0, 0]

theorem recBytes_length (a : AcStatusData) : (recBytes a).length = encRecSize := rfl

theorem encRec_length (a : AcStatusData) (bs : Bytes) (h : encRec a = .ok bs) : bs.length = encRecSize := by
  simp only [encRec, bind, Except.bind, pure, Except.pure] at h
  split at h
  · cases h
  · split at h
    · cases h
    · rename_i e he
      cases h
      simp only [List.length_append, List.length_cons, List.length_nil, be16Bytes, packH_length he,
        PADDING_BYTES, encRecSize, STRUCT_size, PADDING_BYTES_SIZE]

theorem encRecs_length (acs : List AcStatusData) (bs : Bytes) (h : encRecs acs = .ok bs) :
    bs.length = encRecSize * acs.length := by
  induction acs generalizing bs with
  | nil => cases h; rfl
  | cons a acs ih =>
    simp only [encRecs, bind, Except.bind, pure, Except.pure] at h
    split at h
    · cases h
    · rename_i b hb
      split at h
      · cases h
      · rename_i bs' hbs'
        cases h
        simp only [List.length_append, List.length_cons, encRec_length a b hb, ih bs' hbs', Nat.mul_add,
          Nat.mul_one, Nat.add_comm]

/-- the announced sizes describe the bytes produced -/
theorem encode_length (m : Msg) (bs : Bytes) (h : encode m = .ok bs) :
    bs.length = nonRepeatSize m + repeatSize m * repeatCount m := by
  cases m with
  | request => cases h; rfl
  | status acs =>
    simp only [nonRepeatSize, repeatSize, repeatCount, Nat.zero_add]
    exact encRecs_length acs bs h

theorem encRec_ok (a : AcStatusData) (h : WFRec a) : encRec a = .ok (recBytes a) := by
  obtain ⟨_, h1, h2, _, _, he⟩ := h
  have hsp : packB (encodeSetPoint a.set_point) = .ok (encodeSetPoint a.set_point).toNat :=
    packB_ok (by simp only [encodeSetPoint]; omega) (by simp only [encodeSetPoint]; omega)
  simp only [encRec, hsp, packH_nat he, bind, Except.bind, pure, Except.pure, recBytes, be16Bytes,
    List.cons_append, List.nil_append, flagByte, tempCode, PADDING_BYTES]

theorem decRec_recBytes (a : AcStatusData) (h : WFRec a) (rest : Bytes) :
    decRec (recBytes a ++ rest) = .ok a := by
  obtain ⟨hn, hs1, hs2, ht1, ht2, he⟩ := h
  rcases a with ⟨n, ps, md, fs, turbo, bypass, spill, timer, sp, temp, err⟩
  simp only at hn hs1 hs2 ht1 ht2 he
  have hps : AcPowerState.ofNat? (ps.toNat % 16) = some ps := by cases ps <;> rfl
  have hmd : AcMode.ofNat? (md.toNat % 16) = some md := by cases md <;> rfl
  have hfs : AcFanSpeed.ofNat? (fs.toNat % 16) = some fs := by cases fs <;> rfl
  -- the flag byte
  have hb3 : bitToBool (192 + boolToBit turbo 3 + boolToBit bypass 2 + boolToBit spill 1 + boolToBit timer 0) 3
      = turbo := by cases turbo <;> cases bypass <;> cases spill <;> cases timer <;> decide
  have hb2 : bitToBool (192 + boolToBit turbo 3 + boolToBit bypass 2 + boolToBit spill 1 + boolToBit timer 0) 2
      = bypass := by cases turbo <;> cases bypass <;> cases spill <;> cases timer <;> decide
  have hb1 : bitToBool (192 + boolToBit turbo 3 + boolToBit bypass 2 + boolToBit spill 1 + boolToBit timer 0) 1
      = spill := by cases turbo <;> cases bypass <;> cases spill <;> cases timer <;> decide
  have hb0 : bitToBool (192 + boolToBit turbo 3 + boolToBit bypass 2 + boolToBit spill 1 + boolToBit timer 0) 0
      = timer := by cases turbo <;> cases bypass <;> cases spill <;> cases timer <;> decide
  -- the temperature word
  obtain ⟨r, hr⟩ : ∃ r : Nat, temp + 500 = (r : Int) := ⟨(temp + 500).toNat, by omega⟩
  have hr1 : r < 2048 := by omega
  have hm : mask11 (temp + 500) = r := by simp only [mask11]; omega
  have htw : (r / 256 % 256 * 256 + r % 256) % 2048 = r := by omega
  have htv : (r : Int) - 500 = temp := by omega
  -- the set-point byte and the error code
  have hspv : ((sp - 100).toNat : Int) + 100 = sp := by omega
  have herr : err / 256 % 256 * 256 + err % 256 = err := by omega
  simp only [recBytes, flagByte, tempCode, encodeTemperature, encodeSetPoint, hm, BYTE4_UNUSED_BITS,
    List.cons_append, List.nil_append, decRec, be16, decodeSetPoint, decodeTemperature]
  have e1 : (n % 16 + ps.toNat % 16 * 16) / 16 % 16 = ps.toNat % 16 := by omega
  have e2 : (md.toNat % 16 * 16 + fs.toNat % 16) / 16 % 16 = md.toNat % 16 := by omega
  have e3 : (md.toNat % 16 * 16 + fs.toNat % 16) % 16 = fs.toNat % 16 := by omega
  have e4 : (n % 16 + ps.toNat % 16 * 16) % 16 = n := by omega
  rw [e1, e2, e3, e4, hps, hmd, hfs, hb3, hb2, hb1, hb0, htw, htv, hspv, herr]

theorem encRecs_ok (acs : List AcStatusData) (h : ∀ a ∈ acs, WFRec a) :
    encRecs acs = .ok (acs.flatMap recBytes) := by
  induction acs with
  | nil => rfl
  | cons a acs ih =>
    simp only [encRecs, encRec_ok a (h a (by simp)), ih (fun x hx => h x (by simp [hx])), bind, Except.bind,
      pure, Except.pure, List.flatMap_cons]

theorem decRecs_recBytes (acs : List AcStatusData) (h : ∀ a ∈ acs, WFRec a) (rest : Bytes) :
    decRecs encRecSize acs.length (acs.flatMap recBytes ++ rest) = .ok (acs, rest) := by
  induction acs with
  | nil => rfl
  | cons a acs ih =>
    simp only [List.length_cons, List.flatMap_cons, List.append_assoc, decRecs]
    rw [decRec_recBytes a (h a (by simp))]
    simp only [bind, Except.bind]
    have hdrop : (recBytes a ++ (acs.flatMap recBytes ++ rest)).drop encRecSize
        = acs.flatMap recBytes ++ rest := by
      rw [← recBytes_length a, List.drop_left]
    rw [hdrop, ih (fun x hx => h x (by simp [hx]))]
    rfl

/-- a well-formed message can be encoded (no `struct.error`) -/
theorem encode_ok (m : Msg) (h : WF m) : ∃ bs, encode m = .ok bs := by
  cases m with
  | request => exact ⟨[], rfl⟩
  | status acs => exact ⟨_, encRecs_ok acs h⟩

/-- `decode(encode(m), header built from m)` gives `m` back, nothing left over
    (the header announces the padded stride of 10 bytes; the decoder reads the 8 bytes it knows) -/
theorem decode_encode (m : Msg) (h : WF m) (rest : Bytes) :
    ∃ bs, encode m = .ok bs ∧
      decode (bs ++ rest) (nonRepeatSize m) (repeatSize m) (repeatCount m) = .ok (m, rest) := by
  cases m with
  | request => exact ⟨[], rfl, by simp [decode, repeatSize, repeatCount]⟩
  | status acs =>
    refine ⟨_, encRecs_ok acs h, ?_⟩
    have h0 : ¬ (acs.length = 0 ∧ encRecSize = 0) := by simp [encRecSize, STRUCT_size, PADDING_BYTES_SIZE]
    have h1 : ¬ (encRecSize < recSize) := by simp [encRecSize, recSize, STRUCT_size, PADDING_BYTES_SIZE]
    simp only [decode, repeatSize, repeatCount, h0, h1, ↓reduceIte]
    simp only [nonRepeatSize, List.drop_zero]
    rw [decRecs_recBytes acs h]
    rfl

/-! ### the run-time well-formedness test decides `WF` -/

theorem wfRecBool_iff (a : AcStatusData) : wfRecBool a = true ↔ WFRec a := by
  simp only [wfRecBool, WFRec, Bool.and_eq_true, decide_eq_true_eq, and_assoc]

theorem wfBool_iff (m : Msg) : wfBool m = true ↔ WF m := by
  cases m with
  | request => simp [wfBool, WF]
  | status acs =>
    simp only [wfBool, WF, List.all_eq_true]
    exact ⟨fun h a ha => (wfRecBool_iff a).1 (h a ha), fun h a ha => (wfRecBool_iff a).2 (h a ha)⟩

end PyAirtouch.Lemmas.At5C023
